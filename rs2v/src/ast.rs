// rs2v ast — dump the functions of a Rust source file as a small JSON AST (the front half of the function-body
// translator; the back half is vlib/translate.py).  Every syntactic form the dumper does not know is emitted as
// {"k":"Unsupported","text":...}; the translator refuses any function that contains one, so nothing is silently dropped.
use quote::ToTokens;

pub enum J {
    S(String),
    B(bool),
    N,
    A(Vec<J>),
    O(Vec<(&'static str, J)>),
}
impl J {
    pub fn write(&self, out: &mut String) {
        match self {
            J::S(s) => {
                out.push('"');
                for c in s.chars() {
                    match c {
                        '"' => out.push_str("\\\""),
                        '\\' => out.push_str("\\\\"),
                        '\n' => out.push_str("\\n"),
                        '\r' => out.push_str("\\r"),
                        '\t' => out.push_str("\\t"),
                        c if (c as u32) < 0x20 => out.push_str(&format!("\\u{:04x}", c as u32)),
                        c => out.push(c),
                    }
                }
                out.push('"');
            }
            J::B(b) => out.push_str(if *b { "true" } else { "false" }),
            J::N => out.push_str("null"),
            J::A(v) => {
                out.push('[');
                for (i, x) in v.iter().enumerate() {
                    if i > 0 {
                        out.push(',');
                    }
                    x.write(out);
                }
                out.push(']');
            }
            J::O(v) => {
                out.push('{');
                for (i, (k, x)) in v.iter().enumerate() {
                    if i > 0 {
                        out.push(',');
                    }
                    J::S(k.to_string()).write(out);
                    out.push(':');
                    x.write(out);
                }
                out.push('}');
            }
        }
    }
}
fn s(x: &str) -> J {
    J::S(x.to_string())
}
fn toks<T: ToTokens>(t: &T) -> String {
    t.to_token_stream().to_string()
}
fn node(k: &str, mut f: Vec<(&'static str, J)>) -> J {
    let mut v = vec![("k", s(k))];
    v.append(&mut f);
    J::O(v)
}
fn unsupported<T: ToTokens>(t: &T) -> J {
    node("Unsupported", vec![("text", s(&toks(t)))])
}
fn path(p: &syn::Path) -> J {
    J::A(p.segments.iter().map(|g| s(&g.ident.to_string())).collect())
}
fn opt(e: &Option<Box<syn::Expr>>) -> J {
    match e {
        Some(e) => expr(e),
        None => J::N,
    }
}

pub fn pat(p: &syn::Pat) -> J {
    use syn::Pat::*;
    match p {
        Ident(i) => node(
            "Ident",
            vec![("name", s(&i.ident.to_string())), ("by_ref", J::B(i.by_ref.is_some())), ("mut", J::B(i.mutability.is_some())),
                 ("sub", match &i.subpat { Some((_, p)) => pat(p), None => J::N })],
        ),
        TupleStruct(t) => node("TupleStruct", vec![("path", path(&t.path)), ("elems", J::A(t.elems.iter().map(pat).collect()))]),
        Tuple(t) => node("Tuple", vec![("elems", J::A(t.elems.iter().map(pat).collect()))]),
        Wild(_) => node("Wild", vec![]),
        Lit(l) => node("Lit", vec![("lit", lit(&l.lit))]),
        Path(p) => node("Path", vec![("path", path(&p.path))]),
        Reference(r) => node("Reference", vec![("mut", J::B(r.mutability.is_some())), ("pat", pat(&r.pat))]),
        Type(t) => node("Type", vec![("pat", pat(&t.pat)), ("ty", s(&toks(&t.ty)))]),
        Paren(p) => pat(&p.pat),
        other => unsupported(other),
    }
}

fn lit(l: &syn::Lit) -> J {
    match l {
        syn::Lit::Int(i) => node("Int", vec![("digits", s(i.base10_digits())), ("suffix", s(i.suffix()))]),
        syn::Lit::Byte(b) => node("Int", vec![("digits", s(&b.value().to_string())), ("suffix", s("u8"))]),
        syn::Lit::Bool(b) => node("Bool", vec![("value", J::B(b.value))]),
        syn::Lit::Str(x) => node("Str", vec![("bytes", J::A(x.value().bytes().map(|b| s(&b.to_string())).collect()))]),
        syn::Lit::ByteStr(x) => node("ByteStr", vec![("bytes", J::A(x.value().iter().map(|b| s(&b.to_string())).collect()))]),
        syn::Lit::Char(c) => node("Char", vec![("code", s(&(c.value() as u32).to_string()))]),
        other => unsupported(other),
    }
}

fn block(b: &syn::Block) -> J {
    J::A(b.stmts.iter().map(stmt).collect())
}

fn macro_args(m: &syn::Macro) -> J {
    // assert!(cond, "msg") / write!(f, "fmt", args..) / matches!(..): arguments parsed as a comma-separated expression list
    use syn::parse::Parser;
    let parser = syn::punctuated::Punctuated::<syn::Expr, syn::Token![,]>::parse_terminated;
    match parser.parse2(m.tokens.clone()) {
        Ok(args) => J::A(args.iter().map(expr).collect()),
        Err(_) => J::A(vec![unsupported(&m.tokens)]),
    }
}

fn has_cfg(attrs: &[syn::Attribute]) -> bool {
    attrs.iter().any(|a| a.path().is_ident("cfg") || a.path().is_ident("cfg_attr"))
}

fn expr_attrs(e: &syn::Expr) -> &[syn::Attribute] {
    use syn::Expr::*;
    match e {
        Array(x) => &x.attrs, Assign(x) => &x.attrs, Async(x) => &x.attrs, Await(x) => &x.attrs, Binary(x) => &x.attrs, Block(x) => &x.attrs,
        Break(x) => &x.attrs, Call(x) => &x.attrs, Cast(x) => &x.attrs, Closure(x) => &x.attrs, Continue(x) => &x.attrs, Field(x) => &x.attrs,
        ForLoop(x) => &x.attrs, Group(x) => &x.attrs, If(x) => &x.attrs, Index(x) => &x.attrs, Let(x) => &x.attrs, Lit(x) => &x.attrs,
        Loop(x) => &x.attrs, Macro(x) => &x.attrs, Match(x) => &x.attrs, MethodCall(x) => &x.attrs, Paren(x) => &x.attrs, Path(x) => &x.attrs,
        Range(x) => &x.attrs, Reference(x) => &x.attrs, Repeat(x) => &x.attrs, Return(x) => &x.attrs, Struct(x) => &x.attrs, Try(x) => &x.attrs,
        Tuple(x) => &x.attrs, Unary(x) => &x.attrs, Unsafe(x) => &x.attrs, While(x) => &x.attrs,
        _ => &[],
    }
}

pub fn stmt(st: &syn::Stmt) -> J {
    if let syn::Stmt::Local(l) = st {
        if has_cfg(&l.attrs) {
            return node("Expr", vec![("expr", node("Unsupported", vec![("text", s("statement under a cfg attribute"))])), ("semi", J::B(true))]);
        }
    }
    match st {
        syn::Stmt::Local(l) => {
            let (init, els) = match &l.init {
                Some(i) => (expr(&i.expr), match &i.diverge { Some((_, e)) => expr(e), None => J::N }),
                None => (J::N, J::N),
            };
            node("Local", vec![("pat", pat(&l.pat)), ("init", init), ("else", els)])
        }
        syn::Stmt::Expr(e, semi) => node("Expr", vec![("expr", expr(e)), ("semi", J::B(semi.is_some()))]),
        syn::Stmt::Macro(m) => node(
            "Expr",
            vec![("expr", node("Macro", vec![("path", path(&m.mac.path)), ("args", macro_args(&m.mac))])), ("semi", J::B(m.semi_token.is_some()))],
        ),
        syn::Stmt::Item(syn::Item::Const(c)) => node("Item", vec![("const", s(&c.ident.to_string())), ("e", expr(&c.expr)), ("text", s(&toks(c)))]),
        syn::Stmt::Item(i) => node("Item", vec![("text", s(&toks(i)))]),
    }
}

pub fn expr(e: &syn::Expr) -> J {
    use syn::Expr::*;
    if has_cfg(expr_attrs(e)) {
        return node("Unsupported", vec![("text", s("expression under a cfg attribute"))]);
    }
    match e {
        Lit(l) => node("Lit", vec![("lit", lit(&l.lit))]),
        Path(p) if p.qself.is_none() => node("Path", vec![("path", path(&p.path))]),
        Field(f) => node(
            "Field",
            vec![("base", expr(&f.base)), ("member", s(&match &f.member { syn::Member::Named(i) => i.to_string(), syn::Member::Unnamed(i) => i.index.to_string() }))],
        ),
        MethodCall(m) => node(
            "MethodCall",
            vec![("recv", expr(&m.receiver)), ("method", s(&m.method.to_string())), ("turbofish", J::B(m.turbofish.is_some())),
                 ("args", J::A(m.args.iter().map(expr).collect()))],
        ),
        Call(c) => node("Call", vec![("func", expr(&c.func)), ("args", J::A(c.args.iter().map(expr).collect()))]),
        Binary(b) => node("Binary", vec![("op", s(&toks(&b.op))), ("l", expr(&b.left)), ("r", expr(&b.right))]),
        Unary(u) => node("Unary", vec![("op", s(&toks(&u.op))), ("e", expr(&u.expr))]),
        Reference(r) => node("Reference", vec![("mut", J::B(r.mutability.is_some())), ("e", expr(&r.expr))]),
        Index(i) => node("Index", vec![("e", expr(&i.expr)), ("index", expr(&i.index))]),
        Range(r) => node(
            "Range",
            vec![("lo", opt(&r.start)), ("hi", opt(&r.end)), ("inclusive", J::B(matches!(r.limits, syn::RangeLimits::Closed(_))))],
        ),
        If(i) => node(
            "If",
            vec![("cond", expr(&i.cond)), ("then", block(&i.then_branch)), ("else", match &i.else_branch { Some((_, e)) => expr(e), None => J::N })],
        ),
        Let(l) => node("Let", vec![("pat", pat(&l.pat)), ("e", expr(&l.expr))]),
        Match(m) => node(
            "Match",
            vec![("e", expr(&m.expr)),
                 ("arms", J::A(m.arms.iter().map(|a| {
                     if has_cfg(&a.attrs) {
                         return J::O(vec![("pat", node("Unsupported", vec![("text", s("match arm under a cfg attribute"))])), ("guard", J::N), ("body", node("Unsupported", vec![("text", s("cfg"))]))]);
                     }
                     J::O(vec![("pat", pat(&a.pat)), ("guard", match &a.guard { Some((_, g)) => expr(g), None => J::N }), ("body", expr(&a.body))])
                 }).collect()))],
        ),
        Block(b) if b.label.is_none() => node("Block", vec![("stmts", block(&b.block))]),
        Return(r) => node("Return", vec![("e", opt(&r.expr))]),
        Assign(a) => node("Assign", vec![("l", expr(&a.left)), ("r", expr(&a.right))]),
        Loop(l) if l.label.is_none() => node("Loop", vec![("body", block(&l.body))]),
        ForLoop(f) if f.label.is_none() => node("For", vec![("pat", pat(&f.pat)), ("e", expr(&f.expr)), ("body", block(&f.body))]),
        While(w) if w.label.is_none() => node("While", vec![("cond", expr(&w.cond)), ("body", block(&w.body))]),
        Macro(m) => node("Macro", vec![("path", path(&m.mac.path)), ("args", macro_args(&m.mac))]),
        Try(t) => node("Try", vec![("e", expr(&t.expr))]),
        Tuple(t) => node("Tuple", vec![("elems", J::A(t.elems.iter().map(expr).collect()))]),
        Struct(st) if st.rest.is_none() => node(
            "Struct",
            vec![("path", path(&st.path)),
                 ("fields", J::A(st.fields.iter().map(|f| {
                     J::O(vec![("name", s(&match &f.member { syn::Member::Named(i) => i.to_string(), syn::Member::Unnamed(i) => i.index.to_string() })), ("e", expr(&f.expr))])
                 }).collect()))],
        ),
        Repeat(r) => node("Repeat", vec![("e", expr(&r.expr)), ("len", expr(&r.len))]),
        Cast(c) => node("Cast", vec![("e", expr(&c.expr)), ("ty", s(&toks(&c.ty)))]),
        Array(a) => node("Array", vec![("elems", J::A(a.elems.iter().map(expr).collect()))]),
        Closure(c) if c.asyncness.is_none() => node(
            "Closure",
            vec![("inputs", J::A(c.inputs.iter().map(pat).collect())), ("body", expr(&c.body))],
        ),
        Paren(p) => expr(&p.expr),
        Group(g) => expr(&g.expr),
        Await(a) => node("Await", vec![("e", expr(&a.base))]),
        Break(b) if b.label.is_none() => node("Break", vec![("e", opt(&b.expr))]),
        Continue(c) if c.label.is_none() => node("Continue", vec![]),
        other => unsupported(other),
    }
}

fn is_cfg_test(attrs: &[syn::Attribute]) -> bool {
    attrs.iter().any(|a| a.path().is_ident("cfg") && toks(&a.meta).replace(' ', "") == "cfg(test)") || attrs.iter().any(|a| a.path().is_ident("test"))
}

fn sig(sg: &syn::Signature) -> Vec<(&'static str, J)> {
    let params = sg
        .inputs
        .iter()
        .map(|a| match a {
            syn::FnArg::Receiver(r) => J::O(vec![("name", s("self")), ("ty", s(&toks(&r.ty))), ("mut", J::B(r.mutability.is_some())), ("ref", J::B(r.reference.is_some()))]),
            syn::FnArg::Typed(t) => J::O(vec![("name", match &*t.pat { syn::Pat::Ident(i) => s(&i.ident.to_string()), other => s(&toks(other)) }), ("ty", s(&toks(&t.ty)))]),
        })
        .collect();
    vec![
        ("name", s(&sg.ident.to_string())),
        ("async", J::B(sg.asyncness.is_some())),
        ("const", J::B(sg.constness.is_some())),
        ("generics", s(&toks(&sg.generics))),
        ("where", s(&match &sg.generics.where_clause { Some(w) => toks(w), None => String::new() })),
        ("params", J::A(params)),
        ("ret", s(&match &sg.output { syn::ReturnType::Default => "()".to_string(), syn::ReturnType::Type(_, t) => toks(t) })),
    ]
}

pub fn file_items(file: &syn::File) -> J {
    let mut fns = vec![];
    let mut structs = vec![];
    let mut consts = vec![];
    // everything outside function bodies that decides what the names inside them MEAN: macros, imports, traits and impl headers,
    // type definitions, crate attributes.  The translator reads bodies under the pinned environment; a difference here is reported.
    let mut env: Vec<J> = file.attrs.iter().filter(|a| !a.path().is_ident("doc")).map(|a| s(&format!("crate-attr {}", toks(a)))).collect();
    const IO_TRAIT_METHODS: &[&str] = &["read", "read_vectored", "read_to_end", "read_to_string", "read_exact", "read_buf", "bytes", "chain", "take",
        "by_ref", "write", "write_vectored", "write_all", "write_fmt", "flush", "poll_read", "poll_write", "poll_write_vectored", "poll_flush",
        "poll_shutdown", "is_write_vectored", "fmt", "deref", "deref_mut", "default", "clone", "eq", "cmp", "partial_cmp", "hash", "from", "into",
        "write_str", "write_char", "shutdown", "read_u8", "write_u8", "as_ref", "as_mut", "borrow", "borrow_mut"];
    fn walk_env(items: &[syn::Item], env: &mut Vec<J>) {
        for it in items {
            match it {
                syn::Item::Macro(m) if !is_cfg_test(&m.attrs) => env.push(s(&format!("macro {}", toks(m)))),
                syn::Item::Use(u) if !is_cfg_test(&u.attrs) => env.push(s(&format!("use {}", toks(&u.tree)))),
                syn::Item::Trait(t) if !is_cfg_test(&t.attrs) => env.push(s(&format!("trait {}", toks(t)))),
                syn::Item::TraitAlias(t) => env.push(s(&format!("trait-alias {}", toks(t)))),
                syn::Item::Type(t) if !is_cfg_test(&t.attrs) => env.push(s(&format!("type {}", toks(t)))),
                syn::Item::ExternCrate(t) => env.push(s(&format!("extern-crate {}", toks(t)))),
                syn::Item::Struct(t) if !is_cfg_test(&t.attrs) => env.push(s(&format!("struct {} {} {} {}", t.ident, toks(&t.generics), toks(&t.fields),
                    t.attrs.iter().filter(|a| !a.path().is_ident("doc")).map(|a| toks(a)).collect::<Vec<_>>().join(" ")))),
                syn::Item::Enum(t) if !is_cfg_test(&t.attrs) => env.push(s(&format!("enum {}", toks(t)))),
                syn::Item::Impl(im) if !is_cfg_test(&im.attrs) => {
                    let tr = match &im.trait_ { Some((bang, p, _)) => format!("{}{}", if bang.is_some() { "!" } else { "" }, toks(p)), None => String::new() };
                    let cfgs: Vec<String> = im.attrs.iter().filter(|a| !a.path().is_ident("doc")).map(|a| toks(a)).collect();
                    env.push(s(&format!("impl {} [{}] for {} {} {}", toks(&im.generics), tr, toks(&im.self_ty),
                                        match &im.generics.where_clause { Some(w) => toks(w), None => String::new() }, cfgs.join(" "))));
                    for ii in &im.items {
                        match ii {
                            // which methods a trait impl overrides decides what the trait's provided methods and combinators do;
                            // inherent methods of a Deref newtype shadow the target's methods of the same name
                            syn::ImplItem::Fn(f) if (im.trait_.is_some() || toks(&im.self_ty).contains("AsyncFixedBuf")) && !is_cfg_test(&f.attrs) =>
                                env.push(s(&format!("impl-fn [{}] {} :: {}", tr, toks(&im.self_ty), f.sig.ident))),
                            // the PUBLIC inherent methods of every other type are its API surface: a new one can shadow a trait method
                            // (or a method reached through Deref) in user code written with method-call syntax; so can a private one
                            // that carries the name of a std / tokio I/O trait method, inside the crate itself
                            syn::ImplItem::Fn(f) if im.trait_.is_none() && !is_cfg_test(&f.attrs)
                                && (matches!(f.vis, syn::Visibility::Public(_)) || IO_TRAIT_METHODS.contains(&f.sig.ident.to_string().as_str())) =>
                                env.push(s(&format!("pub-fn {} :: {}", toks(&im.self_ty), f.sig.ident))),
                            syn::ImplItem::Type(t) => env.push(s(&format!("impl-type {} in {}", toks(t), toks(&im.self_ty)))),
                            syn::ImplItem::Macro(m) => env.push(s(&format!("impl-macro {}", toks(m)))),
                            _ => {}
                        }
                    }
                }
                syn::Item::Mod(m) if !is_cfg_test(&m.attrs) => {
                    env.push(s(&format!("mod {} {}", m.ident, m.attrs.iter().filter(|a| !a.path().is_ident("doc")).map(|a| toks(a)).collect::<Vec<_>>().join(" "))));
                    if let Some((_, items)) = &m.content {
                        walk_env(items, env);
                    }
                }
                _ => {}
            }
        }
    }
    walk_env(&file.items, &mut env);
    fn walk(items: &[syn::Item], fns: &mut Vec<J>, structs: &mut Vec<J>, consts: &mut Vec<J>) {
        for it in items {
            match it {
                syn::Item::Const(c) if !is_cfg_test(&c.attrs) => {
                    consts.push(J::O(vec![("name", s(&c.ident.to_string())), ("e", expr(&c.expr))]));
                }
                syn::Item::Static(c) if !is_cfg_test(&c.attrs) => {
                    consts.push(J::O(vec![("name", s(&c.ident.to_string())), ("e", expr(&c.expr))]));
                }
                syn::Item::Fn(f) if !is_cfg_test(&f.attrs) => {
                    let mut v = vec![("impl_self", J::N), ("impl_trait", J::N)];
                    v.append(&mut sig(&f.sig));
                    if has_cfg(&f.attrs) {
                        v.push(("body", J::A(vec![node("Expr", vec![("expr", node("Unsupported", vec![("text", s("function under a cfg attribute"))])), ("semi", J::B(false))])])));
                    } else {
                        v.push(("body", block(&f.block)));
                    }
                    fns.push(J::O(v));
                }
                syn::Item::Impl(im) if !is_cfg_test(&im.attrs) => {
                    let self_ty = toks(&im.self_ty);
                    let tr = match &im.trait_ { Some((_, p, _)) => s(&toks(p)), None => J::N };
                    for ii in &im.items {
                        if let syn::ImplItem::Const(c) = ii {
                            consts.push(J::O(vec![("name", s(&c.ident.to_string())), ("e", expr(&c.expr))]));
                        }
                        if let syn::ImplItem::Fn(f) = ii {
                            if is_cfg_test(&f.attrs) {
                                continue;
                            }
                            let mut v = vec![("impl_self", s(&self_ty)), ("impl_trait", match &tr { J::S(x) => J::S(x.clone()), _ => J::N })];
                            v.append(&mut sig(&f.sig));
                            if has_cfg(&f.attrs) || has_cfg(&im.attrs) {
                                v.push(("body", J::A(vec![node("Expr", vec![("expr", node("Unsupported", vec![("text", s("function under a cfg attribute"))])), ("semi", J::B(false))])])));
                            } else {
                                v.push(("body", block(&f.block)));
                            }
                            fns.push(J::O(v));
                        }
                    }
                }
                syn::Item::Struct(st) if !is_cfg_test(&st.attrs) => {
                    let fields = st.fields.iter().map(|f| J::O(vec![("name", s(&f.ident.as_ref().map(|i| i.to_string()).unwrap_or_default())), ("ty", s(&toks(&f.ty)))])).collect();
                    structs.push(J::O(vec![("name", s(&st.ident.to_string())), ("fields", J::A(fields))]));
                }
                syn::Item::Mod(m) if !is_cfg_test(&m.attrs) => {
                    if let Some((_, items)) = &m.content {
                        walk(items, fns, structs, consts);
                    }
                }
                _ => {}
            }
        }
    }
    walk(&file.items, &mut fns, &mut structs, &mut consts);
    J::O(vec![("fns", J::A(fns)), ("structs", J::A(structs)), ("consts", J::A(consts)), ("env", J::A(env))])
}

pub fn dump(paths: &[String], out_path: &str) -> Result<(), String> {
    let mut files = vec![];
    for p in paths {
        let src = std::fs::read_to_string(p).map_err(|e| format!("{}: {}", p, e))?;
        let file = syn::parse_file(&src).map_err(|e| format!("{}: {}", p, e))?;
        files.push(J::O(vec![("file", s(p)), ("items", file_items(&file))]));
    }
    let mut out = String::new();
    J::A(files).write(&mut out);
    let old = std::fs::read_to_string(out_path).unwrap_or_default();
    if old != out {
        std::fs::write(out_path, out).map_err(|e| format!("{}: {}", out_path, e))?;
    }
    Ok(())
}
