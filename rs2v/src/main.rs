// rs2v — source-to-Coq extractor for rbermani/fixed-buffer-rs (tie T1).
//   rs2v facts <repo-root> <cargo-metadata.json> <out.v>
// emits Gen/SourceFacts.v: per source file the number of `unsafe` tokens anywhere in its token trees (macro arguments included)
// and whether it carries #![forbid(unsafe_code)]; the declared non-dev dependencies of both crates; the field types of FixedBuf;
// and, per non-test function, every call / method call / macro it contains, tagged with whether it sits on an error path.
// It FAILS LOUDLY (exit 2) on anything it cannot parse.
use proc_macro2::{TokenStream, TokenTree};
use quote::ToTokens;
use std::fmt::Write as _;
use syn::visit::Visit;
mod ast;

fn count_unsafe(ts: TokenStream) -> usize {
    let mut n = 0;
    for tt in ts {
        match tt {
            TokenTree::Ident(i) => {
                if i == "unsafe" {
                    n += 1
                }
            }
            TokenTree::Group(g) => n += count_unsafe(g.stream()),
            _ => {}
        }
    }
    n
}

fn has_forbid_unsafe(file: &syn::File) -> bool {
    file.attrs.iter().any(|a| {
        matches!(a.style, syn::AttrStyle::Inner(_))
            && a.path().is_ident("forbid")
            && a.meta.to_token_stream().to_string().replace(' ', "") == "forbid(unsafe_code)"
    })
}

fn is_cfg_test(attrs: &[syn::Attribute]) -> bool {
    attrs.iter().any(|a| a.path().is_ident("cfg") && a.meta.to_token_stream().to_string().replace(' ', "") == "cfg(test)")
        || attrs.iter().any(|a| a.path().is_ident("test"))
}

struct Calls {
    out: Vec<(String, bool)>, // (callee, on error path)
    err_depth: usize,
}
impl Calls {
    fn push(&mut self, name: String) {
        let e = self.err_depth > 0;
        self.out.push((name, e));
    }
}
fn path_str(p: &syn::Path) -> String {
    p.segments.iter().map(|s| s.ident.to_string()).collect::<Vec<_>>().join("::")
}
impl<'ast> Visit<'ast> for Calls {
    fn visit_expr_call(&mut self, c: &'ast syn::ExprCall) {
        let name = match &*c.func {
            syn::Expr::Path(p) => path_str(&p.path),
            other => format!("<expr:{}>", other.to_token_stream().to_string().chars().take(24).collect::<String>()),
        };
        let is_err_ctor = name == "Err";
        self.push(name);
        self.visit_expr(&c.func);
        if is_err_ctor {
            self.err_depth += 1;
        }
        for a in &c.args {
            self.visit_expr(a);
        }
        if is_err_ctor {
            self.err_depth -= 1;
        }
    }
    fn visit_expr_method_call(&mut self, m: &'ast syn::ExprMethodCall) {
        let name = format!(".{}", m.method);
        let is_err_map = m.method == "map_err";
        self.push(name);
        self.visit_expr(&m.receiver);
        if is_err_map {
            self.err_depth += 1;
        }
        for a in &m.args {
            self.visit_expr(a);
        }
        if is_err_map {
            self.err_depth -= 1;
        }
    }
    fn visit_macro(&mut self, m: &'ast syn::Macro) {
        self.push(format!("{}!", path_str(&m.path)));
        // look inside the macro arguments for calls when they parse as expressions
        if let Ok(args) = m.parse_body_with(syn::punctuated::Punctuated::<syn::Expr, syn::Token![,]>::parse_terminated) {
            for a in args.iter() {
                self.visit_expr(a);
            }
        }
    }
    fn visit_expr_struct(&mut self, s: &'ast syn::ExprStruct) {
        self.push(format!("struct:{}", path_str(&s.path)));
        syn::visit::visit_expr_struct(self, s);
    }
}

struct Fns {
    file: String,
    scope: Vec<String>,
    out: Vec<(String, Vec<(String, bool)>)>,
    fields: Vec<(String, String)>,
}
impl Fns {
    fn record(&mut self, name: &str, in_from_err: bool, block: &syn::Block) {
        let mut c = Calls { out: Vec::new(), err_depth: if in_from_err { 1 } else { 0 } };
        c.visit_block(block);
        let full = format!("{}::{}{}", self.file, self.scope.iter().map(|s| format!("{}::", s)).collect::<String>(), name);
        self.out.push((full, c.out));
    }
}
impl<'ast> Visit<'ast> for Fns {
    fn visit_item_mod(&mut self, m: &'ast syn::ItemMod) {
        if is_cfg_test(&m.attrs) {
            return;
        }
        syn::visit::visit_item_mod(self, m);
    }
    fn visit_item_fn(&mut self, f: &'ast syn::ItemFn) {
        if is_cfg_test(&f.attrs) {
            return;
        }
        let n = f.sig.ident.to_string();
        self.record(&n, false, &f.block);
    }
    fn visit_item_struct(&mut self, s: &'ast syn::ItemStruct) {
        if s.ident == "FixedBuf" {
            if let syn::Fields::Named(nf) = &s.fields {
                for f in &nf.named {
                    self.fields.push((f.ident.as_ref().unwrap().to_string(), f.ty.to_token_stream().to_string()));
                }
            }
        }
    }
    fn visit_item_impl(&mut self, i: &'ast syn::ItemImpl) {
        if is_cfg_test(&i.attrs) {
            return;
        }
        let selfty = i.self_ty.to_token_stream().to_string().replace(' ', "");
        let tr = i.trait_.as_ref().map(|(_, p, _)| p.to_token_stream().to_string().replace(' ', ""));
        // `impl From<XError> for std::io::Error`/String: the whole body is an error-conversion path
        let from_err = tr.as_ref().map(|t| t.starts_with("From<")).unwrap_or(false);
        let scope = match &tr {
            Some(t) => format!("<{} as {}>", selfty, t),
            None => selfty.clone(),
        };
        self.scope.push(scope);
        for it in &i.items {
            if let syn::ImplItem::Fn(f) = it {
                if is_cfg_test(&f.attrs) {
                    continue;
                }
                let n = f.sig.ident.to_string();
                self.record(&n, from_err, &f.block);
            }
        }
        self.scope.pop();
    }
}

fn coq_str(s: &str) -> String {
    format!("\"{}\"", s.replace('"', "\"\""))
}

fn json_str_field(obj: &str, key: &str) -> Option<String> {
    // minimal extraction of "key":"value" from a JSON object text (cargo metadata is machine-generated, no escapes in these fields)
    let pat = format!("\"{}\":\"", key);
    let i = obj.find(&pat)? + pat.len();
    let j = obj[i..].find('"')? + i;
    Some(obj[i..j].to_string())
}

// declared dependencies of a package with kind null (normal), optional ones included
fn declared_deps(meta: &str, pkg: &str) -> Vec<String> {
    // find the package object by its `"name":"<pkg>"` followed by `"version"` and a manifest under /repo
    let mut res = Vec::new();
    let mut idx = 0;
    while let Some(p) = meta[idx..].find("\"dependencies\":[") {
        let start = idx + p;
        // the package name precedes the dependencies array within the same object: search backwards for "name":"
        let head = &meta[..start];
        let name_pos = head.rfind("{\"name\":\"");
        let name = name_pos.and_then(|np| json_str_field(&meta[np..start], "name"));
        // is it the workspace package (manifest under /repo)? look ahead for manifest_path
        let tail = &meta[start..];
        let end = match_bracket(tail, tail.find('[').unwrap());
        let deps_txt = &tail[tail.find('[').unwrap() + 1..end];
        let after = &tail[end..];
        let mp = json_str_field(&after[..after.len().min(4000)], "manifest_path").unwrap_or_default();
        if name.as_deref() == Some(pkg) && mp.starts_with("/repo") {
            // split top-level objects
            let mut depth = 0i32;
            let mut s = 0usize;
            for (i, ch) in deps_txt.char_indices() {
                match ch {
                    '{' => {
                        if depth == 0 {
                            s = i;
                        }
                        depth += 1;
                    }
                    '}' => {
                        depth -= 1;
                        if depth == 0 {
                            let o = &deps_txt[s..=i];
                            let kind_null = o.contains("\"kind\":null");
                            if kind_null {
                                if let Some(n) = json_str_field(o, "name") {
                                    res.push(n);
                                }
                            }
                        }
                    }
                    _ => {}
                }
            }
        }
        idx = start + 10;
    }
    res.sort();
    res.dedup();
    res
}
fn match_bracket(s: &str, open: usize) -> usize {
    let mut depth = 0i32;
    let mut in_str = false;
    let mut prev = ' ';
    for (i, ch) in s[open..].char_indices() {
        if ch == '"' && prev != '\\' {
            in_str = !in_str;
        }
        if !in_str {
            if ch == '[' {
                depth += 1;
            } else if ch == ']' {
                depth -= 1;
                if depth == 0 {
                    return open + i;
                }
            }
        }
        prev = ch;
    }
    s.len()
}

fn facts(root: &str, meta_path: &str, out_path: &str) -> Result<(), String> {
    let mut files: Vec<String> = Vec::new();
    for krate in ["fixed-buffer", "fixed-buffer-tokio"] {
        for sub in ["src", "tests"] {
            let d = format!("{}/{}/{}", root, krate, sub);
            if let Ok(rd) = std::fs::read_dir(&d) {
                let mut v: Vec<String> = rd.filter_map(|e| e.ok()).map(|e| e.path().to_string_lossy().to_string()).filter(|p| p.ends_with(".rs")).collect();
                v.sort();
                files.extend(v);
            }
        }
    }
    let mut out = String::new();
    writeln!(out, "(* Gen/SourceFacts.v — GENERATED by rs2v from the current working tree of /repo; do not edit. *)").unwrap();
    writeln!(out, "From Coq Require Import String List ZArith.\nImport ListNotations.\nOpen Scope string_scope.\n").unwrap();
    writeln!(out, "(* (file, number of `unsafe` tokens anywhere in it, carries #![forbid(unsafe_code)]) *)").unwrap();
    writeln!(out, "Definition files : list (string * Z * bool) := [").unwrap();
    let mut fns_all: Vec<(String, Vec<(String, bool)>)> = Vec::new();
    let mut fields: Vec<(String, String)> = Vec::new();
    let mut first = true;
    for f in &files {
        let src = std::fs::read_to_string(f).map_err(|e| format!("{}: {}", f, e))?;
        let ts: TokenStream = src.parse().map_err(|e| format!("{}: cannot tokenise: {}", f, e))?;
        let n = count_unsafe(ts);
        let ast: syn::File = syn::parse_file(&src).map_err(|e| format!("{}: cannot parse: {}", f, e))?;
        let rel = f.trim_start_matches(root).trim_start_matches('/').to_string();
        writeln!(out, "  {}({}, {}%Z, {})", if first { "" } else { "; " }, coq_str(&rel), n, has_forbid_unsafe(&ast)).unwrap();
        first = false;
        if rel.contains("/src/") && !rel.ends_with("test_utils.rs") {
            let mut v = Fns { file: rel.clone(), scope: Vec::new(), out: Vec::new(), fields: Vec::new() };
            v.visit_file(&ast);
            fns_all.extend(v.out);
            if rel == "fixed-buffer/src/lib.rs" {
                fields = v.fields;
            }
        }
    }
    writeln!(out, "].\n").unwrap();
    let meta = std::fs::read_to_string(meta_path).map_err(|e| format!("{}: {}", meta_path, e))?;
    for (pkg, name) in [("fixed-buffer", "deps_fixed_buffer"), ("fixed-buffer-tokio", "deps_fixed_buffer_tokio")] {
        let d = declared_deps(&meta, pkg);
        writeln!(out, "(* declared non-dev dependencies of {} (cargo metadata, kind = normal, optional ones included) *)", pkg).unwrap();
        writeln!(out, "Definition {} : list string := [{}].", name, d.iter().map(|s| coq_str(s)).collect::<Vec<_>>().join("; ")).unwrap();
    }
    writeln!(out, "\n(* struct FixedBuf: field name, type *)").unwrap();
    writeln!(out, "Definition fixedbuf_fields : list (string * string) := [{}].",
             fields.iter().map(|(a, b)| format!("({}, {})", coq_str(a), coq_str(b))).collect::<Vec<_>>().join("; ")).unwrap();
    writeln!(out, "\n(* per non-test function: every call / method call / macro / struct literal in its body, with `true` when it sits on an error path\n   (argument of Err(..), closure of map_err, body of a From<..Error> impl) *)").unwrap();
    writeln!(out, "Definition fn_calls : list (string * list (string * bool)) := [").unwrap();
    let mut first = true;
    for (f, calls) in &fns_all {
        writeln!(out, "  {}({}, [{}])", if first { "" } else { "; " }, coq_str(f),
                 calls.iter().map(|(c, e)| format!("({}, {})", coq_str(c), e)).collect::<Vec<_>>().join("; ")).unwrap();
        first = false;
    }
    writeln!(out, "].").unwrap();
    // write only when the content changed (keeps make's dependency tracking honest)
    let old = std::fs::read_to_string(out_path).unwrap_or_default();
    if old != out {
        std::fs::write(out_path, out).map_err(|e| format!("{}: {}", out_path, e))?;
    }
    Ok(())
}

fn main() {
    let a: Vec<String> = std::env::args().collect();
    if a.len() == 5 && a[1] == "facts" {
        if let Err(e) = facts(&a[2], &a[3], &a[4]) {
            eprintln!("rs2v: {}", e);
            std::process::exit(2);
        }
    } else if a.len() >= 4 && a[1] == "ast" {
        // rs2v ast <out.json> <file.rs>...
        if let Err(e) = ast::dump(&a[3..].to_vec(), &a[2]) {
            eprintln!("rs2v: {}", e);
            std::process::exit(2);
        }
    } else {
        eprintln!("usage: rs2v facts <repo-root> <cargo-metadata.json> <out.v> | rs2v ast <out.json> <file.rs>...");
        std::process::exit(2);
    }
}
