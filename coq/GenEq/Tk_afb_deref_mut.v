(* GenEq/Tk_afb_deref_mut.v — tie T1: the definition regenerated from /repo (Gen/TokioGen.v, untracked, rebuilt on every run by rs2v + vlib/translate.py)
   equals the model definition the theorems are about. *)
From FB Require Import Sem.Base Model.Fb GenEq.Tac.
From FB Require Gen.TokioGen.
Open Scope Z_scope.

Lemma gen_eq : forall chk SIZE (s : fb), TokioGen.afb_deref_mut chk SIZE s = s.
Proof. gen_eq. Qed.
