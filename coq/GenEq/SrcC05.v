(* GenEq/SrcC05.v — C05 restated about the three deframers as REGENERATED from /repo's current source (Gen/DeframersGen.v):
   one rewrite with the translation equality of each, then the theorem about the model. *)
From FB Require Import Sem.Base Sem.Lemmas Model.Deframers Facets.DfContract.
From FB Require Gen.DeframersGen GenEq.Df_deframe_line GenEq.Df_deframe_crlf GenEq.Df_deframe_null.
Open Scope Z_scope.

Lemma df_line_source_eq chk d : df_of (DeframersGen.deframe_line chk) d = df_line chk d.
Proof. unfold df_line, df_of. first [reflexivity | rewrite (GenEq.Df_deframe_line.gen_eq chk d tt); reflexivity]. Qed.
Lemma df_crlf_source_eq chk d : df_of (DeframersGen.deframe_crlf chk) d = df_crlf chk d.
Proof. unfold df_crlf, df_of. first [reflexivity | rewrite (GenEq.Df_deframe_crlf.gen_eq chk d tt); reflexivity]. Qed.
Lemma df_null_source_eq chk d : df_of (DeframersGen.deframe_null chk) d = df_null chk d.
Proof. unfold df_null, df_of. first [reflexivity | rewrite (GenEq.Df_deframe_null.gen_eq chk d tt); reflexivity]. Qed.

Theorem c05_line_source : forall chk d, zlen d <= usize_max ->
  let f := df_of (DeframersGen.deframe_line chk) in
  (~ In 10 d /\ f d = DNone)
  \/ (exists i, 0 <= i < zlen d /\ znth d i = 10 /\ (forall j, 0 <= j < i -> znth d j <> 10) /\
        f d = DFrame 0 (if (0 <? i) && (znth d (i - 1) =? 13) then i - 1 else i) (i + 1)).
Proof. intros chk d H f. unfold f. rewrite df_line_source_eq. exact (c05_line_stmt chk d H). Qed.
Theorem c05_null_source : forall chk d, zlen d <= usize_max ->
  let f := df_of (DeframersGen.deframe_null chk) in
  (~ In 0 d /\ f d = DNone)
  \/ (exists i, 0 <= i < zlen d /\ znth d i = 0 /\ (forall j, 0 <= j < i -> znth d j <> 0) /\ f d = DFrame 0 i (i + 1)).
Proof. intros chk d H f. unfold f. rewrite df_null_source_eq. exact (c05_null_stmt chk d H). Qed.
Theorem c05_crlf_source : forall chk d, zlen d <= usize_max ->
  let f := df_of (DeframersGen.deframe_crlf chk) in
  ((forall j, 1 <= j < zlen d -> ~ (znth d (j - 1) = 13 /\ znth d j = 10)) /\ f d = DNone)
  \/ (exists i, 1 <= i < zlen d /\ znth d (i - 1) = 13 /\ znth d i = 10 /\
        (forall j, 1 <= j < i -> ~ (znth d (j - 1) = 13 /\ znth d j = 10)) /\ f d = DFrame 0 (i - 1) (i + 1)).
Proof. intros chk d H f. unfold f. rewrite df_crlf_source_eq. exact (c05_crlf_stmt chk d H). Qed.

Print Assumptions c05_line_source.
Definition gen_eq := (c05_line_source, c05_null_source, c05_crlf_source).
