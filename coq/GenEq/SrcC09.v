(* GenEq/SrcC09.v — C09 restated about ReadWriteTake::read as REGENERATED from /repo's current source. *)
From FB Require Import Sem.Base Sem.Lemmas Model.Adapters Spec.StdAdapters Facets.Adapters.
From FB Require Gen.AdaptersGen GenEq.Ad_take_read.
Open Scope Z_scope.

(* the take that is in the tree now is std's Take, call for call, for contract-honouring inner readers *)
Theorem c09_sim_source : forall RWS chk (R2 : Reader RWS) buf w, 0 <= t_rem w ->
  (forall dest d' n r', rd R2 (t_rw w) dest = (ROk d' n, r') -> 0 <= n <= zlen dest) ->
  map_res abs_take (AdaptersGen.take_read chk R2 buf w) = std_take_read R2 buf (abs_take w).
Proof. intros RWS chk R2 buf w H1 H2. rewrite GenEq.Ad_take_read.gen_eq. apply take_sim; assumption. Qed.

Print Assumptions c09_sim_source.
Definition gen_eq := c09_sim_source.
