(* GenEq/SrcC19.v — C19 (and the text clause of C04) restated about escape_ascii, FixedBuf::escape_ascii and Debug::fmt as REGENERATED
   from /repo's current source. *)
From FB Require Import Sem.Base Model.Fb Model.Escape Facets.Fb Facets.Escape.
From FB Require Gen.EscapeGen GenEq.Es_escape_ascii GenEq.Es_fb_escape_ascii GenEq.Es_debug_fmt.
Open Scope Z_scope.

Theorem c19_flat_map_source : forall (S : Type) (l : list Z) (s : S), bytes l ->
  EscapeGen.escape_ascii l s = Val (flat_map escape_default l) s.
Proof. intros S l s Hb. rewrite GenEq.Es_escape_ascii.gen_eq. exact (escape_ascii_spec l s Hb). Qed.

(* compositional and injective, stated on the function that is in the tree now *)
Theorem c19_app_source : forall (S : Type) a b (s : S), bytes a -> bytes b ->
  exists x y, EscapeGen.escape_ascii a s = Val x s /\ EscapeGen.escape_ascii b s = Val y s /\
              EscapeGen.escape_ascii (a ++ b) s = Val (x ++ y) s.
Proof.
  intros S a b s Ha Hb. exists (flat_map escape_default a), (flat_map escape_default b).
  rewrite !c19_flat_map_source; auto.
  - rewrite escape_app. auto.
  - intros x Hx. apply in_app_or in Hx. destruct Hx; auto.
Qed.
Theorem c19_injective_source : forall (S : Type) a b (s : S), bytes a -> bytes b ->
  EscapeGen.escape_ascii a s = EscapeGen.escape_ascii b s -> a = b.
Proof.
  intros S a b s Ha Hb. rewrite !c19_flat_map_source by assumption. intros E. injection E as E.
  exact (escape_injective a b Ha Hb E).
Qed.

Theorem c19_method_source : forall SIZE chk s, Inv SIZE s -> bytes (unread s) ->
  EscapeGen.fb_escape_ascii SIZE chk s = Val (flat_map escape_default (unread s)) s.
Proof. intros SIZE chk s HI Hb. rewrite GenEq.Es_fb_escape_ascii.gen_eq. exact (fb_escape_ascii_spec SIZE s HI Hb). Qed.

Theorem c19_debug_source : forall SIZE chk s, Inv SIZE s -> bytes (unread s) ->
  EscapeGen.debug_fmt SIZE chk s =
  Val ([70;105;120;101;100;66;117;102;60] ++ dec SIZE ++ [62;123] ++ dec (wlen SIZE s) ++
       [32;119;114;105;116;97;98;108;101;44;32] ++ dec (len_ s) ++
       [32;114;101;97;100;97;98;108;101;58;32;34] ++ flat_map escape_default (unread s) ++ [34;125]) s.
Proof. intros SIZE chk s HI Hb. rewrite GenEq.Es_debug_fmt.gen_eq. exact (debug_fmt_spec SIZE chk s HI Hb). Qed.

Print Assumptions c19_flat_map_source.
Print Assumptions c19_debug_source.
Definition gen_eq := (c19_flat_map_source, c19_app_source, c19_injective_source, c19_method_source, c19_debug_source).
