(* GenEq/SrcC14.v — C14 and C15 restated about the two async fns of fixed-buffer-tokio as REGENERATED from /repo's current source.
   `arf_drive_src` / `aco_drive_src` are the modelled lowering (Sem/Async.v `drive`) instantiated with the loop prefix and suffix the
   translator produced from the source on this run (Gen/TokioGen.v: the function body split at its single `.await`). *)
From FB Require Import Sem.Base Sem.Lemmas Sem.ReadBuf Sem.Async Model.Fb Model.TokioAsync Spec.Api
  Facets.Fb Facets.Fb2 Facets.Rf Facets.Async Facets.C14Blocking Facets.AsyncCo.
From FB Require Gen.TokioGen GenEq.Tk_arf_pre GenEq.Tk_arf_post GenEq.Tk_aco_pre GenEq.Tk_aco_post.
Open Scope Z_scope.

(* the modelled lowering depends on its prefix and suffix only through their values *)
Lemma drive_ext {St View IoZ Result} (pre1 pre2 : St -> res St (Result + View)) (await : View -> St -> awaited St IoZ)
      (post1 post2 : IoZ -> St -> res St (option Result)) :
  (forall s, pre1 s = pre2 s) -> (forall x s, post1 x s = post2 x s) ->
  forall n cancel f s, drive pre1 await post1 n cancel f s = drive pre2 await post2 n cancel f s.
Proof.
  intros Hpre Hpost. induction n as [|n IH]; intros cancel f s; [reflexivity|].
  cbn [drive]. assert (Hta : to_await _ _ _ pre1 f s = to_await _ _ _ pre2 f s) by (destruct f; cbn; auto). rewrite Hta.
  destruct (to_await _ _ _ pre2 f s) as [[r|v] t|t]; try reflexivity.
  destruct (await v t) as [u|u|x u]; try reflexivity; [apply IH|].
  rewrite Hpost. destruct (post2 x u) as [[r|] w|w]; try reflexivity. apply IH.
Qed.

Section S.
Variable chk : bool.
Context {RS : Type}.
Variable A : AsyncReader RS.

Definition arf_drive_src (n : nat) (cancel : list bool) (df : list Z -> dres) (w : fb * RS) : out (fb * RS) frame_res :=
  drive (lift_s (TokioGen.arf_pre chk df)) (rf_await A) (fun q => lift_s (TokioGen.arf_post chk q)) n cancel Start w.
Definition aco_drive_src (n : nat) (cancel : list bool) (w : fb * RS) : out (fb * RS) (io Z) :=
  drive (lift_s (TokioGen.aco_pre chk)) (rf_await A) (fun q => lift_s (TokioGen.aco_post chk q)) n cancel Start w.

Lemma arf_drive_src_eq n cancel df w : arf_drive_src n cancel df w = arf_drive chk A n cancel df w.
Proof.
  unfold arf_drive_src, arf_drive. apply drive_ext.
  - intros s. unfold rf_pre, lift_s. rewrite GenEq.Tk_arf_pre.gen_eq. reflexivity.
  - intros x s. unfold rf_post, lift_s. rewrite GenEq.Tk_arf_post.gen_eq. reflexivity.
Qed.
Lemma aco_drive_src_eq n cancel w : aco_drive_src n cancel w = aco_drive chk A n cancel w.
Proof.
  unfold aco_drive_src, aco_drive. apply drive_ext.
  - intros s. unfold lift_s. rewrite GenEq.Tk_aco_pre.gen_eq. reflexivity.
  - intros x s. unfold lift_s. rewrite GenEq.Tk_aco_post.gen_eq. reflexivity.
Qed.

(* C14: the async read_frame that is in the tree now, driven with enough polls under any placement of Pending and any cancellation
   pattern, equals the blocking read_frame run against the reader polled until ready *)
Theorem c14_async_equals_blocking_source : forall SIZE df, (forall u, zlen u <= SIZE -> df_in_bounds df u) ->
  quiet A -> forall n k w, WI SIZE w ->
  finished (bloop (rf_pre chk df) (rf_await A) (rf_post chk) n k w) ->
  forall cancel, exists polls, forall p, (polls <= p)%nat ->
    arf_drive_src p cancel df w = to_out (read_frame chk (BR A k) n df w).
Proof.
  intros SIZE df Hdf Hq n k w Hw Hfin cancel.
  destruct (Facets.Async.c14_pending_invisible SIZE chk A df Hdf n k w Hw Hfin cancel) as [polls Hp].
  exists polls. intros p Hle. rewrite arf_drive_src_eq, (Hp p Hle).
  symmetry. exact (Facets.C14Blocking.read_frame_is_bloop SIZE chk A df Hdf Hq n k w Hw Hfin).
Qed.

Theorem c14_copy_once_pending_invisible_source : forall SIZE n k w, WI SIZE w ->
  finished (bloop (lift_s aco_pre) (rf_await A) (fun q => lift_s (aco_post chk q)) n k w) ->
  forall cancel, exists polls, forall p, (polls <= p)%nat ->
    aco_drive_src p cancel w = bloop (lift_s aco_pre) (rf_await A) (fun q => lift_s (aco_post chk q)) n k w.
Proof.
  intros SIZE n k w Hw Hfin cancel.
  destruct (Facets.AsyncCo.aco_pending_invisible SIZE chk A n k w Hw Hfin cancel) as [polls Hp].
  exists polls. intros p Hle. rewrite aco_drive_src_eq. exact (Hp p Hle).
Qed.

(* C15: any two cancellation patterns give the same outcome *)
Theorem c15_cancel_invisible_source : forall SIZE df, (forall u, zlen u <= SIZE -> df_in_bounds df u) ->
  forall n cancel cancel' w, WI SIZE w ->
  arf_drive_src n cancel df w = arf_drive_src n cancel' df w.
Proof.
  intros SIZE df Hdf n cancel cancel' w Hw. rewrite !arf_drive_src_eq.
  exact (Facets.Async.c15_cancel_invisible SIZE chk A df Hdf n cancel cancel' w Hw).
Qed.
Theorem c15_copy_once_cancel_invisible_source : forall SIZE n cancel cancel' w, WI SIZE w ->
  aco_drive_src n cancel w = aco_drive_src n cancel' w.
Proof.
  intros SIZE n cancel cancel' w Hw. rewrite !aco_drive_src_eq.
  exact (Facets.AsyncCo.aco_cancel_invisible SIZE chk A n cancel cancel' w Hw).
Qed.
End S.

Print Assumptions c14_async_equals_blocking_source.
Print Assumptions c15_cancel_invisible_source.
Definition gen_eq := (@c14_async_equals_blocking_source, @c14_copy_once_pending_invisible_source, @c15_cancel_invisible_source, @c15_copy_once_cancel_invisible_source).
