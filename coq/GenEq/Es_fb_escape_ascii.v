(* GenEq/Es_fb_escape_ascii.v — tie T1: the definition regenerated from /repo (Gen/EscapeGen.v, untracked, rebuilt on every run by rs2v + vlib/translate.py)
   equals the model definition the theorems are about. *)
From FB Require Import Sem.Base Model.Fb Model.Escape GenEq.Tac.
From FB Require Gen.EscapeGen.
Open Scope Z_scope.

Lemma gen_eq : forall SIZE chk s, EscapeGen.fb_escape_ascii SIZE chk s = Escape.fb_escape_ascii s.
Proof. gen_eq. Qed.
