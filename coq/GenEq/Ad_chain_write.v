(* GenEq/Ad_chain_write.v — tie T1: the definition regenerated from /repo (Gen/AdaptersGen.v, untracked, rebuilt on every run by rs2v + vlib/translate.py)
   equals the model definition the theorems are about. *)
From FB Require Import Sem.Base Model.Adapters GenEq.Tac.
From FB Require Gen.AdaptersGen.
Open Scope Z_scope.

Lemma gen_eq : forall R1S RWS (W2 : Writer RWS) buf (w : @cw R1S RWS), AdaptersGen.chain_write W2 buf w = Adapters.chain_write W2 buf w.
Proof. gen_eq. Qed.
