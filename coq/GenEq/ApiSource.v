(* GenEq/ApiSource.v — the whole public API of FixedBuf, as REGENERATED from /repo's current source, under the theorems of
   C01, C03 and C04.
   `step_src` is Spec/Api.v's `step` with every model function replaced by the definition the translator produced from the
   source on this run (Gen/FbGen.v); the closures given to try_parse read through the regenerated methods too (SrcC11.closure_src).  `step_src_eq` shows the two dispatchers agree on every state that
   satisfies the buffer invariant (one translation equality per operation), `api_source_eq` lifts that to every finite
   history (the invariant is carried by c01_step), and the property theorems are then restated about `step_src`,
   `run_src`, `trace_src`: statements about the code that is in the tree now, checked by coqc on every run. *)
From FB Require Import Sem.Base Sem.Lemmas Model.Fb Model.Script Model.Escape Spec.Api Spec.Fifo Spec.Capacity
  Facets.Fb Facets.Fb2 Facets.C01 Facets.C03 Facets.C04.
From FB Require Gen.FbGen.
From FB Require Import GenEq.SrcC11.
From FB Require GenEq.Fb_len GenEq.Fb_is_empty GenEq.Fb_readable GenEq.Fb_mem_ GenEq.Fb_clear GenEq.Fb_shift
  GenEq.Fb_read_byte GenEq.Fb_try_read_byte GenEq.Fb_read_bytes GenEq.Fb_try_read_bytes GenEq.Fb_read_all
  GenEq.Fb_read_and_copy_bytes GenEq.Fb_try_read_exact GenEq.Fb_io_read GenEq.Fb_write_bytes GenEq.Fb_write_str
  GenEq.Fb_io_write GenEq.Fb_io_flush GenEq.Fb_writable GenEq.Fb_wrote GenEq.Fb_copy_once_from GenEq.Fb_deframe
  GenEq.Fb_try_parse
  GenEq.Fb_new GenEq.Fb_empty GenEq.Fb_filled GenEq.Fb_default.
Open Scope Z_scope.

Section SRC.
Variable SIZE : Z.
Variable chk : bool.

Definition scribble_then_wrote_src (sc : list Z) (n : Z) : M fb unit :=
  w <- FbGen.writable SIZE chk ;;
  let k := Z.min (zlen sc) (vlen w) in
  dst <- view_sub w 0 k ;;
  view_copy_from_slice dst (firstn (Z.to_nat k) sc) ;;;
  FbGen.wrote SIZE chk n.

Definition step_src (s : fb) (o : op) : res fb obs :=
  match o with
  | OLen => lift VZ (FbGen.len SIZE chk s)
  | OIsEmpty => lift VBool (FbGen.is_empty SIZE chk s)
  | OReadable => lift VBytes (FbGen.readable SIZE chk s)
  | OMem => lift VBytes (FbGen.mem_ SIZE chk s)
  | OClear => lift (fun _ => VUnit) (FbGen.clear SIZE chk s)
  | OShift => lift (fun _ => VUnit) (FbGen.shift SIZE chk s)
  | OReadByte => lift VZ (FbGen.read_byte SIZE chk s)
  | OTryReadByte => lift VOptZ (FbGen.try_read_byte SIZE chk s)
  | OReadBytes n => lift VBytes (FbGen.read_bytes SIZE chk n s)
  | OTryReadBytes n => lift VOptBytes (FbGen.try_read_bytes SIZE chk n s)
  | OReadAll => lift VBytes (FbGen.read_all SIZE chk s)
  | OReadCopy dest => lift (fun r => VCopy (fst r) (snd r)) (FbGen.read_and_copy_bytes SIZE chk dest s)
  | OTryReadExact dest => lift (fun r => VExact (fst r) (snd r)) (FbGen.try_read_exact SIZE chk dest s)
  | OIoRead dest => lift (fun r => VIoRead (fst r) (snd r)) (FbGen.io_read SIZE chk dest s)
  | OWriteBytes d => lift VWrite (FbGen.write_bytes SIZE chk d s)
  | OWriteStr d => lift VWriteStr (FbGen.write_str SIZE chk d s)
  | OIoWrite d => lift VIo (FbGen.io_write SIZE chk d s)
  | OIoFlush => lift VIoUnit (FbGen.io_flush SIZE chk s)
  | OWritableWrote sc n => lift (fun _ => VUnit) (scribble_then_wrote_src sc n s)
  | OCopyOnce ans =>
      match FbGen.copy_once_from SIZE chk (one_shot ans) (s, tt) with
      | Val r (s', _) => Val (VIo r) s'
      | Panic (s', _) => Panic s'
      end
  | ODeframe df => lift VDeframe (FbGen.deframe SIZE chk df s)
  | OTryParse body some => lift VParse (FbGen.try_parse SIZE chk (closure_src SIZE chk body some) s)
  (* the two String-producing helpers are not part of the buffer's state machine: their source-level statements are in
     GenEq/SrcC19.v, so that a change to Debug::fmt is a matter for C19 (and C04's text clause) only *)
  | OEscapeAscii => lift VBytes (fb_escape_ascii s)
  | ODebug => lift VBytes (debug_fmt SIZE chk s)
  end.

Fixpoint run_src (s : fb) (ops : list op) : fb :=
  match ops with [] => s | o :: t => run_src (state_of (step_src s o)) t end.
Fixpoint trace_src (s : fb) (ops : list op) : list (op * res fb obs) :=
  match ops with [] => [] | o :: t => (o, step_src s o) :: trace_src (state_of (step_src s o)) t end.

Lemma scribble_src_eq sc n s : Inv SIZE s -> scribble_then_wrote_src sc n s = scribble_then_wrote chk sc n s.
Proof.
  intros HI. unfold scribble_then_wrote_src, scribble_then_wrote.
  assert (Hw : FbGen.writable SIZE chk s = Val {| v_off := write_index s; v_end := SIZE |} s)
    by (rewrite (GenEq.Fb_writable.gen_eq SIZE chk s HI); exact (writable_spec SIZE s HI)).
  rewrite (bind_val _ _ _ _ _ Hw), (bind_val _ _ _ _ _ (writable_spec SIZE s HI)).
  unfold vlen; cbn [v_off v_end]. fold (wlen SIZE s).
  pose proof (zlen_nonneg sc) as Hs. pose proof HI as (H1&H2&H3&H4&H5).
  set (k := Z.min (zlen sc) (wlen SIZE s)).
  assert (Hk0 : 0 <= k <= wlen SIZE s) by (unfold k, wlen; lia).
  unfold view_sub, vlen; cbn [v_off v_end]. fold (wlen SIZE s).
  replace ((0 <=? k) && (k <=? wlen SIZE s)) with true by (symmetry; apply andb_true_iff; lia).
  cbv iota. rewrite !bind_ret_l.
  unfold view_copy_from_slice, vlen; cbn [v_off v_end].
  assert (Hk : zlen (firstn (Z.to_nat k) sc) = k) by (rewrite zlen_firstn; unfold k; lia).
  rewrite Hk. replace (write_index s + k - (write_index s + 0) =? k) with true by lia.
  rewrite Z.add_0_r.
  pose proof (scribbled_facts SIZE s sc HI) as (HI1 & _ & Hw1 & _). fold k in HI1.
  unfold seq, bind, get_mem, set_mem. cbn [mem read_index write_index].
  change {| mem := splice (mem s) (write_index s) (firstn (Z.to_nat k) sc); read_index := read_index s; write_index := write_index s |}
    with (scribbled SIZE s sc).
  exact (GenEq.Fb_wrote.gen_eq SIZE chk n _ HI1).
Qed.

Lemma step_src_eq s o : Inv SIZE s -> step_src s o = step SIZE chk s o.
Proof.
  intros HI. destruct o; cbn [step_src step].
  - exact (f_equal (lift _) (GenEq.Fb_len.gen_eq SIZE chk s HI)).
  - exact (f_equal (lift _) (GenEq.Fb_is_empty.gen_eq SIZE chk s HI)).
  - exact (f_equal (lift _) (GenEq.Fb_readable.gen_eq SIZE chk s HI)).
  - exact (f_equal (lift _) (GenEq.Fb_mem_.gen_eq SIZE chk s HI)).
  - exact (f_equal (lift _) (GenEq.Fb_clear.gen_eq SIZE chk s HI)).
  - exact (f_equal (lift _) (GenEq.Fb_shift.gen_eq SIZE chk s HI)).
  - exact (f_equal (lift _) (GenEq.Fb_read_byte.gen_eq SIZE chk s HI)).
  - exact (f_equal (lift _) (GenEq.Fb_try_read_byte.gen_eq SIZE chk s HI)).
  - exact (f_equal (lift _) (GenEq.Fb_read_bytes.gen_eq SIZE chk n s HI)).
  - exact (f_equal (lift _) (GenEq.Fb_try_read_bytes.gen_eq SIZE chk n s HI)).
  - exact (f_equal (lift _) (GenEq.Fb_read_all.gen_eq SIZE chk s HI)).
  - exact (f_equal (lift _) (GenEq.Fb_read_and_copy_bytes.gen_eq SIZE chk dest s HI)).
  - exact (f_equal (lift _) (GenEq.Fb_try_read_exact.gen_eq SIZE chk dest s HI)).
  - exact (f_equal (lift _) (GenEq.Fb_io_read.gen_eq SIZE chk dest s HI)).
  - exact (f_equal (lift _) (GenEq.Fb_write_bytes.gen_eq SIZE chk d s HI)).
  - exact (f_equal (lift _) (GenEq.Fb_write_str.gen_eq SIZE chk d s HI)).
  - exact (f_equal (lift _) (GenEq.Fb_io_write.gen_eq SIZE chk d s HI)).
  - exact (f_equal (lift _) (GenEq.Fb_io_flush.gen_eq SIZE chk s HI)).
  - exact (f_equal (lift _) (scribble_src_eq scribble n s HI)).
  - rewrite (GenEq.Fb_copy_once_from.gen_eq SIZE chk unit (one_shot ans) (s, tt) HI). reflexivity.
  - exact (f_equal (lift _) (GenEq.Fb_deframe.gen_eq SIZE chk df s HI)).
  - apply (f_equal (lift _)). rewrite (GenEq.Fb_try_parse.gen_eq SIZE chk _ _ s HI).
    rewrite !try_parse_spec, (closure_src_eq SIZE chk body some s HI). reflexivity.
  - reflexivity.
  - reflexivity.
Qed.

(* every finite history: the dispatcher over the regenerated definitions produces the model's trace and final state *)
Theorem api_source_eq : forall ops s, Inv SIZE s -> ops_ok ops ->
  trace_src s ops = trace SIZE chk s ops /\ run_src s ops = run SIZE chk s ops.
Proof.
  induction ops as [|o t IH]; intros s HI Hok; cbn [trace_src trace run_src run]; [auto|].
  destruct Hok as [Ha Ht]. rewrite (step_src_eq s o HI).
  destruct (Facets.C01.c01_step SIZE chk s o HI Ha) as [_ HI'].
  destruct (IH _ HI' Ht) as [E1 E2]. rewrite E1, E2. auto.
Qed.

(* C01 on the source: one call refines the FIFO queue and keeps the invariant; the ledger over every history *)
Theorem c01_step_source : forall s o, Inv SIZE s -> args_ok o ->
  fifo_ok (unread s) o (step_src s o) (unread (state_of (step_src s o))) /\ Inv SIZE (state_of (step_src s o)).
Proof. intros s o HI Ha. rewrite (step_src_eq s o HI). exact (Facets.C01.c01_step SIZE chk s o HI Ha). Qed.

Theorem c01_ledger_source : forall ops s, Inv SIZE s -> ops_ok ops -> all_plain ops ->
  concat (map (fun p => delivered (fst p) (snd p)) (trace_src s ops)) ++ unread (run_src s ops)
  = unread s ++ concat (map (fun p => accepted (fst p) (snd p)) (trace_src s ops)).
Proof.
  intros ops s HI Hok Hp. destruct (api_source_eq ops s HI Hok) as [E1 E2]. rewrite E1, E2.
  exact (Facets.C01.c01_ledger SIZE chk ops s HI Hok Hp).
Qed.

(* C03 on the source: the (len, writable) ledger *)
Theorem c03_step_source : forall s o, Inv2 SIZE s -> args_ok o ->
  cap_ok SIZE (len_ s) (wlen SIZE s) o (step_src s o)
         (len_ (state_of (step_src s o))) (wlen SIZE (state_of (step_src s o))) /\
  Inv2 SIZE (state_of (step_src s o)).
Proof. intros s o HI Ha. rewrite (step_src_eq s o (proj1 HI)). exact (Facets.C03.c03_step SIZE chk s o HI Ha). Qed.

(* every finite history, in the forms Props/C01.v and Props/C03.v state them: the FIFO chain and the (len, writable) ledger over the
   states the regenerated dispatcher goes through *)
Fixpoint unreads_src (s : fb) (ops : list op) : list (list Z) :=
  match ops with [] => [] | o :: t => let s' := state_of (step_src s o) in unread s' :: unreads_src s' t end.
Fixpoint caps_src (s : fb) (ops : list op) : list (Z * Z) :=
  match ops with [] => [] | o :: t => let s' := state_of (step_src s o) in (len_ s', wlen SIZE s') :: caps_src s' t end.
Lemma observers_source_eq : forall ops s, Inv SIZE s -> ops_ok ops ->
  unreads_src s ops = unreads SIZE chk s ops /\ caps_src s ops = caps SIZE chk s ops.
Proof.
  induction ops as [|o t IH]; intros s HI Hok; cbn [unreads_src unreads caps_src caps]; [auto|].
  destruct Hok as [Ha Ht]. rewrite (step_src_eq s o HI).
  destruct (Facets.C01.c01_step SIZE chk s o HI Ha) as [_ HI'].
  destruct (IH _ HI' Ht) as [E1 E2]. rewrite E1, E2. auto.
Qed.
Theorem c01_history_source : forall ops s, Inv SIZE s -> ops_ok ops ->
  fifo_chain (unread s) (trace_src s ops) (unreads_src s ops) /\ Inv SIZE (run_src s ops).
Proof.
  intros ops s HI Hok. destruct (api_source_eq ops s HI Hok) as [E1 E2]. destruct (observers_source_eq ops s HI Hok) as [E3 _].
  rewrite E1, E2, E3. exact (Facets.C01.c01_history SIZE chk ops s HI Hok).
Qed.
Theorem c03_history_source : forall ops s, Inv2 SIZE s -> ops_ok ops ->
  cap_chain SIZE (len_ s) (wlen SIZE s) (trace_src s ops) (caps_src s ops) /\ Inv2 SIZE (run_src s ops).
Proof.
  intros ops s HI Hok. destruct (api_source_eq ops s (proj1 HI) Hok) as [E1 E2]. destruct (observers_source_eq ops s (proj1 HI) Hok) as [_ E3].
  rewrite E1, E2, E3. exact (Facets.C03.c03_history SIZE chk ops s HI Hok).
Qed.

(* C04 on the source: a call panics iff the documentation says so, and leaves a usable, unchanged buffer *)
Theorem c04_step_source : forall s o, Inv SIZE s -> args_ok o -> ~ text_op o ->
  (is_panic (step_src s o) = true <-> documented_panic SIZE chk s o) /\
  (is_panic (step_src s o) = true ->
     let s' := state_of (step_src s o) in
     Inv SIZE s' /\ len_ s' <= len_ s /\ wlen SIZE s <= wlen SIZE s' /\
     match o with
     | OReadByte | OReadBytes _ | ODeframe _ => s' = s
     | OTryParse _ _ => exists k, unread s' = skipn k (unread s)
     | _ => unread s' = unread s /\ len_ s' = len_ s /\ wlen SIZE s' = wlen SIZE s
     end).
Proof. intros s o HI Ha Ht. rewrite (step_src_eq s o HI). exact (Facets.C04.c04_step SIZE chk s o HI Ha Ht). Qed.

(* the constructors that are in the tree now *)
Theorem constructors_source : 0 <= SIZE <= usize_max ->
  FbGen.new SIZE chk = new SIZE /\ FbGen.default SIZE chk = default SIZE /\
  (forall m, FbGen.empty SIZE chk m = empty m) /\ (forall m, FbGen.filled SIZE chk m = filled SIZE m).
Proof.
  intros _. split; [apply GenEq.Fb_new.gen_eq|]. split; [apply GenEq.Fb_default.gen_eq|].
  split; intros m; [apply GenEq.Fb_empty.gen_eq|apply GenEq.Fb_filled.gen_eq].
Qed.
End SRC.

(* non-vacuity: a history through the regenerated definitions, computed *)
Example api_source_ex :
  map (fun p => delivered (fst p) (snd p))
      (trace_src 4 false (FbGen.new 4 false) [OWriteBytes [97; 98; 99]; OReadBytes 1; OShift; OWriteBytes [100; 101]; OReadAll])
  = [[]; [97]; []; []; [98; 99; 100; 101]].
Proof. vm_compute. reflexivity. Qed.

Print Assumptions api_source_eq.
Print Assumptions c01_ledger_source.
Print Assumptions c03_step_source.
Print Assumptions c04_step_source.

(* the engine audits every GenEq module under this name *)
Definition gen_eq := (api_source_eq, c01_step_source, c01_history_source, c01_ledger_source, c03_step_source, c03_history_source, c04_step_source, constructors_source).
