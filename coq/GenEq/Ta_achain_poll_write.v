(* GenEq/Ta_achain_poll_write.v — tie T1: the definition regenerated from /repo (Gen/TokioAdaptersGen.v, untracked, rebuilt on every run by rs2v + vlib/translate.py)
   equals the model definition the theorems are about. *)
From FB Require Import Sem.Base Sem.ReadBuf Model.Fb Model.Tokio GenEq.Tac.
From FB Require Gen.TokioAdaptersGen.
Open Scope Z_scope.

Lemma gen_eq : forall R1S RWS (W2 : AsyncWriter RWS) d (w : @acw R1S RWS), TokioAdaptersGen.achain_poll_write W2 d w = Tokio.achain_poll_write W2 d w.
Proof. gen_eq. Qed.
