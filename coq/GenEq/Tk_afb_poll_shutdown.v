(* GenEq/Tk_afb_poll_shutdown.v — tie T1: the definition regenerated from /repo (Gen/TokioGen.v, untracked, rebuilt on every run by rs2v + vlib/translate.py)
   equals the model definition the theorems are about. *)
From FB Require Import Sem.Base Sem.ReadBuf Model.Fb Model.Tokio GenEq.Tac.
From FB Require Gen.TokioGen.
Open Scope Z_scope.

Lemma gen_eq : forall chk s, TokioGen.afb_poll_shutdown chk s = Tokio.afb_poll_shutdown s.
Proof. gen_eq. Qed.
