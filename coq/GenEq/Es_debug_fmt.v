(* GenEq/Es_debug_fmt.v — tie T1: the definition regenerated from /repo (Gen/EscapeGen.v, untracked, rebuilt on every run by rs2v + vlib/translate.py)
   equals the model definition the theorems are about. *)
From FB Require Import Sem.Base Model.Fb Model.Escape GenEq.Tac.
From FB Require Gen.EscapeGen.
Open Scope Z_scope.

Lemma gen_eq : forall SIZE chk s, EscapeGen.debug_fmt SIZE chk s = Escape.debug_fmt SIZE chk s.
Proof. gen_eq. Qed.
