(* GenEq/Ta_atake_poll_read.v — tie T1: the definition regenerated from /repo (Gen/TokioAdaptersGen.v, untracked, rebuilt on every run by rs2v + vlib/translate.py)
   equals the model definition the theorems are about. *)
From FB Require Import Sem.Base Sem.ReadBuf Model.Fb Model.Tokio GenEq.Tac.
From FB Require Gen.TokioAdaptersGen.
Open Scope Z_scope.

Lemma gen_eq : forall RWS chk (R2 : AsyncReader RWS) buf w, rb_wf buf -> TokioAdaptersGen.atake_poll_read chk R2 buf w = Tokio.atake_poll_read chk R2 buf w.
Proof. gen_eq. Qed.
