(* GenEq/Fb_copy_once_from.v — tie T1: the definition regenerated from /repo (Gen/FbGen.v, untracked, rebuilt on every run by rs2v + vlib/translate.py)
   equals the model definition the theorems are about. *)
From FB Require Import Sem.Base Model.Fb Facets.Fb GenEq.Tac.
From FB Require Gen.FbGen.
Open Scope Z_scope.

Lemma gen_eq : forall SIZE chk RS (R : Reader RS) w, Inv SIZE (fst w) -> FbGen.copy_once_from SIZE chk R w = Fb.copy_once_from chk R w.
Proof. gen_eq. Qed.
