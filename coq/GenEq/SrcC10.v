(* GenEq/SrcC10.v — C10 restated about FixedBuf::deframe as REGENERATED from /repo's current source. *)
From FB Require Import Sem.Base Sem.Lemmas Model.Fb Spec.Api Facets.Fb Facets.Fb2.
From FB Require Gen.FbGen GenEq.Fb_deframe GenEq.Fb_mem_.
Open Scope Z_scope.

Theorem c10_deframe_source : forall SIZE chk s df, Inv SIZE s -> df_in_bounds df (unread s) ->
  FbGen.deframe SIZE chk df s =
  if len_ s =? 0 then Val (Ok None) s else
  match df (unread s) with
  | DNone => Val (Ok None) s
  | DErr => Val (Err InvalidData) s
  | DPanic => Panic s
  | DFrame a b n => Val (Ok (Some (read_index s + a, read_index s + b))) (after_read s n)
  end.
Proof. intros SIZE chk s df HI Hb. rewrite (GenEq.Fb_deframe.gen_eq SIZE chk df s HI). exact (deframe_spec SIZE chk s df HI Hb). Qed.

(* the returned range indexes what mem() (as it is in the tree now) returns afterwards *)
Theorem c10_frame_source : forall SIZE chk s df a b n, Inv SIZE s -> df_in_bounds df (unread s) -> 0 < len_ s ->
  df (unread s) = DFrame a b n ->
  exists s', FbGen.deframe SIZE chk df s = Val (Ok (Some (read_index s + a, read_index s + b))) s' /\
    Inv SIZE s' /\ unread s' = skipn (Z.to_nat n) (unread s) /\
    exists m, FbGen.mem_ SIZE chk s' = Val m s' /\ slice m (read_index s + a) (read_index s + b) = slice (unread s) a b.
Proof.
  intros SIZE chk s df a b n HI Hb Hl Hd.
  rewrite (c10_deframe_source SIZE chk s df HI Hb). replace (len_ s =? 0) with false by lia. rewrite Hd.
  destruct (Hb a b n Hd) as (B1 & B2 & B3 & B4). rewrite (zlen_unread SIZE s HI) in B4.
  destruct (after_read_facts SIZE chk s n HI ltac:(lia)) as (A & B & C & _).
  eexists. split; [reflexivity|]. split; [exact A|]. split; [exact B|].
  exists (mem (after_read s n)). split; [rewrite (GenEq.Fb_mem_.gen_eq SIZE chk _ A); reflexivity|].
  rewrite C. unfold unread. destruct HI as (H1&H2&H3&H4&H5). unfold len_ in *.
  rewrite slice_slice by lia. reflexivity.
Qed.

Print Assumptions c10_frame_source.
Definition gen_eq := (c10_deframe_source, c10_frame_source).
