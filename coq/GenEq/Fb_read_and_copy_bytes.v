(* GenEq/Fb_read_and_copy_bytes.v — tie T1: the definition regenerated from /repo (Gen/FbGen.v, untracked, rebuilt on every run by rs2v + vlib/translate.py)
   equals the model definition the theorems are about. *)
From FB Require Import Sem.Base Model.Fb Facets.Fb GenEq.Tac.
From FB Require Gen.FbGen.
Open Scope Z_scope.

Lemma gen_eq : forall SIZE chk dest s, Inv SIZE s -> FbGen.read_and_copy_bytes SIZE chk dest s = Fb.read_and_copy_bytes chk dest s.
Proof. gen_eq. Qed.
