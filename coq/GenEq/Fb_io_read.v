(* GenEq/Fb_io_read.v — tie T1: the definition regenerated from /repo (Gen/FbGen.v, untracked, rebuilt on every run by rs2v + vlib/translate.py)
   equals the model definition the theorems are about. *)
From FB Require Import Sem.Base Model.Fb Facets.Fb GenEq.Tac.
From FB Require Gen.FbGen.
Open Scope Z_scope.

Lemma gen_eq : forall SIZE chk buf s, Inv SIZE s -> FbGen.io_read SIZE chk buf s = Fb.io_read chk buf s.
Proof. gen_eq. Qed.
