(* GenEq/Ad_take_write.v — tie T1: the definition regenerated from /repo (Gen/AdaptersGen.v, untracked, rebuilt on every run by rs2v + vlib/translate.py)
   equals the model definition the theorems are about. *)
From FB Require Import Sem.Base Model.Adapters GenEq.Tac.
From FB Require Gen.AdaptersGen.
Open Scope Z_scope.

Lemma gen_eq : forall RWS (W2 : Writer RWS) buf w, AdaptersGen.take_write W2 buf w = Adapters.take_write W2 buf w.
Proof. gen_eq. Qed.
