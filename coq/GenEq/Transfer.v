(* GenEq/Transfer.v — C02 restated about the definitions REGENERATED from /repo's current source (read_frame and the three deframers).
   Each statement is one rewrite with the translation equality of its function (GenEq/<f>.v) followed by the theorem about the model:
   this is the whole chain  source --translator--> Gen.f --GenEq--> Model.f --Facets--> property  checked by coqc on every run.
   The other properties have their source-level statements in GenEq/ApiSource.v (C01 C03 C04) and GenEq/SrcC<nn>.v. *)
From FB Require Import Sem.Base Sem.Lemmas Model.Fb Model.Deframers Model.Adapters Spec.Api Spec.Frames Spec.StdAdapters
  Facets.Fb Facets.Fb2 Facets.DfContract Facets.Rf Facets.RfInv Facets.RfRefine Facets.Frames Facets.C02 Facets.Adapters.
From FB Require Gen.FbGen Gen.DeframersGen.
From FB Require Import GenEq.RfSource GenEq.SrcC05.
Open Scope Z_scope.

(* C02: one call of the read_frame that is in the tree now, under any chunking, returns `next` of unread ++ unpulled *)
Theorem c02_call_source : forall SIZE chk (R : Reader stream_reader) df,
  implements R stream_ar -> df_contract SIZE df ->
  forall s st fuel, Inv2 SIZE s -> zlen (sr_rest st) < Z.of_nat fuel ->
  exists r s' st' o, FbGen.read_frame SIZE chk R fuel df (s, st) = Val r (s', st') /\ out_of r = Some o /\
    (o, unread s' ++ sr_rest st') = next SIZE df (unread s ++ sr_rest st) /\ Inv2 SIZE s'.
Proof.
  intros SIZE chk R df HR Hdf s st fuel HI Hf.
  rewrite (read_frame_source_eq SIZE chk _ R df (implements_sane R _ HR) (contract_in_bounds SIZE df Hdf) fuel (s, st) (proj1 HI)).
  exact (Facets.C02.c02_call SIZE chk R df HR Hdf s st fuel HI Hf).
Qed.

(* the three deframers that are in the tree now honour the documented contract, so the statement above applies to
   read_frame(reader, deframe_line) etc. exactly as they are written today *)
Lemma df_contract_ext L df1 df2 : (forall d, df1 d = df2 d) -> df_contract L df1 -> df_contract L df2.
Proof.
  intros He [B St Np]. split.
  - intros d a b n Hl Hd. rewrite <- He in Hd. exact (B d a b n Hl Hd).
  - intros d e Hl Hn. rewrite <- !He in *. exact (St d e Hl Hn).
  - intros d Hl. rewrite <- He. exact (Np d Hl).
Qed.
Theorem c02_provided_source : forall chk SIZE, SIZE <= usize_max ->
  df_contract SIZE (df_of (DeframersGen.deframe_line chk)) /\ df_contract SIZE (df_of (DeframersGen.deframe_crlf chk)) /\
  df_contract SIZE (df_of (DeframersGen.deframe_null chk)).
Proof.
  intros chk SIZE Hs. destruct (provided_contracts chk SIZE Hs) as (H1 & H2 & H3).
  split; [|split].
  - apply (df_contract_ext SIZE (df_line chk)); [|exact H1]. intros d. symmetry. apply df_line_source_eq.
  - apply (df_contract_ext SIZE (df_crlf chk)); [|exact H2]. intros d. symmetry. apply df_crlf_source_eq.
  - apply (df_contract_ext SIZE (df_null chk)); [|exact H3]. intros d. symmetry. apply df_null_source_eq.
Qed.
Theorem c02_line_source : forall SIZE chk (R : Reader stream_reader), implements R stream_ar -> SIZE <= usize_max ->
  forall s st fuel, Inv2 SIZE s -> zlen (sr_rest st) < Z.of_nat fuel ->
  let df := df_of (DeframersGen.deframe_line chk) in
  exists r s' st' o, FbGen.read_frame SIZE chk R fuel df (s, st) = Val r (s', st') /\ out_of r = Some o /\
    (o, unread s' ++ sr_rest st') = next SIZE df (unread s ++ sr_rest st) /\ Inv2 SIZE s'.
Proof.
  intros SIZE chk R HR Hs s st fuel HI Hf df.
  exact (c02_call_source SIZE chk R df HR (proj1 (c02_provided_source chk SIZE Hs)) s st fuel HI Hf).
Qed.

(* repeated calls of the read_frame that is in the tree now = iterating the chunk-free specification `next`; hence any two ways a
   transport cuts the same stream into chunks give the same sequence of results *)
Section RUN.
Variable SIZE : Z.
Variable chk : bool.
Variable df : list Z -> dres.
Fixpoint impl_run_src (R : Reader stream_reader) (n : nat) (w : fb * stream_reader) : list (option outcome) :=
  match n with
  | O => []
  | S m =>
      match FbGen.read_frame SIZE chk R (S (length (sr_rest (snd w)))) df w with
      | Val r w' => out_of r :: impl_run_src R m w'
      | Panic w' => [None]
      end
  end.
Theorem c02_run_source : forall (R : Reader stream_reader), implements R stream_ar -> df_contract SIZE df ->
  forall n s st, Inv2 SIZE s ->
  impl_run_src R n (s, st) = map Some (spec_run SIZE df n (unread s ++ sr_rest st)).
Proof.
  intros R HR Hc. induction n as [|n IH]; intros s st HI2; cbn [impl_run_src spec_run map]; [reflexivity|].
  cbn [snd].
  destruct (c02_call_source SIZE chk R df HR Hc s st (S (length (sr_rest st))) HI2 ltac:(unfold zlen; lia)) as (r & s' & st' & o & Hrun & Ho & Hn & I').
  rewrite Hrun. rewrite <- Hn. cbn [map]. rewrite Ho. f_equal. apply IH. exact I'.
Qed.
Theorem c02_chunking_source : forall R1 R2, implements R1 stream_ar -> implements R2 stream_ar -> df_contract SIZE df ->
  forall n s st1 st2, Inv2 SIZE s -> sr_rest st1 = sr_rest st2 ->
  impl_run_src R1 n (s, st1) = impl_run_src R2 n (s, st2).
Proof.
  intros R1 R2 H1 H2 Hc n s st1 st2 HI2 Hr.
  rewrite (c02_run_source R1 H1 Hc n s st1 HI2), (c02_run_source R2 H2 Hc n s st2 HI2), Hr. reflexivity.
Qed.
End RUN.

Print Assumptions c02_call_source.

(* the engine audits every GenEq module under this name *)
Definition gen_eq := (c02_call_source, c02_provided_source, c02_line_source, c02_run_source, c02_chunking_source).
