(* GenEq/Transfer.v — the headline theorems restated about the definitions REGENERATED from /repo's current source.
   Each is one rewrite with the translation equality of its function (GenEq/<f>.v) followed by the theorem about the model:
   this is the whole chain  source --translator--> Gen.f --GenEq--> Model.f --Facets--> property  checked by coqc on every run.
   (The other theorems transfer the same way; these are the ones spelled out.) *)
From FB Require Import Sem.Base Sem.Lemmas Model.Fb Model.Deframers Model.Adapters Spec.Api Spec.Frames Spec.StdAdapters
  Facets.Fb Facets.Fb2 Facets.DfContract Facets.Rf Facets.RfInv Facets.RfRefine Facets.Frames Facets.C02 Facets.Adapters.
From FB Require Gen.FbGen Gen.AdaptersGen Gen.DeframersGen GenEq.Fb_read_frame GenEq.Fb_read_bytes GenEq.Ad_chain_read GenEq.Ad_take_read
  GenEq.Df_deframe_line GenEq.Df_deframe_crlf GenEq.Df_deframe_null.
Open Scope Z_scope.

(* two loop bodies that agree on the states satisfying an invariant the second one keeps give the same loop from such a state *)
Lemma loop_fuel_ext_inv {S R} (I : S -> Prop) (b1 b2 : M S (option R)) :
  (forall w, I w -> b1 w = b2 w) -> (forall w v w', I w -> b2 w = Val v w' -> I w') ->
  forall fuel w, I w -> loop_fuel fuel b1 w = loop_fuel fuel b2 w.
Proof.
  intros He Hk. induction fuel as [|f IH]; intros w Hw; [reflexivity|].
  cbn [loop_fuel]. unfold bind. rewrite (He w Hw). destruct (b2 w) as [[v|] w'|w'] eqn:E; try reflexivity.
  apply IH. exact (Hk w None w' Hw E).
Qed.

Lemma read_frame_source_eq SIZE chk RS (R : Reader RS) df : sane R -> (forall u, zlen u <= SIZE -> df_in_bounds df u) ->
  forall fuel w, Inv SIZE (fst w) -> FbGen.read_frame SIZE chk R fuel df w = Fb.read_frame chk R fuel df w.
Proof.
  intros HR Hdf fuel w HI. unfold FbGen.read_frame, Fb.read_frame.
  apply (loop_fuel_ext_inv (fun w => Inv SIZE (fst w))); [| |exact HI].
  - intros w0 H0. exact (GenEq.Fb_read_frame.gen_eq SIZE chk RS R df w0 H0).
  - intros [s rs] v [s' rs'] H0 E. cbn [fst] in *.
    apply (read_frame_body_inv SIZE chk R df HR s rs v s' rs' H0); [|exact E].
    apply Hdf. rewrite (zlen_unread SIZE s H0). unfold len_. destruct H0 as (H1&H2&H3&H4&H5). lia.
Qed.

(* C02: one call of the read_frame that is in the tree now, under any chunking, returns `next` of unread ++ unpulled *)
Theorem c02_call_source : forall SIZE chk (R : Reader stream_reader) df,
  implements R stream_ar -> df_contract SIZE df ->
  forall s st fuel, Inv2 SIZE s -> zlen (sr_rest st) < Z.of_nat fuel ->
  exists r s' st' o, FbGen.read_frame SIZE chk R fuel df (s, st) = Val r (s', st') /\ out_of r = Some o /\
    (o, unread s' ++ sr_rest st') = next SIZE df (unread s ++ sr_rest st) /\ Inv2 SIZE s'.
Proof.
  intros SIZE chk R df HR Hdf s st fuel HI Hf.
  rewrite (read_frame_source_eq SIZE chk _ R df (implements_sane R _ HR) (contract_in_bounds SIZE df Hdf) fuel (s, st) (proj1 HI)).
  exact (Facets.C02.c02_call SIZE chk R df HR Hdf s st fuel HI Hf).
Qed.

(* the three deframers that are in the tree now honour the documented contract, so the statement above applies to
   read_frame(reader, deframe_line) etc. exactly as they are written today *)
Lemma df_contract_ext L df1 df2 : (forall d, df1 d = df2 d) -> df_contract L df1 -> df_contract L df2.
Proof.
  intros He [B St Np]. split.
  - intros d a b n Hl Hd. rewrite <- He in Hd. exact (B d a b n Hl Hd).
  - intros d e Hl Hn. rewrite <- !He in *. exact (St d e Hl Hn).
  - intros d Hl. rewrite <- He. exact (Np d Hl).
Qed.
Theorem c02_provided_source : forall chk SIZE, SIZE <= usize_max ->
  df_contract SIZE (df_of (DeframersGen.deframe_line chk)) /\ df_contract SIZE (df_of (DeframersGen.deframe_crlf chk)) /\
  df_contract SIZE (df_of (DeframersGen.deframe_null chk)).
Proof.
  intros chk SIZE Hs. destruct (provided_contracts chk SIZE Hs) as (H1 & H2 & H3).
  split; [|split].
  - apply (df_contract_ext SIZE (df_line chk)); [|exact H1]. intros d. unfold df_line, df_of. first [reflexivity | rewrite (GenEq.Df_deframe_line.gen_eq chk d tt); reflexivity].
  - apply (df_contract_ext SIZE (df_crlf chk)); [|exact H2]. intros d. unfold df_crlf, df_of. first [reflexivity | rewrite (GenEq.Df_deframe_crlf.gen_eq chk d tt); reflexivity].
  - apply (df_contract_ext SIZE (df_null chk)); [|exact H3]. intros d. unfold df_null, df_of. first [reflexivity | rewrite (GenEq.Df_deframe_null.gen_eq chk d tt); reflexivity].
Qed.
Theorem c02_line_source : forall SIZE chk (R : Reader stream_reader), implements R stream_ar -> SIZE <= usize_max ->
  forall s st fuel, Inv2 SIZE s -> zlen (sr_rest st) < Z.of_nat fuel ->
  let df := df_of (DeframersGen.deframe_line chk) in
  exists r s' st' o, FbGen.read_frame SIZE chk R fuel df (s, st) = Val r (s', st') /\ out_of r = Some o /\
    (o, unread s' ++ sr_rest st') = next SIZE df (unread s ++ sr_rest st) /\ Inv2 SIZE s'.
Proof.
  intros SIZE chk R HR Hs s st fuel HI Hf df.
  exact (c02_call_source SIZE chk R df HR (proj1 (c02_provided_source chk SIZE Hs)) s st fuel HI Hf).
Qed.

(* C04: the read_bytes that is in the tree now panics exactly when asked for more than len(), leaving the buffer as it was *)
Theorem c04_read_bytes_source : forall SIZE chk s n, Inv SIZE s -> 0 <= n <= usize_max -> len_ s < n ->
  FbGen.read_bytes SIZE chk n s = Panic s.
Proof. intros SIZE chk s n HI Hn Hlt. rewrite (GenEq.Fb_read_bytes.gen_eq SIZE chk n s HI). apply (read_bytes_panic SIZE); assumption. Qed.

(* C08 / C09: the adapters that are in the tree now are std's Chain / Take, call for call *)
Theorem c08_sim_source : forall R1S RWS (R1 : Reader R1S) (R2 : Reader RWS) buf w,
  map_res abs_chain (AdaptersGen.chain_read R1 R2 buf w) = std_chain_read R1 R2 buf (abs_chain w).
Proof. intros. rewrite GenEq.Ad_chain_read.gen_eq. apply chain_sim. Qed.
Theorem c09_sim_source : forall RWS chk (R2 : Reader RWS) buf w, 0 <= t_rem w ->
  (forall dest d' n r', rd R2 (t_rw w) dest = (ROk d' n, r') -> 0 <= n <= zlen dest) ->
  map_res abs_take (AdaptersGen.take_read chk R2 buf w) = std_take_read R2 buf (abs_take w).
Proof. intros RWS chk R2 buf w H1 H2. rewrite GenEq.Ad_take_read.gen_eq. apply take_sim; assumption. Qed.

Print Assumptions c02_call_source.
Print Assumptions c08_sim_source.

(* the engine audits every GenEq module under this name *)
Definition gen_eq := (c02_call_source, c02_provided_source, c02_line_source, c04_read_bytes_source, c08_sim_source, c09_sim_source).
