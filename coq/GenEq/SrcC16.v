(* GenEq/SrcC16.v — C16 restated about AsyncReadWriteChain::poll_read and AsyncReadWriteTake::poll_read as REGENERATED from /repo's
   current source. *)
From FB Require Import Sem.Base Sem.Lemmas Sem.ReadBuf Model.Tokio Spec.TokioAdapters Facets.TokioAdapters.
From FB Require Gen.TokioAdaptersGen GenEq.Ta_achain_poll_read GenEq.Ta_atake_poll_read.
Open Scope Z_scope.

(* the async chain that is in the tree now is tokio's own Chain, poll for poll, for every well-formed ReadBuf (no capacity included) *)
Theorem c16_chain_sim_source : forall R1S RWS chk (R1 : AsyncReader R1S) (R2 : AsyncReader RWS), arb_mono R1 ->
  forall buf w, rb_wf buf ->
  map_res abs_achain (TokioAdaptersGen.achain_poll_read chk R1 R2 buf w) = tokio_chain_poll_read R1 R2 buf (abs_achain w).
Proof. intros R1S RWS chk R1 R2 Hm buf w Hb. rewrite (GenEq.Ta_achain_poll_read.gen_eq R1S RWS chk R1 R2 buf w Hb). exact (achain_sim chk R1 R2 Hm buf w Hb). Qed.

Theorem c16_chain_pending_keeps_source : forall R1S RWS chk (R1 : AsyncReader R1S) (R2 : AsyncReader RWS) buf w b1 r1, rb_wf buf ->
  ac_has w = true -> prd R1 (ac_first w) buf = (ARPending b1, r1) ->
  TokioAdaptersGen.achain_poll_read chk R1 R2 buf w = Val (PPending, b1) {| ac_has := true; ac_first := r1; ac_rw := ac_rw w |}.
Proof. intros R1S RWS chk R1 R2 buf w b1 r1 Hb H1 H2. rewrite (GenEq.Ta_achain_poll_read.gen_eq R1S RWS chk R1 R2 buf w Hb). exact (achain_pending_keeps chk R1 R2 buf w b1 r1 H1 H2). Qed.

(* the async take that is in the tree now meets the observational specification that tokio's own Take meets *)
Theorem c16_take_observable_source : forall RWS chk (R2 : AsyncReader RWS) (AA : AAReader RWS), aimplements R2 AA ->
  forall buf w, rb_wf buf -> 0 <= at_rem w -> zlen (rb_buf buf) <= usize_max ->
  take_obs AA (at_rem w) (at_rw w) buf
    (match TokioAdaptersGen.atake_poll_read chk R2 buf w with Val a w' => Val a (at_rem w', at_rw w') | Panic w' => Panic (at_rem w', at_rw w') end).
Proof. intros RWS chk R2 AA Ha buf w Hb H1 H2. rewrite (GenEq.Ta_atake_poll_read.gen_eq RWS chk R2 buf w Hb). exact (atake_observable chk R2 AA Ha buf w Hb H1 H2). Qed.

Print Assumptions c16_chain_sim_source.
Print Assumptions c16_take_observable_source.
Definition gen_eq := (c16_chain_sim_source, c16_chain_pending_keeps_source, c16_take_observable_source).
