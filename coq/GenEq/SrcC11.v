(* GenEq/SrcC11.v — C11 restated about FixedBuf::try_parse as REGENERATED from /repo's current source, with closures whose
   reads go through the regenerated reading methods too (`closure_src` is Model/Script.v's interpreter over Gen/FbGen.v). *)
From FB Require Import Sem.Base Sem.Lemmas Sem.Hoare Model.Fb Model.Script Spec.Api Facets.Fb Facets.Fb2.
From FB Require Gen.FbGen GenEq.Fb_try_parse GenEq.Fb_read_byte GenEq.Fb_try_read_byte GenEq.Fb_read_bytes GenEq.Fb_try_read_bytes
  GenEq.Fb_read_all GenEq.Fb_read_and_copy_bytes GenEq.Fb_try_read_exact.
Open Scope Z_scope.

Theorem c11_try_parse_source : forall SIZE chk (R : Type) (f : M fb (option R)) s, Inv SIZE s ->
  FbGen.try_parse SIZE chk f s =
  match f s with
  | Val (Some v) s' => Val (Some v) s'
  | Val None s' => Val None {| mem := mem s'; read_index := read_index s; write_index := write_index s |}
  | Panic s' => Panic s'
  end.
Proof. intros SIZE chk R f s HI. rewrite (GenEq.Fb_try_parse.gen_eq SIZE chk R f s HI). apply try_parse_spec. Qed.

Section S.
Variable SIZE : Z.
Variable chk : bool.
Fixpoint run_step_src (s : rstep) : M fb (list Z) :=
  match s with
  | SByte => b <- FbGen.read_byte SIZE chk ;; ret [b]
  | STryByte => o <- FbGen.try_read_byte SIZE chk ;; ret (match o with None => [0] | Some b => [1; b] end)
  | SBytes n => l <- FbGen.read_bytes SIZE chk (Z.of_N n) ;; ret (enc_bytes l)
  | STryBytes n => o <- FbGen.try_read_bytes SIZE chk (Z.of_N n) ;; ret (enc_opt_bytes o)
  | SCopy k => r <- FbGen.read_and_copy_bytes SIZE chk (repeat 221 (N.to_nat k)) ;; ret (fst r :: enc_bytes (snd r))
  | STryExact k => r <- FbGen.try_read_exact SIZE chk (repeat 221 (N.to_nat k)) ;;
                   ret ((match fst r with None => 0 | Some _ => 1 end) :: enc_bytes (snd r))
  | SAll => l <- FbGen.read_all SIZE chk ;; ret (enc_bytes l)
  | SNested body some =>
      o <- FbGen.try_parse SIZE chk
             (log <- (fix go (l : list rstep) : M fb (list Z) :=
                        match l with
                        | [] => ret []
                        | x :: t => a <- run_step_src x ;; b <- go t ;; ret (a ++ b)
                        end) body ;;
              ret (if some then Some log else None)) ;;
      ret (match o with None => [0] | Some log => 1 :: log end)
  end.
Fixpoint run_steps_src (l : list rstep) : M fb (list Z) :=
  match l with
  | [] => ret []
  | x :: t => a <- run_step_src x ;; b <- run_steps_src t ;; ret (a ++ b)
  end.
Definition closure_src (body : list rstep) (some : bool) : M fb (option (list Z)) :=
  log <- run_steps_src body ;; ret (if some then Some log else None).

Definition agrees {A} (m1 m2 : M fb A) : Prop := forall s, Inv SIZE s -> m1 s = m2 s.

Lemma agrees_bind2 (m1 m2 k1 k2 : M fb (list Z)) (f : list Z -> list Z -> list Z) :
  agrees m1 m2 -> reading SIZE m2 -> agrees k1 k2 ->
  agrees (a <- m1 ;; b <- k1 ;; ret (f a b)) (a <- m2 ;; b <- k2 ;; ret (f a b)).
Proof.
  intros H1 R2 H3 s HI. unfold bind at 1 3. rewrite (H1 s HI).
  specialize (R2 s HI). unfold wp in R2. destruct (m2 s) as [a s1|s1]; [|reflexivity].
  unfold bind. rewrite (H3 s1 (proj1 R2)). reflexivity.
Qed.

Lemma run_step_src_eq : forall st, agrees (run_step_src st) (run_step chk st).
Proof.
  induction st as [| |n|n|k|k| |body some IHb] using rstep_ind2; intros s HI; cbn [run_step_src run_step].
  - unfold bind. rewrite (GenEq.Fb_read_byte.gen_eq SIZE chk s HI). reflexivity.
  - unfold bind. rewrite (GenEq.Fb_try_read_byte.gen_eq SIZE chk s HI). reflexivity.
  - unfold bind. rewrite (GenEq.Fb_read_bytes.gen_eq SIZE chk _ s HI). reflexivity.
  - unfold bind. rewrite (GenEq.Fb_try_read_bytes.gen_eq SIZE chk _ s HI). reflexivity.
  - unfold bind. rewrite (GenEq.Fb_read_and_copy_bytes.gen_eq SIZE chk _ s HI). reflexivity.
  - unfold bind. rewrite (GenEq.Fb_try_read_exact.gen_eq SIZE chk _ s HI). reflexivity.
  - unfold bind. rewrite (GenEq.Fb_read_all.gen_eq SIZE chk s HI). reflexivity.
  - assert (Hgo : agrees ((fix go (l : list rstep) : M fb (list Z) :=
                        match l with
                        | [] => ret []
                        | x :: t => a <- run_step_src x ;; b <- go t ;; ret (a ++ b)
                        end) body)
                      ((fix go (l : list rstep) : M fb (list Z) :=
                        match l with
                        | [] => ret []
                        | x :: t => a <- run_step chk x ;; b <- go t ;; ret (a ++ b)
                        end) body)).
    { induction IHb as [|x t Hx _ IHt]; [intros s0 _; reflexivity|].
      apply (agrees_bind2 _ _ _ _ (@app Z)); [exact Hx|apply run_step_reading|exact IHt]. }
    match type of Hgo with agrees ?a ?b => set (G1 := a) in *; set (G2 := b) in * end.
    unfold bind. rewrite (GenEq.Fb_try_parse.gen_eq SIZE chk _ _ s HI).
    rewrite !try_parse_spec. rewrite (Hgo s HI). reflexivity.
Qed.

Lemma run_steps_src_eq : forall body, agrees (run_steps_src body) (run_steps chk body).
Proof.
  induction body as [|x t IHt]; [intros s _; reflexivity|].
  cbn [run_steps_src run_steps]. apply (agrees_bind2 _ _ _ _ (@app Z)); [apply run_step_src_eq|apply run_step_reading|exact IHt].
Qed.

Lemma closure_src_eq body some : agrees (closure_src body some) (closure chk body some).
Proof. intros s HI. unfold closure_src, closure, bind. rewrite (run_steps_src_eq body s HI). reflexivity. Qed.

(* a closure that gives up leaves the WHOLE state as it was, however much it read and however deeply it nested — over the
   try_parse and the reading methods that are in the tree now *)
Theorem c11_script_source : forall body some s, Inv SIZE s ->
  match FbGen.try_parse SIZE chk (closure_src body some) s with
  | Val None s' => some = false /\ s' = s
  | Val (Some _) s' => some = true /\ Inv SIZE s' /\ mem s' = mem s /\
        exists k, 0 <= k <= len_ s /\ unread s' = skipn (Z.to_nat k) (unread s) /\ len_ s' = len_ s - k
  | Panic s' => Inv SIZE s' /\ mem s' = mem s /\ exists k, unread s' = skipn (Z.to_nat k) (unread s)
  end.
Proof.
  intros body some s HI.
  rewrite (GenEq.Fb_try_parse.gen_eq SIZE chk _ _ s HI).
  replace (try_parse (closure_src body some) s) with (try_parse (closure chk body some) s)
    by (rewrite !try_parse_spec, (closure_src_eq body some s HI); reflexivity).
  pose proof (try_parse_script_spec SIZE chk body some s HI) as H.
  destruct (try_parse (closure chk body some) s) as [[v|] s'|s'].
  - destruct H as (H1 & I' & M' & k & Hk & U & L & _). split; [exact H1|]. split; [exact I'|]. split; [exact M'|]. exists k. auto.
  - exact H.
  - destruct H as (I' & M' & k & Hk & U & _). split; [exact I'|]. split; [exact M'|]. exists k. exact U.
Qed.
End S.

(* non-vacuity: a closure reads three bytes through two nesting levels, then gives up *)
Example c11_source_ex :
  let s := {| mem := [97; 98; 99; 100]; read_index := 1; write_index := 4 |} in
  FbGen.try_parse 4 true (closure_src 4 true [SByte; SNested [SBytes 2] true] false) s = Val None s.
Proof. vm_compute. reflexivity. Qed.

Print Assumptions c11_script_source.
Definition gen_eq := (c11_try_parse_source, c11_script_source).
