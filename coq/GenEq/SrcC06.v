(* GenEq/SrcC06.v — C06 restated about FixedBuf::read_frame as REGENERATED from /repo's current source: every completed call of
   the loop that is in the tree now is a run of the abstract loop whose only state is (unread bytes, reader state) — which is what
   makes "call it again" continue as if the failure had not happened (Props/C06.v: c06_faults_invisible is about that abstract loop). *)
From FB Require Import Sem.Base Sem.Lemmas Model.Fb Spec.Api Spec.Frames Spec.Retry
  Facets.Fb Facets.Fb2 Facets.Rf Facets.RfInv Facets.RfRefine Facets.C06.
From FB Require Gen.FbGen.
From FB Require Import GenEq.RfSource.
Open Scope Z_scope.

Theorem c06_call_runs_source : forall SIZE chk RS (R : Reader RS) (AR : AReader RS) df,
  implements R AR -> (forall u, zlen u <= SIZE -> df_in_bounds df u) ->
  forall fuel s rs r s' rs', Inv2 SIZE s ->
  FbGen.read_frame SIZE chk R fuel df (s, rs) = Val (Done r) (s', rs') ->
  runs (abody SIZE AR df) (unread s, rs) r (unread s', rs') /\ Inv2 SIZE s'.
Proof.
  intros SIZE chk RS R AR df HR Hdf fuel s rs r s' rs' HI.
  rewrite (read_frame_source_eq SIZE chk _ R df (implements_sane R _ HR) Hdf fuel (s, rs) (proj1 HI)).
  exact (call_runs SIZE chk R AR df HR Hdf fuel s rs r s' rs' HI).
Qed.

Theorem c06_panic_source : forall SIZE chk RS (R : Reader RS) (AR : AReader RS) df,
  implements R AR -> (forall u, zlen u <= SIZE -> df_in_bounds df u) ->
  forall fuel s rs s' rs', Inv2 SIZE s -> FbGen.read_frame SIZE chk R fuel df (s, rs) = Panic (s', rs') ->
  Inv2 SIZE s' /\ exists u', aread_frame SIZE AR df fuel (unread s, rs) = Panic (u', rs') /\ unread s' = u'.
Proof.
  intros SIZE chk RS R AR df HR Hdf fuel s rs s' rs' HI.
  rewrite (read_frame_source_eq SIZE chk _ R df (implements_sane R _ HR) Hdf fuel (s, rs) (proj1 HI)).
  exact (call_panics SIZE chk R AR df HR Hdf fuel s rs s' rs' HI).
Qed.

Print Assumptions c06_call_runs_source.
Definition gen_eq := (c06_call_runs_source, c06_panic_source).
