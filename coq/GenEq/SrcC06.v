(* GenEq/SrcC06.v — C06 restated about FixedBuf::read_frame as REGENERATED from /repo's current source: every completed call of
   the loop that is in the tree now is a run of the abstract loop whose only state is (unread bytes, reader state) — which is what
   makes "call it again" continue as if the failure had not happened (Props/C06.v: c06_faults_invisible is about that abstract loop). *)
From FB Require Import Sem.Base Sem.Lemmas Model.Fb Spec.Api Spec.Frames Spec.Retry
  Facets.Fb Facets.Fb2 Facets.Rf Facets.RfInv Facets.RfRefine Facets.C06 Facets.C06Retry.
From FB Require Gen.FbGen.
From FB Require Import GenEq.RfSource.
Open Scope Z_scope.

Theorem c06_call_runs_source : forall SIZE chk RS (R : Reader RS) (AR : AReader RS) df,
  implements R AR -> (forall u, zlen u <= SIZE -> df_in_bounds df u) ->
  forall fuel s rs r s' rs', Inv2 SIZE s ->
  FbGen.read_frame SIZE chk R fuel df (s, rs) = Val (Done r) (s', rs') ->
  runs (abody SIZE AR df) (unread s, rs) r (unread s', rs') /\ Inv2 SIZE s'.
Proof.
  intros SIZE chk RS R AR df HR Hdf fuel s rs r s' rs' HI.
  rewrite (read_frame_source_eq SIZE chk _ R df (implements_sane R _ HR) Hdf fuel (s, rs) (proj1 HI)).
  exact (call_runs SIZE chk R AR df HR Hdf fuel s rs r s' rs' HI).
Qed.

Theorem c06_panic_source : forall SIZE chk RS (R : Reader RS) (AR : AReader RS) df,
  implements R AR -> (forall u, zlen u <= SIZE -> df_in_bounds df u) ->
  forall fuel s rs s' rs', Inv2 SIZE s -> FbGen.read_frame SIZE chk R fuel df (s, rs) = Panic (s', rs') ->
  Inv2 SIZE s' /\ exists u', aread_frame SIZE AR df fuel (unread s, rs) = Panic (u', rs') /\ unread s' = u'.
Proof.
  intros SIZE chk RS R AR df HR Hdf fuel s rs s' rs' HI.
  rewrite (read_frame_source_eq SIZE chk _ R df (implements_sane R _ HR) Hdf fuel (s, rs) (proj1 HI)).
  exact (call_panics SIZE chk R AR df HR Hdf fuel s rs s' rs' HI).
Qed.

(* the retrying caller over the read_frame that is in the tree now *)
Lemma retry_source_eq : forall SIZE chk (R : Reader fstream) df,
  implements R fstream_ar -> (forall u, zlen u <= SIZE -> df_in_bounds df u) ->
  forall fuel tries s st, Inv2 SIZE s ->
  retry_with (FbGen.read_frame SIZE chk R fuel df) tries (s, st) = retry chk R df fuel tries (s, st).
Proof.
  intros SIZE chk R df HR Hdf fuel. induction tries as [|t IH]; intros s st HI; [reflexivity|].
  unfold retry in *. cbn [retry_with].
  rewrite (read_frame_source_eq SIZE chk _ R df (implements_sane R _ HR) Hdf fuel (s, st) (proj1 HI)).
  destruct (read_frame chk R fuel df (s, st)) as [[r1|] [s1 st1]|w1] eqn:E; [|reflexivity|reflexivity].
  destruct r1 as [p| |k]; [reflexivity|reflexivity|].
  destruct (transient k); [|reflexivity].
  apply IH. exact (proj2 (call_runs SIZE chk R fstream_ar df HR Hdf fuel s st (FErr k) s1 st1 HI E)).
Qed.
Theorem c06_retrying_caller_source : forall SIZE chk (R : Reader fstream) df,
  implements R fstream_ar -> (forall u, zlen u <= SIZE -> df_in_bounds df u) ->
  forall fuel tries s st r s' st', Inv2 SIZE s -> all_transient st ->
  retry_with (FbGen.read_frame SIZE chk R fuel df) tries (s, st) = Val (Done r) (s', st') ->
  runs (abody SIZE fstream_ar df) (clean (unread s, st)) r (clean (unread s', st')) /\ Inv2 SIZE s'.
Proof.
  intros SIZE chk R df HR Hdf fuel tries s st r s' st' HI Ht. rewrite (retry_source_eq SIZE chk R df HR Hdf fuel tries s st HI).
  exact (retrying_caller_sees_no_faults SIZE chk R HR df Hdf fuel tries s st r s' st' HI Ht).
Qed.

Print Assumptions c06_call_runs_source.
Definition gen_eq := (c06_call_runs_source, c06_panic_source, c06_retrying_caller_source).
