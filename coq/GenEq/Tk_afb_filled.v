(* GenEq/Tk_afb_filled.v — tie T1: the definition regenerated from /repo (Gen/TokioGen.v, untracked, rebuilt on every run by rs2v + vlib/translate.py)
   equals the model definition the theorems are about. *)
From FB Require Import Sem.Base Model.Fb GenEq.Tac.
From FB Require Gen.TokioGen.
Open Scope Z_scope.

Lemma gen_eq : forall chk SIZE m, TokioGen.afb_filled chk SIZE m = Fb.filled SIZE m.
Proof. gen_eq. Qed.
