(* GenEq/Fb_default.v — tie T1: the definition regenerated from /repo (Gen/FbGen.v, untracked, rebuilt on every run by rs2v + vlib/translate.py)
   equals the model definition the theorems are about. *)
From FB Require Import Sem.Base Model.Fb GenEq.Tac.
From FB Require Gen.FbGen.
Open Scope Z_scope.

Lemma gen_eq : forall SIZE chk, FbGen.default SIZE chk = Fb.default SIZE.
Proof. gen_eq. Qed.
