(* GenEq/RfSource.v — FixedBuf::read_frame as REGENERATED from /repo's current source equals the model's loop from every state that
   satisfies the buffer invariant (the translation equality is about one pass of the loop body; the invariant is carried through
   the loop by Facets/RfInv.v).  Used by the source-level statements of C02, C06, C07 and C12. *)
From FB Require Import Sem.Base Sem.Lemmas Model.Fb Spec.Api Facets.Fb Facets.Fb2 Facets.Rf Facets.RfInv.
From FB Require Gen.FbGen GenEq.Fb_read_frame.
Open Scope Z_scope.

(* two loop bodies that agree on the states satisfying an invariant the second one keeps give the same loop from such a state *)
Lemma loop_fuel_ext_inv {S R} (I : S -> Prop) (b1 b2 : M S (option R)) :
  (forall w, I w -> b1 w = b2 w) -> (forall w v w', I w -> b2 w = Val v w' -> I w') ->
  forall fuel w, I w -> loop_fuel fuel b1 w = loop_fuel fuel b2 w.
Proof.
  intros He Hk. induction fuel as [|f IH]; intros w Hw; [reflexivity|].
  cbn [loop_fuel]. unfold bind. rewrite (He w Hw). destruct (b2 w) as [[v|] w'|w'] eqn:E; try reflexivity.
  apply IH. exact (Hk w None w' Hw E).
Qed.

Lemma read_frame_source_eq SIZE chk RS (R : Reader RS) df : sane R -> (forall u, zlen u <= SIZE -> df_in_bounds df u) ->
  forall fuel w, Inv SIZE (fst w) -> FbGen.read_frame SIZE chk R fuel df w = Fb.read_frame chk R fuel df w.
Proof.
  intros HR Hdf fuel w HI. unfold FbGen.read_frame, Fb.read_frame.
  apply (loop_fuel_ext_inv (fun w => Inv SIZE (fst w))); [| |exact HI].
  - intros w0 H0. exact (GenEq.Fb_read_frame.gen_eq SIZE chk RS R df w0 H0).
  - intros [s rs] v [s' rs'] H0 E. cbn [fst] in *.
    apply (read_frame_body_inv SIZE chk R df HR s rs v s' rs' H0); [|exact E].
    apply Hdf. rewrite (zlen_unread SIZE s H0). unfold len_. destruct H0 as (H1&H2&H3&H4&H5). lia.
Qed.

Print Assumptions read_frame_source_eq.
Definition gen_eq := read_frame_source_eq.
