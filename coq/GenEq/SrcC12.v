(* GenEq/SrcC12.v — C12 restated about FixedBuf::read_frame and copy_once_from as REGENERATED from /repo's current source:
   for ANY reader (no contract assumed: it may lie, scribble, fail or panic). *)
From FB Require Import Sem.Base Sem.Lemmas Model.Fb Spec.Api Facets.Fb Facets.Fb2 Facets.Rf Facets.RfInv Facets.C12.
From FB Require Gen.FbGen GenEq.Fb_read_frame GenEq.Fb_copy_once_from.
From FB Require Import GenEq.RfSource.
Open Scope Z_scope.

(* a buffered complete frame, or buffered data the deframer rejects, is answered on the first pass of the loop that is in the tree
   now, and the reader's state comes back untouched: the reader was not called *)
Theorem c12_no_call_when_decided_source : forall SIZE chk RS (R : Reader RS) df,
  (forall u, zlen u <= SIZE -> df_in_bounds df u) ->
  forall fuel s rs, Inv SIZE s -> 0 < len_ s ->
  match df (unread s) with
  | DFrame a b n => FbGen.read_frame SIZE chk R (S fuel) df (s, rs) = Val (Done (FFrame (slice (unread s) a b))) (after_read s n, rs)
  | DErr => FbGen.read_frame SIZE chk R (S fuel) df (s, rs) = Val (Done (FErr InvalidData)) (s, rs)
  | _ => True
  end.
Proof.
  intros SIZE chk RS R df Hdf fuel s rs HI Hl. unfold FbGen.read_frame. rewrite loop_fuel_S.
  rewrite (GenEq.Fb_read_frame.gen_eq SIZE chk RS R df (s, rs) HI).
  rewrite (read_frame_body_spec SIZE chk R df s rs HI (Hdf _ (unread_le SIZE s HI))).
  unfold body_spec. replace (len_ s =? 0) with false by lia.
  destruct (df (unread s)); auto.
Qed.

(* copy_once_from: one reader call on exactly the free tail when there is one, none when the buffer is full to the end; exactly the
   reported count is committed *)
Theorem c12_copy_once_source : forall SIZE chk RS (R : Reader RS) s rs, Inv SIZE s ->
  FbGen.copy_once_from SIZE chk R (s, rs) =
  if wlen SIZE s =? 0 then Val (Err InvalidData) (s, rs) else
  match rd R rs (offered SIZE s) with
  | (ROk d' n, rs') => match wrote chk n (after_fill SIZE s d') with
                       | Val _ s' => Val (Ok n) (s', rs')
                       | Panic s' => Panic (s', rs')
                       end
  | (RErr k, rs') => Val (Err k) (s, rs')
  | (RPanic, rs') => Panic (s, rs')
  end.
Proof. intros SIZE chk RS R s rs HI. rewrite (GenEq.Fb_copy_once_from.gen_eq SIZE chk RS R (s, rs) HI). exact (copy_once_from_any SIZE chk R s rs HI). Qed.

Theorem c12_copy_once_commit_source : forall SIZE chk RS (R : Reader RS) s rs d' n rs', Inv SIZE s -> 0 < wlen SIZE s ->
  rd R rs (offered SIZE s) = (ROk d' n, rs') -> 0 <= n <= wlen SIZE s ->
  exists s', FbGen.copy_once_from SIZE chk R (s, rs) = Val (Ok n) (s', rs') /\ Inv SIZE s' /\
    unread s' = unread s ++ firstn (Z.to_nat n) (fit d' (offered SIZE s)) /\ zlen (offered SIZE s) = wlen SIZE s.
Proof.
  intros SIZE chk RS R s rs d' n rs' HI Hw Hr Hn. rewrite (GenEq.Fb_copy_once_from.gen_eq SIZE chk RS R (s, rs) HI).
  exact (copy_once_commit SIZE chk R s rs d' n rs' HI Hw Hr Hn).
Qed.

(* every destination the read_frame that is in the tree now offers a reader is non-empty and no larger than the buffer's free space
   (SIZE - len at the start of the call); for readers whose counts are within what they were offered *)
Lemma log_reader_sane {RS} (R : Reader RS) : sane R -> sane (log_reader R).
Proof.
  intros H [rs log] dest d' n [rs' log'] E. cbn [rd log_reader fst snd] in E.
  destruct (rd R rs dest) as [a rs1] eqn:Er. inversion E; subst. exact (H rs dest d' n _ Er).
Qed.
Theorem c12_caps_source : forall SIZE chk RS (R : Reader RS) df,
  (forall u, zlen u <= SIZE -> df_in_bounds df u) -> sane R ->
  forall fuel len0 s rs log, Inv SIZE s -> len0 <= len_ s ->
  match FbGen.read_frame SIZE chk (log_reader R) fuel df (s, (rs, log)) with
  | Val _ (_, (_, log')) | Panic (_, (_, log')) => caps_ok SIZE len0 log log'
  end.
Proof.
  intros SIZE chk RS R df Hdf HR fuel len0 s rs log HI Hl.
  rewrite (read_frame_source_eq SIZE chk _ (log_reader R) df (log_reader_sane R HR) Hdf fuel (s, (rs, log)) HI).
  apply (caps_in_range SIZE chk R df Hdf); [|exact HI|exact Hl].
  intros rs0 dest d' n rs' E. exact (proj1 (HR rs0 dest d' n rs' E)).
Qed.

Print Assumptions c12_no_call_when_decided_source.
Print Assumptions c12_copy_once_source.
Definition gen_eq := (c12_no_call_when_decided_source, c12_caps_source, c12_copy_once_source, c12_copy_once_commit_source).
