(* GenEq/Tk_arf_post.v — tie T1: the definition regenerated from /repo (Gen/TokioGen.v, untracked, rebuilt on every run by rs2v + vlib/translate.py)
   equals the model definition the theorems are about. *)
From FB Require Import Sem.Base Model.Fb Model.TokioAsync GenEq.Tac.
From FB Require Gen.TokioGen.
Open Scope Z_scope.

Lemma gen_eq : forall chk q s, TokioGen.arf_post chk q s = TokioAsync.arf_post chk q s.
Proof. gen_eq. Qed.
