(* GenEq/Tk_aco_pre.v — tie T1: the definition regenerated from /repo (Gen/TokioGen.v, untracked, rebuilt on every run by rs2v + vlib/translate.py)
   equals the model definition the theorems are about. *)
From FB Require Import Sem.Base Model.Fb Model.TokioAsync GenEq.Tac.
From FB Require Gen.TokioGen.
Open Scope Z_scope.

Lemma gen_eq : forall chk s, TokioGen.aco_pre chk s = TokioAsync.aco_pre s.
Proof. gen_eq. Qed.
