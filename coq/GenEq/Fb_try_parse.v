(* GenEq/Fb_try_parse.v — tie T1: the definition regenerated from /repo (Gen/FbGen.v, untracked, rebuilt on every run by rs2v + vlib/translate.py)
   equals the model definition the theorems are about. *)
From FB Require Import Sem.Base Model.Fb Facets.Fb GenEq.Tac.
From FB Require Gen.FbGen.
Open Scope Z_scope.

Lemma gen_eq : forall SIZE chk R (f : M fb (option R)) s, Inv SIZE s -> FbGen.try_parse SIZE chk f s = Fb.try_parse f s.
Proof. gen_eq. Qed.
