(* GenEq/SrcC17.v — C17 restated about AsyncFixedBuf's AsyncRead/AsyncWrite methods as REGENERATED from /repo's current source. *)
From FB Require Import Sem.Base Sem.Lemmas Sem.ReadBuf Model.Fb Model.Tokio Facets.Fb Facets.Tokio.
From FB Require Gen.TokioGen GenEq.Tk_afb_poll_read GenEq.Tk_afb_poll_write GenEq.Tk_afb_poll_flush GenEq.Tk_afb_poll_shutdown.
Open Scope Z_scope.

Theorem c17_poll_read_source : forall SIZE chk s b, Inv SIZE s -> rb_wf b -> zlen (rb_buf b) <= usize_max ->
  let m := Z.min (rb_remaining b) (len_ s) in
  exists b', TokioGen.afb_poll_read chk b s = Val (PReady (Ok tt), b') (if m =? 0 then s else after_read s m) /\
    rb_filled_bytes b' = rb_filled_bytes b ++ firstn (Z.to_nat m) (unread s) /\
    rb_filled b' = rb_filled b + m /\ zlen (rb_buf b') = zlen (rb_buf b) /\ rb_wf b'.
Proof. intros SIZE chk s b HI Hb Hl. rewrite (GenEq.Tk_afb_poll_read.gen_eq chk b s Hb). exact (afb_poll_read_spec SIZE chk s b HI Hb Hl). Qed.

Theorem c17_poll_write_source : forall SIZE chk s d, Inv SIZE s ->
  TokioGen.afb_poll_write chk d s = if wlen SIZE s <? zlen d then Val (PReady (Err InvalidData)) s else Val (PReady (Ok (zlen d))) (after_write s d).
Proof. intros SIZE chk s d HI. rewrite GenEq.Tk_afb_poll_write.gen_eq. exact (afb_poll_write_spec SIZE chk s d HI). Qed.

Theorem c17_flush_shutdown_source : forall chk s,
  TokioGen.afb_poll_flush chk s = Val (PReady (Ok tt)) s /\ TokioGen.afb_poll_shutdown chk s = Val (PReady (Ok tt)) s.
Proof. intros chk s. rewrite GenEq.Tk_afb_poll_flush.gen_eq, GenEq.Tk_afb_poll_shutdown.gen_eq. exact (afb_flush_shutdown s). Qed.

Print Assumptions c17_poll_read_source.
Definition gen_eq := (c17_poll_read_source, c17_poll_write_source, c17_flush_shutdown_source).
