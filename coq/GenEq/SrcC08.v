(* GenEq/SrcC08.v — C08 restated about ReadWriteChain::read as REGENERATED from /repo's current source. *)
From FB Require Import Sem.Base Sem.Lemmas Model.Adapters Spec.StdAdapters Facets.Adapters.
From FB Require Gen.AdaptersGen GenEq.Ad_chain_read.
Open Scope Z_scope.

(* the chain that is in the tree now is std's Chain, call for call, for every pair of inner readers and every destination *)
Theorem c08_sim_source : forall R1S RWS (R1 : Reader R1S) (R2 : Reader RWS) buf w,
  map_res abs_chain (AdaptersGen.chain_read R1 R2 buf w) = std_chain_read R1 R2 buf (abs_chain w).
Proof. intros. rewrite GenEq.Ad_chain_read.gen_eq. apply chain_sim. Qed.

Print Assumptions c08_sim_source.
Definition gen_eq := c08_sim_source.
