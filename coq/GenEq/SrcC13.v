(* GenEq/SrcC13.v — C13 restated about the write-side methods of the four adapters as REGENERATED from /repo's current source:
   each is exactly one inner call of the same kind with the same bytes, its result returned unchanged, the read state untouched. *)
From FB Require Import Sem.Base Sem.ReadBuf Model.Adapters Model.Tokio Facets.Adapters Facets.TokioAdapters.
From FB Require Gen.AdaptersGen Gen.TokioAdaptersGen.
From FB Require GenEq.Ad_chain_write GenEq.Ad_chain_flush GenEq.Ad_take_write GenEq.Ad_take_flush GenEq.Ta_achain_poll_write GenEq.Ta_achain_poll_flush GenEq.Ta_achain_poll_shutdown GenEq.Ta_atake_poll_write GenEq.Ta_atake_poll_flush GenEq.Ta_atake_poll_shutdown.
Open Scope Z_scope.

Theorem c13_chain_write_source : forall R1S RWS (W2 : Writer RWS) buf (w : @cw R1S RWS),
  AdaptersGen.chain_write (R1S := R1S) W2 buf w =
  match wr W2 (c_rw w) buf with
  | (WOk n, r') => Val (Ok n) {| c_has := c_has w; c_first := c_first w; c_rw := r' |}
  | (WErr k, r') => Val (Err k) {| c_has := c_has w; c_first := c_first w; c_rw := r' |}
  | (WPanic, r') => Panic {| c_has := c_has w; c_first := c_first w; c_rw := r' |}
  end.
Proof. intros. rewrite GenEq.Ad_chain_write.gen_eq. apply chain_write_forward. Qed.

Theorem c13_chain_flush_source : forall R1S RWS (W2 : Writer RWS) (w : @cw R1S RWS),
  AdaptersGen.chain_flush (R1S := R1S) W2 w =
  match fl W2 (c_rw w) with
  | (FOk, r') => Val (Ok tt) {| c_has := c_has w; c_first := c_first w; c_rw := r' |}
  | (FErr k, r') => Val (Err k) {| c_has := c_has w; c_first := c_first w; c_rw := r' |}
  | (FPanic, r') => Panic {| c_has := c_has w; c_first := c_first w; c_rw := r' |}
  end.
Proof. intros. rewrite GenEq.Ad_chain_flush.gen_eq. apply chain_flush_forward. Qed.

Theorem c13_take_write_source : forall RWS (W2 : Writer RWS) buf (w : @tw RWS),
  AdaptersGen.take_write W2 buf w =
  match wr W2 (t_rw w) buf with
  | (WOk n, r') => Val (Ok n) {| t_rem := t_rem w; t_rw := r' |}
  | (WErr k, r') => Val (Err k) {| t_rem := t_rem w; t_rw := r' |}
  | (WPanic, r') => Panic {| t_rem := t_rem w; t_rw := r' |}
  end.
Proof. intros. rewrite GenEq.Ad_take_write.gen_eq. apply take_write_forward. Qed.

Theorem c13_take_flush_source : forall RWS (W2 : Writer RWS) (w : @tw RWS),
  AdaptersGen.take_flush W2 w =
  match fl W2 (t_rw w) with
  | (FOk, r') => Val (Ok tt) {| t_rem := t_rem w; t_rw := r' |}
  | (FErr k, r') => Val (Err k) {| t_rem := t_rem w; t_rw := r' |}
  | (FPanic, r') => Panic {| t_rem := t_rem w; t_rw := r' |}
  end.
Proof. intros. rewrite GenEq.Ad_take_flush.gen_eq. apply take_flush_forward. Qed.

Theorem c13_achain_write_source : forall R1S RWS (W2 : AsyncWriter RWS) d (w : @acw R1S RWS),
  TokioAdaptersGen.achain_poll_write (R1S := R1S) W2 d w =
  match pwr W2 (ac_rw w) d with
  | (AWOk n, r') => Val (PReady (Ok n)) {| ac_has := ac_has w; ac_first := ac_first w; ac_rw := r' |}
  | (AWErr k, r') => Val (PReady (Err k)) {| ac_has := ac_has w; ac_first := ac_first w; ac_rw := r' |}
  | (AWPending, r') => Val PPending {| ac_has := ac_has w; ac_first := ac_first w; ac_rw := r' |}
  | (AWPanic, r') => Panic {| ac_has := ac_has w; ac_first := ac_first w; ac_rw := r' |}
  end.
Proof. intros. rewrite GenEq.Ta_achain_poll_write.gen_eq. apply achain_write_forward. Qed.

Theorem c13_achain_flush_source : forall R1S RWS (W2 : AsyncWriter RWS) (w : @acw R1S RWS),
  TokioAdaptersGen.achain_poll_flush (R1S := R1S) W2 w =
  match pfl W2 (ac_rw w) with
  | (AFOk, r') => Val (PReady (Ok tt)) {| ac_has := ac_has w; ac_first := ac_first w; ac_rw := r' |}
  | (AFErr k, r') => Val (PReady (Err k)) {| ac_has := ac_has w; ac_first := ac_first w; ac_rw := r' |}
  | (AFPending, r') => Val PPending {| ac_has := ac_has w; ac_first := ac_first w; ac_rw := r' |}
  | (AFPanic, r') => Panic {| ac_has := ac_has w; ac_first := ac_first w; ac_rw := r' |}
  end.
Proof. intros. rewrite GenEq.Ta_achain_poll_flush.gen_eq. apply achain_flush_forward. Qed.

Theorem c13_achain_shutdown_source : forall R1S RWS (W2 : AsyncWriter RWS) (w : @acw R1S RWS),
  TokioAdaptersGen.achain_poll_shutdown (R1S := R1S) W2 w =
  match psh W2 (ac_rw w) with
  | (AFOk, r') => Val (PReady (Ok tt)) {| ac_has := ac_has w; ac_first := ac_first w; ac_rw := r' |}
  | (AFErr k, r') => Val (PReady (Err k)) {| ac_has := ac_has w; ac_first := ac_first w; ac_rw := r' |}
  | (AFPending, r') => Val PPending {| ac_has := ac_has w; ac_first := ac_first w; ac_rw := r' |}
  | (AFPanic, r') => Panic {| ac_has := ac_has w; ac_first := ac_first w; ac_rw := r' |}
  end.
Proof. intros. rewrite GenEq.Ta_achain_poll_shutdown.gen_eq. apply achain_shutdown_forward. Qed.

Theorem c13_atake_write_source : forall RWS (W2 : AsyncWriter RWS) d (w : @atw RWS),
  TokioAdaptersGen.atake_poll_write W2 d w =
  match pwr W2 (at_rw w) d with
  | (AWOk n, r') => Val (PReady (Ok n)) {| at_rem := at_rem w; at_rw := r' |}
  | (AWErr k, r') => Val (PReady (Err k)) {| at_rem := at_rem w; at_rw := r' |}
  | (AWPending, r') => Val PPending {| at_rem := at_rem w; at_rw := r' |}
  | (AWPanic, r') => Panic {| at_rem := at_rem w; at_rw := r' |}
  end.
Proof. intros. rewrite GenEq.Ta_atake_poll_write.gen_eq. apply atake_write_forward. Qed.

Theorem c13_atake_flush_source : forall RWS (W2 : AsyncWriter RWS) (w : @atw RWS),
  TokioAdaptersGen.atake_poll_flush W2 w =
  match pfl W2 (at_rw w) with
  | (AFOk, r') => Val (PReady (Ok tt)) {| at_rem := at_rem w; at_rw := r' |}
  | (AFErr k, r') => Val (PReady (Err k)) {| at_rem := at_rem w; at_rw := r' |}
  | (AFPending, r') => Val PPending {| at_rem := at_rem w; at_rw := r' |}
  | (AFPanic, r') => Panic {| at_rem := at_rem w; at_rw := r' |}
  end.
Proof. intros. rewrite GenEq.Ta_atake_poll_flush.gen_eq. apply atake_flush_forward. Qed.

Theorem c13_atake_shutdown_source : forall RWS (W2 : AsyncWriter RWS) (w : @atw RWS),
  TokioAdaptersGen.atake_poll_shutdown W2 w =
  match psh W2 (at_rw w) with
  | (AFOk, r') => Val (PReady (Ok tt)) {| at_rem := at_rem w; at_rw := r' |}
  | (AFErr k, r') => Val (PReady (Err k)) {| at_rem := at_rem w; at_rw := r' |}
  | (AFPending, r') => Val PPending {| at_rem := at_rem w; at_rw := r' |}
  | (AFPanic, r') => Panic {| at_rem := at_rem w; at_rw := r' |}
  end.
Proof. intros. rewrite GenEq.Ta_atake_poll_shutdown.gen_eq. apply atake_shutdown_forward. Qed.

Print Assumptions c13_chain_write_source.
Definition gen_eq := (c13_chain_write_source, c13_chain_flush_source, c13_take_write_source, c13_take_flush_source, c13_achain_write_source, c13_achain_flush_source, c13_achain_shutdown_source, c13_atake_write_source, c13_atake_flush_source, c13_atake_shutdown_source).
