(* GenEq/Fb_read_frame.v — tie T1: the definition regenerated from /repo (Gen/FbGen.v, untracked, rebuilt on every run by rs2v + vlib/translate.py)
   equals the model definition the theorems are about. *)
From FB Require Import Sem.Base Model.Fb Facets.Fb GenEq.Tac.
From FB Require Gen.FbGen.
Open Scope Z_scope.

Lemma gen_eq : forall SIZE chk RS (R : Reader RS) df w, Inv SIZE (fst w) -> FbGen.read_frame_body SIZE chk R df w = Fb.read_frame_body chk R df w.
Proof. gen_eq. Qed.
