(* GenEq/Df_deframe_null.v — tie T1: the definition regenerated from /repo (Gen/DeframersGen.v, untracked, rebuilt on every run by rs2v + vlib/translate.py)
   equals the model definition the theorems are about. *)
From FB Require Import Sem.Base Model.Deframers GenEq.Tac.
From FB Require Gen.DeframersGen.
Open Scope Z_scope.

Lemma gen_eq : forall chk data u, DeframersGen.deframe_null chk data u = Deframers.deframe_null chk data u.
Proof. gen_eq. Qed.
