(* GenEq/SrcC07.v — C07's payload drain restated about the adapters and the FixedBuf Read impl as REGENERATED from /repo's current
   source: ReadWriteTake(ReadWriteChain(buffer, transport), n), with take_read, chain_read and io::Read::read all taken from
   Gen/AdaptersGen.v and Gen/FbGen.v, delivers exactly the first min(n, available) bytes of unread ++ unpulled for ANY schedule of
   destination lengths (0 allowed), and leaves the rest in order.  (The request loop around it is hand-modelled glue: the crate
   ships it only as a test; Props/C07.v, c07_request.) *)
From FB Require Import Sem.Base Sem.Lemmas Model.Fb Model.Adapters Model.Serve Spec.Api Spec.Frames
  Facets.Fb Facets.Fb2 Facets.Adapters Facets.C07 Facets.Streams.
From FB Require Gen.FbGen Gen.AdaptersGen GenEq.Fb_io_read GenEq.Ad_chain_read GenEq.Ad_take_read.
Open Scope Z_scope.

Section S.
Variable SIZE : Z.
Variable chk : bool.
Variable R : Reader stream_reader.
Hypothesis HR : implements R stream_ar.
Notation CW := (@cw fb stream_reader).

(* impl std::io::Read for FixedBuf as it is in the tree now, as the first half of a chain *)
Definition FBR_src : Reader fb := {| rd := fun s dest =>
  match FbGen.io_read SIZE chk dest s with
  | Val (Ok n, d') s' => (ROk d' n, s')
  | Val (Err k, _) s' => (RErr k, s')
  | Panic s' => (RPanic, s')
  end |}.
Definition CHR_src : Reader CW := {| rd := fun w dest =>
  match AdaptersGen.chain_read FBR_src R dest w with
  | Val (Ok n, d') w' => (ROk d' n, w')
  | Val (Err k, _) w' => (RErr k, w')
  | Panic w' => (RPanic, w')
  end |}.
(* the drain loop of Model/Serve.v over the regenerated take_read *)
Fixpoint drain_gen_src {S : Type} (Src : Reader S) (fuel : nat) (dests : list Z) (acc : list Z) (w : @tw S) : list Z * dstat * @tw S :=
  match fuel with
  | O => (acc, DrFuel, w)
  | S f =>
    let d := match dests with [] => 8 | x :: _ => x end in
    match AdaptersGen.take_read chk Src (repeat 221 (Z.to_nat d)) w with
    | Val (Ok n, dest') w' =>
        if (n =? 0) && negb (d =? 0) then (acc, DrOk, w') else drain_gen_src Src f (tl dests) (acc ++ firstn (Z.to_nat n) dest') w'
    | Val (Err k, _) w' => (acc, DrErr k, w')
    | Panic w' => (acc, DrPanic, w')
    end
  end.

Lemma drain_gen_src_eq {S : Type} (Src : Reader S) : forall fuel dests acc w,
  drain_gen_src Src fuel dests acc w = drain_gen chk Src fuel dests acc w.
Proof.
  induction fuel as [|f IH]; intros dests acc w; [reflexivity|].
  cbn [drain_gen_src drain_gen]. rewrite GenEq.Ad_take_read.gen_eq.
  destruct (take_read chk Src _ w) as [[[n|k] dest'] w'|w']; try reflexivity.
  destruct ((n =? 0) && negb (_ =? 0)); [reflexivity|apply IH].
Qed.

Lemma chain_read_first_ext {R1S RWS} (A B : Reader R1S) (R2 : Reader RWS) buf (w : @cw R1S RWS) :
  rd A (c_first w) buf = rd B (c_first w) buf -> chain_read A R2 buf w = chain_read B R2 buf w.
Proof.
  intros H. unfold chain_read, bind, get_reader_is_some, call_reader_read.
  destruct (c_has w); [rewrite H|]; reflexivity.
Qed.

(* the chain over the buffer that is in the tree now is a prefix source of unread ++ unpulled *)
Theorem chain_is_source_source : prefix_source CHR_src (rem_c) (ok_c SIZE).
Proof.
  intros w dest Hok.
  assert (E : rd CHR_src w dest = rd (CHR chk R) w dest).
  { cbn [rd CHR_src CHR]. rewrite GenEq.Ad_chain_read.gen_eq.
    rewrite (chain_read_first_ext FBR_src (FBR chk) R dest w); [reflexivity|].
    cbn [rd FBR_src FBR]. rewrite (GenEq.Fb_io_read.gen_eq SIZE chk dest (c_first w) (proj1 (proj1 Hok))). reflexivity. }
  rewrite E. exact (chain_is_source SIZE chk R HR w dest Hok).
Qed.

Theorem c07_drain_source : forall fuel dests n s ts,
  Inv2 SIZE s -> 0 <= n -> Forall (fun d => 0 <= d) dests ->
  let avail := unread s ++ sr_rest ts in
  let n' := Z.min n (zlen avail) in
  (length dests + Z.to_nat n' + 2 <= fuel)%nat ->
  exists tk, drain_gen_src CHR_src fuel dests [] (take_new (chain_new s ts) n) = (firstn (Z.to_nat n') avail, DrOk, tk) /\
    unread (c_first (t_rw tk)) ++ sr_rest (c_rw (t_rw tk)) = skipn (Z.to_nat n') avail /\ Inv2 SIZE (c_first (t_rw tk)).
Proof.
  intros fuel dests n s ts HI Hn Hd. cbv zeta. intros Hfuel. rewrite drain_gen_src_eq.
  destruct (drain_spec chk CHR_src rem_c (ok_c SIZE) chain_is_source_source fuel dests [] (take_new (chain_new s ts) n))
    as (w' & Hrun & Hrem & _ & Hok); cbn [take_new chain_new t_rw t_rem c_first c_rw c_has rem_c]; auto.
  - split; [exact HI|discriminate].
  - exists w'. cbn [app] in Hrun. split; [exact Hrun|]. split; [exact Hrem|apply Hok].
Qed.
End S.

Print Assumptions c07_drain_source.
Definition gen_eq := (chain_is_source_source, c07_drain_source).
