(* GenEq/Tac.v — the tactic that closes the equalities "definition regenerated from /repo = model definition".
   First by conversion (the translator emits the model's own shape, so on the pinned tree every equality is `reflexivity`);
   otherwise by symbolic execution of both sides on an abstract state: unfold everything down to the arithmetic and list
   primitives, split on every condition, and close the leaves by computation / linear arithmetic.  The fallback lets a
   rewrite that does not change behaviour (reordered reads, a renamed temporary, an equivalent comparison) keep the tie. *)
From Coq Require Import ZifyBool.
From FB Require Import Sem.Base Sem.Lemmas Model.Fb Model.Adapters.
Open Scope Z_scope.

Ltac gen_split1 :=
  match goal with
  | |- context [if ?c then _ else _] =>
      lazymatch c with
      | context [if _ then _ else _] => fail
      | context [match _ with _ => _ end] => fail
      | _ => destruct c eqn:?
      end
  | |- context [match ?x with _ => _ end] =>
      lazymatch x with
      | context [if _ then _ else _] => fail
      | context [match _ with _ => _ end] => fail
      | _ => destruct x eqn:?
      end
  end.

Ltac gen_leaf_n n :=
  lazymatch n with
  | O => fail
  | S ?m => solve [ reflexivity | exfalso; lia | lia | congruence | progress f_equal; gen_leaf_n m ]
  end.
Ltac gen_leaf := gen_leaf_n 6%nat.

Ltac gen_sym :=
  repeat match goal with
         | s : fb |- _ => destruct s
         | w : cw |- _ => destruct w
         | w : tw |- _ => destruct w
         | w : (_ * _)%type |- _ => destruct w
         end;
  cbv -[Z.add Z.sub Z.mul Z.leb Z.ltb Z.eqb Z.min Z.max Z.modulo Z.div Z.of_nat Z.to_nat Z.le Z.lt
        length firstn skipn app nth repeat usize_max wrap64 zlen slice splice fit andb negb orb
        for_range loop_fuel];
  repeat (once gen_split1; cbv beta iota zeta);
  gen_leaf.

Ltac gen_eq := intros; first [ reflexivity | timeout 120 gen_sym ].
