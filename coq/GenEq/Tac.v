(* GenEq/Tac.v — the tactic that closes the equalities "definition regenerated from /repo = model definition".
   First by conversion (the translator emits the model's own shape, so on the pinned tree every equality is `reflexivity`);
   otherwise by symbolic execution of both sides on an abstract state: unfold everything down to the arithmetic and list
   primitives, split on every condition, and close the leaves by computation / linear arithmetic.  The fallback lets a
   rewrite that does not change behaviour (reordered reads, a renamed temporary, an equivalent comparison) keep the tie. *)
From Coq Require Import ZifyBool.
From FB Require Import Sem.Base Sem.Lemmas Sem.ReadBuf Model.Fb Model.Adapters Facets.Fb.
Open Scope Z_scope.

(* for n in a..b with different (but pointwise equal) bodies *)
Lemma for_range_n_ext {S R} (b1 b2 : Z -> M S (option R)) : (forall i s, b1 i s = b2 i s) ->
  forall n i s, for_range_n n i b1 s = for_range_n n i b2 s.
Proof.
  intros H. induction n as [|n IH]; intros i s; [reflexivity|].
  cbn [for_range_n]. unfold bind. rewrite H. destruct (b2 i s) as [[v|] s'|s']; try reflexivity. apply IH.
Qed.
Lemma for_range_ext {S R} (b1 b2 : Z -> M S (option R)) lo hi s : (forall i s, b1 i s = b2 i s) ->
  for_range lo hi b1 s = for_range lo hi b2 s.
Proof. intros H. unfold for_range. apply for_range_n_ext. exact H. Qed.

(* linear arithmetic that also knows what the wrapping of release builds is *)
Ltac Zify.zify_post_hook ::= Z.div_mod_to_equations.
Ltac wrap_lia := unfold wrap64, usize_max in *; lia.

Ltac gen_split1 :=
  match goal with
  | |- context [if ?c then _ else _] =>
      lazymatch c with
      | context [if _ then _ else _] => fail
      | context [match _ with _ => _ end] => fail
      | _ => destruct c eqn:?
      end
  | |- context [match ?x with _ => _ end] =>
      lazymatch x with
      | context [if _ then _ else _] => fail
      | context [match _ with _ => _ end] => fail
      | _ => destruct x eqn:?
      end
  end.

Ltac gen_leaf_n n :=
  lazymatch n with
  | O => fail
  | S ?m => solve [ reflexivity | exfalso; lia | lia | congruence | exfalso; wrap_lia | wrap_lia | progress f_equal; gen_leaf_n m ]
  end.
Ltac gen_leaf := gen_leaf_n 6%nat.

(* when both orientations of a commutative operation occur, keep one: the two sides of an equality often differ only there,
   and the conditions / collaborator calls built from them must be recognised as the same before they are split on *)
Ltac norm_comm :=
  repeat match goal with
  | |- context [Z.add ?a ?b] => lazymatch goal with |- context [Z.add b a] => tryif constr_eq a b then fail else rewrite (Z.add_comm b a) end
  | |- context [Z.mul ?a ?b] => lazymatch goal with |- context [Z.mul b a] => tryif constr_eq a b then fail else rewrite (Z.mul_comm b a) end
  | |- context [Z.min ?a ?b] => lazymatch goal with |- context [Z.min b a] => tryif constr_eq a b then fail else rewrite (Z.min_comm b a) end
  | |- context [Z.max ?a ?b] => lazymatch goal with |- context [Z.max b a] => tryif constr_eq a b then fail else rewrite (Z.max_comm b a) end
  | |- context [Z.eqb ?a ?b] => lazymatch goal with |- context [Z.eqb b a] => tryif constr_eq a b then fail else rewrite (Z.eqb_sym b a) end
  | |- context [andb ?a ?b] => lazymatch goal with |- context [andb b a] => tryif constr_eq a b then fail else rewrite (Bool.andb_comm b a) end
  | |- context [orb ?a ?b] => lazymatch goal with |- context [orb b a] => tryif constr_eq a b then fail else rewrite (Bool.orb_comm b a) end
  end.

(* split on the next condition; a branch whose conditions are contradictory (with each other or with the invariant) is closed
   at once, so that the tree below it is never explored *)
(* an in-bounds splice keeps the length (zlen and splice stay opaque during the symbolic execution) *)
Ltac len_side := repeat first [rewrite zlen_fit | rewrite zlen_slice by lia]; lia.
Ltac norm_len :=
  repeat match goal with
  | |- context [zlen (splice ?l ?a ?d)] => rewrite (zlen_splice l d a) by len_side
  | H : context [zlen (splice ?l ?a ?d)] |- _ => rewrite (zlen_splice l d a) in H by len_side
  | |- context [zlen (fit ?n ?o)] => rewrite (zlen_fit n o)
  | H : context [zlen (fit ?n ?o)] |- _ => rewrite (zlen_fit n o) in H
  | |- context [zlen (slice ?l ?a ?b)] => rewrite (zlen_slice l a b) by lia
  | H : context [zlen (slice ?l ?a ?b)] |- _ => rewrite (zlen_slice l a b) in H by lia
  end.

Ltac gen_sym_core :=
  norm_comm;
  repeat (once gen_split1; try (exfalso; lia); cbv beta iota zeta; norm_len; norm_comm);
  gen_leaf.

(* two for-loops over the same range whose bodies differ syntactically: compare the bodies pointwise *)
Ltac for_ext :=
  repeat match goal with
  | |- context [for_range ?lo ?hi ?b1 ?s] =>
      match goal with
      | |- context [for_range lo hi ?b2 s] =>
          tryif constr_eq b1 b2 then fail else
            (replace (for_range lo hi b1 s) with (for_range lo hi b2 s)
               by (apply for_range_ext; intros; cbv beta; gen_sym_core))
      end
  end.

Ltac gen_sym :=
  (* the statement may assume the buffer invariant / a well-formed ReadBuf: make those facts available to lia *)
  repeat match goal with
         | H : Inv _ (fst ?w) |- _ => destruct w; cbn [fst snd] in H
         end;
  repeat match goal with
         | H : Inv _ ?s |- _ => destruct s; unfold Inv in H; cbn [mem read_index write_index] in H
         | H : rb_wf ?b |- _ => destruct b; unfold rb_wf in H; cbn [rb_buf rb_filled rb_init] in H
         end;
  repeat match goal with
         | s : fb |- _ => destruct s
         | w : cw |- _ => destruct w
         | w : tw |- _ => destruct w
         | w : (_ * _)%type |- _ => destruct w
         end;
  (* lengths are not negative (zlen stays opaque below) *)
  repeat match goal with
         | l : list Z |- _ => lazymatch goal with H : 0 <= zlen l |- _ => fail | _ => pose proof (zlen_nonneg l) end
         end;
  cbv -[Z.add Z.sub Z.mul Z.leb Z.ltb Z.eqb Z.min Z.max Z.modulo Z.div Z.of_nat Z.to_nat Z.le Z.lt
        length firstn skipn app nth repeat usize_max wrap64 zlen slice splice fit andb negb orb
        for_range loop_fuel];
  for_ext;
  gen_sym_core.

Ltac gen_eq := intros; first [ reflexivity | timeout 120 gen_sym ].
