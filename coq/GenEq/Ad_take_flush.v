(* GenEq/Ad_take_flush.v — tie T1: the definition regenerated from /repo (Gen/AdaptersGen.v, untracked, rebuilt on every run by rs2v + vlib/translate.py)
   equals the model definition the theorems are about. *)
From FB Require Import Sem.Base Model.Adapters GenEq.Tac.
From FB Require Gen.AdaptersGen.
Open Scope Z_scope.

Lemma gen_eq : forall RWS (W2 : Writer RWS) w, AdaptersGen.take_flush W2 w = Adapters.take_flush W2 w.
Proof. gen_eq. Qed.
