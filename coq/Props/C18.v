(* Props/C18.v — No heap allocation on any successful buffer, deframer or adapter operation.  PARTIAL, and said so:
   what is proved is a statement about the program text, re-extracted from /repo on every run (Gen/SourceFacts.v, by rs2v):
   (1) every call in every non-test function of the fixed-buffer crate is in the closed non-allocating table, or sits on an error
       path (argument of Err(..), map_err closure, From<..Error> impl), or the function is one of the String helpers the property excepts;
   (2) struct FixedBuf is [u8; SIZE] + two usize, inline, no pointer-typed field.
   What the allocator actually does at run time is not expressible in the model: the harness observes it (a counting
   #[global_allocator] bracketing every library call of the C01/C02/C08/C09 case families). *)
From Coq Require Import String List Bool.
Import ListNotations.
From FB Require Import Gen.SourceFacts Spec.AllocTable.
Open Scope string_scope.

Theorem c18_no_allocating_call : forallb fn_ok fn_calls = true.
Proof. vm_compute. reflexivity. Qed.

Theorem c18_layout : fixedbuf_fields = [("mem", "[u8 ; SIZE]"); ("read_index", "usize"); ("write_index", "usize")].
Proof. reflexivity. Qed.

(* non-vacuity: the scope is not empty, and the table does reject an allocating call *)
Example c18_scope_nonempty : 30 <= length (filter (fun fc => in_scope (fst fc)) fn_calls).
Proof. vm_compute. repeat constructor. Qed.
Example c18_table_rejects : fn_ok ("fixed-buffer/src/lib.rs::FixedBuf<SIZE>::shift", [(".to_vec", false)]) = false.
Proof. reflexivity. Qed.

Print Assumptions c18_no_allocating_call.
Print Assumptions c18_layout.
