(* Props/C02.v — read_frame yields the stream's frames regardless of how reads are chunked.
   `next SIZE df r` (Spec/Frames.v) is the chunk-free specification of one call on the bytes r that remain:
   with p the first SIZE bytes of r: nothing there -> Ok(None) (InvalidData if SIZE = 0); df p = frame -> that frame,
   continue after its block; df p rejects -> InvalidData; else InvalidData if at least SIZE bytes remain, otherwise UnexpectedEof. *)
From FB Require Import Sem.Base Sem.Lemmas Model.Fb Model.Deframers Spec.Api Spec.Frames
  Facets.Fb Facets.Fb2 Facets.Rf Facets.RfRefine Facets.Frames Facets.DfContract Facets.C02.
Open Scope Z_scope.

(* the translated loop refines the loop on the unread bytes: any reader, any in-bounds deframer, any fuel *)
Theorem c02_refines : forall SIZE chk RS (R : Reader RS) (AR : AReader RS) df,
  implements R AR -> (forall u, zlen u <= SIZE -> df_in_bounds df u) ->
  forall fuel s rs, Inv2 SIZE s ->
  sim SIZE (read_frame chk R fuel df (s, rs)) (aread_frame SIZE AR df fuel (unread s, rs)).
Proof. exact read_frame_refines. Qed.

(* one call under ANY chunk schedule = the chunk-free answer; unread ++ not-yet-pulled = the specification's remainder *)
Theorem c02_call : forall SIZE chk (R : Reader stream_reader) df,
  implements R stream_ar -> df_contract SIZE df ->
  forall s st fuel, Inv2 SIZE s -> zlen (sr_rest st) < Z.of_nat fuel ->
  exists r s' st' o, read_frame chk R fuel df (s, st) = Val r (s', st') /\ out_of r = Some o /\
    (o, unread s' ++ sr_rest st') = next SIZE df (unread s ++ sr_rest st) /\ Inv2 SIZE s'.
Proof. exact Facets.C02.c02_call. Qed.

(* repeated calls return exactly the iteration of `next` on initial-unread ++ stream: each frame once, in order *)
Theorem c02_run : forall SIZE chk (R : Reader stream_reader) df,
  implements R stream_ar -> df_contract SIZE df ->
  forall n s st, Inv2 SIZE s ->
  impl_run chk R df n (s, st) = map Some (spec_run SIZE df n (unread s ++ sr_rest st)).
Proof. exact Facets.C02.c02_run. Qed.

(* which outcome happens, and every frame's content, is independent of the chunking *)
Theorem c02_chunking : forall SIZE chk R1 R2 df, implements R1 stream_ar -> implements R2 stream_ar -> df_contract SIZE df ->
  forall n s st1 st2, Inv2 SIZE s -> sr_rest st1 = sr_rest st2 ->
  impl_run chk R1 df n (s, st1) = impl_run chk R2 df n (s, st2).
Proof. exact Facets.C02.c02_chunking. Qed.

(* the removed block is a prefix of what remained; a zero-size buffer always answers InvalidData;
   the three provided deframers honour the contract (C05), so all of the above applies to them, for every SIZE *)
Theorem c02_conserve : forall SIZE df r, exists blk, blk ++ snd (next SIZE df r) = r.
Proof. exact next_conserve. Qed.
Theorem c02_size0 : forall df r, next 0 df r = (OErr InvalidData, r).
Proof. exact next_size0. Qed.
Theorem c02_provided : forall chk SIZE, SIZE <= usize_max ->
  df_contract SIZE (df_line chk) /\ df_contract SIZE (df_crlf chk) /\ df_contract SIZE (df_null chk).
Proof. exact provided_contracts. Qed.
Theorem c02_transport_exists : implements stream_rd stream_ar.
Proof. exact stream_rd_implements. Qed.

(* non-vacuity: SIZE 8, stream "ab\ncd\n" in chunks 1,1,2,rest: frames "ab", "cd", then Ok(None) *)
Example c02_ex :
  impl_run true stream_rd (df_line true) 3 (new 8, {| sr_rest := [97;98;10;99;100;10]; sr_sched := [1;1;2] |})
  = [Some (OFrame [97;98]); Some (OFrame [99;100]); Some ONone].
Proof. vm_compute. reflexivity. Qed.

Print Assumptions c02_refines.
Print Assumptions c02_call.
Print Assumptions c02_run.
Print Assumptions c02_chunking.
Print Assumptions c02_conserve.
Print Assumptions c02_provided.
Print Assumptions c02_transport_exists.
