(* Props/C12.v — readers are called only when needed and exactly what they report is committed.
   All statements are for ANY reader (it may write more than it reports) and any in-bounds deframer. *)
From FB Require Import Sem.Base Sem.Lemmas Model.Fb Spec.Api Facets.Fb Facets.Fb2 Facets.Rf Facets.C12.
Open Scope Z_scope.

(* read_frame does not call the reader while the buffer already holds a complete frame or data the deframer rejects:
   the reader state is returned untouched *)
Theorem c12_no_call_when_decided : forall SIZE chk RS (R : Reader RS) df,
  (forall u, zlen u <= SIZE -> df_in_bounds df u) ->
  forall fuel s rs, Inv SIZE s -> 0 < len_ s ->
  match df (unread s) with
  | DFrame a b n => read_frame chk R (S fuel) df (s, rs) = Val (Done (FFrame (slice (unread s) a b))) (after_read s n, rs)
  | DErr => read_frame chk R (S fuel) df (s, rs) = Val (Done (FErr InvalidData)) (s, rs)
  | _ => True
  end.
Proof. exact no_call_when_decided. Qed.

(* every destination offered during one call is non-empty and at most the buffer's free space (SIZE - len()) *)
Theorem c12_caps : forall SIZE chk RS (R : Reader RS) df,
  (forall u, zlen u <= SIZE -> df_in_bounds df u) ->
  (forall rs dest d' n rs', rd R rs dest = (ROk d' n, rs') -> 0 <= n) ->
  forall fuel len0 s rs log, Inv SIZE s -> len0 <= len_ s ->
  match read_frame chk (log_reader R) fuel df (s, (rs, log)) with
  | Val _ (_, (_, log')) | Panic (_, (_, log')) => caps_ok SIZE len0 log log'
  end.
Proof. exact caps_in_range. Qed.

(* one refill commits exactly the count the reader reports: the unread bytes grow by the first n bytes it left in the
   destination, nothing it wrote beyond n becomes readable *)
Theorem c12_commit : forall SIZE chk RS (R : Reader RS) s rs d' n rs', Inv SIZE s -> 0 < wlen SIZE (shifted s) ->
  rd R rs (rf_offer SIZE s) = (ROk d' n, rs') -> 0 < n <= zlen (rf_offer SIZE s) ->
  exists s3, body_fill SIZE chk R s rs = Val None (s3, rs') /\ Inv SIZE s3 /\
    unread s3 = unread s ++ firstn (Z.to_nat n) (fit d' (rf_offer SIZE s)).
Proof. exact fill_commit. Qed.

(* copy_once_from: no call and InvalidData when writable() is empty; otherwise exactly one call on all of writable();
   a reader error leaves the buffer as it was; Ok(n) commits exactly n bytes *)
Theorem c12_copy_once : forall SIZE chk RS (R : Reader RS) s rs, Inv SIZE s ->
  copy_once_from chk R (s, rs) =
  if wlen SIZE s =? 0 then Val (Err InvalidData) (s, rs) else
  match rd R rs (offered SIZE s) with
  | (ROk d' n, rs') => match wrote chk n (after_fill SIZE s d') with
                       | Val _ s' => Val (Ok n) (s', rs')
                       | Panic s' => Panic (s', rs')
                       end
  | (RErr k, rs') => Val (Err k) (s, rs')
  | (RPanic, rs') => Panic (s, rs')
  end.
Proof. exact copy_once_from_any. Qed.
Theorem c12_copy_once_commit : forall SIZE chk RS (R : Reader RS) s rs d' n rs', Inv SIZE s -> 0 < wlen SIZE s ->
  rd R rs (offered SIZE s) = (ROk d' n, rs') -> 0 <= n <= wlen SIZE s ->
  exists s', copy_once_from chk R (s, rs) = Val (Ok n) (s', rs') /\ Inv SIZE s' /\
    unread s' = unread s ++ firstn (Z.to_nat n) (fit d' (offered SIZE s)) /\ zlen (offered SIZE s) = wlen SIZE s.
Proof. exact copy_once_commit. Qed.

(* non-vacuity: a reader that fills the whole destination with 0xEE but reports 1 byte: only that byte becomes readable *)
Example c12_ex :
  let R := {| rd := fun (st : unit) dest => (ROk (120 :: repeat 238 (length dest - 1)) 1, tt) |} in
  exists s', copy_once_from true R ({| mem := [97; 0; 0; 0]; read_index := 0; write_index := 1 |}, tt) = Val (Ok 1) (s', tt)
    /\ unread s' = [97; 120] /\ mem s' = [97; 120; 238; 238].
Proof. cbv zeta. eexists. split; [vm_compute; reflexivity|]. split; reflexivity. Qed.

Print Assumptions c12_no_call_when_decided.
Print Assumptions c12_caps.
Print Assumptions c12_commit.
Print Assumptions c12_copy_once.
Print Assumptions c12_copy_once_commit.
