(* Props/C17.v — AsyncFixedBuf's AsyncRead/AsyncWrite mirror FixedBuf's Read/Write and never pend.
   ReadBuf is tokio 1.53.1's, transcribed in Sem/ReadBuf.v (modelled). *)
From FB Require Import Sem.Base Sem.Lemmas Sem.ReadBuf Model.Fb Model.Tokio Facets.Fb Facets.Tokio.
Open Scope Z_scope.

(* poll_read: always Ready(Ok(())); appends min(unfilled capacity, len()) unread bytes after the existing contents, which are
   unchanged; the effect on the buffer is exactly io::Read::read's (nothing, or consume m bytes) *)
Theorem c17_poll_read : forall SIZE chk s b, Inv SIZE s -> rb_wf b -> zlen (rb_buf b) <= usize_max ->
  let m := Z.min (rb_remaining b) (len_ s) in
  exists b', afb_poll_read chk b s = Val (PReady (Ok tt), b') (if m =? 0 then s else after_read s m) /\
    rb_filled_bytes b' = rb_filled_bytes b ++ firstn (Z.to_nat m) (unread s) /\
    rb_filled b' = rb_filled b + m /\ zlen (rb_buf b') = zlen (rb_buf b) /\ rb_wf b'.
Proof. exact afb_poll_read_spec. Qed.
(* the same state change as io::Read::read into a destination of that capacity *)
Theorem c17_poll_read_is_io_read : forall SIZE chk s dest, Inv SIZE s ->
  state_of (io_read chk dest s) = (let m := Z.min (zlen dest) (len_ s) in if m =? 0 then s else after_read s m).
Proof. intros SIZE chk s dest HI. rewrite (io_read_spec SIZE chk s dest HI). unfold copy_count. destruct (_ =? 0); reflexivity. Qed.

(* poll_write: Ready; all-or-nothing; InvalidData when the data does not fit: io::Write::write's result and effect *)
Theorem c17_poll_write : forall SIZE chk s d, Inv SIZE s ->
  afb_poll_write chk d s = if wlen SIZE s <? zlen d then Val (PReady (Err InvalidData)) s else Val (PReady (Ok (zlen d))) (after_write s d).
Proof. exact afb_poll_write_spec. Qed.
Theorem c17_poll_write_is_io_write : forall SIZE chk s d, Inv SIZE s ->
  io_write chk d s = if wlen SIZE s <? zlen d then Val (Err InvalidData) s else Val (Ok (zlen d)) (after_write s d).
Proof. exact io_write_spec. Qed.
Theorem c17_flush_shutdown : forall s, afb_poll_flush s = Val (PReady (Ok tt)) s /\ afb_poll_shutdown s = Val (PReady (Ok tt)) s.
Proof. exact afb_flush_shutdown. Qed.

(* non-vacuity: ReadBuf pre-filled "##" with 3 bytes of room, buffer holding "bc" at offset 1 *)
Example c17_ex :
  exists b', afb_poll_read true {| rb_buf := [35; 35; 0; 0; 0]; rb_filled := 2; rb_init := 2 |}
                           {| mem := [97; 98; 99; 0]; read_index := 1; write_index := 3 |}
             = Val (PReady (Ok tt), b') {| mem := [97; 98; 99; 0]; read_index := 0; write_index := 0 |}
  /\ rb_filled_bytes b' = [35; 35; 98; 99].
Proof. eexists. split; vm_compute; reflexivity. Qed.

Print Assumptions c17_poll_read.
Print Assumptions c17_poll_read_is_io_read.
Print Assumptions c17_poll_write.
Print Assumptions c17_poll_write_is_io_write.
Print Assumptions c17_flush_shutdown.
