(* Props/C10.v — deframe() consumes exactly one frame and returns where its payload lives. *)
From FB Require Import Sem.Base Sem.Lemmas Model.Fb Spec.Api Facets.Fb Facets.Fb2.
Open Scope Z_scope.

(* exact behaviour of deframe(f) in every Inv state, for every deframer whose answer is within bounds *)
Theorem c10_deframe : forall SIZE chk s df, Inv SIZE s -> df_in_bounds df (unread s) ->
  deframe chk df s =
  if len_ s =? 0 then Val (Ok None) s else
  match df (unread s) with
  | DNone => Val (Ok None) s
  | DErr => Val (Err InvalidData) s
  | DPanic => Panic s
  | DFrame a b n => Val (Ok (Some (read_index s + a, read_index s + b))) (after_read s n)
  end.
Proof. exact deframe_spec. Qed.

(* ... and what the consuming case means: exactly n bytes gone, the rest unread and unchanged, mem untouched,
   and the returned range indexes mem() at the payload the deframer selected — rewind case included *)
Theorem c10_frame : forall SIZE chk s df a b n, Inv SIZE s -> df_in_bounds df (unread s) -> 0 < len_ s ->
  df (unread s) = DFrame a b n ->
  exists s', deframe chk df s = Val (Ok (Some (read_index s + a, read_index s + b))) s' /\
    Inv SIZE s' /\ unread s' = skipn (Z.to_nat n) (unread s) /\ mem s' = mem s /\
    slice (mem s') (read_index s + a) (read_index s + b) = slice (unread s) a b.
Proof.
  intros SIZE chk s df a b n HI Hb Hl Hd. rewrite (deframe_spec SIZE chk s df HI Hb).
  replace (len_ s =? 0) with false by lia. rewrite Hd.
  destruct (Hb a b n Hd) as (B1 & B2 & B3 & B4). rewrite (zlen_unread SIZE s HI) in B4.
  destruct (after_read_facts SIZE chk s n HI ltac:(lia)) as (A & B & C & _).
  eexists. split; [reflexivity|]. split; [exact A|]. split; [exact B|]. split; [exact C|].
  rewrite C. unfold unread. destruct HI as (H1&H2&H3&H4&H5). unfold len_ in *.
  rewrite slice_slice by lia. reflexivity.
Qed.

(* non-vacuity: read offset 2, frame "b\n" ends exactly at the end of the unread bytes (rewind) *)
Example c10_ex :
  deframe true (fun d => match d with [98; 10] => DFrame 0 1 2 | _ => DNone end)
          {| mem := [97; 10; 98; 10]; read_index := 2; write_index := 4 |}
  = Val (Ok (Some (2, 3))) {| mem := [97; 10; 98; 10]; read_index := 0; write_index := 0 |}.
Proof. vm_compute. reflexivity. Qed.

Print Assumptions c10_deframe.
Print Assumptions c10_frame.
