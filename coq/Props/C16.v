(* Props/C16.v — Async chain and take behave like tokio's own under every Pending pattern and every ReadBuf.
   ReadBuf and tokio's Chain/Take are transcriptions of tokio 1.53.1 (Sem/ReadBuf.v, Spec/TokioAdapters.v), modelled and held to the
   real types by the harness. *)
From FB Require Import Sem.Base Sem.Lemmas Sem.ReadBuf Model.Tokio Model.Pinned Spec.TokioAdapters Facets.TokioAdapters Facets.AStreams Facets.ATakeStream.
Open Scope Z_scope.

(* chain: one poll = one poll of tokio's Chain, for ALL inner streams keeping the ReadBuf contract (same slice, filled only grows),
   every well-formed ReadBuf: any filled prefix, any remaining capacity including 0, initialised or not *)
Theorem c16_chain_sim : forall R1S RWS chk (R1 : AsyncReader R1S) (R2 : AsyncReader RWS), arb_mono R1 ->
  forall buf w, rb_wf buf ->
  map_res abs_achain (achain_poll_read chk R1 R2 buf w) = tokio_chain_poll_read R1 R2 buf (abs_achain w).
Proof. exact @achain_sim. Qed.
(* a Pending first stream is not forgotten; Pending is reported only if a stream polled in this call reported it *)
Theorem c16_chain_pending_keeps : forall R1S RWS chk (R1 : AsyncReader R1S) (R2 : AsyncReader RWS) buf w b1 r1,
  ac_has w = true -> prd R1 (ac_first w) buf = (ARPending b1, r1) ->
  achain_poll_read chk R1 R2 buf w = Val (PPending, b1) {| ac_has := true; ac_first := r1; ac_rw := ac_rw w |}.
Proof. exact @achain_pending_keeps. Qed.
Theorem c16_chain_pending_only_from_inner : forall R1S RWS chk (R1 : AsyncReader R1S) (R2 : AsyncReader RWS) buf w b' w',
  achain_poll_read chk R1 R2 buf w = Val (PPending, b') w' ->
  (exists r1, prd R1 (ac_first w) buf = (ARPending b', r1)) \/ (exists bx r2, prd R2 (ac_rw w) bx = (ARPending b', r2)).
Proof. exact @achain_pending_only_from_inner. Qed.

(* take: what a caller observes of one poll — result, filled bytes (existing contents intact, data appended), remaining capacity,
   allowance, inner state, and the capacity the inner stream saw (min(allowance, caller's remaining)) — stated once (`take_obs`) and
   proved of BOTH the crate's adapter and tokio's Take, for every stream whose behaviour depends on the capacity it is offered;
   Pending and Err change neither the allowance nor the filled bytes *)
Theorem c16_take_observable : forall RWS chk (R2 : AsyncReader RWS) (AA : AAReader RWS), aimplements R2 AA ->
  forall buf w, rb_wf buf -> 0 <= at_rem w -> zlen (rb_buf buf) <= usize_max ->
  take_obs AA (at_rem w) (at_rw w) buf
    (match atake_poll_read chk R2 buf w with Val a w' => Val a (at_rem w', at_rw w') | Panic w' => Panic (at_rem w', at_rw w') end).
Proof. exact @atake_observable. Qed.
Theorem c16_tokio_take_observable : forall RWS (R2 : AsyncReader RWS) (AA : AAReader RWS), aimplements R2 AA ->
  forall buf (w : @tts RWS), rb_wf buf -> 0 <= tt_limit w ->
  take_obs AA (tt_limit w) (tt_inner w) buf
    (match tokio_take_poll_read R2 buf w with Val a w' => Val a (tt_limit w', tt_inner w') | Panic w' => Panic (tt_limit w', tt_inner w') end).
Proof. exact @tokio_take_observable. Qed.

(* stream level: for ANY two inner streams that — polled with any well-formed ReadBuf — either answer Pending leaving the filled part
   alone, or append a prefix of a fixed remaining sequence after the untouched filled bytes (progress when there is room and something
   is left), the chain is again such a stream, of remaining(first) ++ remaining(second): all of first, then all of second, under every
   pattern of Pending, for every ReadBuf, zero remaining capacity included *)
Theorem c16_chain_stream : forall S1 S2 chk (A1 : AsyncReader S1) rem1 ok1 (A2 : AsyncReader S2) rem2 ok2,
  async_prefix_source A1 rem1 ok1 -> async_prefix_source A2 rem2 ok2 ->
  async_prefix_source (ACH2 chk A1 A2) (rem_ach rem1 rem2) (ok_ach ok1 ok2).
Proof. exact @achain_prefix_source. Qed.

(* non-vacuity: byte lists with Pending marks are such streams; a chain of two of them polled with 3-byte ReadBufs *)
Fixpoint poll_all (n : nat) (w : @acw (list Z * list bool) (list Z * list bool)) (acc : list Z) : list Z :=
  match n with
  | O => acc
  | S m =>
    match prd (ACH2 true marked_rd marked_rd) w (rb_new (repeat 0 3)) with
    | (AROk b', w') => poll_all m w' (acc ++ rb_filled_bytes b')
    | (ARPending _, w') => poll_all m w' acc
    | _ => acc
    end
  end.
Example c16_chain_stream_ex :
  async_prefix_source marked_rd fst (fun _ => True) /\
  poll_all 12 (achain_new ([65; 66; 67; 68], [true; false; true]) ([99; 100], [true; true])) [] = [65; 66; 67; 68; 99; 100].
Proof. split; [exact marked_rd_source|vm_compute; reflexivity]. Qed.

(* stream level for the take, from its observational specification: over ANY inner stream whose observable behaviour is that of a
   capacity-determined prefix source, one poll either changes nothing a caller can see (Pending) or appends, after the untouched
   filled bytes, a prefix of the first `allowance` bytes that remain, charges exactly that many, and leaves every later byte unread
   in the inner stream — under every pattern of Pending, for every ReadBuf *)
Theorem c16_take_stream : forall RWS chk (R2 : AsyncReader RWS) (AA : AAReader RWS) rem okS,
  aimplements R2 AA -> aa_prefix_source AA rem okS ->
  forall buf w, rb_wf buf -> 0 <= at_rem w -> zlen (rb_buf buf) <= usize_max -> okS (at_rw w) ->
  match atake_poll_read chk R2 buf w with
  | Val (PReady (Ok _), b') w' => exists k, 0 <= k <= Z.min (at_rem w) (rb_remaining buf) /\ k <= zlen (rem (at_rw w)) /\
        rb_filled_bytes b' = rb_filled_bytes buf ++ firstn (Z.to_nat k) (rem (at_rw w)) /\
        rb_remaining b' = rb_remaining buf - k /\ at_rem w' = at_rem w - k /\
        rem (at_rw w') = skipn (Z.to_nat k) (rem (at_rw w)) /\ okS (at_rw w') /\
        (0 < at_rem w -> 0 < rb_remaining buf -> rem (at_rw w) <> [] -> 1 <= k)
  | Val (PPending, b') w' => rb_filled_bytes b' = rb_filled_bytes buf /\ rb_remaining b' = rb_remaining buf /\
        at_rem w' = at_rem w /\ rem (at_rw w') = rem (at_rw w) /\ okS (at_rw w')
  | _ => False
  end.
Proof. intros RWS chk R2 AA rem okS Hi Hs. exact (atake_stream chk R2 AA rem okS Hi Hs). Qed.

(* non-vacuity (also of c16_take_observable's hypothesis): the byte list with Pending marks is such an inner stream; limit 3 over
   "abcde" with a Pending first, polled with a ReadBuf that already holds one byte and has room for four more *)
Example c16_take_stream_ex :
  aimplements marked_rd marked_aa /\ aa_prefix_source marked_aa fst (fun _ => True) /\
  let b0 := {| rb_buf := [7; 0; 0; 0; 0]; rb_filled := 1; rb_init := 5 |} in
  match atake_poll_read true marked_rd b0 {| at_rem := 3; at_rw := ([97; 98; 99; 100; 101], [true; false]) |} with
  | Val (PPending, b1) w1 =>
      match atake_poll_read true marked_rd b1 w1 with
      | Val (PReady (Ok _), b2) w2 => rb_filled_bytes b2 = [7; 97; 98; 99] /\ at_rem w2 = 0 /\ fst (at_rw w2) = [100; 101]
      | _ => False
      end
  | _ => False
  end.
Proof. split; [exact marked_aimplements|]. split; [exact marked_aa_source|]. vm_compute. auto. Qed.

(* the pre-fix chain is refuted at a zero-capacity ReadBuf: first "AB", second "cd": a capacity-0 poll, then two capacity-8 polls *)
Definition lrd (l : list Z) : AsyncReader (list Z) := {| prd := fun st b =>
  let n := Z.min (rb_remaining b) (zlen st) in
  (AROk {| rb_buf := splice (rb_buf b) (rb_filled b) (firstn (Z.to_nat n) st); rb_filled := rb_filled b + n; rb_init := Z.max (rb_init b) (rb_filled b + n) |},
   skipn (Z.to_nat n) st) |}.
Definition three_polls {W} (f : rb -> M W (poll (io unit) * rb)) (w : W) : list (list Z) :=
  let go := fun (k : Z) w => match f (rb_new (repeat 0 (Z.to_nat k))) w with
                             | Val (_, b') w' => (rb_filled_bytes b', w') | Panic w' => ([], w') end in
  let '(a, w1) := go 0 w in let '(b, w2) := go 8 w1 in let '(c, _) := go 8 w2 in [a; b; c].
Theorem c16_pinned_refuted :
  three_polls (achain_poll_read_pinned true (lrd []) (lrd [])) (achain_new [65; 66] [99; 100]) = [[]; [99; 100]; []] /\
  three_polls (tokio_chain_poll_read (lrd []) (lrd [])) {| tc_done_first := false; tc_first := [65; 66]; tc_second := [99; 100] |}
    = [[]; [65; 66]; [99; 100]] /\
  three_polls (achain_poll_read true (lrd []) (lrd [])) (achain_new [65; 66] [99; 100]) = [[]; [65; 66]; [99; 100]].
Proof. repeat split; vm_compute; reflexivity. Qed.

Print Assumptions c16_chain_sim.
Print Assumptions c16_chain_pending_keeps.
Print Assumptions c16_chain_pending_only_from_inner.
Print Assumptions c16_take_observable.
Print Assumptions c16_tokio_take_observable.
Print Assumptions c16_pinned_refuted.
Print Assumptions c16_chain_stream.
Print Assumptions c16_take_stream.
