(* Props/C01.v — FixedBuf is a lossless FIFO byte stream.
   Statements only; proofs are `exact <lemma>`.  Quantified over SIZE (unbounded), both overflow
   profiles, every Inv state (every constructor establishes Inv), every operation with every argument,
   every finite history. *)
From FB Require Import Sem.Base Sem.Lemmas Model.Fb Model.Script Spec.Api Spec.Fifo Facets.Fb Facets.Fb2 Facets.C01.
Open Scope Z_scope.

(* every constructor yields an Inv state with the expected initial contents *)
Theorem c01_constructors : forall SIZE, 0 <= SIZE <= usize_max ->
  (Inv SIZE (new SIZE) /\ unread (new SIZE) = []) /\
  (Inv SIZE (default SIZE) /\ unread (default SIZE) = []) /\
  (forall m, zlen m = SIZE -> Inv SIZE (empty m) /\ unread (empty m) = []) /\
  (forall m, zlen m = SIZE -> Inv SIZE (filled SIZE m) /\ unread (filled SIZE m) = m).
Proof.
  intros SIZE H. pose proof (new_inv SIZE H) as (A & B & _).
  split; [auto|]. split; [auto|]. split; intros m Hm.
  - destruct (empty_inv SIZE m Hm ltac:(lia)) as (C & D & _); auto.
  - destruct (filled_inv SIZE m Hm ltac:(lia)) as (C & D & _); auto.
Qed.

(* one call: the outcome refines the FIFO queue, and the invariant is kept *)
Theorem c01_step : forall SIZE chk s o, Inv SIZE s -> args_ok o ->
  fifo_ok (unread s) o (step SIZE chk s o) (unread (state_of (step SIZE chk s o))) /\
  Inv SIZE (state_of (step SIZE chk s o)).
Proof. exact Facets.C01.c01_step. Qed.

(* every finite history *)
Theorem c01_history : forall SIZE chk ops s, Inv SIZE s -> ops_ok ops ->
  fifo_chain (unread s) (trace SIZE chk s ops) (unreads SIZE chk s ops) /\ Inv SIZE (run SIZE chk s ops).
Proof. exact Facets.C01.c01_history. Qed.

(* ledger form: delivered so far ++ unread now = initial ++ accepted so far *)
Theorem c01_ledger : forall SIZE chk ops s, Inv SIZE s -> ops_ok ops -> all_plain ops ->
  concat (map (fun p => delivered (fst p) (snd p)) (trace SIZE chk s ops)) ++ unread (run SIZE chk s ops)
  = unread s ++ concat (map (fun p => accepted (fst p) (snd p)) (trace SIZE chk s ops)).
Proof. exact Facets.C01.c01_ledger. Qed.

(* non-vacuity: a FixedBuf<4> holding "bc" at read offset 1 meets the premises; a history through it *)
Example c01_ex_inv : Inv 4 {| mem := [97; 98; 99; 0]; read_index := 1; write_index := 3 |}.
Proof. unfold Inv, zlen, usize_max; cbn; lia. Qed.
Example c01_ex_run :
  map (fun p => delivered (fst p) (snd p))
      (trace 4 false (new 4) [OWriteBytes [97; 98; 99]; OReadBytes 1; OShift; OWriteBytes [100; 101]; OReadAll])
  = [[]; [97]; []; []; [98; 99; 100; 101]].
Proof. vm_compute. reflexivity. Qed.

Print Assumptions c01_constructors.
Print Assumptions c01_step.
Print Assumptions c01_history.
Print Assumptions c01_ledger.
