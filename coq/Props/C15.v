(* Props/C15.v — Cancelling an async read_frame loses and duplicates nothing (over the modelled lowering, as C14). *)
From FB Require Import Sem.Base Sem.Lemmas Sem.ReadBuf Sem.Async Model.Fb Model.TokioAsync Spec.Api
  Facets.Fb Facets.Fb2 Facets.Rf Facets.Async Facets.AsyncCo Props.C14.
Open Scope Z_scope.

(* for every reader, every deframer within bounds, every number of polls and EVERY two cancellation patterns (in particular: any
   pattern vs none): the same outcome — result, buffer, reader state.  `cancel` lists, per Pending, whether the future is dropped there
   and a new call started on the same buffer and reader. *)
Theorem c15_cancel_invisible : forall SIZE chk RS (A : AsyncReader RS) df, (forall u, zlen u <= SIZE -> df_in_bounds df u) ->
  forall n cancel cancel' w, WI SIZE w ->
  arf_drive chk A n cancel df w = arf_drive chk A n cancel' df w.
Proof. exact Facets.Async.c15_cancel_invisible. Qed.

(* the same for copy_once_from *)
Theorem c15_copy_once_cancel_invisible : forall SIZE chk RS (A : AsyncReader RS) n cancel cancel' w, WI SIZE w ->
  aco_drive chk A n cancel w = aco_drive chk A n cancel' w.
Proof. exact Facets.AsyncCo.aco_cancel_invisible. Qed.

(* the key lemma: the state held at the await is a fixed point of the loop prefix (nothing lives in the future but the view) *)
Theorem c15_await_state_is_buffer : forall SIZE chk df, (forall u, zlen u <= SIZE -> df_in_bounds df u) ->
  forall s v t, Inv SIZE s -> arf_pre chk df s = Val (inr v) t ->
  arf_pre chk df t = Val (inr v) t /\ Inv SIZE t /\ v = {| v_off := write_index t; v_end := SIZE |} /\ read_index t = 0 /\ 0 < wlen SIZE t.
Proof. exact arf_pre_restart. Qed.

(* non-vacuity: the C14 example cancelled at every pending point gives the same frame *)
Example c15_ex :
  let df := fun d => match d with [97; 98; 10] => DFrame 0 2 3 | _ => DNone end in
  arf_drive true ex_reader 10 [true; true; true] df (new 8, [None; Some [97]; None; None; Some [98; 10]])
  = arf_drive true ex_reader 10 [] df (new 8, [None; Some [97]; None; None; Some [98; 10]]).
Proof. vm_compute. reflexivity. Qed.

Print Assumptions c15_cancel_invisible.
Print Assumptions c15_copy_once_cancel_invisible.
Print Assumptions c15_await_state_is_buffer.
