(* Props/C14.v — Async read_frame/copy_once_from equal the blocking ones under any Pending order.
   Stated over the MODELLED lowering of an async fn with one await in one loop (Sem/Async.v `drive`; the model of
   AsyncFixedBuf::read_frame IS `drive` instantiated with the translated prefix `arf_pre`, tokio's Read future
   `poll_read_future`, and the translated suffix `arf_post`: Model/TokioAsync.v `arf_drive`). *)
From FB Require Import Sem.Base Sem.Lemmas Sem.ReadBuf Sem.Async Model.Fb Model.TokioAsync Spec.Api
  Spec.Frames Facets.Fb Facets.Fb2 Facets.DfContract Facets.Rf Facets.Async Facets.C14Blocking Facets.AsyncCo Facets.ARSim Facets.C14Frames Facets.C14Example.
Open Scope Z_scope.

(* the tokio crate's loop is the blocking loop: the translated BLOCKING body = async prefix; blocking read into the view; async suffix *)
Theorem c14_same_loop : forall SIZE chk RS (A : AsyncReader RS) df, (forall u, zlen u <= SIZE -> df_in_bounds df u) ->
  forall (R : Reader RS) s rs, Inv SIZE s ->
  read_frame_body chk R df (s, rs) =
  match arf_pre chk df s with
  | Val (inl r) s1 => Val (Some r) (s1, rs)
  | Val (inr v) s1 => match call_read R v (s1, rs) with Val q w => lift_s (arf_post chk q) w | Panic w => Panic w end
  | Panic s1 => Panic (s1, rs)
  end.
Proof. intros SIZE chk RS A df Hdf R s rs HI. exact (blocking_body_decomposes SIZE chk df Hdf R s rs HI). Qed.

(* whatever the placement of Pending among the reader's polls (and whatever cancellations): if the blocking loop — the same prefix and
   suffix with the reader polled until it is ready — finishes, the async fn driven with enough polls finishes with the same result
   in the same buffer and reader state *)
Theorem c14_pending_invisible : forall SIZE chk RS (A : AsyncReader RS) df, (forall u, zlen u <= SIZE -> df_in_bounds df u) ->
  forall n k w, WI SIZE w ->
  finished (bloop (rf_pre chk df) (rf_await A) (rf_post chk) n k w) ->
  forall cancel, exists polls, forall p, (polls <= p)%nat ->
    arf_drive chk A p cancel df w = bloop (rf_pre chk df) (rf_await A) (rf_post chk) n k w.
Proof. exact Facets.Async.c14_pending_invisible. Qed.

(* the blocking side IS the translated blocking FixedBuf::read_frame: run against the std::io::Read obtained from the AsyncRead by
   polling it until it is ready (BR A k, patience k), it computes that same loop.  `quiet`: a poll that delivers no data (Pending / Err)
   leaves the caller's buffer as it found it *)
Theorem c14_blocking_is_read_frame : forall SIZE chk RS (A : AsyncReader RS) df, (forall u, zlen u <= SIZE -> df_in_bounds df u) ->
  quiet A -> forall n k w, WI SIZE w ->
  finished (bloop (rf_pre chk df) (rf_await A) (rf_post chk) n k w) ->
  to_out (read_frame chk (BR A k) n df w) = bloop (rf_pre chk df) (rf_await A) (rf_post chk) n k w.
Proof. exact Facets.C14Blocking.read_frame_is_bloop. Qed.

(* hence the statement of the property: the async fn, under ANY placement of Pending and ANY cancellation pattern, returns what the
   blocking FixedBuf::read_frame returns on the same chunks, in the same buffer and reader state *)
Theorem c14_async_equals_blocking : forall SIZE chk RS (A : AsyncReader RS) df, (forall u, zlen u <= SIZE -> df_in_bounds df u) ->
  quiet A -> forall n k w, WI SIZE w ->
  finished (bloop (rf_pre chk df) (rf_await A) (rf_post chk) n k w) ->
  forall cancel, exists polls, forall p, (polls <= p)%nat ->
    arf_drive chk A p cancel df w = to_out (read_frame chk (BR A k) n df w).
Proof.
  intros SIZE chk RS A df Hdf Hq n k w HI Hfin cancel.
  destruct (Facets.Async.c14_pending_invisible SIZE chk A df Hdf n k w HI Hfin cancel) as (polls & Hp).
  exists polls. intros p Hle. rewrite (Hp p Hle). symmetry. exact (Facets.C14Blocking.read_frame_is_bloop SIZE chk A df Hdf Hq n k w HI Hfin).
Qed.

(* "so C02 ... hold for them": under ANY placement of Pending among the reader's polls and ANY cancellation pattern, the async
   read_frame returns what the chunk-free specification `next` gives on unread ++ unpulled (the stream's next frame, the same bytes left
   over), for every reader that — polled until ready — behaves as an abstract reader which is a chunk-schedule transport up to a state
   map `phi` (the map forgets what the transport keeps beside the stream, e.g. its Pending marks) *)
Theorem c14_async_gets_next : forall SIZE chk RS (A : AsyncReader RS) (AR : AReader RS) (phi : RS -> stream_reader) (P : RS -> Prop) df k,
  quiet A -> implements (BR A k) AR -> ar_sim AR stream_ar phi P -> df_contract SIZE df ->
  forall n s rs, Inv2 SIZE s -> P rs -> zlen (sr_rest (phi rs)) < Z.of_nat n ->
  finished (bloop (rf_pre chk df) (rf_await A) (rf_post chk) n k (s, rs)) ->
  forall cancel, exists polls, forall p, (polls <= p)%nat ->
    exists x s' rs' o, arf_drive chk A p cancel df (s, rs) = Ready x (s', rs') /\ out_of (Done x) = Some o /\
      (o, unread s' ++ sr_rest (phi rs')) = next SIZE df (unread s ++ sr_rest (phi rs)) /\ Inv2 SIZE s' /\ P rs'.
Proof. exact async_read_frame_gets_next. Qed.

(* non-vacuity of c14_async_gets_next: a transport that answers Pending (a chunk schedule with Pending marks beside it, no more than two
   in a row) meets its three hypotheses with k = 2; and a run: "ab\n" arrives as 'a', Pending, Pending, 'b', Pending, '\n', the second
   pending point is a cancellation point, the frame "ab" comes out and nothing is left unread *)
Example c14_gets_next_ex :
  quiet PA /\ implements (BR PA 2) (PAR 2) /\ ar_sim (PAR 2) stream_ar fst (PP 2) /\
  PP 2 ({| sr_rest := [97; 98; 10]; sr_sched := [1; 1; 1] |}, [false; true; true; false; true; false]) /\
  match arf_drive true PA 12 [false; true; false]
          (fun d => match d with [97; 98; 10] => DFrame 0 2 3 | _ => DNone end)
          (new 8, ({| sr_rest := [97; 98; 10]; sr_sched := [1; 1; 1] |}, [false; true; true; false; true; false])) with
  | Ready (FFrame p) (s', _) => p = [97; 98] /\ unread s' = []
  | _ => False
  end.
Proof. exact c14_example. Qed.

(* copy_once_from: the same three statements (it is the same lowering without a loop: prefix = writable() / full check, suffix = wrote(n)) *)
Theorem c14_copy_once_pending_invisible : forall SIZE chk RS (A : AsyncReader RS) n k w, WI SIZE w ->
  finished (bloop (lift_s aco_pre) (rf_await A) (fun q => lift_s (aco_post chk q)) n k w) ->
  forall cancel, exists polls, forall p, (polls <= p)%nat ->
    aco_drive chk A p cancel w = bloop (lift_s aco_pre) (rf_await A) (fun q => lift_s (aco_post chk q)) n k w.
Proof. exact Facets.AsyncCo.aco_pending_invisible. Qed.
Theorem c14_copy_once_blocking : forall SIZE chk RS (A : AsyncReader RS), quiet A -> forall k w, WI SIZE w ->
  finished (bloop (lift_s aco_pre) (rf_await A) (fun q => lift_s (aco_post chk q)) 1 k w) ->
  co_out (copy_once_from chk (BR A k) w) = bloop (lift_s aco_pre) (rf_await A) (fun q => lift_s (aco_post chk q)) 1 k w.
Proof. exact Facets.AsyncCo.copy_once_is_bloop. Qed.

(* a poll can suspend only in the branch where the reader's poll returned Pending in that same poll (structural: `drive` has one
   suspension point), and a Pending poll leaves every byte received so far readable: indices and unread bytes are untouched *)
Theorem c14_pending_keeps_bytes : forall SIZE RS (A : AsyncReader RS) t v, WI SIZE t ->
  v = {| v_off := write_index (fst t); v_end := SIZE |} ->
  let '(_, t') := poll_read_future A v t in
  Inv SIZE (fst t') /\ unread (fst t') = unread (fst t) /\ read_index (fst t') = read_index (fst t) /\
  write_index (fst t') = write_index (fst t) /\ len_ (fst t') = len_ (fst t).
Proof. intros SIZE RS A t v. exact (poll_future_frame SIZE A t v). Qed.

(* non-vacuity: SIZE 8, "ab\n" delivered as Pending, "a", Pending, Pending, "b\n": the drive finishes with frame "ab" *)
Definition ex_reader : AsyncReader (list (option (list Z))) := {| prd := fun st b =>
  match st with
  | [] => (AROk b, [])
  | None :: t => (ARPending b, t)
  | Some d :: t => (AROk {| rb_buf := splice (rb_buf b) (rb_filled b) d; rb_filled := rb_filled b + zlen d; rb_init := rb_init b |}, t)
  end |}.
Example c14_ex :
  match arf_drive true ex_reader 10 [] (fun d => match d with [97; 98; 10] => DFrame 0 2 3 | _ => DNone end)
          (new 8, [None; Some [97]; None; None; Some [98; 10]]) with
  | Ready (FFrame [97; 98]) (s, []) => unread s = []
  | _ => False
  end.
Proof. vm_compute. reflexivity. Qed.

Example c14_ex_quiet : quiet ex_reader.
Proof. intros rs b. unfold ex_reader; cbn [prd]. destruct rs as [|[d|] t]; reflexivity. Qed.
Example c14_ex_blocking :
  to_out (read_frame true (BR ex_reader 5) 10 (fun d => match d with [97; 98; 10] => DFrame 0 2 3 | _ => DNone end)
            (new 8, [None; Some [97]; None; None; Some [98; 10]]))
  = arf_drive true ex_reader 10 [] (fun d => match d with [97; 98; 10] => DFrame 0 2 3 | _ => DNone end)
            (new 8, [None; Some [97]; None; None; Some [98; 10]]).
Proof. vm_compute. reflexivity. Qed.

Print Assumptions c14_same_loop.
Print Assumptions c14_pending_invisible.
Print Assumptions c14_pending_keeps_bytes.
Print Assumptions c14_blocking_is_read_frame.
Print Assumptions c14_async_equals_blocking.
Print Assumptions c14_copy_once_pending_invisible.
Print Assumptions c14_copy_once_blocking.
Print Assumptions c14_async_gets_next.
