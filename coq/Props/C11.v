(* Props/C11.v — try_parse is transactional over the closure's reads. *)
From FB Require Import Sem.Base Sem.Lemmas Model.Fb Model.Script Spec.Api Facets.Fb Facets.Fb2.
Open Scope Z_scope.

(* for ANY closure: Some passes through untouched; None restores both indices over whatever mem the closure left *)
Theorem c11_try_parse : forall (R : Type) (f : M fb (option R)) s,
  try_parse f s =
  match f s with
  | Val (Some v) s' => Val (Some v) s'
  | Val None s' => Val None {| mem := mem s'; read_index := read_index s; write_index := write_index s |}
  | Panic s' => Panic s'
  end.
Proof. exact @try_parse_spec. Qed.

(* for every closure built from the reading API (any script, any nesting), from every Inv state:
   None -> the whole state is what it was (hence unread bytes, len(), writable().len());
   Some -> exactly the closure's consumption remains (a prefix of the unread bytes is gone, nothing else moved) *)
Theorem c11_script : forall SIZE chk body some s, Inv SIZE s ->
  match try_parse (closure chk body some) s with
  | Val None s' => some = false /\ s' = s
  | Val (Some _) s' => some = true /\ closure chk body some s = try_parse (closure chk body some) s /\
        Inv SIZE s' /\ mem s' = mem s /\
        exists k, 0 <= k <= len_ s /\ unread s' = skipn (Z.to_nat k) (unread s) /\ len_ s' = len_ s - k
  | Panic s' => Inv SIZE s' /\ mem s' = mem s /\ exists k, unread s' = skipn (Z.to_nat k) (unread s)
  end.
Proof.
  intros SIZE chk body some s HI. pose proof (try_parse_script_spec SIZE chk body some s HI) as H.
  pose proof (try_parse_spec (closure chk body some) s) as E.
  destruct (try_parse (closure chk body some) s) as [[log|] s'|s'] eqn:Et.
  - destruct H as (Hs & I' & M' & k & Hk & Hu & Hl & _). split; [exact Hs|]. split.
    + destruct (closure chk body some s) as [[v|] s2|s2]; congruence.
    + split; [exact I'|]. split; [exact M'|]. exists k. auto.
  - exact H.
  - destruct H as (I' & M' & k & _ & Hu & _). split; [exact I'|]. split; [exact M'|]. exists k. exact Hu.
Qed.

(* non-vacuity: at read offset 2, a closure that drains the buffer (auto-rewind happens inside) and returns None *)
Example c11_ex :
  let s := {| mem := [97; 98; 99; 100]; read_index := 2; write_index := 4 |} in
  Inv 4 s /\ closure true [SAll] false s = Val None {| mem := [97; 98; 99; 100]; read_index := 0; write_index := 0 |}
  /\ try_parse (closure true [SNested [STryBytes 1; SAll] true; STryByte] false) s = Val None s.
Proof. split; [unfold Inv, zlen, usize_max; cbn; lia|]. split; vm_compute; reflexivity. Qed.

Print Assumptions c11_try_parse.
Print Assumptions c11_script.
