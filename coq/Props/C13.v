(* Props/C13.v — Adapters pass writes through untouched and keep reads and writes independent.
   For ALL inner read-writers.  Each write-side method is exactly one inner call of the same kind with the same bytes;
   its result (count, error, Pending, panic) is returned unchanged; the read-side state (has_first / remaining / first reader) is
   copied through untouched.  Reads make no write-side call: chain_read / take_read / achain_poll_read / atake_poll_read do not
   mention the Writer (it is not a parameter of those definitions). *)
From FB Require Import Sem.Base Sem.ReadBuf Model.Adapters Model.Tokio Facets.Adapters Facets.TokioAdapters.
Open Scope Z_scope.

Theorem c13_chain_write : forall R1S RWS (W2 : Writer RWS) buf (w : @cw R1S RWS),
  chain_write (R1S := R1S) W2 buf w =
  match wr W2 (c_rw w) buf with
  | (WOk n, r') => Val (Ok n) {| c_has := c_has w; c_first := c_first w; c_rw := r' |}
  | (WErr k, r') => Val (Err k) {| c_has := c_has w; c_first := c_first w; c_rw := r' |}
  | (WPanic, r') => Panic {| c_has := c_has w; c_first := c_first w; c_rw := r' |}
  end.
Proof. exact @chain_write_forward. Qed.
Theorem c13_chain_flush : forall R1S RWS (W2 : Writer RWS) (w : @cw R1S RWS),
  chain_flush (R1S := R1S) W2 w =
  match fl W2 (c_rw w) with
  | (FOk, r') => Val (Ok tt) {| c_has := c_has w; c_first := c_first w; c_rw := r' |}
  | (FErr k, r') => Val (Err k) {| c_has := c_has w; c_first := c_first w; c_rw := r' |}
  | (FPanic, r') => Panic {| c_has := c_has w; c_first := c_first w; c_rw := r' |}
  end.
Proof. exact @chain_flush_forward. Qed.
Theorem c13_take_write : forall RWS (W2 : Writer RWS) buf (w : @tw RWS),
  take_write W2 buf w =
  match wr W2 (t_rw w) buf with
  | (WOk n, r') => Val (Ok n) {| t_rem := t_rem w; t_rw := r' |}
  | (WErr k, r') => Val (Err k) {| t_rem := t_rem w; t_rw := r' |}
  | (WPanic, r') => Panic {| t_rem := t_rem w; t_rw := r' |}
  end.
Proof. exact @take_write_forward. Qed.
Theorem c13_take_flush : forall RWS (W2 : Writer RWS) (w : @tw RWS),
  take_flush W2 w =
  match fl W2 (t_rw w) with
  | (FOk, r') => Val (Ok tt) {| t_rem := t_rem w; t_rw := r' |}
  | (FErr k, r') => Val (Err k) {| t_rem := t_rem w; t_rw := r' |}
  | (FPanic, r') => Panic {| t_rem := t_rem w; t_rw := r' |}
  end.
Proof. exact @take_flush_forward. Qed.

Theorem c13_achain_write : forall R1S RWS (W2 : AsyncWriter RWS) d (w : @acw R1S RWS),
  achain_poll_write (R1S := R1S) W2 d w =
  match pwr W2 (ac_rw w) d with
  | (AWOk n, r') => Val (PReady (Ok n)) {| ac_has := ac_has w; ac_first := ac_first w; ac_rw := r' |}
  | (AWErr k, r') => Val (PReady (Err k)) {| ac_has := ac_has w; ac_first := ac_first w; ac_rw := r' |}
  | (AWPending, r') => Val PPending {| ac_has := ac_has w; ac_first := ac_first w; ac_rw := r' |}
  | (AWPanic, r') => Panic {| ac_has := ac_has w; ac_first := ac_first w; ac_rw := r' |}
  end.
Proof. exact @achain_write_forward. Qed.
Theorem c13_achain_flush : forall R1S RWS (W2 : AsyncWriter RWS) (w : @acw R1S RWS),
  achain_poll_flush (R1S := R1S) W2 w =
  match pfl W2 (ac_rw w) with
  | (AFOk, r') => Val (PReady (Ok tt)) {| ac_has := ac_has w; ac_first := ac_first w; ac_rw := r' |}
  | (AFErr k, r') => Val (PReady (Err k)) {| ac_has := ac_has w; ac_first := ac_first w; ac_rw := r' |}
  | (AFPending, r') => Val PPending {| ac_has := ac_has w; ac_first := ac_first w; ac_rw := r' |}
  | (AFPanic, r') => Panic {| ac_has := ac_has w; ac_first := ac_first w; ac_rw := r' |}
  end.
Proof. exact @achain_flush_forward. Qed.
Theorem c13_achain_shutdown : forall R1S RWS (W2 : AsyncWriter RWS) (w : @acw R1S RWS),
  achain_poll_shutdown (R1S := R1S) W2 w =
  match psh W2 (ac_rw w) with
  | (AFOk, r') => Val (PReady (Ok tt)) {| ac_has := ac_has w; ac_first := ac_first w; ac_rw := r' |}
  | (AFErr k, r') => Val (PReady (Err k)) {| ac_has := ac_has w; ac_first := ac_first w; ac_rw := r' |}
  | (AFPending, r') => Val PPending {| ac_has := ac_has w; ac_first := ac_first w; ac_rw := r' |}
  | (AFPanic, r') => Panic {| ac_has := ac_has w; ac_first := ac_first w; ac_rw := r' |}
  end.
Proof. exact @achain_shutdown_forward. Qed.
Theorem c13_atake_write : forall RWS (W2 : AsyncWriter RWS) d (w : @atw RWS),
  atake_poll_write W2 d w =
  match pwr W2 (at_rw w) d with
  | (AWOk n, r') => Val (PReady (Ok n)) {| at_rem := at_rem w; at_rw := r' |}
  | (AWErr k, r') => Val (PReady (Err k)) {| at_rem := at_rem w; at_rw := r' |}
  | (AWPending, r') => Val PPending {| at_rem := at_rem w; at_rw := r' |}
  | (AWPanic, r') => Panic {| at_rem := at_rem w; at_rw := r' |}
  end.
Proof. exact @atake_write_forward. Qed.
Theorem c13_atake_flush : forall RWS (W2 : AsyncWriter RWS) (w : @atw RWS),
  atake_poll_flush W2 w =
  match pfl W2 (at_rw w) with
  | (AFOk, r') => Val (PReady (Ok tt)) {| at_rem := at_rem w; at_rw := r' |}
  | (AFErr k, r') => Val (PReady (Err k)) {| at_rem := at_rem w; at_rw := r' |}
  | (AFPending, r') => Val PPending {| at_rem := at_rem w; at_rw := r' |}
  | (AFPanic, r') => Panic {| at_rem := at_rem w; at_rw := r' |}
  end.
Proof. exact @atake_flush_forward. Qed.
Theorem c13_atake_shutdown : forall RWS (W2 : AsyncWriter RWS) (w : @atw RWS),
  atake_poll_shutdown W2 w =
  match psh W2 (at_rw w) with
  | (AFOk, r') => Val (PReady (Ok tt)) {| at_rem := at_rem w; at_rw := r' |}
  | (AFErr k, r') => Val (PReady (Err k)) {| at_rem := at_rem w; at_rw := r' |}
  | (AFPending, r') => Val PPending {| at_rem := at_rem w; at_rw := r' |}
  | (AFPanic, r') => Panic {| at_rem := at_rem w; at_rw := r' |}
  end.
Proof. exact @atake_shutdown_forward. Qed.

(* non-vacuity: a partial write (2 of 3 bytes) through the take adapter leaves its allowance at 7 *)
Example c13_ex :
  let W := {| wr := fun (st : list Z) d => (WOk 2, st ++ d); fl := fun st => (FOk, st) |} in
  take_write W [1; 2; 3] {| t_rem := 7; t_rw := [] |} = Val (Ok 2) {| t_rem := 7; t_rw := [1; 2; 3] |}.
Proof. reflexivity. Qed.

Print Assumptions c13_chain_write.
Print Assumptions c13_chain_flush.
Print Assumptions c13_take_write.
Print Assumptions c13_take_flush.
Print Assumptions c13_achain_write.
Print Assumptions c13_achain_flush.
Print Assumptions c13_achain_shutdown.
Print Assumptions c13_atake_write.
Print Assumptions c13_atake_flush.
Print Assumptions c13_atake_shutdown.
