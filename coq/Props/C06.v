(* Props/C06.v — read_frame loses nothing when the reader fails, and can always be resumed.
   Route: every completed call of the translated loop is a run of the abstract loop on (unread bytes, reader state)
   (c06_call_runs) — the loop keeps nothing else between iterations, so calling again after an error re-enters it
   where it left; at that level faults are dropped from the schedule without changing anything (c06_faults_invisible). *)
From FB Require Import Sem.Base Sem.Lemmas Model.Fb Spec.Api Spec.Frames Spec.Retry
  Facets.Fb Facets.Fb2 Facets.Rf Facets.RfRefine Facets.C06 Facets.C06Retry Facets.DfContract Facets.C06Frames.
Open Scope Z_scope.

Theorem c06_call_runs : forall SIZE chk RS (R : Reader RS) (AR : AReader RS) df,
  implements R AR -> (forall u, zlen u <= SIZE -> df_in_bounds df u) ->
  forall fuel s rs r s' rs', Inv2 SIZE s ->
  read_frame chk R fuel df (s, rs) = Val (Done r) (s', rs') ->
  runs (abody SIZE AR df) (unread s, rs) r (unread s', rs') /\ Inv2 SIZE s'.
Proof. exact call_runs. Qed.

(* any number of transient faults at any positions: the retrying caller obtains the result, the unread bytes,
   the unpulled bytes and the remaining chunks of the fault-free run *)
Theorem c06_faults_invisible : forall SIZE df w r w', retries SIZE df w r w' -> all_transient (snd w) ->
  runs (abody SIZE fstream_ar df) (clean w) r (clean w').
Proof. exact faults_invisible. Qed.

(* a call that ends in an error or Ok(None) has consumed nothing: the unread bytes are the old ones followed by
   whatever the reader delivered before the call ended (any reader) *)
Theorem c06_error_keeps_everything : forall SIZE RS (AR : AReader RS) df w r w', runs (abody SIZE AR df) w r w' ->
  match r with FFrame _ => True | _ => exists ds, fst w' = fst w ++ ds end.
Proof. exact error_keeps_everything. Qed.

(* the errors read_frame raises itself (deframer rejection, buffer full) leave everything and repeat on retry *)
Theorem c06_own_error_repeats : forall SIZE RS (AR : AReader RS) df u rs, zlen u <> 0 ->
  (df u = DErr \/ (df u = DNone /\ zlen u = SIZE)) ->
  abody SIZE AR df (u, rs) = Val (Some (FErr InvalidData)) (u, rs).
Proof. exact own_error_repeats. Qed.

(* a panicking reader/deframer leaves a usable buffer (invariant) holding every byte received *)
Theorem c06_panic : forall SIZE chk RS (R : Reader RS) (AR : AReader RS) df,
  implements R AR -> (forall u, zlen u <= SIZE -> df_in_bounds df u) ->
  forall fuel s rs s' rs', Inv2 SIZE s -> read_frame chk R fuel df (s, rs) = Panic (s', rs') ->
  Inv2 SIZE s' /\ exists u', aread_frame SIZE AR df fuel (unread s, rs) = Panic (u', rs') /\ unread s' = u'.
Proof. exact call_panics. Qed.

Theorem c06_transport_exists : implements fstream_rd fstream_ar.
Proof. exact fstream_rd_implements. Qed.

(* non-vacuity: SIZE 8, "ab\n" arriving as "a" | TimedOut | "b\n": first call Err(TimedOut) keeping "a", second call frame "ab" *)
Example c06_ex :
  let df := fun d => match d with [97; 98; 10] => DFrame 0 2 3 | _ => DNone end in
  let w0 := (new 8, {| f_rest := [97; 98; 10]; f_sched := [Give 1; Fail TimedOut; Give 2] |}) in
  exists w1, read_frame true fstream_rd 5 df w0 = Val (Done (FErr TimedOut)) w1 /\ unread (fst w1) = [97] /\
  exists w2, read_frame true fstream_rd 5 df w1 = Val (Done (FFrame [97; 98])) w2.
Proof. cbv zeta. eexists. split; [vm_compute; reflexivity|]. split; [reflexivity|]. eexists. vm_compute. reflexivity. Qed.

(* end to end: the caller that calls read_frame again after every transient error (an executable loop over the translated
   read_frame, any reader implementing the failing transport, any deframer that answers within bounds), wherever the faults are and
   however many: it ends as a run of the transport with the faults removed — same result, same unread bytes, same unpulled bytes,
   same remaining chunks *)
Theorem c06_retrying_caller : forall SIZE chk (R : Reader fstream) df,
  implements R fstream_ar -> (forall u, zlen u <= SIZE -> df_in_bounds df u) ->
  forall fuel tries s st r s' st', Inv2 SIZE s -> all_transient st ->
  retry chk R df fuel tries (s, st) = Val (Done r) (s', st') ->
  runs (abody SIZE fstream_ar df) (clean (unread s, st)) r (clean (unread s', st')) /\ Inv2 SIZE s'.
Proof. intros SIZE chk R df HR Hdf. exact (retrying_caller_sees_no_faults SIZE chk R HR df Hdf). Qed.

(* C06 and C02 composed: for a deframer honouring the documented contract, the retrying caller obtains exactly what the chunk-free
   specification `next` gives on the bytes the connection carries (unread ++ unpulled) — the stream's next frame and the same bytes
   left over — wherever the transient faults are and however many *)
Theorem c06_retry_gets_next : forall SIZE chk (R : Reader fstream) df,
  implements R fstream_ar -> df_contract SIZE df ->
  forall fuel tries s st r s' st', Inv2 SIZE s -> all_transient st ->
  retry chk R df fuel tries (s, st) = Val (Done r) (s', st') ->
  exists o, out_of (Done r) = Some o /\ (o, unread s' ++ f_rest st') = next SIZE df (unread s ++ f_rest st) /\ Inv2 SIZE s'.
Proof. exact retrying_caller_gets_next. Qed.

(* non-vacuity: a frame arrives in two chunks with a TimedOut and a WouldBlock between them; three calls, the third returns it *)
Example c06_retry_ex :
  let st := {| f_rest := [97; 98; 10; 99]; f_sched := [Give 2; Fail TimedOut; Fail WouldBlock; Give 2] |} in
  all_transient st /\
  match retry true fstream_rd (fun d => match d with [97; 98; 10] => DFrame 0 2 3 | [97; 98; 10; 99] => DFrame 0 2 3 | _ => DNone end) 8 5 (new 8, st) with
  | Val (Done (FFrame p)) (s', st') => p = [97; 98] /\ f_sched st' = []
  | _ => False
  end.
Proof.
  split.
  - intros k [H|[H|[H|[H|[]]]]]; inversion H; reflexivity.
  - vm_compute. auto.
Qed.

Print Assumptions c06_call_runs.
Print Assumptions c06_faults_invisible.
Print Assumptions c06_error_keeps_everything.
Print Assumptions c06_own_error_repeats.
Print Assumptions c06_panic.
Print Assumptions c06_transport_exists.
Print Assumptions c06_retrying_caller.
Print Assumptions c06_retry_gets_next.
