(* Props/C04.v — Panic contract: only documented panics, in every profile, without side effects.
   Statements only.  `chk` ranges over both profiles (true: overflow checks on; false: wrapping). *)
From FB Require Import Sem.Base Sem.Lemmas Model.Fb Model.Script Model.Deframers Model.Pinned Spec.Api
  Facets.Fb Facets.Fb2 Facets.C01 Facets.C04 Facets.DfContract.
Open Scope Z_scope.

(* every API call: panics iff the documentation says so; after a panic the buffer satisfies Inv
   (so every other theorem keeps applying: "stays fully usable") and is unchanged as specified *)
Theorem c04_step : forall SIZE chk s o, Inv SIZE s -> args_ok o -> ~ text_op o ->
  (is_panic (step SIZE chk s o) = true <-> documented_panic SIZE chk s o) /\
  (is_panic (step SIZE chk s o) = true ->
     let s' := state_of (step SIZE chk s o) in
     Inv SIZE s' /\ len_ s' <= len_ s /\ wlen SIZE s <= wlen SIZE s' /\
     match o with
     | OReadByte | OReadBytes _ | ODeframe _ => s' = s
     | OTryParse _ _ => exists k, unread s' = skipn k (unread s)
     | _ => unread s' = unread s /\ len_ s' = len_ s /\ wlen SIZE s' = wlen SIZE s
     end).
Proof. exact Facets.C04.c04_step. Qed.

(* the three panicking methods, function by function: iff, never a silent success, state unchanged *)
Theorem c04_read_bytes : forall SIZE chk s n, Inv SIZE s -> 0 <= n <= usize_max ->
  (len_ s < n -> read_bytes chk n s = Panic s) /\
  (n <= len_ s -> exists v s', read_bytes chk n s = Val v s' /\ zlen v = n).
Proof.
  intros SIZE chk s n HI Hn. split.
  - apply (read_bytes_panic SIZE); assumption.
  - intros Hle. rewrite (read_bytes_ok' SIZE chk s n HI ltac:(lia)). eexists _, _. split; [reflexivity|].
    rewrite zlen_firstn, (zlen_unread SIZE s HI). lia.
Qed.
Theorem c04_read_byte : forall SIZE chk s, Inv SIZE s ->
  (len_ s = 0 -> read_byte chk s = Panic s) /\ (0 < len_ s -> exists v s', read_byte chk s = Val v s').
Proof.
  intros SIZE chk s HI. split; [apply (read_byte_panic SIZE); assumption|].
  intros Hl. rewrite (read_byte_ok SIZE chk s HI Hl). eauto.
Qed.
Theorem c04_wrote : forall SIZE chk s n, Inv SIZE s -> 0 <= n <= usize_max ->
  (wlen SIZE s < n -> wrote chk n s = Panic s) /\
  (n <= wlen SIZE s -> wrote chk n s = Val tt {| mem := mem s; read_index := read_index s; write_index := write_index s + n |}).
Proof.
  intros SIZE chk s n HI Hn. split; [apply (wrote_panic SIZE); assumption|]. intros Hle. apply (wrote_ok SIZE); [assumption|lia].
Qed.

Theorem c04_text_no_panic : forall SIZE chk s, Inv SIZE s -> (forall x, In x (unread s) -> 0 <= x < 256) ->
  is_panic (step SIZE chk s OEscapeAscii) = false /\ is_panic (step SIZE chk s ODebug) = false.
Proof. exact Facets.C04.c04_text_no_panic. Qed.

(* the provided deframers never panic and never err, on any input, in both profiles *)
Theorem c04_deframers : forall chk d, zlen d <= usize_max ->
  (df_line chk d <> DErr /\ df_line chk d <> DPanic) /\ (df_crlf chk d <> DErr /\ df_crlf chk d <> DPanic) /\
  (df_null chk d <> DErr /\ df_null chk d <> DPanic).
Proof.
  intros chk d H. pose proof (df_line_facts chk) as (_ & _ & _ & A). pose proof (df_crlf_facts chk) as (_ & _ & _ & B).
  pose proof (df_null_facts chk) as (_ & _ & _ & C). auto.
Qed.

(* the pinned bodies (before the fix) are refuted in the release profile: the regression oracle *)
Theorem c04_pinned_refuted :
  wrote_pinned false usize_max {| mem := [97; 98; 99; 0]; read_index := 0; write_index := 3 |}
    = Val tt {| mem := [97; 98; 99; 0]; read_index := 0; write_index := 2 |} /\
  read_bytes_pinned false usize_max {| mem := [97; 98; 99; 0]; read_index := 1; write_index := 3 |}
    = Panic {| mem := [97; 98; 99; 0]; read_index := 0; write_index := 3 |}.
Proof. exact (conj wrote_pinned_refuted read_bytes_pinned_refuted). Qed.

(* non-vacuity: the same two witnesses on the repaired model panic with the state unchanged *)
Example c04_ex :
  wrote false usize_max {| mem := [97; 98; 99; 0]; read_index := 0; write_index := 3 |}
    = Panic {| mem := [97; 98; 99; 0]; read_index := 0; write_index := 3 |} /\
  read_bytes false usize_max {| mem := [97; 98; 99; 0]; read_index := 1; write_index := 3 |}
    = Panic {| mem := [97; 98; 99; 0]; read_index := 1; write_index := 3 |}.
Proof. split; vm_compute; reflexivity. Qed.

Print Assumptions c04_step.
Print Assumptions c04_read_bytes.
Print Assumptions c04_read_byte.
Print Assumptions c04_wrote.
Print Assumptions c04_text_no_panic.
Print Assumptions c04_deframers.
Print Assumptions c04_pinned_refuted.
