(* Props/C07.v — Header line + counted payload pipeline partitions the connection stream exactly.
   `serve_one` (Model/Serve.v) is hand-modelled glue composing the TRANSLATED read_frame, FixedBuf::read, ReadWriteChain and
   ReadWriteTake; the crate ships the loop only as a test.  Everything below is for any stream, any chunking by the transport (any
   schedule), any deframer honouring the contract, any header parser `plen`, any schedule of destination lengths (0 allowed), any SIZE. *)
From FB Require Import Sem.Base Sem.Lemmas Model.Fb Model.Deframers Model.Adapters Model.Serve Spec.Api Spec.Frames
  Facets.Fb Facets.DfContract Facets.C02 Facets.C07.
From FB Require Import Sem.ReadBuf Model.Tokio Facets.AStreams Facets.AStreamsFb.
Open Scope Z_scope.

(* the payload: draining ReadWriteTake(ReadWriteChain(buffer, transport), n) yields exactly the first min(n, available) bytes of
   unread ++ unpulled — bytes over-read into the buffer first, before any byte from the transport — and leaves the rest, in order,
   as unread ++ unpulled for the next read_frame; payload lengths 0, larger than SIZE and larger than the stream are ordinary cases *)
Theorem c07_drain : forall SIZE chk (R : Reader stream_reader), implements R stream_ar ->
  forall fuel dests n s ts, Inv2 SIZE s -> 0 <= n -> Forall (fun d => 0 <= d) dests ->
  let avail := unread s ++ sr_rest ts in
  let n' := Z.min n (zlen avail) in
  (length dests + Z.to_nat n' + 2 <= fuel)%nat ->
  exists tk, drain chk R fuel dests [] (take_new (chain_new s ts) n) = (firstn (Z.to_nat n') avail, DrOk, tk) /\
    unread (c_first (t_rw tk)) ++ sr_rest (c_rw (t_rw tk)) = skipn (Z.to_nat n') avail /\ Inv2 SIZE (c_first (t_rw tk)).
Proof. exact Facets.C07.c07_drain. Qed.

(* one request: the header is what the chunk-free specification `next` gives on unread ++ unpulled, the payload is the next
   min(plen header, remaining) bytes, and what is left is again unread ++ unpulled — the premise of the next request, so the
   headers and payloads obtained are the consecutive segments of the connection's byte stream *)
Theorem c07_request : forall SIZE chk (R : Reader stream_reader) (W : Writer stream_reader) df plen resp,
  implements R stream_ar -> df_contract SIZE df -> (forall l, 0 <= plen l) ->
  (forall ts d, sr_rest (snd (wr W ts d)) = sr_rest ts) ->
  forall fuel dests s ts, Inv2 SIZE s -> Forall (fun d => 0 <= d) dests ->
  let r0 := unread s ++ sr_rest ts in
  (Z.to_nat (zlen r0) + length dests + 2 < fuel)%nat ->
  match next SIZE df r0 with
  | (OFrame line, r1) =>
      let n' := Z.min (plen line) (zlen r1) in
      exists wr_ w', serve_one chk R W df plen resp fuel dests (s, ts) = (RqServed line (firstn (Z.to_nat n') r1) DrOk wr_, w') /\
        unread (fst w') ++ sr_rest (snd w') = skipn (Z.to_nat n') r1 /\ Inv2 SIZE (fst w')
  | (ONone, _) => exists w', serve_one chk R W df plen resp fuel dests (s, ts) = (RqEof, w')
  | (OErr k, _) => exists w', serve_one chk R W df plen resp fuel dests (s, ts) = (RqErr k, w')
  | (ODfPanic, _) => True
  end.
Proof. exact Facets.C07.c07_request. Qed.

(* the chain with a FixedBuf as first half is a source that delivers unread ++ unpulled in order (used by the drain theorem) *)
Theorem c07_chain_is_source : forall SIZE chk (R : Reader stream_reader), implements R stream_ar ->
  forall w dest, ok_c SIZE w ->
  exists d' k w', rd (CHR chk R) w dest = (ROk d' k, w') /\ 0 <= k <= zlen dest /\ k <= zlen (rem_c w) /\
    firstn (Z.to_nat k) (fit d' dest) = firstn (Z.to_nat k) (rem_c w) /\ rem_c w' = skipn (Z.to_nat k) (rem_c w) /\ ok_c SIZE w' /\
    (0 < zlen dest -> rem_c w <> [] -> 1 <= k).
Proof. exact Facets.C07.chain_is_source. Qed.

(* non-vacuity: "CRC32 4\naaaaHELLO\n"-shaped input with SIZE 8: header [4], payload "aaaa" (2 bytes of it over-read into the buffer),
   then header "HI" with payload length 72 > what is left *)
Example c07_ex :
  let W := {| wr := fun (st : stream_reader) d => (WOk (zlen d), st); fl := fun st => (FOk, st) |} in
  let outs := fst (serve true stream_rd W (df_of (deframe_line true)) (fun l => hd 0 l) (fun _ _ => [33]) 3 40 [1; 0; 3]
                     (new 8, {| sr_rest := [4; 10; 97; 97; 97; 97; 72; 73; 10; 120]; sr_sched := [4; 3; 9] |})) in
  map (fun o => match o with RqServed l p _ _ => (l, p) | _ => ([], []) end) outs
  = [([4], [97; 97; 97; 97]); ([72; 73], [120]); ([], [])].
Proof. vm_compute. reflexivity. Qed.

(* the tokio half, stream level: AsyncFixedBuf read through its AsyncRead impl delivers its unread bytes and never pends, and
   AsyncReadWriteChain(buffer, transport) — the payload source of the tokio request loop — is an async prefix source of
   unread ++ unpulled: buffer bytes first, then the transport's, in order, under every pattern of Pending of the transport and for
   every ReadBuf (zero remaining capacity included).  (The async take on top of it, and the loop, are held by correspondence and C16.) *)
Theorem c07_async_chain_is_source : forall SIZE chk TS (T : AsyncReader TS) remT okT, async_prefix_source T remT okT ->
  async_prefix_source (ACH2 chk (AFB chk) T) (rem_ach unread remT) (ok_ach (Inv SIZE) okT).
Proof. exact achain_fb_is_source. Qed.

(* non-vacuity: a buffer holding "bc" at read offset 1, a transport "de" that pends first; polled with 3-byte ReadBufs *)
Example c07_async_ex :
  let w0 := achain_new {| mem := [97; 98; 99; 0]; read_index := 1; write_index := 3 |} ([100; 101], [true; false; true]) in
  let poll := fun w => prd (ACH2 true (AFB true) marked_rd) w (rb_new (repeat 0 3)) in
  match poll w0 with
  | (AROk b1, w1) => rb_filled_bytes b1 = [98; 99] /\
      match poll w1 with
      | (ARPending _, w2) => match poll w2 with (AROk b3, _) => rb_filled_bytes b3 = [100; 101] | _ => False end
      | _ => False
      end
  | _ => False
  end.
Proof. vm_compute. auto. Qed.

(* the composed payload source of the tokio loop on a concrete run (a computation, not a theorem: see DESIGN section 10):
   AsyncReadWriteTake(AsyncReadWriteChain(buffer "bc", transport "de" that pends first), 3) polled with 2-byte ReadBufs gives
   "bc", Pending, "d", then end of payload with "e" left unread in the transport *)
Example c07_async_drain_ex :
  let w0 := {| at_rem := 3; at_rw := achain_new {| mem := [97; 98; 99; 0]; read_index := 1; write_index := 3 |} ([100; 101], [true; false; false]) |} in
  let poll := fun w => atake_poll_read true (ACH2 true (AFB true) marked_rd) (rb_new (repeat 0 2)) w in
  match poll w0 with
  | Val (PReady (Ok _), b1) w1 => rb_filled_bytes b1 = [98; 99] /\
      match poll w1 with
      | Val (PPending, _) w2 =>
          match poll w2 with
          | Val (PReady (Ok _), b3) w3 => rb_filled_bytes b3 = [100] /\ at_rem w3 = 0 /\
              match poll w3 with
              | Val (PReady (Ok _), b4) w4 => rb_filled_bytes b4 = [] /\ fst (ac_rw (at_rw w4)) = [101]
              | _ => False
              end
          | _ => False
          end
      | _ => False
      end
  | _ => False
  end.
Proof. vm_compute. auto. Qed.

Print Assumptions c07_drain.
Print Assumptions c07_request.
Print Assumptions c07_chain_is_source.
Print Assumptions c07_async_chain_is_source.
