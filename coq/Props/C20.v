(* Props/C20.v — No unsafe code anywhere, and no dependencies beyond std (plus tokio).
   A finite computation over facts re-extracted from /repo on every run (Gen/SourceFacts.v, by rs2v): the number of `unsafe` keyword
   tokens anywhere in each file's token trees (macro arguments included: an over-approximation of what the lint sees), the
   #![forbid(unsafe_code)] attribute of the crate roots and integration tests, and the DECLARED non-dev dependencies (optional ones
   included) from cargo metadata.  The thing trusted is the token scanner; the compiler's own lint
   (`cargo rustc .. -- -F unsafe_code` on every lib and test target) is run beside it as its correspondence. *)
From Coq Require Import String List Bool ZArith.
Import ListNotations.
From FB Require Import Gen.SourceFacts.
Open Scope string_scope.

Definition roots : list string := [
  "fixed-buffer/src/lib.rs"; "fixed-buffer-tokio/src/lib.rs"; "fixed-buffer/tests/server.rs"; "fixed-buffer-tokio/tests/server.rs"].

Theorem c20_no_unsafe_token : forallb (fun f => Z.eqb (snd (fst f)) 0) files = true.
Proof. vm_compute. reflexivity. Qed.
Theorem c20_roots_forbid :
  forallb (fun r => existsb (fun f => String.eqb (fst (fst f)) r && snd f) files) roots = true.
Proof. vm_compute. reflexivity. Qed.
Theorem c20_deps : deps_fixed_buffer = [] /\ deps_fixed_buffer_tokio = ["fixed-buffer"; "tokio"].
Proof. split; reflexivity. Qed.
(* non-vacuity: all fourteen source files of both crates are in the list *)
Example c20_all_files : 14 <= length files.
Proof. vm_compute. repeat constructor. Qed.

Print Assumptions c20_no_unsafe_token.
Print Assumptions c20_roots_forbid.
Print Assumptions c20_deps.
