(* Props/C03.v — Capacity accounting: writes are all-or-nothing and freed space is reclaimable.
   Statements only.  (l, w) = (len(), writable().len()); see Spec/Capacity.v for `cap_ok`. *)
From FB Require Import Sem.Base Model.Fb Model.Script Spec.Api Spec.Capacity Facets.Fb Facets.Fb2 Facets.C01 Facets.C03.
Open Scope Z_scope.

Theorem c03_constructors : forall SIZE, 0 <= SIZE <= usize_max ->
  (Inv2 SIZE (new SIZE) /\ wlen SIZE (new SIZE) = SIZE) /\
  (forall m, zlen m = SIZE -> Inv2 SIZE (empty m) /\ wlen SIZE (empty m) = SIZE) /\
  (forall m, zlen m = SIZE -> Inv2 SIZE (filled SIZE m) /\ len_ (filled SIZE m) = SIZE /\ wlen SIZE (filled SIZE m) = 0).
Proof.
  intros SIZE H. pose proof (new_inv SIZE H) as (A & _ & C).
  split; [split; [split; [exact A|unfold nf, new; cbn; lia]|exact C]|]. split; intros m Hm.
  - destruct (empty_inv SIZE m Hm ltac:(lia)) as (A' & _ & C'). split; [split; [exact A'|unfold nf, empty; cbn; lia]|exact C'].
  - destruct (filled_inv SIZE m Hm ltac:(lia)) as (A' & _ & C'). split; [split; [exact A'|unfold nf, filled; cbn; lia]|].
    split; [unfold len_, filled; cbn; lia|exact C'].
Qed.

Theorem c03_step : forall SIZE chk s o, Inv2 SIZE s -> args_ok o ->
  cap_ok SIZE (len_ s) (wlen SIZE s) o (step SIZE chk s o)
         (len_ (state_of (step SIZE chk s o))) (wlen SIZE (state_of (step SIZE chk s o))) /\
  Inv2 SIZE (state_of (step SIZE chk s o)).
Proof. exact Facets.C03.c03_step. Qed.

Theorem c03_history : forall SIZE chk ops s, Inv2 SIZE s -> ops_ok ops ->
  cap_chain SIZE (len_ s) (wlen SIZE s) (trace SIZE chk s ops) (caps SIZE chk s ops) /\ Inv2 SIZE (run SIZE chk s ops).
Proof. exact Facets.C03.c03_history. Qed.

Theorem c03_write_boundary : forall SIZE chk s d, Inv2 SIZE s ->
  (exists n s', write_bytes chk d s = Val (Ok n) s') <-> zlen d <= wlen SIZE s.
Proof. exact Facets.C03.c03_write_boundary. Qed.

(* non-vacuity: free-1 / free / free+1 on a FixedBuf<4> with 1 byte consumed and 2 unread *)
Example c03_ex : let s := {| mem := [97; 98; 99; 0]; read_index := 1; write_index := 3 |} in
  Inv2 4 s /\ wlen 4 s = 1 /\
  map (fun d => match write_bytes true d s with Val (Ok _) _ => true | _ => false end) [[]; [7]; [7; 8]] = [true; true; false].
Proof. split; [split; [unfold Inv, zlen, usize_max; cbn; lia|unfold nf; cbn; lia]|]. split; reflexivity. Qed.

Print Assumptions c03_constructors.
Print Assumptions c03_step.
Print Assumptions c03_history.
Print Assumptions c03_write_boundary.
