(* Props/C09.v — ReadWriteTake never delivers or consumes more than its limit. *)
From FB Require Import Sem.Base Sem.Lemmas Model.Adapters Model.Serve Spec.StdAdapters Facets.Adapters Facets.C07 Facets.Streams.
Open Scope Z_scope.

(* exact behaviour of one read, for any inner object, any limit in [0, u64::MAX], both overflow profiles *)
Theorem c09_read : forall RWS chk (R2 : Reader RWS) buf w, 0 <= t_rem w ->
  take_read chk R2 buf w =
  if t_rem w =? 0 then Val (Ok 0, buf) w else
  let dest := slice buf 0 (Z.min (t_rem w) (zlen buf)) in
  match rd R2 (t_rw w) dest with
  | (ROk d' n, r') =>
      if n <=? t_rem w then Val (Ok n, splice buf 0 (fit d' dest)) {| t_rem := t_rem w - n; t_rw := r' |}
      else if chk then Panic {| t_rem := t_rem w; t_rw := r' |}
      else Val (Ok n, splice buf 0 (fit d' dest)) {| t_rem := wrap64 (t_rem w - n); t_rw := r' |}
  | (RErr k, r') => Val (Err k, splice buf 0 dest) {| t_rem := t_rem w; t_rw := r' |}
  | (RPanic, r') => Panic {| t_rem := t_rem w; t_rw := r' |}
  end.
Proof. exact @take_read_spec. Qed.

(* call for call the results equal std::io::Take's, for every reader honouring the Read contract *)
Theorem c09_sim : forall RWS chk (R2 : Reader RWS) buf w, 0 <= t_rem w ->
  (forall dest d' n r', rd R2 (t_rw w) dest = (ROk d' n, r') -> 0 <= n <= zlen dest) ->
  map_res abs_take (take_read chk R2 buf w) = std_take_read R2 buf (abs_take w).
Proof. exact @take_sim. Qed.

Theorem c09_exhausted_silent : forall RWS chk (R2 : Reader RWS) buf w, t_rem w = 0 -> take_read chk R2 buf w = Val (Ok 0, buf) w.
Proof. exact @take_exhausted_silent. Qed.
Theorem c09_request_bound : forall RWS chk (R2 : Reader RWS) buf w, 0 < t_rem w ->
  exists dest, dest = slice buf 0 (Z.min (t_rem w) (zlen buf)) /\ zlen dest = Z.min (t_rem w) (zlen buf) /\
    t_rw (state_of (take_read chk R2 buf w)) = snd (rd R2 (t_rw w) dest).
Proof. exact @take_request_bound. Qed.
Theorem c09_charge : forall RWS chk (R2 : Reader RWS) buf w, 0 < t_rem w ->
  match rd R2 (t_rw w) (slice buf 0 (Z.min (t_rem w) (zlen buf))) with
  | (ROk _ n, _) => 0 <= n <= t_rem w -> t_rem (state_of (take_read chk R2 buf w)) = t_rem w - n
  | (RErr _, _) => t_rem (state_of (take_read chk R2 buf w)) = t_rem w
  | _ => True
  end.
Proof. exact @take_charge. Qed.
Theorem c09_dest_suffix_untouched : forall RWS chk (R2 : Reader RWS) buf w, 0 <= t_rem w ->
  match take_read chk R2 buf w with
  | Val (_, buf') _ => let k := Z.min (t_rem w) (zlen buf) in skipn (Z.to_nat k) buf' = skipn (Z.to_nat k) buf /\ zlen buf' = zlen buf
  | Panic _ => True
  end.
Proof. exact @take_dest_suffix_untouched. Qed.

(* non-vacuity: limit 3 over "abcde" with an 8-byte destination: 3 bytes delivered, inner keeps "de", then Ok(0) silently *)
Example c09_ex :
  let R := {| rd := fun (st : list Z) dest => let n := Z.min (zlen dest) (zlen st) in
                 (ROk (firstn (Z.to_nat n) st ++ skipn (Z.to_nat n) dest) n, skipn (Z.to_nat n) st) |} in
  take_read true R (repeat 0 8) (take_new [97;98;99;100;101] 3) = Val (Ok 3, [97;98;99;0;0;0;0;0]) {| t_rem := 0; t_rw := [100; 101] |}.
Proof. vm_compute. reflexivity. Qed.

(* stream level: over ANY inner reader that delivers a fixed remaining sequence in order, and ANY schedule of destination lengths
   (zero-length ones anywhere), the take delivers exactly the first min(n, available) bytes, leaves every later byte unread in the
   inner reader, and its allowance ends at n - delivered *)
Theorem c09_stream : forall S chk (Src : Reader S) rem okS, prefix_source Src rem okS ->
  forall fuel dests acc w, okS (t_rw w) -> 0 <= t_rem w -> Forall (fun d => 0 <= d) dests ->
  (length dests + Z.to_nat (Z.min (t_rem w) (zlen (rem (t_rw w)))) + 2 <= fuel)%nat ->
  let n' := Z.min (t_rem w) (zlen (rem (t_rw w))) in
  exists w', drain_gen chk Src fuel dests acc w = (acc ++ firstn (Z.to_nat n') (rem (t_rw w)), DrOk, w') /\
    rem (t_rw w') = skipn (Z.to_nat n') (rem (t_rw w)) /\ t_rem w' = t_rem w - n' /\ okS (t_rw w').
Proof. intros S chk Src rem okS H. exact (drain_spec chk Src rem okS H). Qed.

Example c09_stream_ex :
  drain_gen true list_rd 20 [0; 2; 0; 8] [] (take_new [97; 98; 99; 100; 101] 3) = ([97; 98; 99], DrOk, {| t_rem := 0; t_rw := [100; 101] |}).
Proof. vm_compute. reflexivity. Qed.

Print Assumptions c09_read.
Print Assumptions c09_stream.
Print Assumptions c09_sim.
Print Assumptions c09_exhausted_silent.
Print Assumptions c09_request_bound.
Print Assumptions c09_charge.
Print Assumptions c09_dest_suffix_untouched.
