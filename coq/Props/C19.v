(* Props/C19.v — escape_ascii is a faithful, printable, compositional rendering of bytes. *)
From FB Require Import Sem.Base Model.Fb Model.Escape Facets.Fb Facets.Escape.
Open Scope Z_scope.

(* never panics; equals the concatenation of escape_default of each byte (in any state type S) *)
Theorem c19_flat_map : forall (S : Type) (l : list Z) (s : S), bytes l -> escape_ascii l s = Val (flat_map escape_default l) s.
Proof. exact @escape_ascii_spec. Qed.
Theorem c19_printable : forall l, bytes l -> forall y, In y (flat_map escape_default l) -> 32 <= y <= 126.
Proof. exact escape_printable. Qed.
Theorem c19_self : forall x, 32 <= x <= 126 -> x <> 92 -> x <> 39 -> x <> 34 -> escape_default x = [x].
Proof. exact escape_default_self. Qed.
Theorem c19_app : forall a b, flat_map escape_default (a ++ b) = flat_map escape_default a ++ flat_map escape_default b.
Proof. exact escape_app. Qed.
Theorem c19_decodable : forall l, bytes l -> unescape (flat_map escape_default l) = Some l.
Proof. exact unescape_escape. Qed.
Theorem c19_injective : forall a b, bytes a -> bytes b -> flat_map escape_default a = flat_map escape_default b -> a = b.
Proof. exact escape_injective. Qed.
Theorem c19_method : forall SIZE s, Inv SIZE s -> bytes (unread s) ->
  fb_escape_ascii s = Val (flat_map escape_default (unread s)) s.
Proof. exact fb_escape_ascii_spec. Qed.
Theorem c19_debug : forall SIZE chk s, Inv SIZE s -> bytes (unread s) ->
  debug_fmt SIZE chk s =
  Val ([70;105;120;101;100;66;117;102;60] ++ dec SIZE ++ [62;123] ++ dec (wlen SIZE s) ++
       [32;119;114;105;116;97;98;108;101;44;32] ++ dec (len_ s) ++
       [32;114;101;97;100;97;98;108;101;58;32;34] ++ flat_map escape_default (unread s) ++ [34;125]) s.
Proof. exact debug_fmt_spec. Qed.

(* non-vacuity: the test-suite's own example, abc\r\n -> abc\\r\\n; and a Debug rendering *)
Example c19_ex1 : escape_ascii [97; 98; 99; 13; 10; 255; 92] tt = Val [97;98;99;92;114;92;110;92;120;102;102;92;92] tt.
Proof. vm_compute. reflexivity. Qed.
Example c19_ex2 : let s := {| mem := [97;98;99;0;0;0;0;0]; read_index := 1; write_index := 3 |} in exists v, debug_fmt 8 true s = Val v s /\
  v = [70;105;120;101;100;66;117;102;60;56;62;123;53;32;119;114;105;116;97;98;108;101;44;32;50;32;114;101;97;100;97;98;108;101;58;32;34;98;99;34;125].
Proof. cbv zeta. eexists. split; vm_compute; reflexivity. Qed.

Print Assumptions c19_flat_map.
Print Assumptions c19_printable.
Print Assumptions c19_self.
Print Assumptions c19_app.
Print Assumptions c19_decodable.
Print Assumptions c19_injective.
Print Assumptions c19_method.
Print Assumptions c19_debug.
