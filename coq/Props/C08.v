(* Props/C08.v — ReadWriteChain reads like std::io::Chain: all of first, then all of second. *)
From FB Require Import Sem.Base Sem.Lemmas Model.Adapters Model.Serve Model.Pinned Spec.StdAdapters Facets.Adapters Facets.C07 Facets.Streams.
Open Scope Z_scope.

(* one read = one read of std::io::Chain (Spec/StdAdapters.v, a transcription of rust-src held to the real thing by the
   harness), for ALL inner readers, all destinations including empty ones; `abs_chain` maps `reader: Some/None` to `done_first` *)
Theorem c08_sim : forall R1S RWS (R1 : Reader R1S) (R2 : Reader RWS) buf w,
  map_res abs_chain (chain_read R1 R2 buf w) = std_chain_read R1 R2 buf (abs_chain w).
Proof. exact @chain_sim. Qed.

(* second is not read until first has reported end-of-stream on a non-empty destination; errors do not switch readers *)
Theorem c08_second_waits : forall R1S RWS (R1 : Reader R1S) (R2 : Reader RWS) buf w, c_has w = true ->
  match rd R1 (c_first w) buf with
  | (ROk _ n, _) => (n <> 0 \/ zlen buf = 0) -> c_rw (state_of (chain_read R1 R2 buf w)) = c_rw w /\ c_has (state_of (chain_read R1 R2 buf w)) = true
  | (RErr _, _) => c_rw (state_of (chain_read R1 R2 buf w)) = c_rw w /\ c_has (state_of (chain_read R1 R2 buf w)) = true
  | _ => True
  end.
Proof. exact @chain_second_waits. Qed.
(* first is never read again afterwards *)
Theorem c08_first_never_again : forall R1S RWS (R1 : Reader R1S) (R2 : Reader RWS) buf w, c_has w = false ->
  c_first (state_of (chain_read R1 R2 buf w)) = c_first w /\ c_has (state_of (chain_read R1 R2 buf w)) = false.
Proof. exact @chain_first_never_again. Qed.

(* the pre-fix body is refuted: first "AB", second "cd", destination lengths [0; 8; 8] yield "cd" where std yields "ABcd" *)
Definition lr (l : list Z) : Reader (list Z) := {| rd := fun st dest =>
  let n := Z.min (zlen dest) (zlen st) in
  (ROk (firstn (Z.to_nat n) st ++ skipn (Z.to_nat n) dest) n, skipn (Z.to_nat n) st) |}.
Definition three_reads {W} (f : list Z -> M W (io Z * list Z)) (w : W) : list (list Z) :=
  let go := fun (k : Z) w => match f (repeat 0 (Z.to_nat k)) w with
                             | Val (Ok n, d) w' => (firstn (Z.to_nat n) d, w') | Val _ w' => ([], w') | Panic w' => ([], w') end in
  let '(a, w1) := go 0 w in let '(b, w2) := go 8 w1 in let '(c, _) := go 8 w2 in [a; b; c].
Theorem c08_pinned_refuted :
  three_reads (chain_read_pinned (lr []) (lr [])) (chain_new [65; 66] [99; 100]) = [[]; [99; 100]; []] /\
  three_reads (std_chain_read (lr []) (lr [])) {| sc_done_first := false; sc_first := [65; 66]; sc_second := [99; 100] |}
    = [[]; [65; 66]; [99; 100]] /\
  three_reads (chain_read (lr []) (lr [])) (chain_new [65; 66] [99; 100]) = [[]; [65; 66]; [99; 100]].
Proof. repeat split; vm_compute; reflexivity. Qed.

(* stream level: for ANY two readers that each deliver a fixed remaining sequence in order (Cursor, &[u8], a socket as a chunk
   schedule, a FixedBuf, another chain), the chain delivers remaining(first) ++ remaining(second) in order: every read hands out a
   prefix of what is left, makes progress on a non-empty destination while anything is left, and never fails *)
Theorem c08_stream : forall S1 S2 (Src1 : Reader S1) rem1 ok1 (Src2 : Reader S2) rem2 ok2,
  prefix_source Src1 rem1 ok1 -> prefix_source Src2 rem2 ok2 ->
  prefix_source (CH2 Src1 Src2) (rem_ch rem1 rem2) (ok_ch ok1 ok2).
Proof. exact @chain_prefix_source. Qed.

(* hence: reading the chain (through a take with limit n) with ANY schedule of destination lengths, zero-length ones anywhere,
   until Ok(0) on a non-empty destination, yields exactly the first min(n, total) bytes of first ++ second and leaves the rest *)
Theorem c08_all_of_first_then_second : forall S1 S2 (Src1 : Reader S1) rem1 ok1 (Src2 : Reader S2) rem2 ok2,
  prefix_source Src1 rem1 ok1 -> prefix_source Src2 rem2 ok2 ->
  forall chk fuel dests n (s1 : S1) (s2 : S2), ok1 s1 -> ok2 s2 -> 0 <= n -> Forall (fun d => 0 <= d) dests ->
  let all := rem1 s1 ++ rem2 s2 in
  let n' := Z.min n (zlen all) in
  (length dests + Z.to_nat n' + 2 <= fuel)%nat ->
  exists tk, drain_gen chk (CH2 Src1 Src2) fuel dests [] (take_new (chain_new s1 s2) n) = (firstn (Z.to_nat n') all, DrOk, tk) /\
    rem_ch rem1 rem2 (t_rw tk) = skipn (Z.to_nat n') all /\ t_rem tk = n - n' /\ ok_ch ok1 ok2 (t_rw tk).
Proof. exact @take_chain_stream. Qed.

(* non-vacuity: byte lists are such readers; zero-length destinations in the schedule; the limit beyond the total *)
Example c08_stream_ex :
  prefix_source list_rd (fun rest => rest) (fun _ => True) /\
  (fst (fst (drain_gen true (CH2 list_rd list_rd) 40 [0; 2; 0; 0; 5; 1] [] (take_new (chain_new [65; 66; 67] [99; 100]) 1000)))
    = [65; 66; 67; 99; 100])%list.
Proof. split; [exact list_rd_source|vm_compute; reflexivity]. Qed.

Print Assumptions c08_sim.
Print Assumptions c08_stream.
Print Assumptions c08_all_of_first_then_second.
Print Assumptions c08_second_waits.
Print Assumptions c08_first_never_again.
Print Assumptions c08_pinned_refuted.
