(* Props/C08.v — ReadWriteChain reads like std::io::Chain: all of first, then all of second. *)
From FB Require Import Sem.Base Sem.Lemmas Model.Adapters Model.Pinned Spec.StdAdapters Facets.Adapters.
Open Scope Z_scope.

(* one read = one read of std::io::Chain (Spec/StdAdapters.v, a transcription of rust-src held to the real thing by the
   harness), for ALL inner readers, all destinations including empty ones; `abs_chain` maps `reader: Some/None` to `done_first` *)
Theorem c08_sim : forall R1S RWS (R1 : Reader R1S) (R2 : Reader RWS) buf w,
  map_res abs_chain (chain_read R1 R2 buf w) = std_chain_read R1 R2 buf (abs_chain w).
Proof. exact @chain_sim. Qed.

(* second is not read until first has reported end-of-stream on a non-empty destination; errors do not switch readers *)
Theorem c08_second_waits : forall R1S RWS (R1 : Reader R1S) (R2 : Reader RWS) buf w, c_has w = true ->
  match rd R1 (c_first w) buf with
  | (ROk _ n, _) => (n <> 0 \/ zlen buf = 0) -> c_rw (state_of (chain_read R1 R2 buf w)) = c_rw w /\ c_has (state_of (chain_read R1 R2 buf w)) = true
  | (RErr _, _) => c_rw (state_of (chain_read R1 R2 buf w)) = c_rw w /\ c_has (state_of (chain_read R1 R2 buf w)) = true
  | _ => True
  end.
Proof. exact @chain_second_waits. Qed.
(* first is never read again afterwards *)
Theorem c08_first_never_again : forall R1S RWS (R1 : Reader R1S) (R2 : Reader RWS) buf w, c_has w = false ->
  c_first (state_of (chain_read R1 R2 buf w)) = c_first w /\ c_has (state_of (chain_read R1 R2 buf w)) = false.
Proof. exact @chain_first_never_again. Qed.

(* the pre-fix body is refuted: first "AB", second "cd", destination lengths [0; 8; 8] yield "cd" where std yields "ABcd" *)
Definition lr (l : list Z) : Reader (list Z) := {| rd := fun st dest =>
  let n := Z.min (zlen dest) (zlen st) in
  (ROk (firstn (Z.to_nat n) st ++ skipn (Z.to_nat n) dest) n, skipn (Z.to_nat n) st) |}.
Definition three_reads {W} (f : list Z -> M W (io Z * list Z)) (w : W) : list (list Z) :=
  let go := fun (k : Z) w => match f (repeat 0 (Z.to_nat k)) w with
                             | Val (Ok n, d) w' => (firstn (Z.to_nat n) d, w') | Val _ w' => ([], w') | Panic w' => ([], w') end in
  let '(a, w1) := go 0 w in let '(b, w2) := go 8 w1 in let '(c, _) := go 8 w2 in [a; b; c].
Theorem c08_pinned_refuted :
  three_reads (chain_read_pinned (lr []) (lr [])) (chain_new [65; 66] [99; 100]) = [[]; [99; 100]; []] /\
  three_reads (std_chain_read (lr []) (lr [])) {| sc_done_first := false; sc_first := [65; 66]; sc_second := [99; 100] |}
    = [[]; [65; 66]; [99; 100]] /\
  three_reads (chain_read (lr []) (lr [])) (chain_new [65; 66] [99; 100]) = [[]; [65; 66]; [99; 100]].
Proof. repeat split; vm_compute; reflexivity. Qed.

Print Assumptions c08_sim.
Print Assumptions c08_second_waits.
Print Assumptions c08_first_never_again.
Print Assumptions c08_pinned_refuted.
