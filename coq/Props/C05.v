(* Props/C05.v — Provided deframers locate exactly the first terminated frame.
   Only statements, `exact <lemma>`, and Print Assumptions.  Quantified over every byte list d
   (any length a slice can have), both overflow profiles (chk). *)
From FB Require Import Sem.Base Sem.Lemmas Model.Deframers Facets.DfContract.
Open Scope Z_scope.

(* deframe_line: None iff no LF; else (0..e, i+1) for the FIRST LF at i, e = i or i-1 (one CR dropped).
   Never an error, never a panic (the result is always DNone or DFrame). *)
Theorem c05_line : forall chk d, zlen d <= usize_max ->
  (~ In 10 d /\ df_line chk d = DNone)
  \/ (exists i, 0 <= i < zlen d /\ znth d i = 10 /\ (forall j, 0 <= j < i -> znth d j <> 10) /\
        df_line chk d = DFrame 0 (if (0 <? i) && (znth d (i - 1) =? 13) then i - 1 else i) (i + 1)).
Proof. exact c05_line_stmt. Qed.

Theorem c05_null : forall chk d, zlen d <= usize_max ->
  (~ In 0 d /\ df_null chk d = DNone)
  \/ (exists i, 0 <= i < zlen d /\ znth d i = 0 /\ (forall j, 0 <= j < i -> znth d j <> 0) /\
        df_null chk d = DFrame 0 i (i + 1)).
Proof. exact c05_null_stmt. Qed.

Theorem c05_crlf : forall chk d, zlen d <= usize_max ->
  ((forall j, 1 <= j < zlen d -> ~ (znth d (j - 1) = 13 /\ znth d j = 10)) /\ df_crlf chk d = DNone)
  \/ (exists i, 1 <= i < zlen d /\ znth d (i - 1) = 13 /\ znth d i = 10 /\
        (forall j, 1 <= j < i -> ~ (znth d (j - 1) = 13 /\ znth d j = 10)) /\
        df_crlf chk d = DFrame 0 (i - 1) (i + 1)).
Proof. exact c05_crlf_stmt. Qed.

(* bounds (n <= len), prefix-stability (appending bytes never changes a complete answer),
   locality (depends only on d[..n]), minimality (no shorter prefix is complete), never Err/Panic *)
Theorem c05_facts : forall chk,
  df_first_facts usize_max (df_line chk) /\ df_first_facts usize_max (df_crlf chk) /\
  df_first_facts usize_max (df_null chk).
Proof. intros chk. exact (conj (df_line_facts chk) (conj (df_crlf_facts chk) (df_null_facts chk))). Qed.

(* non-vacuity: concrete inputs exercising both branches *)
Example c05_ex1 : df_line true [97; 13; 10; 98; 10] = DFrame 0 1 3. Proof. reflexivity. Qed.
Example c05_ex2 : df_crlf false [13; 13; 10; 10] = DFrame 0 1 3. Proof. reflexivity. Qed.
Example c05_ex3 : df_null false [10; 13] = DNone. Proof. reflexivity. Qed.

Print Assumptions c05_line.
Print Assumptions c05_null.
Print Assumptions c05_crlf.
Print Assumptions c05_facts.
