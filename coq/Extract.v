(* Extract.v — extraction of the executable model runner to OCaml.
   Directives used: only those of ExtrOcamlBasic (Extract Inductive bool, option, unit, list, prod,
   sumbool, sumor); no Extract Constant; Z / positive / nat stay Coq datatypes. *)
From Coq Require Extraction.
From Coq Require Import ExtrOcamlBasic.
From FB Require Import Run.Main.
Extraction Language OCaml.
Extraction "model.ml" run_case.
