(* Sem/Base.v — hand-written semantics of the Rust / std constructs the two crates use.
   Trusted base: MODELLED, not verified; exercised by the correspondence harness (tie T2). *)
From Coq Require Export List ZArith Lia Bool.
Export ListNotations.
Open Scope Z_scope.

(* ---- outcomes: a &mut-self computation returns a value and the new state, or panics.
   Panic carries the state AT the panic: that is what a caller sees after catch_unwind. ---- *)
Inductive res (S A : Type) := Val (a : A) (s : S) | Panic (s : S).
Arguments Val {S A}. Arguments Panic {S A}.

Definition M (S A : Type) := S -> res S A.
Definition ret {S A} (a : A) : M S A := fun s => Val a s.
Definition bind {S A B} (m : M S A) (k : A -> M S B) : M S B :=
  fun s => match m s with Val a s' => k a s' | Panic s' => Panic s' end.
Definition panic {S A} : M S A := fun s => Panic s.
Notation "x <- m ;; k" := (bind m (fun x => k)) (at level 61, m at next level, right associativity).
Notation "m ;;; k" := (bind m (fun _ => k)) (at level 61, right associativity).

Definition state_of {S A} (r : res S A) : S := match r with Val _ s => s | Panic s => s end.
Definition is_panic {S A} (r : res S A) : bool := match r with Val _ _ => false | Panic _ => true end.

(* ---- integers: usize/u64/u8 are Z with explicit range; the 64-bit target is assumed.
   chk = true : overflow-checks on (dev/test profile) -> panic; false: wrapping (release). ---- *)
Definition usize_max : Z := 18446744073709551615.
Definition wrap64 (x : Z) : Z := x mod 18446744073709551616.
Definition uadd {S} (chk : bool) (a b : Z) : M S Z :=
  if a + b <=? usize_max then ret (a + b) else if chk then panic else ret (wrap64 (a + b)).
Definition usub {S} (chk : bool) (a b : Z) : M S Z :=
  if b <=? a then ret (a - b) else if chk then panic else ret (wrap64 (a - b)).
Definition assert_ {S} (b : bool) : M S unit := if b then ret tt else panic.

(* ---- slices ---- *)
Definition zlen {A} (l : list A) : Z := Z.of_nat (length l).
Definition slice {A} (l : list A) (a b : Z) : list A :=
  firstn (Z.to_nat (b - a)) (skipn (Z.to_nat a) l).
(* l[a..b] panics unless a <= b <= len *)
Definition slice_chk {S A} (l : list A) (a b : Z) : M S (list A) :=
  if (a <=? b) && (b <=? zlen l) then ret (slice l a b) else panic.
(* overwrite l[a .. a+len d) with d *)
Definition splice {A} (l : list A) (a : Z) (d : list A) : list A :=
  firstn (Z.to_nat a) l ++ d ++ skipn (Z.to_nat a + length d) l.
Definition index_chk {S} (l : list Z) (i : Z) : M S Z :=
  if (0 <=? i) && (i <? zlen l) then ret (nth (Z.to_nat i) l 0) else panic.
(* force a collaborator-supplied replacement to the length of the place it replaces *)
Definition fit {A} (new old : list A) : list A := firstn (length old) (new ++ skipn (length new) old).

(* ---- Result / io::Error ---- *)
Inductive rres (A E : Type) := Ok (a : A) | Err (e : E).
Arguments Ok {A E}. Arguments Err {A E}.
Inductive ekind := InvalidData | UnexpectedEof | Interrupted | WouldBlock | TimedOut | ConnectionReset | Other.
Notation io A := (rres A ekind).

(* ---- loops ---- *)
Fixpoint for_range_n {S R} (cnt : nat) (i : Z) (body : Z -> M S (option R)) : M S (option R) :=
  match cnt with
  | O => ret None
  | S c => r <- body i ;; match r with Some v => ret (Some v) | None => for_range_n c (i + 1) body end
  end.
(* for n in lo..hi { body n }: body returns Some v for an early `return v` *)
Definition for_range {S R} (lo hi : Z) (body : Z -> M S (option R)) : M S (option R) :=
  for_range_n (Z.to_nat (hi - lo)) lo body.
(* loop { body }: body returns Some v to leave the loop with v, None to iterate.
   Fuel exhaustion is a distinct value that no theorem treats as a result. *)
Inductive fueled (A : Type) := Done (a : A) | OutOfFuel.
Arguments Done {A}. Arguments OutOfFuel {A}.
Fixpoint loop_fuel {S R} (fuel : nat) (body : M S (option R)) : M S (fueled R) :=
  match fuel with
  | O => ret OutOfFuel
  | S f => r <- body ;; match r with Some v => ret (Done v) | None => loop_fuel f body end
  end.

(* for x in <iterator over l> { acc = body acc x } *)
Fixpoint for_each {S A B} (l : list A) (acc : B) (body : B -> A -> M S B) : M S B :=
  match l with
  | [] => ret acc
  | x :: t => acc' <- body acc x ;; for_each t acc' body
  end.

(* ---- a &mut [u8] into self.mem is a view (offset, end) ---- *)
Record view := { v_off : Z; v_end : Z }.
Definition vlen (v : view) := v_end v - v_off v.

(* ---- collaborators are parameters, never axioms ---- *)
(* a std::io::Read implementation: given its state and the destination as offered, returns the
   destination as it leaves it (it may scribble beyond the count it reports) and the count *)
Inductive rd_res := ROk (dest' : list Z) (n : Z) | RErr (k : ekind) | RPanic.
Record Reader (RS : Type) := { rd : RS -> list Z -> rd_res * RS }.
Arguments rd {RS}.
(* Write half *)
Inductive wr_res := WOk (n : Z) | WErr (k : ekind) | WPanic.
Inductive fl_res := FOk | FErr (k : ekind) | FPanic.
Record Writer (WS : Type) := { wr : WS -> list Z -> wr_res * WS; fl : WS -> fl_res * WS }.
Arguments wr {WS}. Arguments fl {WS}.
(* a deframer function as seen by FixedBuf::deframe *)
Inductive dres := DNone | DFrame (a b n : Z) | DErr | DPanic.

(* the reader contract (documented for std::io::Read): count within the offered length,
   destination keeps its length.  A hypothesis of the theorems that need it, never assumed globally. *)
Definition rd_ok {RS} (R : Reader RS) : Prop :=
  forall st dest d' n st', rd R st dest = (ROk d' n, st') -> 0 <= n <= zlen dest /\ length d' = length dest.
