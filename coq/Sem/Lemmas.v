(* Sem/Lemmas.v — facts about zlen / slice / splice / fit / for_range used by every facet proof. *)
From FB Require Import Sem.Base.
Open Scope Z_scope.

Lemma zlen_nonneg {A} (l : list A) : 0 <= zlen l. Proof. unfold zlen; lia. Qed.
Lemma zlen_nil {A} : zlen (@nil A) = 0. Proof. reflexivity. Qed.
Lemma zlen_cons {A} (x : A) l : zlen (x :: l) = 1 + zlen l.
Proof. unfold zlen; cbn [length]; lia. Qed.
Lemma zlen_app {A} (a b : list A) : zlen (a ++ b) = zlen a + zlen b.
Proof. unfold zlen. rewrite app_length. lia. Qed.
Lemma zlen_repeat {A} (x : A) n : zlen (repeat x n) = Z.of_nat n.
Proof. unfold zlen. rewrite repeat_length. reflexivity. Qed.
Lemma zlen_firstn {A} (l : list A) n : zlen (firstn n l) = Z.min (Z.of_nat n) (zlen l).
Proof. unfold zlen. rewrite firstn_length. lia. Qed.
Lemma zlen_skipn {A} (l : list A) n : zlen (skipn n l) = Z.max 0 (zlen l - Z.of_nat n).
Proof. unfold zlen. rewrite skipn_length. lia. Qed.
Lemma zlen_0_nil {A} (l : list A) : zlen l = 0 -> l = [].
Proof. destruct l; [reflexivity|]. rewrite zlen_cons. pose proof (zlen_nonneg l). lia. Qed.

Lemma skipn_skipn {A} (n m : nat) (l : list A) : skipn n (skipn m l) = skipn (m + n) l.
Proof. revert l; induction m; intros l; cbn; [reflexivity|]. destruct l; [destruct n; reflexivity|apply IHm]. Qed.
Lemma firstn_app_le {A} (l1 l2 : list A) n : (n <= length l1)%nat -> firstn n (l1 ++ l2) = firstn n l1.
Proof. intros. rewrite firstn_app. replace (n - length l1)%nat with 0%nat by lia. cbn. apply app_nil_r. Qed.

Lemma zlen_slice {A} (l : list A) a b : 0 <= a -> a <= b -> b <= zlen l -> zlen (slice l a b) = b - a.
Proof. intros. unfold slice, zlen in *. rewrite firstn_length, skipn_length. lia. Qed.
Lemma slice_nil {A} (l : list A) a : slice l a a = [].
Proof. unfold slice. rewrite Z.sub_diag. reflexivity. Qed.
Lemma slice_full {A} (l : list A) : slice l 0 (zlen l) = l.
Proof. unfold slice, zlen. cbn [Z.to_nat skipn]. rewrite Z.sub_0_r, Nat2Z.id. apply firstn_all. Qed.
Lemma slice_0 {A} (l : list A) b : slice l 0 b = firstn (Z.to_nat b) l.
Proof. unfold slice. rewrite Z.sub_0_r. reflexivity. Qed.
Lemma slice_to_end {A} (l : list A) a : 0 <= a -> slice l a (zlen l) = skipn (Z.to_nat a) l.
Proof. intros. unfold slice, zlen. apply firstn_all2. rewrite skipn_length. lia. Qed.

Lemma slice_split {A} (l : list A) a b c : 0 <= a -> a <= b -> b <= c -> c <= zlen l ->
  slice l a c = slice l a b ++ slice l b c.
Proof.
  intros. unfold slice, zlen in *.
  replace (Z.to_nat (c - a)) with (Z.to_nat (b - a) + Z.to_nat (c - b))%nat by lia.
  rewrite <- (firstn_skipn (Z.to_nat (b-a)) (firstn _ (skipn (Z.to_nat a) l))) at 1.
  rewrite firstn_firstn, skipn_firstn_comm, skipn_skipn.
  f_equal. f_equal; lia. f_equal; [lia|]. f_equal; lia.
Qed.

(* slice of a slice *)
Lemma slice_slice {A} (l : list A) a b c d : 0 <= a -> a <= b -> b <= zlen l -> 0 <= c -> c <= d -> d <= b - a ->
  slice (slice l a b) c d = slice l (a + c) (a + d).
Proof.
  intros. unfold slice, zlen in *.
  rewrite skipn_firstn_comm, skipn_skipn, firstn_firstn.
  f_equal; [lia|]. f_equal. lia.
Qed.
Lemma firstn_slice {A} (l : list A) a b n : 0 <= a -> a <= b -> b <= zlen l -> 0 <= n <= b - a ->
  firstn (Z.to_nat n) (slice l a b) = slice l a (a + n).
Proof.
  intros. rewrite <- slice_0. rewrite slice_slice by lia. f_equal; lia.
Qed.
Lemma skipn_slice {A} (l : list A) a b n : 0 <= a -> a <= b -> b <= zlen l -> 0 <= n <= b - a ->
  skipn (Z.to_nat n) (slice l a b) = slice l (a + n) b.
Proof.
  intros. rewrite <- (slice_to_end (slice l a b)) by lia. rewrite zlen_slice by lia.
  rewrite slice_slice by lia. f_equal; lia.
Qed.

Lemma zlen_splice {A} (l d : list A) a : 0 <= a -> a + zlen d <= zlen l -> zlen (splice l a d) = zlen l.
Proof. intros. unfold splice, zlen in *. rewrite !app_length, firstn_length, skipn_length. lia. Qed.

Lemma slice_splice_same {A} (l d : list A) a : 0 <= a -> a + zlen d <= zlen l ->
  slice (splice l a d) a (a + zlen d) = d.
Proof.
  intros Ha Hb. unfold slice, splice, zlen in *.
  rewrite skipn_app. rewrite firstn_length.
  replace (Z.to_nat a - Nat.min (Z.to_nat a) (length l))%nat with 0%nat by lia.
  rewrite skipn_all2 by (rewrite firstn_length; lia). cbn [app skipn].
  replace (Z.to_nat (a + Z.of_nat (length d) - a)) with (length d) by lia.
  rewrite firstn_app. rewrite Nat.sub_diag. cbn [firstn]. rewrite app_nil_r. apply firstn_all.
Qed.

(* a splice does not disturb a slice that lies entirely before it *)
Lemma slice_splice_before {A} (l d : list A) a x y : 0 <= x -> x <= y -> y <= a -> a + zlen d <= zlen l ->
  slice (splice l a d) x y = slice l x y.
Proof.
  intros. unfold slice, splice, zlen in *.
  rewrite skipn_app, firstn_app.
  rewrite skipn_length, firstn_length.
  replace (Z.to_nat (y - x) - (Nat.min (Z.to_nat a) (length l) - Z.to_nat x))%nat with 0%nat by lia.
  cbn [firstn]. rewrite app_nil_r.
  rewrite skipn_firstn_comm, firstn_firstn. f_equal. lia.
Qed.
(* ... nor one that lies entirely after it *)
Lemma slice_splice_after {A} (l d : list A) a x y : 0 <= a -> a + zlen d <= x -> x <= y -> y <= zlen l ->
  slice (splice l a d) x y = slice l x y.
Proof.
  intros. unfold slice, splice, zlen in *.
  rewrite app_assoc, skipn_app.
  rewrite (skipn_all2 (firstn _ l ++ d)) by (rewrite app_length, firstn_length; lia).
  cbn [app]. rewrite app_length, firstn_length, skipn_skipn.
  f_equal. f_equal. lia.
Qed.

Lemma splice_nil {A} (l : list A) a : 0 <= a -> splice l a [] = l.
Proof. intros. unfold splice. cbn [app length]. rewrite Nat.add_0_r. apply firstn_skipn. Qed.

Lemma fit_length {A} (new old : list A) : length (fit new old) = length old.
Proof. unfold fit. rewrite firstn_length, app_length, skipn_length. lia. Qed.
Lemma zlen_fit {A} (new old : list A) : zlen (fit new old) = zlen old.
Proof. unfold zlen. rewrite fit_length. reflexivity. Qed.
Lemma fit_same_length {A} (new old : list A) : length new = length old -> fit new old = new.
Proof.
  intros H. unfold fit. rewrite <- H. rewrite firstn_app, Nat.sub_diag, firstn_all. cbn. apply app_nil_r.
Qed.

(* ---- monad ---- *)
Lemma bind_val {S A B} (m : M S A) (k : A -> M S B) s a s' : m s = Val a s' -> bind m k s = k a s'.
Proof. intros H. unfold bind. rewrite H. reflexivity. Qed.
Lemma bind_panic {S A B} (m : M S A) (k : A -> M S B) s s' : m s = Panic s' -> bind m k s = Panic s'.
Proof. intros H. unfold bind. rewrite H. reflexivity. Qed.

Lemma bind_ret_l {S A B} (a : A) (k : A -> M S B) s : bind (ret a) k s = k a s.
Proof. reflexivity. Qed.

Lemma loop_fuel_S {S R} (f : nat) (body : M S (option R)) (w : S) :
  loop_fuel (Datatypes.S f) body w =
  match body w with
  | Val (Some v) w' => Val (Done v) w'
  | Val None w' => loop_fuel f body w'
  | Panic w' => Panic w'
  end.
Proof. cbn [loop_fuel]. unfold bind. destruct (body w) as [[v|] w'|w']; reflexivity. Qed.

(* big-step reading of `loop { body }`: no fuel *)
Inductive runs {S R} (body : M S (option R)) : S -> R -> S -> Prop :=
| runs_done w r w' : body w = Val (Some r) w' -> runs body w r w'
| runs_step w w1 r w' : body w = Val None w1 -> runs body w1 r w' -> runs body w r w'.
Lemma loop_runs {S R} (body : M S (option R)) : forall fuel w r w',
  loop_fuel fuel body w = Val (Done r) w' -> runs body w r w'.
Proof.
  induction fuel as [|f IH]; intros w r w' H; [discriminate|].
  rewrite loop_fuel_S in H. destruct (body w) as [[v|] w1|w1] eqn:E; try discriminate.
  - inversion H; subst. apply runs_done. exact E.
  - eapply runs_step; [exact E|]. apply IH. exact H.
Qed.
Lemma runs_loop {S R} (body : M S (option R)) w r w' : runs body w r w' ->
  exists fuel, forall f, (fuel <= f)%nat -> loop_fuel f body w = Val (Done r) w'.
Proof.
  induction 1 as [w r w' E|w w1 r w' E Hr (fuel & IH)].
  - exists 1%nat. intros f Hf. destruct f; [lia|]. rewrite loop_fuel_S, E. reflexivity.
  - exists (Datatypes.S fuel). intros f Hf. destruct f; [lia|]. rewrite loop_fuel_S, E. apply IH. lia.
Qed.

(* ---- for_range over a pure body: the result is the first index whose body yields Some ---- *)
Lemma for_range_n_spec {St R} (body : Z -> M St (option R)) (f : Z -> option R) (s : St) :
  forall cnt lo, (forall i, lo <= i < lo + Z.of_nat cnt -> body i s = Val (f i) s) ->
  (exists i v, lo <= i < lo + Z.of_nat cnt /\ f i = Some v /\ (forall j, lo <= j < i -> f j = None) /\
       for_range_n cnt lo body s = Val (Some v) s)
  \/ ((forall j, lo <= j < lo + Z.of_nat cnt -> f j = None) /\ for_range_n cnt lo body s = Val None s).
Proof.
  induction cnt as [|c IH]; intros lo Hb.
  - right. split; [intros; lia|reflexivity].
  - assert (Hstep : for_range_n (S c) lo body s =
        match f lo with Some v => Val (Some v) s | None => for_range_n c (lo + 1) body s end).
    { cbn [for_range_n]. unfold bind. rewrite (Hb lo) by lia. destruct (f lo); reflexivity. }
    rewrite Hstep. clear Hstep.
    destruct (f lo) as [v|] eqn:Ef.
    + left. exists lo, v. split; [lia|]. split; [exact Ef|]. split; [intros; lia|reflexivity].
    + destruct (IH (lo + 1)) as [(i & v & Hi & Hf & Hmin & Hrun)|(Hnone & Hrun)].
      * intros i Hi. apply Hb. lia.
      * left. exists i, v. split; [lia|]. split; [exact Hf|]. split; [|exact Hrun].
        intros j Hj. destruct (Z.eq_dec j lo); [subst; exact Ef|apply Hmin; lia].
      * right. split; auto. intros j Hj. destruct (Z.eq_dec j lo); [subst; exact Ef|apply Hnone; lia].
Qed.

Lemma for_range_spec {St R} (body : Z -> M St (option R)) (f : Z -> option R) (s : St) lo hi : lo <= hi ->
  (forall i, lo <= i < hi -> body i s = Val (f i) s) ->
  (exists i v, lo <= i < hi /\ f i = Some v /\ (forall j, lo <= j < i -> f j = None) /\
       for_range lo hi body s = Val (Some v) s)
  \/ ((forall j, lo <= j < hi -> f j = None) /\ for_range lo hi body s = Val None s).
Proof.
  intros Hle Hb. unfold for_range.
  destruct (for_range_n_spec body f s (Z.to_nat (hi - lo)) lo) as [(i & v & H1 & H2 & H3 & H4)|(H1 & H2)].
  - intros i Hi. apply Hb. lia.
  - left. exists i, v. repeat split; auto; lia.
  - right. split; auto. intros j Hj. apply H1. lia.
Qed.

Definition znth (l : list Z) (i : Z) : Z := nth (Z.to_nat i) l 0.
Lemma znth_app_l (a b : list Z) i : 0 <= i < zlen a -> znth (a ++ b) i = znth a i.
Proof. intros. unfold znth, zlen in *. apply app_nth1. lia. Qed.
Lemma znth_firstn (l : list Z) n i : 0 <= i < Z.of_nat n -> znth (firstn n l) i = znth l i.
Proof.
  intros. unfold znth. rewrite <- (firstn_skipn n l) at 2.
  destruct (Nat.lt_ge_cases (Z.to_nat i) (length (firstn n l))) as [Hlt|Hge].
  - rewrite app_nth1 by exact Hlt. reflexivity.
  - rewrite firstn_length in Hge. rewrite nth_overflow by (rewrite firstn_length; lia).
    assert (length l <= Z.to_nat i)%nat by lia.
    rewrite nth_overflow; [reflexivity|]. rewrite app_length, firstn_length, skipn_length. lia.
Qed.
Lemma znth_In (l : list Z) i : 0 <= i < zlen l -> In (znth l i) l.
Proof. intros. unfold znth, zlen in *. apply nth_In. lia. Qed.
Lemma In_znth (l : list Z) x : In x l -> exists i, 0 <= i < zlen l /\ znth l i = x.
Proof.
  intros H. destruct (In_nth l x 0 H) as (n & Hn & Hx).
  exists (Z.of_nat n). unfold znth, zlen. rewrite Nat2Z.id. split; [lia|exact Hx].
Qed.

(* ---- more slice/splice algebra (ReadBuf reasoning) ---- *)
Lemma splice_self {A} (l : list A) a b : 0 <= a -> a <= b -> b <= zlen l -> splice l a (slice l a b) = l.
Proof.
  intros Ha Hab Hb. unfold splice, slice, zlen in *.
  rewrite firstn_length, skipn_length.
  replace (Z.to_nat a + Nat.min (Z.to_nat (b - a)) (length l - Z.to_nat a))%nat with (Z.to_nat b) by lia.
  rewrite <- (firstn_skipn (Z.to_nat a) l) at 4. f_equal.
  rewrite <- (firstn_skipn (Z.to_nat (b - a)) (skipn (Z.to_nat a) l)) at 2. f_equal.
  rewrite skipn_skipn. f_equal. lia.
Qed.
Lemma slice_app_l {A} (l1 l2 : list A) a b : 0 <= a -> a <= b -> b <= zlen l1 -> slice (l1 ++ l2) a b = slice l1 a b.
Proof.
  intros. unfold slice, zlen in *. rewrite skipn_app, firstn_app.
  replace (Z.to_nat (b - a) - length (skipn (Z.to_nat a) l1))%nat with 0%nat by (rewrite skipn_length; lia).
  cbn [firstn]. apply app_nil_r.
Qed.
(* reading l[x..y) across a splice at a of d, when [x..y) = [x..a) ++ [a..y) with y <= a + |d| *)
Lemma slice_splice_mid {A} (l d : list A) a x y : 0 <= x -> x <= a -> a <= y -> y <= a + zlen d -> a + zlen d <= zlen l ->
  slice (splice l a d) x y = slice l x a ++ firstn (Z.to_nat (y - a)) d.
Proof.
  intros Hx Hxa Hay Hyd Hl. pose proof (zlen_nonneg d) as Hd.
  rewrite (slice_split _ x a y) by (rewrite ?zlen_splice; lia).
  rewrite slice_splice_before by lia. f_equal.
  assert (Hs : slice (splice l a d) a y = firstn (Z.to_nat (y - a)) (slice (splice l a d) a (a + zlen d))).
  { rewrite firstn_slice by (rewrite ?zlen_splice; lia). f_equal. lia. }
  rewrite Hs, slice_splice_same by lia. reflexivity.
Qed.
