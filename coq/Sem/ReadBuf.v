(* Sem/ReadBuf.v — tokio::io::ReadBuf (tokio 1.53.1, src/io/read_buf.rs) and the shape of an AsyncRead / AsyncWrite
   collaborator.  MODELLED, not verified: transcribed from the pinned tokio source; exercised by the tokio harness. *)
From FB Require Import Sem.Base.
Open Scope Z_scope.

(* buf: the whole backing slice (uninitialised cells hold whatever they hold); filled <= initialized <= len *)
Record rb := { rb_buf : list Z; rb_filled : Z; rb_init : Z }.
Definition rb_new (buf : list Z) : rb := {| rb_buf := buf; rb_filled := 0; rb_init := zlen buf |}.
Definition rb_uninit (buf : list Z) : rb := {| rb_buf := buf; rb_filled := 0; rb_init := 0 |}.
Definition rb_capacity (b : rb) : Z := zlen (rb_buf b).
Definition rb_remaining (b : rb) : Z := rb_capacity b - rb_filled b.
Definition rb_filled_bytes (b : rb) : list Z := slice (rb_buf b) 0 (rb_filled b).
Definition rb_wf (b : rb) : Prop := 0 <= rb_filled b /\ rb_filled b <= rb_init b /\ rb_init b <= zlen (rb_buf b).

(* initialize_unfilled_to(n): zero buf[initialized..filled+n) if needed; the caller gets buf[filled..filled+n) to write *)
Definition rb_initialize_unfilled_to {S} (b : rb) (n : Z) : M S (rb * view) :=
  assert_ (n <=? rb_remaining b) ;;;
  let end_ := rb_filled b + n in
  let b' := if rb_init b <? end_
            then {| rb_buf := splice (rb_buf b) (rb_init b) (repeat 0 (Z.to_nat (end_ - rb_init b)));
                    rb_filled := rb_filled b; rb_init := end_ |}
            else b in
  ret (b', {| v_off := rb_filled b; v_end := end_ |}).
Definition rb_initialize_unfilled {S} (b : rb) : M S (rb * view) := rb_initialize_unfilled_to b (rb_remaining b).
(* writing through the &mut [u8] the previous call returned *)
Definition rb_write_view (b : rb) (v : view) (bytes : list Z) : rb :=
  {| rb_buf := splice (rb_buf b) (v_off v) (fit bytes (slice (rb_buf b) (v_off v) (v_end v))); rb_filled := rb_filled b; rb_init := rb_init b |}.
Definition rb_view_bytes (b : rb) (v : view) : list Z := slice (rb_buf b) (v_off v) (v_end v).
(* set_filled / advance (checked_add is on usize) *)
Definition rb_set_filled {S} (b : rb) (n : Z) : M S rb :=
  assert_ (n <=? rb_init b) ;;; ret {| rb_buf := rb_buf b; rb_filled := n; rb_init := rb_init b |}.
Definition rb_advance {S} (b : rb) (n : Z) : M S rb :=
  assert_ (rb_filled b + n <=? usize_max) ;;; rb_set_filled b (rb_filled b + n).
Definition rb_put_slice {S} (b : rb) (src : list Z) : M S rb :=
  assert_ (zlen src <=? rb_remaining b) ;;;
  let end_ := rb_filled b + zlen src in
  ret {| rb_buf := splice (rb_buf b) (rb_filled b) src; rb_filled := end_; rb_init := Z.max (rb_init b) end_ |}.

(* Poll<io::Result<T>> *)
Inductive poll (A : Type) := PReady (a : A) | PPending.
Arguments PReady {A}. Arguments PPending {A}.

(* an AsyncRead collaborator: polled with a ReadBuf, it returns the ReadBuf as it leaves it *)
Inductive ard_res := AROk (b' : rb) | ARErr (k : ekind) (b' : rb) | ARPending (b' : rb) | ARPanic.
Record AsyncReader (RS : Type) := { prd : RS -> rb -> ard_res * RS }.
Arguments prd {RS}.
(* an AsyncWrite collaborator *)
Inductive awr_res := AWOk (n : Z) | AWErr (k : ekind) | AWPending | AWPanic.
Inductive afl_res := AFOk | AFErr (k : ekind) | AFPending | AFPanic.
Record AsyncWriter (WS : Type) := {
  pwr : WS -> list Z -> awr_res * WS; pfl : WS -> afl_res * WS; psh : WS -> afl_res * WS }.
Arguments pwr {WS}. Arguments pfl {WS}. Arguments psh {WS}.
