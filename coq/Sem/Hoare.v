(* Sem/Hoare.v — a weakest-precondition reading of the M monad: `wp m s Q QP` says that running m
   from s either returns a value/state satisfying Q or panics in a state satisfying QP. *)
From FB Require Import Sem.Base.
Open Scope Z_scope.

Definition wp {S A} (m : M S A) (s : S) (Q : A -> S -> Prop) (QP : S -> Prop) : Prop :=
  match m s with Val a s' => Q a s' | Panic s' => QP s' end.

Lemma wp_ret {S A} (a : A) (s : S) (Q : A -> S -> Prop) QP : Q a s -> wp (ret a) s Q QP.
Proof. intros H. exact H. Qed.
Lemma wp_panic {S A} (s : S) (Q : A -> S -> Prop) (QP : S -> Prop) : QP s -> wp (@panic S A) s Q QP.
Proof. intros H. exact H. Qed.
Lemma wp_bind {S A B} (m : M S A) (k : A -> M S B) (s : S) Q QP R RP :
  wp m s Q QP -> (forall a s', Q a s' -> wp (k a) s' R RP) -> (forall s', QP s' -> RP s') ->
  wp (bind m k) s R RP.
Proof.
  unfold wp, bind. intros H1 H2 H3. destruct (m s) as [a s'|s']; [apply H2; exact H1|apply H3; exact H1].
Qed.
Lemma wp_conseq {S A} (m : M S A) (s : S) (Q Q' : A -> S -> Prop) (QP QP' : S -> Prop) :
  wp m s Q QP -> (forall a s', Q a s' -> Q' a s') -> (forall s', QP s' -> QP' s') -> wp m s Q' QP'.
Proof. unfold wp. intros H H1 H2. destruct (m s); auto. Qed.
Lemma wp_and {S A} (m : M S A) (s : S) Q1 Q2 QP1 QP2 :
  wp m s Q1 QP1 -> wp m s Q2 QP2 -> wp m s (fun a s' => Q1 a s' /\ Q2 a s') (fun s' => QP1 s' /\ QP2 s').
Proof. unfold wp. destruct (m s); auto. Qed.
Lemma wp_val {S A} (m : M S A) (s : S) a s' (Q : A -> S -> Prop) QP : m s = Val a s' -> Q a s' -> wp m s Q QP.
Proof. unfold wp. intros -> H. exact H. Qed.
Lemma wp_is_panic {S A} (m : M S A) (s s' : S) (Q : A -> S -> Prop) (QP : S -> Prop) : m s = Panic s' -> QP s' -> wp m s Q QP.
Proof. unfold wp. intros -> H. exact H. Qed.
(* reading a wp back *)
Lemma wp_inv_val {S A} (m : M S A) (s : S) Q QP a s' : wp m s Q QP -> m s = Val a s' -> Q a s'.
Proof. unfold wp. intros H E. rewrite E in H. exact H. Qed.
Lemma wp_inv_panic {S A} (m : M S A) (s : S) (Q : A -> S -> Prop) QP s' : wp m s Q QP -> m s = Panic s' -> QP s'.
Proof. unfold wp. intros H E. rewrite E in H. exact H. Qed.
Lemma wp_no_panic {S A} (m : M S A) (s : S) (Q : A -> S -> Prop) :
  wp m s Q (fun _ => False) -> exists a s', m s = Val a s' /\ Q a s'.
Proof. unfold wp. destruct (m s) as [a s'|s']; [eauto|tauto]. Qed.
