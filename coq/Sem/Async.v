(* Sem/Async.v — the modelled lowering of an `async fn` whose body is `loop { PREFIX; x = FUT.await; SUFFIX }` with one await,
   and the two facts C14 / C15 need about it, proved once for ANY prefix / awaited future / suffix:
   (1) cancel_invisible: dropping the future at any pending points and starting a new call changes nothing;
   (2) pending_invisible: the machine equals the blocking loop in which the awaited future is polled until it is ready.
   The only hypotheses: the state the prefix leaves at the await is a fixed point of the prefix (pre_restart), and a Pending
   poll of the awaited future does not disturb what the prefix looks at (pending_keeps_pre). *)
From Coq Require Import List Bool Lia.
Import ListNotations.
From FB Require Import Sem.Base.

Section ASYNC.
Variables St View IoZ Result : Type.
(* loop prefix: finishes with a result, or reaches the await holding a view *)
Variable pre : St -> res St (Result + View).
(* one poll of the awaited future: None = Poll::Pending; it may change the state (reader position, bytes in the destination) *)
Inductive awaited := AwPanic (s : St) | AwPending (s : St) | AwReady (x : IoZ) (s : St).
Variable await : View -> St -> awaited.
(* loop suffix: Some r = return r, None = next iteration *)
Variable post : IoZ -> St -> res St (option Result).

Inductive fut := Start | AtAwait (v : View).
Inductive out := Ready (r : Result) (s : St) | Panicked (s : St) | Exhausted (s : St).

Definition to_await (f : fut) (s : St) : res St (Result + View) :=
  match f with AtAwait v => Val (inr v) s | Start => pre s end.

(* the async fn polled until completion (at most n polls of the awaited future).
   `cancel` says, per Pending, whether the caller drops the future there and starts a new call on the same state. *)
Fixpoint drive (n : nat) (cancel : list bool) (f : fut) (s : St) : out :=
  match n with
  | O => Exhausted s
  | S m =>
    match to_await f s with
    | Panic t => Panicked t
    | Val (inl r) t => Ready r t
    | Val (inr v) t =>
        match await v t with
        | AwPanic u => Panicked u
        | AwPending u => drive m (tl cancel) (if hd false cancel then Start else AtAwait v) u
        | AwReady x u =>
            match post x u with
            | Panic w => Panicked w
            | Val (Some r) w => Ready r w
            | Val None w => drive m cancel Start w
            end
        end
    end
  end.

(* an invariant of the state (for FixedBuf: the index invariant), kept by every piece *)
Variable I : St -> Prop.
Hypothesis pre_inv : forall s x t, I s -> pre s = Val x t -> I t.
Hypothesis pending_inv : forall v t u, I t -> pre t = Val (inr v) t -> await v t = AwPending u -> I u.
Hypothesis ready_post_inv : forall v t x u o w, I t -> pre t = Val (inr v) t -> await v t = AwReady x u -> post x u = Val o w -> I w.
Hypothesis pre_restart : forall s v t, I s -> pre s = Val (inr v) t -> pre t = Val (inr v) t.
Hypothesis pending_keeps_pre : forall v t u, I t -> pre t = Val (inr v) t -> await v t = AwPending u -> pre u = Val (inr v) u.

(* the invariant of a suspended future: its state is what the prefix would produce again *)
Definition wf (f : fut) (s : St) : Prop :=
  I s /\ match f with Start => True | AtAwait v => pre s = Val (inr v) s end.

Lemma to_await_restart f s v t : wf f s -> to_await f s = Val (inr v) t -> pre t = Val (inr v) t /\ I t.
Proof.
  intros [Hi Hwf] H. destruct f as [|v0]; cbn in *.
  - split; [exact (pre_restart _ _ _ Hi H)|exact (pre_inv _ _ _ Hi H)].
  - inversion H; subst. auto.
Qed.
(* from a well-formed suspended future, resuming and restarting reach the await identically *)

(* C15: cancellation at any set of pending points is invisible *)
Theorem cancel_invisible : forall n cancel cancel' f s, wf f s ->
  drive n cancel f s = drive n cancel' f s.
Proof.
  induction n as [|n IH]; intros cancel cancel' f s Hwf; [reflexivity|].
  cbn [drive]. destruct (to_await f s) as [[r|v] t|t] eqn:E; try reflexivity.
  destruct (to_await_restart f s v t Hwf E) as [Hp Hit].
  destruct (await v t) as [u|u|x u] eqn:Ea; try reflexivity.
  - (* Pending: whichever of resume / restart each side chooses, the next poll reaches the same await *)
    pose proof (pending_keeps_pre v t u Hit Hp Ea) as Hu.
    assert (Hsame : forall (c : list bool) (b : bool), drive n c (if b then Start else AtAwait v) u = drive n c (AtAwait v) u).
    { intros c b. destruct b; [|reflexivity].
      destruct n as [|n']; [reflexivity|]. cbn [drive to_await]. rewrite Hu. reflexivity. }
    rewrite !Hsame. apply IH. split; [exact (pending_inv _ _ _ Hit Hp Ea)|exact Hu].
  - destruct (post x u) as [[r|] w|w] eqn:Ep; try reflexivity. apply IH. split; [exact (ready_post_inv _ _ _ _ _ _ Hit Hp Ea Ep)|exact Logic.I].
Qed.

(* the blocking counterpart of the awaited future: poll it until it is ready (k = patience) *)
Fixpoint await_until (k : nat) (v : View) (s : St) : awaited :=
  match await v s with
  | AwPending u => match k with O => AwPending u | S k' => await_until k' v u end
  | r => r
  end.
(* the blocking fn: the same loop with the blocking read; it never suspends *)
Fixpoint bloop (n k : nat) (s : St) : out :=
  match n with
  | O => Exhausted s
  | S m =>
    match pre s with
    | Panic t => Panicked t
    | Val (inl r) t => Ready r t
    | Val (inr v) t =>
        match await_until k v t with
        | AwPanic u => Panicked u
        | AwPending u => Exhausted u
        | AwReady x u =>
            match post x u with
            | Panic w => Panicked w
            | Val (Some r) w => Ready r w
            | Val None w => bloop m k w
            end
        end
    end
  end.

Definition finished (o : out) : Prop := match o with Exhausted _ => False | _ => True end.

(* C14: if the blocking fn finishes, driving the async fn (with enough polls, under any cancellation pattern)
   finishes with the same result in the same state — whatever the placement of Pending *)
Theorem pending_invisible : forall n k s, I s -> finished (bloop n k s) ->
  forall cancel, exists polls, forall p, (polls <= p)%nat -> drive p cancel Start s = bloop n k s.
Proof.
  induction n as [|n IH]; intros k s His Hfin cancel; [contradiction|].
  cbn [bloop] in *. destruct (pre s) as [[r|v] t|t] eqn:E.
  - exists 1%nat. intros p Hp. destruct p; [inversion Hp|]. cbn [drive to_await]. rewrite E. reflexivity.
  - pose proof (pre_restart _ _ _ His E) as Hp0. pose proof (pre_inv _ _ _ His E) as Hit.
    (* skip the Pending polls of this read *)
    assert (Hskip : forall k t cancel f, I t -> pre t = Val (inr v) t -> (f = Start \/ f = AtAwait v) -> to_await f t = Val (inr v) t ->
       match await_until k v t with
       | AwPanic u => exists polls, forall p, (polls <= p)%nat -> drive p cancel f t = Panicked u
       | AwPending u => True
       | AwReady x u => (forall o w, post x u = Val o w -> I w) /\ exists extra cancel', forall p, drive (extra + S p) cancel f t =
            match post x u with Panic w => Panicked w | Val (Some r) w => Ready r w | Val None w => drive p cancel' Start w end
       end).
    { induction k0 as [|k0 IHk]; intros t0 c0 f0 Hi0 Hpt Hf0 Hta; cbn [await_until].
      - destruct (await v t0) as [u|u|x u] eqn:Ea; [|exact Logic.I|].
        + exists 1%nat. intros p Hp. destruct p; [inversion Hp|]. cbn [drive]. rewrite Hta, Ea. reflexivity.
        + split; [intros o w Hpo; exact (ready_post_inv _ _ _ _ _ _ Hi0 Hpt Ea Hpo)|]. exists 0%nat, c0. intros p. cbn [drive Nat.add]. rewrite Hta, Ea. reflexivity.
      - destruct (await v t0) as [u|u|x u] eqn:Ea.
        + exists 1%nat. intros p Hp. destruct p; [inversion Hp|]. cbn [drive]. rewrite Hta, Ea. reflexivity.
        + pose proof (pending_keeps_pre v t0 u Hi0 Hpt Ea) as Hu.
          set (f1 := if hd false c0 then Start else AtAwait v).
          assert (Hta1 : to_await f1 u = Val (inr v) u) by (unfold f1; destruct (hd false c0); cbn; [exact Hu|reflexivity]).
          specialize (IHk u (tl c0) f1 (pending_inv _ _ _ Hi0 Hpt Ea) Hu ltac:(unfold f1; destruct (hd false c0); auto) Hta1).
          destruct (await_until k0 v u) as [w|w|x w].
          * destruct IHk as (polls & Hpolls). exists (S polls). intros p Hp. destruct p; [inversion Hp|].
            cbn [drive]. rewrite Hta, Ea. fold f1. apply Hpolls. apply le_S_n. exact Hp.
          * exact Logic.I.
          * destruct IHk as (Hiw & extra & c' & Hx). split; [exact Hiw|]. exists (S extra), c'. intros p. cbn [Nat.add drive]. rewrite Hta, Ea. fold f1. apply Hx.
        + split; [intros o w Hpo; exact (ready_post_inv _ _ _ _ _ _ Hi0 Hpt Ea Hpo)|]. exists 0%nat, c0. intros p. cbn [drive Nat.add]. rewrite Hta, Ea. reflexivity. }
    specialize (Hskip k t cancel Start Hit Hp0 (or_introl eq_refl) Hp0).
    (* the first poll reaches the await from s as from t *)
    assert (Hfirst : forall p c, drive (S p) c Start s =
              match await v t with
              | AwPanic u => Panicked u
              | AwPending u => drive p (tl c) (if hd false c then Start else AtAwait v) u
              | AwReady x u => match post x u with Panic w => Panicked w | Val (Some r) w => Ready r w | Val None w => drive p c Start w end
              end) by (intros p c; cbn [drive to_await]; rewrite E; reflexivity).
    assert (Hfirst_t : forall p c, drive (S p) c Start t = drive (S p) c Start s)
      by (intros p c; rewrite Hfirst; cbn [drive to_await]; rewrite Hp0; reflexivity).
    destruct (await_until k v t) as [u|u|x u] eqn:Eu.
    + destruct Hskip as (polls & Hpolls). exists (S polls). intros p Hp. destruct p; [inversion Hp|].
      rewrite <- Hfirst_t. apply Hpolls. lia.
    + contradiction.
    + destruct Hskip as (Hiu & extra & c' & Hx).
      destruct (post x u) as [[r|] w|w] eqn:Epost.
      * exists (extra + 1)%nat. intros p Hp.
        replace p with (extra + S (p - extra - 1))%nat by lia.
        destruct (extra + S (p - extra - 1))%nat eqn:En; [lia|]. rewrite <- Hfirst_t, <- En. apply Hx.
      * destruct (IH k w (Hiu _ _ eq_refl) Hfin c') as (polls & Hpolls). exists (extra + S polls)%nat. intros p Hp.
        replace p with (extra + S (p - extra - 1))%nat by lia.
        destruct (extra + S (p - extra - 1))%nat eqn:En; [lia|]. rewrite <- Hfirst_t, <- En. rewrite Hx. apply Hpolls. lia.
      * exists (extra + 1)%nat. intros p Hp.
        replace p with (extra + S (p - extra - 1))%nat by lia.
        destruct (extra + S (p - extra - 1))%nat eqn:En; [lia|]. rewrite <- Hfirst_t, <- En. apply Hx.
  - exists 1%nat. intros p Hp. destruct p; [inversion Hp|]. cbn [drive to_await]. rewrite E. reflexivity.
Qed.
End ASYNC.

Arguments AwPanic {St IoZ}. Arguments AwPending {St IoZ}. Arguments AwReady {St IoZ}.
Arguments Start {View}. Arguments AtAwait {View}.
Arguments Ready {St Result}. Arguments Panicked {St Result}. Arguments Exhausted {St Result}.
Arguments drive {St View IoZ Result} pre await post n cancel f s.
Arguments bloop {St View IoZ Result} pre await post n k s.
Arguments await_until {St View IoZ} await k v s.
Arguments wf {St View Result} pre I f s.
Arguments finished {St Result} o.
