(* Facets/Async.v — the translated async read_frame / copy_once_from as instances of the modelled lowering (Sem/Async.v):
   the prefix's exact behaviour, its restartability, its indifference to a Pending poll; hence C15 (cancel_invisible) and
   C14 (pending_invisible), and the identification of the blocking side with the translated blocking read_frame. *)
From FB Require Import Sem.Base Sem.Lemmas Sem.Hoare Sem.ReadBuf Sem.Async Model.Fb Model.TokioAsync Spec.Api
  Facets.Fb Facets.Fb2 Facets.Rf.
Open Scope Z_scope.

Section AS.
Variable SIZE : Z.
Variable chk : bool.
Context {RS : Type}.
Variable A : AsyncReader RS.
Variable df : list Z -> dres.
Hypothesis Hdf : forall u, zlen u <= SIZE -> df_in_bounds df u.

Lemma unread_le s : Inv SIZE s -> zlen (unread s) <= SIZE.
Proof. intros HI. rewrite (zlen_unread SIZE s HI). destruct HI as (H1&H2&H3&H4&H5). unfold len_. lia. Qed.

(* where the prefix goes when no result is buffered: compact, then full -> InvalidData, else reach the await on writable() *)
Definition pre_fill (s : fb) : res fb (frame_res + view) :=
  let s1 := shifted s in
  if wlen SIZE s1 =? 0 then Val (inl (FErr InvalidData)) s1
  else Val (inr {| v_off := write_index s1; v_end := SIZE |}) s1.
Definition pre_spec (s : fb) : res fb (frame_res + view) :=
  if len_ s =? 0 then pre_fill s else
  match df (unread s) with
  | DFrame a b n => Val (inl (FFrame (slice (unread s) a b))) (after_read s n)
  | DErr => Val (inl (FErr InvalidData)) s
  | DPanic => Panic s
  | DNone => pre_fill s
  end.

Lemma pre_fill_ok s : Inv SIZE s ->
  (shift chk ;;;
   writable_6 <- writable ;;
   if vlen writable_6 =? 0 then ret (inl (FErr InvalidData)) else ret (inr writable_6)) s = pre_fill s.
Proof.
  intros HI. destruct (shifted_facts SIZE chk s HI) as (Hs & I1 & _).
  unfold pre_fill. cbv zeta. rewrite (bind_val _ _ _ _ _ Hs).
  rewrite (bind_val _ _ _ _ _ (writable_spec SIZE (shifted s) I1)).
  unfold vlen; cbn [v_off v_end]. fold (wlen SIZE (shifted s)). destruct (wlen SIZE (shifted s) =? 0); reflexivity.
Qed.

Theorem arf_pre_spec s : Inv SIZE s -> arf_pre chk df s = pre_spec s.
Proof.
  intros HI. unfold arf_pre, pre_spec.
  rewrite (bind_val _ _ _ _ _ (is_empty_spec s)).
  destruct (len_ s =? 0) eqn:E0.
  - cbn [negb]. rewrite bind_ret_l. apply pre_fill_ok. exact HI.
  - cbn [negb]. pose proof (deframe_spec SIZE chk s df HI (Hdf _ (unread_le s HI))) as Hd. rewrite E0 in Hd.
    destruct (df (unread s)) as [|a b n| |] eqn:Ed.
    + unfold bind at 1. unfold bind at 1. rewrite Hd. cbv beta iota. unfold ret at 1. cbv beta iota. apply pre_fill_ok. exact HI.
    + destruct (Hdf _ (unread_le s HI) a b n Ed) as (B1 & B2 & B3 & B4). rewrite (zlen_unread SIZE s HI) in B4.
      unfold bind at 1. unfold bind at 1. rewrite Hd. cbv beta iota.
      unfold bind at 1. unfold mem_, get_mem. cbv beta iota. unfold bind at 1. unfold slice_chk.
      destruct (after_read_facts SIZE chk s n HI ltac:(lia)) as (I' & _ & C & _).
      pose proof HI as (H1&H2&H3&H4&H5). unfold len_ in *.
      replace ((read_index s + a <=? read_index s + b) && (read_index s + b <=? zlen (mem (after_read s n)))) with true
        by (symmetry; apply andb_true_iff; rewrite C; lia).
      cbv beta iota. unfold ret. cbv beta iota.
      rewrite (frame_payload SIZE chk s a b n HI) by (unfold len_; lia). reflexivity.
    + unfold bind at 1. unfold bind at 1. rewrite Hd. reflexivity.
    + unfold bind at 1. unfold bind at 1. rewrite Hd. reflexivity.
Qed.

(* the state at the await is a fixed point of the prefix (await_state_is_buffer): restarting re-runs the deframer on the same
   unread bytes (same answer), compacts an already compacted buffer (identity), and offers the same view *)
Theorem arf_pre_restart s v t : Inv SIZE s -> arf_pre chk df s = Val (inr v) t ->
  arf_pre chk df t = Val (inr v) t /\ Inv SIZE t /\ v = {| v_off := write_index t; v_end := SIZE |} /\ read_index t = 0 /\ 0 < wlen SIZE t.
Proof.
  intros HI. rewrite (arf_pre_spec s HI).
  destruct (shifted_facts SIZE chk s HI) as (_ & I1 & U1 & Ri1 & Wi1 & L1 & W1 & _).
  assert (Hfill : pre_fill s = Val (inr v) t -> (len_ s = 0 \/ df (unread s) = DNone) ->
     arf_pre chk df t = Val (inr v) t /\ Inv SIZE t /\ v = {| v_off := write_index t; v_end := SIZE |} /\ read_index t = 0 /\ 0 < wlen SIZE t).
  { unfold pre_fill. cbv zeta. destruct (wlen SIZE (shifted s) =? 0) eqn:Ew; [discriminate|].
    intros H Hnone. inversion H; subst. clear H.
    pose proof I1 as (H1&H2&H3&H4&H5).
    split; [|split; [exact I1|split; [reflexivity|split; [exact Ri1|unfold wlen in *; lia]]]].
    rewrite (arf_pre_spec (shifted s) I1). unfold pre_spec, pre_fill. cbv zeta.
    rewrite (shifted_idem SIZE chk s HI), L1, U1, Ew.
    destruct (len_ s =? 0) eqn:E0; [reflexivity|].
    destruct Hnone as [Hz|Hd]; [lia|]. rewrite Hd. reflexivity. }
  unfold pre_spec. destruct (len_ s =? 0) eqn:E0; [intros H; apply Hfill; [exact H|left; lia]|].
  destruct (df (unread s)) eqn:Ed; try discriminate. intros H. apply Hfill; [exact H|right; reflexivity].
Qed.

(* the translated BLOCKING loop body is: the async prefix; a blocking read into the view; the async suffix
   (async_prefix_eq / async_suffix_eq: the tokio crate re-implements the same loop) *)
Theorem blocking_body_decomposes (R : Reader RS) s rs : Inv SIZE s ->
  read_frame_body chk R df (s, rs) =
  match arf_pre chk df s with
  | Val (inl r) s1 => Val (Some r) (s1, rs)
  | Val (inr v) s1 =>
      match call_read R v (s1, rs) with
      | Val q w => lift_s (arf_post chk q) w
      | Panic w => Panic w
      end
  | Panic s1 => Panic (s1, rs)
  end.
Proof.
  intros HI. rewrite (read_frame_body_spec SIZE chk R df s rs HI (Hdf _ (unread_le s HI))), (arf_pre_spec s HI).
  destruct (shifted_facts SIZE chk s HI) as (_ & I1 & U1 & Ri1 & Wi1 & L1 & W1 & _).
  assert (Hfill : body_fill SIZE chk R s rs =
     match pre_fill s with
     | Val (inl r) s1 => Val (Some r) (s1, rs)
     | Val (inr v) s1 => match call_read R v (s1, rs) with Val q w => lift_s (arf_post chk q) w | Panic w => Panic w end
     | Panic s1 => Panic (s1, rs)
     end).
  { unfold body_fill, pre_fill. cbv zeta. set (s1 := shifted s) in *.
    destruct (wlen SIZE s1 =? 0) eqn:Ew; [reflexivity|].
    unfold call_read. cbn [fst snd v_off v_end]. fold (offered SIZE s1).
    destruct (rd R rs (offered SIZE s1)) as [[d' n|k|] rs'] eqn:Er; try reflexivity.
    fold (after_fill SIZE s1 d'). destruct (after_fill_facts SIZE s1 d' I1) as (I2 & U2 & W2 & L2 & _).
    unfold lift_s, arf_post. cbn [fst snd].
    destruct (n =? 0) eqn:En.
    - rewrite (bind_val _ _ _ _ _ (is_empty_spec (after_fill SIZE s1 d'))). rewrite L2, L1. destruct (len_ s =? 0); reflexivity.
    - unfold bind. destruct (wrote chk n (after_fill SIZE s1 d')); reflexivity. }
  unfold body_spec, pre_spec. destruct (len_ s =? 0); [exact Hfill|].
  destruct (df (unread s)); try reflexivity; exact Hfill.
Qed.

(* ---- the instance: world = buffer x reader state; invariant = the buffer's index invariant ---- *)
Definition WI (w : fb * RS) : Prop := Inv SIZE (fst w).

Lemma rf_pre_inv w x t : WI w -> rf_pre chk df w = Val x t -> WI t.
Proof.
  unfold WI, rf_pre, lift_s. destruct w as [s rs]; cbn [fst snd]. intros HI.
  rewrite (arf_pre_spec s HI). destruct (shifted_facts SIZE chk s HI) as (_ & I1 & _).
  assert (Hfill : forall x t, match pre_fill s with Val a s0 => Val a (s0, rs) | Panic s0 => Panic (s0, rs) end = Val x t -> Inv SIZE (fst t)).
  { intros x0 t0. unfold pre_fill. cbv zeta. destruct (wlen SIZE (shifted s) =? 0); intros H; inversion H; exact I1. }
  unfold pre_spec. destruct (len_ s =? 0) eqn:E0; [apply Hfill|].
  destruct (df (unread s)) as [|a b n| |] eqn:Ed; try apply Hfill; intros H; inversion H; subst; cbn [fst]; try exact HI.
  destruct (Hdf _ (unread_le s HI) a b n Ed) as (B1 & B2 & B3 & B4). rewrite (zlen_unread SIZE s HI) in B4.
  apply (after_read_facts SIZE chk s n HI). lia.
Qed.
Lemma rf_pre_restart w v t : WI w -> rf_pre chk df w = Val (inr v) t -> rf_pre chk df t = Val (inr v) t.
Proof.
  unfold WI, rf_pre, lift_s. destruct w as [s rs]; cbn [fst snd]. intros HI H.
  destruct (arf_pre chk df s) as [[r|v0] s1|s1] eqn:E; inversion H; subst. cbn [fst snd].
  destruct (arf_pre_restart s v s1 HI E) as (Hr & _). rewrite Hr. reflexivity.
Qed.
(* what the prefix tells us about a state it is a fixed point of *)
Lemma at_await t v : WI t -> rf_pre chk df t = Val (inr v) t ->
  v = {| v_off := write_index (fst t); v_end := SIZE |} /\ read_index (fst t) = 0 /\ 0 < wlen SIZE (fst t) /\
  arf_pre chk df (fst t) = Val (inr v) (fst t).
Proof.
  unfold WI, rf_pre, lift_s. destruct t as [s rs]; cbn [fst snd]. intros HI H.
  destruct (arf_pre chk df s) as [[r|v0] s1|s1] eqn:E; inversion H; subst.
  destruct (arf_pre_restart s v s HI E) as (_ & _ & Hv & Hri & Hw). auto.
Qed.
(* one poll of tokio's Read future on the view: bytes land only inside writable(); indices and unread bytes are untouched *)
Lemma poll_future_frame t v : WI t -> v = {| v_off := write_index (fst t); v_end := SIZE |} ->
  let '(_, t') := poll_read_future A v t in
  Inv SIZE (fst t') /\ unread (fst t') = unread (fst t) /\ read_index (fst t') = read_index (fst t) /\
  write_index (fst t') = write_index (fst t) /\ len_ (fst t') = len_ (fst t).
Proof.
  unfold WI. destruct t as [s rs]; cbn [fst snd]. intros HI ->. unfold poll_read_future. cbn [fst snd v_off v_end].
  fold (offered SIZE s).
  destruct (prd A rs (rb_new (offered SIZE s))) as [[b'|k b'|b'|] rs']; cbn [fst].
  1-3: fold (after_fill SIZE s (rb_buf b')); destruct (after_fill_facts SIZE s (rb_buf b') HI) as (I2 & U2 & _ & L2 & _);
       (split; [exact I2|]; split; [exact U2|]; split; [reflexivity|]; split; [reflexivity|exact L2]).
  split; [exact HI|]. split; [reflexivity|]. split; [reflexivity|]. split; reflexivity.
Qed.
Lemma rf_pending_inv v t u : WI t -> rf_pre chk df t = Val (inr v) t -> rf_await A v t = AwPending u -> WI u.
Proof.
  intros HI Hp Ha. destruct (at_await t v HI Hp) as (Hv & _). pose proof (poll_future_frame t v HI Hv) as Hf.
  unfold rf_await in Ha. destruct (poll_read_future A v t) as [[|q|] t']; inversion Ha; subst. apply Hf.
Qed.
Lemma rf_pending_keeps_pre v t u : WI t -> rf_pre chk df t = Val (inr v) t -> rf_await A v t = AwPending u ->
  rf_pre chk df u = Val (inr v) u.
Proof.
  intros HI Hp Ha. destruct (at_await t v HI Hp) as (Hv & Hri & Hw & Hpre). pose proof (poll_future_frame t v HI Hv) as Hf.
  unfold rf_await in Ha. destruct (poll_read_future A v t) as [[|q|] t'] eqn:Ep; inversion Ha; subst.
  destruct Hf as (I' & U' & R' & W' & L'). destruct u as [s' rs']. destruct t as [s rs]. cbn [fst snd] in *.
  unfold rf_pre, lift_s. cbn [fst snd]. rewrite (arf_pre_spec s' I'). rewrite (arf_pre_spec s HI) in Hpre.
  unfold pre_spec, pre_fill in *. cbv zeta in *. rewrite L', U'.
  assert (Hsh : shifted s' = s') by (unfold shifted; rewrite R', Hri; reflexivity).
  assert (Hsh0 : shifted s = s) by (unfold shifted; rewrite Hri; reflexivity).
  rewrite Hsh. rewrite Hsh0 in Hpre. unfold wlen in *. rewrite W'.
  destruct (len_ s =? 0).
  - destruct (SIZE - write_index s =? 0); [discriminate|reflexivity].
  - destruct (df (unread s)); try discriminate. destruct (SIZE - write_index s =? 0); [discriminate|reflexivity].
Qed.
Lemma rf_ready_post_inv v t x u o w : WI t -> rf_pre chk df t = Val (inr v) t -> rf_await A v t = AwReady x u ->
  rf_post chk x u = Val o w -> WI w.
Proof.
  intros HI Hp Ha Hpo. destruct (at_await t v HI Hp) as (Hv & _). pose proof (poll_future_frame t v HI Hv) as Hf.
  unfold rf_await in Ha. destruct (poll_read_future A v t) as [[|q|] t'] eqn:Ep; inversion Ha; subst.
  destruct Hf as (I' & _). unfold WI. unfold rf_post, lift_s in Hpo. destruct u as [s' rs']. cbn [fst snd] in *.
  (* the count handed to the suffix is the length of a list *)
  assert (Hx : match x with Ok n => 0 <= n | Err _ => True end).
  { unfold poll_read_future in Ep. cbn [fst snd] in Ep.
    destruct (prd A (snd t) _) as [[b'|k b'|b'|] r']; inversion Ep; subst; [apply zlen_nonneg|exact Logic.I]. }
  unfold arf_post in Hpo. destruct x as [n|e].
  - destruct (n =? 0) eqn:En.
    + rewrite (bind_val _ _ _ _ _ (is_empty_spec s')) in Hpo. destruct (len_ s' =? 0); inversion Hpo; subst; exact I'.
    + unfold bind at 1 in Hpo. destruct (wrote chk n s') as [[] s2|s2] eqn:Ew; [|discriminate].
      cbn [ret] in Hpo. inversion Hpo; subst. cbn [fst].
      destruct (Z_lt_le_dec (wlen SIZE s') n) as [Hlt|Hle].
      * destruct (Z_le_gt_dec n usize_max) as [Hm|Hm].
        -- rewrite (wrote_panic SIZE chk s' n I' ltac:(lia) Hlt) in Ew. discriminate.
        -- exfalso. pose proof I' as (H1&H2&H3&H4&H5). unfold wlen in *. revert Ew. munf. inv_tac. brk; intros; try discriminate; lia.
      * pose proof (wrote_fifo SIZE chk s' n I' ltac:(lia)) as Hf. unfold wp in Hf. rewrite Ew in Hf. apply Hf.
  - inversion Hpo; subst. exact I'.
Qed.

(* C15: dropping the future at any pending points and starting a new call is invisible *)
Theorem c15_cancel_invisible n cancel cancel' w : WI w ->
  arf_drive chk A n cancel df w = arf_drive chk A n cancel' df w.
Proof.
  intros HI. unfold arf_drive.
  apply (cancel_invisible _ _ _ _ (rf_pre chk df) (rf_await A) (rf_post chk) WI
           rf_pre_inv rf_pending_inv rf_ready_post_inv rf_pre_restart rf_pending_keeps_pre).
  split; [exact HI|exact Logic.I].
Qed.
(* C14: if the blocking loop (reader polled until ready) finishes, the async fn driven with enough polls finishes identically *)
Theorem c14_pending_invisible n k w : WI w ->
  finished (bloop (rf_pre chk df) (rf_await A) (rf_post chk) n k w) ->
  forall cancel, exists polls, forall p, (polls <= p)%nat ->
    arf_drive chk A p cancel df w = bloop (rf_pre chk df) (rf_await A) (rf_post chk) n k w.
Proof.
  intros HI Hfin cancel. unfold arf_drive.
  exact (pending_invisible _ _ _ _ (rf_pre chk df) (rf_await A) (rf_post chk) WI
           rf_pre_inv rf_pending_inv rf_ready_post_inv rf_pre_restart rf_pending_keeps_pre n k w HI Hfin cancel).
Qed.
End AS.
