(* Facets/DfContract.v — the documented deframer contract, and the proof that the three provided
   deframers satisfy it (first-terminator characterisation => bounds, stability, locality, minimality). *)
From FB Require Import Sem.Base Sem.Lemmas Model.Deframers Facets.Deframers.
Open Scope Z_scope.

(* The contract FixedBuf::deframe / read_frame document for `deframer_fn`, made precise.
   L bounds the input length (slices are at most usize::MAX long; buffers at most SIZE). *)
Record df_contract (L : Z) (df : list Z -> dres) : Prop := {
  dfc_bounds : forall d a b n, zlen d <= L -> df d = DFrame a b n ->
                 0 <= a /\ a <= b /\ b <= n /\ n <= zlen d /\ 1 <= n;
  dfc_stable : forall d e, zlen (d ++ e) <= L -> df d <> DNone -> df (d ++ e) = df d;
  dfc_nopanic : forall d, zlen d <= L -> df d <> DPanic
}.

(* ---- generic: a deframer that reports the first index (from lo) where a local predicate hits ---- *)
Section FIRST.
Variable L : Z.
Variable lo : Z.
Variable H : list Z -> Z -> bool.       (* hit at index i *)
Variable e : list Z -> Z -> Z.          (* payload end for a hit at i *)
Variable df : list Z -> dres.
Hypothesis lo_nonneg : 0 <= lo.
Hypothesis H_local : forall d d' i, lo <= i -> (forall j, 0 <= j <= i -> znth d j = znth d' j) -> H d i = H d' i.
Hypothesis e_local : forall d d' i, lo <= i -> (forall j, 0 <= j <= i -> znth d j = znth d' j) -> e d i = e d' i.
Hypothesis e_bounds : forall d i, lo <= i -> 0 <= e d i <= i.
Hypothesis first_spec : forall d, zlen d <= L ->
  ((forall j, lo <= j < zlen d -> H d j = false) /\ df d = DNone)
  \/ (exists i, lo <= i < zlen d /\ H d i = true /\ (forall j, lo <= j < i -> H d j = false) /\
        df d = DFrame 0 (e d i) (i + 1)).

Lemma first_bounds d a b n : zlen d <= L -> df d = DFrame a b n ->
  0 <= a /\ a <= b /\ b <= n /\ n <= zlen d /\ 1 <= n.
Proof.
  intros HL Hd. destruct (first_spec d HL) as [(_ & Hn)|(i & Hi & _ & _ & Hf)]; [congruence|].
  rewrite Hf in Hd. inversion Hd; subst. pose proof (e_bounds d i ltac:(lia)). lia.
Qed.

Lemma app_agree d x i : 0 <= i < zlen d -> forall j, 0 <= j <= i -> znth d j = znth (d ++ x) j.
Proof. intros Hi j Hj. symmetry. apply znth_app_l. lia. Qed.

Lemma first_stable d x : zlen (d ++ x) <= L -> df d <> DNone -> df (d ++ x) = df d.
Proof.
  intros HL Hne. pose proof (zlen_nonneg x) as Hx. rewrite zlen_app in HL.
  destruct (first_spec d ltac:(lia)) as [(_ & Hn)|(i & Hi & Hh & Hmin & Hf)]; [congruence|].
  destruct (first_spec (d ++ x) ltac:(rewrite zlen_app; lia)) as [(Hnone & _)|(i' & Hi' & Hh' & Hmin' & Hf')].
  - exfalso. specialize (Hnone i ltac:(rewrite zlen_app; lia)).
    rewrite <- (H_local d (d ++ x) i ltac:(lia) (app_agree d x i ltac:(lia))) in Hnone. congruence.
  - assert (i' = i).
    { destruct (Z.lt_trichotomy i' i) as [Hlt|[Heq|Hgt]]; [|exact Heq|].
      - exfalso. specialize (Hmin i' ltac:(lia)).
        rewrite (H_local d (d ++ x) i' ltac:(lia) (app_agree d x i' ltac:(lia))) in Hmin. congruence.
      - exfalso. specialize (Hmin' i ltac:(lia)).
        rewrite <- (H_local d (d ++ x) i ltac:(lia) (app_agree d x i ltac:(lia))) in Hmin'. congruence. }
    subst i'. rewrite Hf', Hf. f_equal. symmetry. apply e_local; [lia|]. apply app_agree. lia.
Qed.

Lemma firstn_agree d k i : 0 <= i < Z.of_nat k -> forall j, 0 <= j <= i -> znth (firstn k d) j = znth d j.
Proof. intros Hi j Hj. apply znth_firstn. lia. Qed.

(* the answer depends only on d[..n] *)
Lemma first_local d a b n : zlen d <= L -> df d = DFrame a b n -> df (firstn (Z.to_nat n) d) = DFrame a b n.
Proof.
  intros HL Hd. destruct (first_spec d HL) as [(_ & Hn)|(i & Hi & Hh & Hmin & Hf)]; [congruence|].
  rewrite Hf in Hd. inversion Hd; subst. clear Hd.
  set (d' := firstn (Z.to_nat (i + 1)) d).
  assert (Hl' : zlen d' = i + 1) by (unfold d'; rewrite zlen_firstn; lia).
  destruct (first_spec d' ltac:(lia)) as [(Hnone & _)|(i' & Hi' & Hh' & Hmin' & Hf')].
  - exfalso. specialize (Hnone i ltac:(lia)).
    rewrite (H_local d' d i ltac:(lia) (firstn_agree d (Z.to_nat (i + 1)) i ltac:(lia))) in Hnone. congruence.
  - assert (i' = i).
    { destruct (Z.lt_trichotomy i' i) as [Hlt|[Heq|Hgt]]; [|exact Heq|lia].
      exfalso. specialize (Hmin i' ltac:(lia)).
      rewrite <- (H_local d' d i' ltac:(lia) (firstn_agree d (Z.to_nat (i + 1)) i' ltac:(lia))) in Hmin. congruence. }
    subst i'. rewrite Hf'. f_equal. apply e_local; [lia|]. apply (firstn_agree d (Z.to_nat (i + 1))). lia.
Qed.

(* no shorter prefix of d[..n] is reported complete *)
Lemma first_minimal d a b n k : zlen d <= L -> df d = DFrame a b n -> 0 <= k < n ->
  df (firstn (Z.to_nat k) d) = DNone.
Proof.
  intros HL Hd Hk. destruct (first_spec d HL) as [(_ & Hn)|(i & Hi & Hh & Hmin & Hf)]; [congruence|].
  rewrite Hf in Hd. inversion Hd; subst. clear Hd.
  set (d' := firstn (Z.to_nat k) d).
  assert (Hl' : zlen d' = k) by (unfold d'; rewrite zlen_firstn; lia).
  destruct (first_spec d' ltac:(lia)) as [(_ & Hn)|(i' & Hi' & Hh' & _ & _)]; [exact Hn|].
  exfalso. specialize (Hmin i' ltac:(lia)).
  rewrite <- (H_local d' d i' ltac:(lia) (firstn_agree d (Z.to_nat k) i' ltac:(lia))) in Hmin. congruence.
Qed.

Lemma first_never_err d : zlen d <= L -> df d <> DErr /\ df d <> DPanic.
Proof.
  intros HL. destruct (first_spec d HL) as [(_ & Hn)|(i & _ & _ & _ & Hf)]; rewrite ?Hn, ?Hf; split; discriminate.
Qed.

Lemma first_contract : df_contract L df.
Proof.
  constructor.
  - exact first_bounds.
  - exact first_stable.
  - intros d HL. apply first_never_err. exact HL.
Qed.
Lemma first_start0 d a b n : zlen d <= L -> df d = DFrame a b n -> a = 0.
Proof.
  intros HL Hd. destruct (first_spec d HL) as [(_ & Hn)|(i & _ & _ & _ & Hf)]; [congruence|].
  rewrite Hf in Hd. inversion Hd; reflexivity.
Qed.
End FIRST.

(* everything the C05 statement says beyond the first-terminator characterisation itself *)
Definition df_first_facts (L : Z) (df : list Z -> dres) : Prop :=
  df_contract L df /\
  (forall d a b n, zlen d <= L -> df d = DFrame a b n -> a = 0 /\ df (firstn (Z.to_nat n) d) = DFrame a b n) /\
  (forall d a b n k, zlen d <= L -> df d = DFrame a b n -> 0 <= k < n -> df (firstn (Z.to_nat k) d) = DNone) /\
  (forall d, zlen d <= L -> df d <> DErr /\ df d <> DPanic).

(* ---- instances ---- *)
Section INST.
Variable chk : bool.
Definition df_line := df_of (deframe_line chk).
Definition df_crlf := df_of (deframe_crlf chk).
Definition df_null := df_of (deframe_null chk).

Definition line_hit (d : list Z) (i : Z) : bool := znth d i =? 10.
Definition line_end (d : list Z) (i : Z) : Z := if (0 <? i) && (znth d (i - 1) =? 13) then i - 1 else i.
Definition null_hit (d : list Z) (i : Z) : bool := znth d i =? 0.
Definition null_end (d : list Z) (i : Z) : Z := i.
Definition crlf_hit (d : list Z) (i : Z) : bool := (znth d (i - 1) =? 13) && (znth d i =? 10).
Definition crlf_end (d : list Z) (i : Z) : Z := i - 1.

Lemma df_line_first d : zlen d <= usize_max ->
  ((forall j, 0 <= j < zlen d -> line_hit d j = false) /\ df_line d = DNone)
  \/ (exists i, 0 <= i < zlen d /\ line_hit d i = true /\ (forall j, 0 <= j < i -> line_hit d j = false) /\
        df_line d = DFrame 0 (line_end d i) (i + 1)).
Proof.
  intros HL. unfold df_line, df_of, line_hit, line_end.
  destruct (deframe_line_spec chk d HL) as [(Hn & Hr)|(i & Hi & Hh & Hmin & Hr)]; rewrite Hr.
  - left. split; [|reflexivity]. intros j Hj. specialize (Hn j Hj). lia.
  - right. exists i. split; [exact Hi|]. split; [lia|]. split; [|reflexivity].
    intros j Hj. specialize (Hmin j Hj). lia.
Qed.
Lemma df_null_first d : zlen d <= usize_max ->
  ((forall j, 0 <= j < zlen d -> null_hit d j = false) /\ df_null d = DNone)
  \/ (exists i, 0 <= i < zlen d /\ null_hit d i = true /\ (forall j, 0 <= j < i -> null_hit d j = false) /\
        df_null d = DFrame 0 (null_end d i) (i + 1)).
Proof.
  intros HL. unfold df_null, df_of, null_hit, null_end.
  destruct (deframe_null_spec chk d HL) as [(Hn & Hr)|(i & Hi & Hh & Hmin & Hr)]; rewrite Hr.
  - left. split; [|reflexivity]. intros j Hj. specialize (Hn j Hj). lia.
  - right. exists i. split; [exact Hi|]. split; [lia|]. split; [|reflexivity].
    intros j Hj. specialize (Hmin j Hj). lia.
Qed.
Lemma df_crlf_first d : zlen d <= usize_max ->
  ((forall j, 1 <= j < zlen d -> crlf_hit d j = false) /\ df_crlf d = DNone)
  \/ (exists i, 1 <= i < zlen d /\ crlf_hit d i = true /\ (forall j, 1 <= j < i -> crlf_hit d j = false) /\
        df_crlf d = DFrame 0 (crlf_end d i) (i + 1)).
Proof.
  intros HL. unfold df_crlf, df_of, crlf_hit, crlf_end.
  destruct (deframe_crlf_spec chk d HL) as [(Hn & Hr)|(i & Hi & Hh & Hmin & Hr)]; rewrite Hr.
  - left. split; [|reflexivity]. intros j Hj. specialize (Hn j Hj). unfold is_crlf_at in Hn.
    destruct (znth d (j - 1) =? 13) eqn:E1; destruct (znth d j =? 10) eqn:E2; cbn; try reflexivity.
    exfalso. apply Hn. lia.
  - right. exists i. split; [exact Hi|]. unfold is_crlf_at in *. split.
    { destruct Hh as [Ha Hb]. rewrite Ha, Hb. reflexivity. }
    split; [|reflexivity].
    intros j Hj. specialize (Hmin j Hj).
    destruct (znth d (j - 1) =? 13) eqn:E1; destruct (znth d j =? 10) eqn:E2; cbn; try reflexivity.
    exfalso. apply Hmin. lia.
Qed.

Theorem df_line_facts : df_first_facts usize_max df_line.
Proof.
  assert (H1 : forall d d' i, 0 <= i -> (forall j, 0 <= j <= i -> znth d j = znth d' j) -> line_hit d i = line_hit d' i).
  2: assert (H2 : forall d d' i, 0 <= i -> (forall j, 0 <= j <= i -> znth d j = znth d' j) -> line_end d i = line_end d' i).
  3: assert (H3 : forall d i, 0 <= i -> 0 <= line_end d i <= i).
  4: { pose proof df_line_first as H4. assert (H0 : 0 <= 0) by lia.
       split; [exact (first_contract usize_max 0 line_hit line_end df_line H0 H1 H2 H3 H4)|].
       split; [intros d a b n HL Hd; split;
               [exact (first_start0 usize_max 0 line_hit line_end df_line H4 d a b n HL Hd)
               |exact (first_local usize_max 0 line_hit line_end df_line H0 H1 H2 H4 d a b n HL Hd)]|].
       split; [intros d a b n k HL Hd Hk;
               exact (first_minimal usize_max 0 line_hit line_end df_line H0 H1 H4 d a b n k HL Hd Hk)|].
       intros d HL. exact (first_never_err usize_max 0 line_hit line_end df_line H4 d HL). }
  - intros d d' i Hi Hag. unfold line_hit. rewrite (Hag i ltac:(lia)). reflexivity.
  - intros d d' i Hi Hag. unfold line_end.
    destruct (0 <? i) eqn:E; [|reflexivity]. rewrite (Hag (i - 1) ltac:(lia)). reflexivity.
  - intros d i Hi. unfold line_end. destruct ((0 <? i) && _) eqn:E; lia.
Qed.
Theorem df_line_contract : df_contract usize_max df_line.
Proof. exact (proj1 df_line_facts). Qed.
Theorem df_null_facts : df_first_facts usize_max df_null.
Proof.
  assert (H1 : forall d d' i, 0 <= i -> (forall j, 0 <= j <= i -> znth d j = znth d' j) -> null_hit d i = null_hit d' i).
  2: assert (H2 : forall d d' i, 0 <= i -> (forall j, 0 <= j <= i -> znth d j = znth d' j) -> null_end d i = null_end d' i).
  3: assert (H3 : forall d i, 0 <= i -> 0 <= null_end d i <= i).
  4: { pose proof df_null_first as H4. assert (H0 : 0 <= 0) by lia.
       split; [exact (first_contract usize_max 0 null_hit null_end df_null H0 H1 H2 H3 H4)|].
       split; [intros d a b n HL Hd; split;
               [exact (first_start0 usize_max 0 null_hit null_end df_null H4 d a b n HL Hd)
               |exact (first_local usize_max 0 null_hit null_end df_null H0 H1 H2 H4 d a b n HL Hd)]|].
       split; [intros d a b n k HL Hd Hk;
               exact (first_minimal usize_max 0 null_hit null_end df_null H0 H1 H4 d a b n k HL Hd Hk)|].
       intros d HL. exact (first_never_err usize_max 0 null_hit null_end df_null H4 d HL). }
  - intros d d' i Hi Hag. unfold null_hit. rewrite (Hag i ltac:(lia)). reflexivity.
  - reflexivity.
  - intros d i Hi. unfold null_end. lia.
Qed.
Theorem df_null_contract : df_contract usize_max df_null.
Proof. exact (proj1 df_null_facts). Qed.
Theorem df_crlf_facts : df_first_facts usize_max df_crlf.
Proof.
  assert (H1 : forall d d' i, 1 <= i -> (forall j, 0 <= j <= i -> znth d j = znth d' j) -> crlf_hit d i = crlf_hit d' i).
  2: assert (H2 : forall d d' i, 1 <= i -> (forall j, 0 <= j <= i -> znth d j = znth d' j) -> crlf_end d i = crlf_end d' i).
  3: assert (H3 : forall d i, 1 <= i -> 0 <= crlf_end d i <= i).
  4: { pose proof df_crlf_first as H4. assert (H0 : 0 <= 1) by lia.
       split; [exact (first_contract usize_max 1 crlf_hit crlf_end df_crlf H0 H1 H2 H3 H4)|].
       split; [intros d a b n HL Hd; split;
               [exact (first_start0 usize_max 1 crlf_hit crlf_end df_crlf H4 d a b n HL Hd)
               |exact (first_local usize_max 1 crlf_hit crlf_end df_crlf H0 H1 H2 H4 d a b n HL Hd)]|].
       split; [intros d a b n k HL Hd Hk;
               exact (first_minimal usize_max 1 crlf_hit crlf_end df_crlf H0 H1 H4 d a b n k HL Hd Hk)|].
       intros d HL. exact (first_never_err usize_max 1 crlf_hit crlf_end df_crlf H4 d HL). }
  - intros d d' i Hi Hag. unfold crlf_hit. rewrite (Hag i ltac:(lia)), (Hag (i - 1) ltac:(lia)). reflexivity.
  - reflexivity.
  - intros d i Hi. unfold crlf_end. lia.
Qed.
Theorem df_crlf_contract : df_contract usize_max df_crlf.
Proof. exact (proj1 df_crlf_facts). Qed.
End INST.

(* ---- the C05 statement in reader's terms: `In`-form of "contains no terminator" ---- *)
Lemma no_hit_In (d : list Z) (x : Z) : (forall j, 0 <= j < zlen d -> znth d j <> x) <-> ~ In x d.
Proof.
  split.
  - intros H Hin. destruct (In_znth d x Hin) as (i & Hi & Hx). exact (H i Hi Hx).
  - intros H j Hj Hx. apply H. rewrite <- Hx. apply znth_In. exact Hj.
Qed.

Section STMT.
Variable chk : bool.
Lemma c05_line_stmt d : zlen d <= usize_max ->
  (~ In 10 d /\ df_line chk d = DNone)
  \/ (exists i, 0 <= i < zlen d /\ znth d i = 10 /\ (forall j, 0 <= j < i -> znth d j <> 10) /\
        df_line chk d = DFrame 0 (if (0 <? i) && (znth d (i - 1) =? 13) then i - 1 else i) (i + 1)).
Proof.
  intros HL. unfold df_line, df_of.
  destruct (deframe_line_spec chk d HL) as [(Hn & Hr)|(i & Hi & Hh & Hmin & Hr)]; rewrite Hr.
  - left. split; [apply no_hit_In; exact Hn|reflexivity].
  - right. exists i. repeat split; auto; lia.
Qed.
Lemma c05_null_stmt d : zlen d <= usize_max ->
  (~ In 0 d /\ df_null chk d = DNone)
  \/ (exists i, 0 <= i < zlen d /\ znth d i = 0 /\ (forall j, 0 <= j < i -> znth d j <> 0) /\
        df_null chk d = DFrame 0 i (i + 1)).
Proof.
  intros HL. unfold df_null, df_of.
  destruct (deframe_null_spec chk d HL) as [(Hn & Hr)|(i & Hi & Hh & Hmin & Hr)]; rewrite Hr.
  - left. split; [apply no_hit_In; exact Hn|reflexivity].
  - right. exists i. repeat split; auto; lia.
Qed.
Lemma c05_crlf_stmt d : zlen d <= usize_max ->
  ((forall j, 1 <= j < zlen d -> ~ (znth d (j - 1) = 13 /\ znth d j = 10)) /\ df_crlf chk d = DNone)
  \/ (exists i, 1 <= i < zlen d /\ znth d (i - 1) = 13 /\ znth d i = 10 /\
        (forall j, 1 <= j < i -> ~ (znth d (j - 1) = 13 /\ znth d j = 10)) /\
        df_crlf chk d = DFrame 0 (i - 1) (i + 1)).
Proof.
  intros HL. unfold df_crlf, df_of.
  destruct (deframe_crlf_spec chk d HL) as [(Hn & Hr)|(i & Hi & [Ha Hb] & Hmin & Hr)]; rewrite Hr.
  - left. split; [exact Hn|reflexivity].
  - right. exists i. repeat split; auto; lia.
Qed.
End STMT.
