(* Facets/ARSim.v — abstract readers related by a state map: if every answer of AR1 (on states satisfying P) is the answer of AR2
   on the mapped state, the abstract read_frame loop over AR1 is the loop over AR2 on the mapped state.  Used to see a transport with
   extra state (pending marks, fault marks already removed, ...) as the plain chunk-schedule transport of C02. *)
From FB Require Import Sem.Base Sem.Lemmas Model.Fb Spec.Frames.
Open Scope Z_scope.

Section SIM.
Context {RS1 RS2 : Type}.
Variable AR1 : AReader RS1.
Variable AR2 : AReader RS2.
Variable phi : RS1 -> RS2.
Variable P : RS1 -> Prop.

Definition ar_sim : Prop := forall rs cap, P rs ->
  ar AR2 (phi rs) cap = (fst (ar AR1 rs cap), phi (snd (ar AR1 rs cap))) /\ P (snd (ar AR1 rs cap)).
Hypothesis Hsim : ar_sim.

Variable SIZE : Z.
Variable df : list Z -> dres.

Definition maps_to {A} (x : res (list Z * RS1) A) (y : res (list Z * RS2) A) : Prop :=
  match x with
  | Val o (u', rs') => y = Val o (u', phi rs') /\ P rs'
  | Panic (u', rs') => y = Panic (u', phi rs')
  end.

Lemma afill_map u rs : P rs -> maps_to (afill SIZE AR1 (u, rs)) (afill SIZE AR2 (u, phi rs)).
Proof.
  intros Hp. unfold afill. destruct (SIZE - zlen u =? 0); [split; [reflexivity|exact Hp]|].
  destruct (Hsim rs (SIZE - zlen u) Hp) as [E Hp']. rewrite E.
  destruct (ar AR1 rs (SIZE - zlen u)) as [[d|k|] rs'] eqn:Ea; cbn [fst snd] in *.
  - destruct (zlen d =? 0); split; auto.
  - split; auto.
  - reflexivity.
Qed.

Lemma abody_map u rs : P rs -> maps_to (abody SIZE AR1 df (u, rs)) (abody SIZE AR2 df (u, phi rs)).
Proof.
  intros Hp. unfold abody. destruct (zlen u =? 0); [apply afill_map; exact Hp|].
  destruct (df u) as [|a b n| |]; try (split; [reflexivity|exact Hp]); [apply afill_map; exact Hp|reflexivity].
Qed.

Lemma aread_frame_map : forall fuel u rs, P rs ->
  maps_to (aread_frame SIZE AR1 df fuel (u, rs)) (aread_frame SIZE AR2 df fuel (u, phi rs)).
Proof.
  induction fuel as [|f IH]; intros u rs Hp; unfold aread_frame in *.
  - cbn [loop_fuel]. split; [reflexivity|exact Hp].
  - rewrite !loop_fuel_S. pose proof (abody_map u rs Hp) as Hb. unfold maps_to in Hb.
    destruct (abody SIZE AR1 df (u, rs)) as [[r|] [u' rs']|[u' rs']].
    + destruct Hb as [E Hp']. rewrite E. split; [reflexivity|exact Hp'].
    + destruct Hb as [E Hp']. rewrite E. apply IH. exact Hp'.
    + rewrite Hb. reflexivity.
Qed.
End SIM.
