(* Facets/C06Frames.v — C06 and C02 composed: the caller that calls read_frame again after every transient error obtains, wherever the
   faults are and however many, exactly what the chunk-free specification `next` gives on the bytes the connection carries
   (unread ++ unpulled): the stream's next frame, and the same bytes left over.
   The bridge: a failing transport with its faults removed IS a chunk-schedule transport (`to_stream`), so the abstract loop over it is
   the abstract loop of Facets/Frames.v. *)
From FB Require Import Sem.Base Sem.Lemmas Model.Fb Spec.Api Spec.Frames Spec.Retry
  Facets.Fb Facets.Fb2 Facets.DfContract Facets.Frames Facets.C06 Facets.C06Retry.
Open Scope Z_scope.

Definition give_only (fs : fstream) : Prop := forall i, In i (f_sched fs) -> is_give i = true.
Definition chunk_of (i : sitem) : Z := match i with Give k => k | Fail _ => 1 end.
Definition to_stream (fs : fstream) : stream_reader :=
  {| sr_rest := f_rest fs; sr_sched := map chunk_of (f_sched fs) |}.

Lemma give_only_tl fs rest' : give_only fs -> give_only {| f_rest := rest'; f_sched := tl (f_sched fs) |}.
Proof. intros H i Hi. apply H. cbn [f_sched] in Hi. destruct (f_sched fs); [destruct Hi|right; exact Hi]. Qed.

(* one answer of the fault-free failing transport = one answer of the chunk-schedule transport *)
Lemma ar_give_only fs cap : give_only fs ->
  ar stream_ar (to_stream fs) cap = (fst (ar fstream_ar fs cap), to_stream (snd (ar fstream_ar fs cap))) /\
  give_only (snd (ar fstream_ar fs cap)).
Proof.
  intros Hg. cbn [ar fstream_ar stream_ar to_stream sr_rest sr_sched].
  destruct (f_sched fs) as [|[k|kind] t] eqn:Es.
  - cbn [map tl fst snd]. split; [reflexivity|]. intros i Hi. cbn [f_sched] in Hi. destruct Hi.
  - cbn [map tl fst snd chunk_of]. split; [reflexivity|]. intros i Hi. cbn [f_sched] in Hi. apply Hg. rewrite Es. right. exact Hi.
  - exfalso. assert (H : is_give (Fail kind) = true) by (apply Hg; rewrite Es; left; reflexivity). discriminate.
Qed.

Section BRIDGE.
Variable SIZE : Z.
Variable df : list Z -> dres.

Definition maps_to (x : res (list Z * fstream) (option frame_res)) (y : res (list Z * stream_reader) (option frame_res)) : Prop :=
  match x with
  | Val o (u', fs') => y = Val o (u', to_stream fs') /\ give_only fs'
  | Panic (u', fs') => y = Panic (u', to_stream fs')
  end.

Lemma afill_map u fs : give_only fs -> maps_to (afill SIZE fstream_ar (u, fs)) (afill SIZE stream_ar (u, to_stream fs)).
Proof.
  intros Hg. unfold afill. destruct (SIZE - zlen u =? 0); [split; [reflexivity|exact Hg]|].
  destruct (ar_give_only fs (SIZE - zlen u) Hg) as [E Hg']. rewrite E.
  destruct (ar fstream_ar fs (SIZE - zlen u)) as [[d|k|] fs'] eqn:Ea; cbn [fst snd] in *.
  - destruct (zlen d =? 0); split; auto.
  - split; auto.
  - reflexivity.
Qed.

Lemma abody_map u fs : give_only fs -> maps_to (abody SIZE fstream_ar df (u, fs)) (abody SIZE stream_ar df (u, to_stream fs)).
Proof.
  intros Hg. unfold abody. destruct (zlen u =? 0); [apply afill_map; exact Hg|].
  destruct (df u) as [|a b n| |]; try (split; [reflexivity|exact Hg]); [apply afill_map; exact Hg|reflexivity].
Qed.

Lemma runs_map : forall w r w', runs (abody SIZE fstream_ar df) w r w' -> give_only (snd w) ->
  runs (abody SIZE stream_ar df) (fst w, to_stream (snd w)) r (fst w', to_stream (snd w')).
Proof.
  induction 1 as [[u fs] r [u' fs'] E|[u fs] [u1 fs1] r [u' fs'] E Hr IH]; intros Hg; cbn [fst snd] in *.
  - pose proof (abody_map u fs Hg) as Hm. rewrite E in Hm. destruct Hm as [Hm _]. apply runs_done. exact Hm.
  - pose proof (abody_map u fs Hg) as Hm. rewrite E in Hm. destruct Hm as [Hm Hg1].
    eapply runs_step; [exact Hm|]. apply IH. exact Hg1.
Qed.

Hypothesis Hsize : 0 <= SIZE.
Hypothesis Hc : df_contract SIZE df.

(* a completed run of the abstract loop over a chunk-schedule transport returns what `next` says *)
Lemma runs_next u st r u' st' : zlen u <= SIZE ->
  runs (abody SIZE stream_ar df) (u, st) r (u', st') ->
  exists o, out_of (Done r) = Some o /\ (o, u' ++ sr_rest st') = next SIZE df (u ++ sr_rest st).
Proof.
  intros Hu Hr. destruct (runs_loop _ _ _ _ Hr) as [fuel Hf].
  set (f := Nat.max fuel (S (length (sr_rest st)))).
  destruct (aread_frame_spec SIZE df Hsize Hc f u st Hu ltac:(unfold zlen, f; lia)) as (r2 & u2 & st2 & o & Hrun & Ho & Hn & _).
  unfold aread_frame in Hrun. rewrite (Hf f ltac:(unfold f; lia)) in Hrun. inversion Hrun; subst.
  exists o. split; [exact Ho|exact Hn].
Qed.
End BRIDGE.

Lemma clean_give_only (w : list Z * fstream) : give_only (snd (clean w)).
Proof.
  intros i Hi. unfold clean in Hi. cbn [snd f_sched] in Hi. apply filter_In in Hi. exact (proj2 Hi).
Qed.

(* the theorem *)
Theorem retrying_caller_gets_next : forall SIZE chk (R : Reader fstream) df,
  implements R fstream_ar -> df_contract SIZE df ->
  forall fuel tries s st r s' st', Inv2 SIZE s -> all_transient st ->
  retry chk R df fuel tries (s, st) = Val (Done r) (s', st') ->
  exists o, out_of (Done r) = Some o /\ (o, unread s' ++ f_rest st') = next SIZE df (unread s ++ f_rest st) /\ Inv2 SIZE s'.
Proof.
  intros SIZE chk R df HR Hc fuel tries s st r s' st' HI Ht Hrun.
  assert (Hb : forall u, zlen u <= SIZE -> df_in_bounds df u).
  { intros u Hu a b n Hd. destruct (dfc_bounds _ _ Hc u a b n Hu Hd) as (A & B & C & D & _). auto. }
  destruct (retrying_caller_sees_no_faults SIZE chk R HR df Hb fuel tries s st r s' st' HI Ht Hrun) as [Hruns HI'].
  pose proof (runs_map SIZE df _ _ _ Hruns (clean_give_only (unread s, st))) as Hm.
  cbn [clean fst snd] in Hm.
  assert (Hs : 0 <= SIZE) by (destruct HI as [(H1&H2&H3&H4&H5) _]; lia).
  assert (Hu : zlen (unread s) <= SIZE).
  { rewrite (zlen_unread SIZE s (proj1 HI)). destruct HI as [(H1&H2&H3&H4&H5) _]. unfold len_. lia. }
  destruct (runs_next SIZE df Hs Hc _ _ _ _ _ Hu Hm) as (o & Ho & Hn).
  exists o. split; [exact Ho|]. split; [exact Hn|exact HI'].
Qed.
