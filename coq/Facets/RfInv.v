(* Facets/RfInv.v — one iteration of the translated read_frame loop keeps the buffer invariant, for every reader whose counts
   are within what it was offered (every reader that `implements` an abstract reader is one).  Used by GenEq/Transfer.v to carry the
   invariant-conditional translation equalities through the loop. *)
From FB Require Import Sem.Base Sem.Lemmas Sem.Hoare Model.Fb Spec.Api Spec.Frames Facets.Fb Facets.Fb2 Facets.Rf.
Open Scope Z_scope.

Definition sane {RS} (R : Reader RS) : Prop :=
  forall rs dest d' n rs', rd R rs dest = (ROk d' n, rs') -> 0 <= n <= zlen dest.

Lemma implements_sane {RS} (R : Reader RS) (AR : AReader RS) : implements R AR -> sane R.
Proof.
  intros H rs dest d' n rs' E. specialize (H rs dest).
  destruct (ar AR rs (zlen dest)) as [[data|k|] rs0].
  - destruct H as (Hle & d0 & Hr & _). rewrite Hr in E. inversion E; subst. pose proof (zlen_nonneg data). lia.
  - rewrite H in E. discriminate.
  - rewrite H in E. discriminate.
Qed.

Section RI.
Variable SIZE : Z.
Variable chk : bool.
Context {RS : Type}.
Variable R : Reader RS.
Variable df : list Z -> dres.
Hypothesis HR : sane R.

Lemma read_frame_body_inv s rs o s' rs' : Inv SIZE s -> df_in_bounds df (unread s) ->
  read_frame_body chk R df (s, rs) = Val o (s', rs') -> Inv SIZE s'.
Proof.
  intros HI Hb. rewrite (read_frame_body_spec SIZE chk R df s rs HI Hb).
  destruct (shifted_facts SIZE chk s HI) as (_ & I1 & _ & _ & _ & _ & W1 & _).
  assert (Hfill : body_fill SIZE chk R s rs = Val o (s', rs') -> Inv SIZE s').
  { unfold body_fill. cbv zeta. set (s1 := shifted s) in *.
    destruct (wlen SIZE s1 =? 0) eqn:Ew; [intros H; inversion H; subst; exact I1|].
    destruct (rd R rs (offered SIZE s1)) as [[d' n|k|] rs1] eqn:Er.
    - destruct (after_fill_facts SIZE s1 d' I1) as (I2 & _ & W2 & _).
      destruct (n =? 0) eqn:En; [intros H; inversion H; subst; exact I2|].
      pose proof (HR _ _ _ _ _ Er) as Hn.
      assert (Ho : zlen (offered SIZE s1) = wlen SIZE s1).
      { pose proof I1 as (H1&H2&H3&H4&H5). unfold offered, wlen. rewrite zlen_slice; lia. }
      pose proof (wrote_fifo SIZE chk (after_fill SIZE s1 d') n I2 ltac:(lia)) as Hw. unfold wp in Hw.
      destruct (wrote chk n (after_fill SIZE s1 d')) as [[] s3|s3]; intros H; inversion H; subst. apply Hw.
    - intros H; inversion H; subst; exact I1.
    - discriminate. }
  unfold body_spec. destruct (len_ s =? 0); [exact Hfill|].
  destruct (df (unread s)) as [|a b n| |] eqn:Ed; try exact Hfill.
  - destruct (Hb a b n Ed) as (B1 & B2 & B3 & B4). rewrite (zlen_unread SIZE s HI) in B4.
    intros H; inversion H; subst. apply (after_read_facts SIZE chk s n HI). lia.
  - intros H; inversion H; subst. exact HI.
  - discriminate.
Qed.
End RI.
