(* Facets/Rf.v — read_frame: exact behaviour of one loop iteration of the translated body, for ANY reader
   and ANY in-bounds deframer, from every invariant state. *)
From FB Require Import Sem.Base Sem.Lemmas Sem.Hoare Model.Fb Spec.Api Facets.Fb Facets.Fb2.
Open Scope Z_scope.

Section RF.
Variable SIZE : Z.
Variable chk : bool.
Context {RS : Type}.
Variable R : Reader RS.
Variable df : list Z -> dres.

Notation W := (fb * RS)%type.

Lemma self_val {A} (m : M fb A) s (rs : RS) a s' : m s = Val a s' -> self_ m (s, rs) = Val a (s', rs).
Proof. intros H. unfold self_. cbn [fst snd]. rewrite H. reflexivity. Qed.
Lemma self_panic {A} (m : M fb A) s (rs : RS) s' : m s = Panic s' -> self_ m (s, rs) = Panic (s', rs).
Proof. intros H. unfold self_. cbn [fst snd]. rewrite H. reflexivity. Qed.

(* the state after shift() *)
Definition shifted (s : fb) : fb :=
  if read_index s =? 0 then s
  else {| mem := splice (mem s) 0 (unread s); read_index := 0; write_index := write_index s - read_index s |}.
Lemma shifted_facts s : Inv SIZE s ->
  shift chk s = Val tt (shifted s) /\ Inv SIZE (shifted s) /\ unread (shifted s) = unread s /\
  read_index (shifted s) = 0 /\ write_index (shifted s) = len_ s /\ len_ (shifted s) = len_ s /\
  wlen SIZE (shifted s) = SIZE - len_ s /\ (nf s -> nf (shifted s)).
Proof.
  intros HI. pose proof (shift_ok SIZE chk s HI) as Hs. fold (shifted s) in Hs.
  pose proof (shift_fifo SIZE chk s HI) as Hf. pose proof (shift_cap SIZE chk s HI) as Hc.
  unfold wp in Hf, Hc. rewrite Hs in Hf, Hc. destruct Hf as [U I']. destruct Hc as (L & Wl & Ri).
  split; [exact Hs|]. split; [exact I'|]. split; [exact U|]. split; [exact Ri|].
  unfold len_ in *. split; [lia|]. split; [lia|]. split; [exact Wl|].
  intros Hn. unfold nf. lia.
Qed.
Lemma shifted_idem s : Inv SIZE s -> shifted (shifted s) = shifted s.
Proof.
  intros HI. destruct (shifted_facts s HI) as (_ & _ & _ & Ri & _). unfold shifted at 1. rewrite Ri. reflexivity.
Qed.

(* what the reader is offered: the whole free tail of the compacted buffer *)
Definition rf_offer (s : fb) : list Z := offered SIZE (shifted s).

(* the payload handed back: mem()[frame_range] after consumption = the selected part of the unread bytes *)
Lemma frame_payload s a b n : Inv SIZE s -> 0 <= a -> a <= b -> b <= n -> n <= len_ s ->
  slice (mem (after_read s n)) (read_index s + a) (read_index s + b) = slice (unread s) a b.
Proof.
  intros HI Ha Hab Hbn Hn. destruct (after_read_facts SIZE chk s n HI ltac:(lia)) as (_ & _ & C & _).
  rewrite C. unfold unread. destruct HI as (H1&H2&H3&H4&H5). unfold len_ in *. rewrite slice_slice by lia. reflexivity.
Qed.

(* one iteration, exactly *)
Definition body_fill (s : fb) (rs : RS) : res W (option frame_res) :=
  let s1 := shifted s in
  if wlen SIZE s1 =? 0 then Val (Some (FErr InvalidData)) (s1, rs) else
  match rd R rs (offered SIZE s1) with
  | (ROk d' n, rs') =>
      let s2 := after_fill SIZE s1 d' in
      if n =? 0 then Val (Some (if len_ s =? 0 then FNone else FErr UnexpectedEof)) (s2, rs')
      else match wrote chk n s2 with
           | Val _ s3 => Val None (s3, rs')
           | Panic s3 => Panic (s3, rs')
           end
  | (RErr k, rs') => Val (Some (FErr k)) (s1, rs')
  | (RPanic, rs') => Panic (s1, rs')
  end.
Definition body_spec (s : fb) (rs : RS) : res W (option frame_res) :=
  if len_ s =? 0 then body_fill s rs else
  match df (unread s) with
  | DFrame a b n => Val (Some (FFrame (slice (unread s) a b))) (after_read s n, rs)
  | DErr => Val (Some (FErr InvalidData)) (s, rs)
  | DPanic => Panic (s, rs)
  | DNone => body_fill s rs
  end.

Lemma body_fill_ok s rs : Inv SIZE s ->
  (self_ (shift chk) ;;;
   writable_6 <- self_ writable ;;
   if vlen writable_6 =? 0 then ret (Some (FErr InvalidData)) else
   q_7 <- call_read R writable_6 ;;
   match q_7 with
   | Err er => ret (Some (FErr er))
   | Ok num_read =>
     if num_read =? 0 then
       e_8 <- self_ is_empty ;;
       if e_8 then ret (Some FNone) else ret (Some (FErr UnexpectedEof))
     else
       self_ (wrote chk num_read) ;;; ret None
   end) (s, rs) = body_fill s rs.
Proof.
  intros HI. destruct (shifted_facts s HI) as (Hs & I1 & U1 & Ri1 & Wi1 & L1 & W1 & _).
  unfold body_fill. cbv zeta. set (s1 := shifted s) in *.
  rewrite (bind_val _ _ _ _ _ (self_val _ _ rs _ _ Hs)).
  rewrite (bind_val _ _ _ _ _ (self_val _ _ rs _ _ (writable_spec SIZE s1 I1))).
  unfold vlen; cbn [v_off v_end]. fold (wlen SIZE s1).
  destruct (wlen SIZE s1 =? 0) eqn:E; [reflexivity|].
  unfold bind at 1. unfold call_read. cbn [fst snd v_off v_end]. fold (offered SIZE s1).
  destruct (rd R rs (offered SIZE s1)) as [[d' n|k|] rs'] eqn:Er; try reflexivity.
  fold (after_fill SIZE s1 d').
  destruct (after_fill_facts SIZE s1 d' I1) as (I2 & U2 & W2 & L2 & _).
  destruct (n =? 0) eqn:En.
  - rewrite (bind_val _ _ _ _ _ (self_val _ _ rs' _ _ (is_empty_spec (after_fill SIZE s1 d')))).
    rewrite L2, L1. destruct (len_ s =? 0); reflexivity.
  - unfold bind, self_. cbn [fst snd]. destruct (wrote chk n (after_fill SIZE s1 d')); reflexivity.
Qed.

Theorem read_frame_body_spec s rs : Inv SIZE s -> df_in_bounds df (unread s) ->
  read_frame_body chk R df (s, rs) = body_spec s rs.
Proof.
  intros HI Hb. unfold read_frame_body, body_spec.
  rewrite (bind_val _ _ _ _ _ (self_val _ _ rs _ _ (is_empty_spec s))).
  destruct (len_ s =? 0) eqn:E0.
  - cbn [negb]. rewrite bind_ret_l. apply body_fill_ok. exact HI.
  - cbn [negb]. pose proof (deframe_spec SIZE chk s df HI Hb) as Hd. rewrite E0 in Hd.
    destruct (df (unread s)) as [|a b n| |] eqn:Ed.
    + unfold bind at 1. unfold bind at 1. rewrite (self_val _ _ rs _ _ Hd). cbv beta iota.
      unfold ret at 1. cbv beta iota. apply body_fill_ok. exact HI.
    + destruct (Hb a b n Ed) as (B1 & B2 & B3 & B4). rewrite (zlen_unread SIZE s HI) in B4.
      unfold bind at 1. unfold bind at 1. rewrite (self_val _ _ rs _ _ Hd). cbv beta iota.
      unfold bind at 1. unfold mem_. rewrite (self_val get_mem (after_read s n) rs _ _ eq_refl). cbv beta iota.
      unfold bind at 1. unfold slice_chk.
      destruct (after_read_facts SIZE chk s n HI ltac:(lia)) as (I' & _ & C & _).
      pose proof HI as (H1&H2&H3&H4&H5). unfold len_ in *.
      replace ((read_index s + a <=? read_index s + b) && (read_index s + b <=? zlen (mem (after_read s n)))) with true
        by (symmetry; apply andb_true_iff; rewrite C; lia).
      cbv beta iota. unfold ret. cbv beta iota.
      rewrite (frame_payload s a b n HI) by (unfold len_; lia). reflexivity.
    + unfold bind at 1. unfold bind at 1. rewrite (self_val _ _ rs _ _ Hd). reflexivity.
    + unfold bind at 1. unfold bind at 1. rewrite (self_panic _ _ rs _ Hd). reflexivity.
Qed.
End RF.
