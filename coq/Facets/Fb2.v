(* Facets/Fb2.v — deframe, try_parse (with closure scripts), writable+wrote, copy_once_from. *)
From FB Require Import Sem.Base Sem.Lemmas Sem.Hoare Model.Fb Model.Script Spec.Api Facets.Fb.
Open Scope Z_scope.

(* induction principle for the nested inductive rstep *)
Section RSTEP_IND.
Variable P : rstep -> Prop.
Hypothesis HByte : P SByte.
Hypothesis HTryByte : P STryByte.
Hypothesis HBytes : forall n, P (SBytes n).
Hypothesis HTryBytes : forall n, P (STryBytes n).
Hypothesis HCopy : forall k, P (SCopy k).
Hypothesis HTryExact : forall k, P (STryExact k).
Hypothesis HAll : P SAll.
Hypothesis HNested : forall body some, Forall P body -> P (SNested body some).
Fixpoint rstep_ind2 (s : rstep) : P s :=
  match s with
  | SByte => HByte | STryByte => HTryByte | SBytes n => HBytes n | STryBytes n => HTryBytes n
  | SCopy k => HCopy k | STryExact k => HTryExact k | SAll => HAll
  | SNested body some =>
      HNested body some ((fix go (l : list rstep) : Forall P l :=
                            match l with [] => Forall_nil P | x :: t => Forall_cons x (rstep_ind2 x) (go t) end) body)
  end.
End RSTEP_IND.

Section F3.
Variable SIZE : Z.
Variable chk : bool.

(* ---------------- deframe ---------------- *)
Definition df_in_bounds (df : list Z -> dres) (u : list Z) : Prop :=
  forall a b n, df u = DFrame a b n -> 0 <= a /\ a <= b /\ b <= n /\ n <= zlen u.

Lemma deframe_spec s df : Inv SIZE s -> df_in_bounds df (unread s) ->
  deframe chk df s =
  if len_ s =? 0 then Val (Ok None) s else
  match df (unread s) with
  | DNone => Val (Ok None) s
  | DErr => Val (Err InvalidData) s
  | DPanic => Panic s
  | DFrame a b n => Val (Ok (Some (read_index s + a, read_index s + b))) (after_read s n)
  end.
Proof.
  intros HI Hb. unfold deframe. rewrite (bind_val _ _ _ _ _ (is_empty_spec s)).
  destruct (len_ s =? 0) eqn:E0; [reflexivity|].
  rewrite (bind_val _ _ _ _ _ (readable_spec SIZE s HI)).
  unfold call_df. destruct (df (unread s)) as [|a b n| |] eqn:Ed; try reflexivity.
  rewrite bind_ret_l. destruct (Hb a b n Ed) as (Ha & Hab & Hbn & Hn).
  rewrite (zlen_unread SIZE s HI) in Hn.
  pose proof HI as (H1&H2&H3&H4&H5). unfold len_ in Hn.
  unfold get_read_index, uadd. unfold bind at 1. unfold bind at 1.
  replace (read_index s + a <=? usize_max) with true by (unfold usize_max in *; lia).
  unfold ret at 1. unfold bind at 1. unfold bind at 1.
  replace (read_index s + b <=? usize_max) with true by (unfold usize_max in *; lia).
  unfold ret at 1.
  erewrite bind_val by (apply (read_bytes_ok' SIZE chk); [exact HI|unfold len_; lia]).
  reflexivity.
Qed.

(* ---------------- try_parse ---------------- *)
Lemma try_parse_spec {R} (f : M fb (option R)) s :
  try_parse f s =
  match f s with
  | Val (Some v) s' => Val (Some v) s'
  | Val None s' => Val None {| mem := mem s'; read_index := read_index s; write_index := write_index s |}
  | Panic s' => Panic s'
  end.
Proof.
  unfold try_parse, get_read_index, get_write_index, bind, ret, set_read_index, set_write_index.
  destruct (f s) as [[v|] s'|s']; reflexivity.
Qed.

(* what every reading computation guarantees: mem untouched, Inv kept, unread is a suffix *)
Definition reads_only (s s' : fb) : Prop :=
  Inv SIZE s' /\ mem s' = mem s /\ exists k, 0 <= k <= len_ s /\ unread s' = skipn (Z.to_nat k) (unread s) /\ len_ s' = len_ s - k
  /\ wlen SIZE s <= wlen SIZE s' /\ (nf s -> nf s').
Lemma reads_only_refl s : Inv SIZE s -> reads_only s s.
Proof.
  intros HI. split; [exact HI|]. split; [reflexivity|]. exists 0.
  destruct HI as (H1&H2&H3&H4&H5). unfold len_. repeat split; try lia; auto.
Qed.
Lemma reads_only_trans s1 s2 s3 : Inv SIZE s1 -> reads_only s1 s2 -> reads_only s2 s3 -> reads_only s1 s3.
Proof.
  intros HI (I2 & M2 & k2 & Hk2 & U2 & L2 & W2 & N2) (I3 & M3 & k3 & Hk3 & U3 & L3 & W3 & N3).
  split; [exact I3|]. split; [congruence|]. exists (k2 + k3). split; [lia|].
  split; [rewrite U3, U2, skipn_skipn; f_equal; lia|]. split; [lia|]. split; [lia|auto].
Qed.
Lemma reads_only_after_read s n : Inv SIZE s -> 0 <= n <= len_ s -> reads_only s (after_read s n).
Proof.
  intros HI Hn. destruct (after_read_facts SIZE chk s n HI Hn) as (A & B & C & D & E & F).
  split; [exact A|]. split; [exact C|]. exists n. split; [lia|]. split; [exact B|]. split; [lia|]. split; [lia|].
  intros _. apply (nf_after_read SIZE s n HI Hn).
Qed.

Definition reading (m : M fb (list Z)) : Prop :=
  forall s, Inv SIZE s -> wp m s (fun _ s' => reads_only s s') (fun s' => reads_only s s').

Lemma len_nonneg s : Inv SIZE s -> 0 <= len_ s.
Proof. intros (H1&H2&H3&H4&H5). unfold len_. lia. Qed.

Lemma reading_bind (m1 m2 : M fb (list Z)) (f : list Z -> list Z -> list Z) :
  reading m1 -> reading m2 -> reading (a <- m1 ;; b <- m2 ;; ret (f a b)).
Proof.
  intros R1 R2 s HI. eapply wp_bind; [apply R1; exact HI| |intros s' H; exact H].
  intros a s1 H1. cbv beta in H1.
  eapply wp_bind; [apply R2; exact (proj1 H1)| |].
  - intros b s2 H2. apply wp_ret. eapply reads_only_trans; eauto.
  - intros s2 H2. eapply reads_only_trans; eauto.
Qed.

Lemma run_step_reading : forall st, reading (run_step chk st).
Proof.
  induction st as [| |n|n|k|k| |body some IHb] using rstep_ind2; intros s HI; pose proof (len_nonneg s HI) as Hl; cbn [run_step].
  - (* SByte *)
    destruct (Z.eq_dec (len_ s) 0) as [E|E].
    + unfold wp, bind. rewrite (read_byte_panic SIZE chk s HI E). apply reads_only_refl; exact HI.
    + unfold wp, bind. rewrite (read_byte_ok SIZE chk s HI ltac:(lia)). cbn. apply reads_only_after_read; [exact HI|lia].
  - unfold wp, bind. rewrite (try_read_byte_spec SIZE chk s HI).
    destruct (len_ s =? 0) eqn:E; cbn; [apply reads_only_refl; exact HI|apply reads_only_after_read; [exact HI|lia]].
  - (* SBytes n *)
    unfold wp, bind. pose proof (N2Z.is_nonneg n) as Hnn.
    destruct (Z_lt_le_dec (len_ s) (Z.of_N n)) as [Hlt|Hle].
    + destruct (Z_le_gt_dec (Z.of_N n) usize_max) as [Hm|Hm].
      * rewrite (read_bytes_panic SIZE chk s (Z.of_N n) HI ltac:(lia) Hlt). apply reads_only_refl; exact HI.
      * assert (Hq : read_bytes chk (Z.of_N n) s = Panic s).
        { destruct HI as (H1&H2&H3&H4&H5). unfold len_ in *. munf. inv_tac. brk; auto; try lia. }
        rewrite Hq. apply reads_only_refl; exact HI.
    + rewrite (read_bytes_ok' SIZE chk s (Z.of_N n) HI ltac:(lia)). cbn. apply reads_only_after_read; [exact HI|lia].
  - (* STryBytes n *)
    unfold wp, bind. pose proof (N2Z.is_nonneg n) as Hnn.
    rewrite (try_read_bytes_spec SIZE chk s (Z.of_N n) HI Hnn).
    destruct (len_ s <? _) eqn:E; cbn; [apply reads_only_refl; exact HI|apply reads_only_after_read; [exact HI|lia]].
  - (* SCopy k *)
    unfold wp, bind. rewrite (read_and_copy_bytes_spec SIZE chk s _ HI).
    pose proof (zlen_nonneg (repeat 221 (N.to_nat k))).
    destruct (copy_count s _ =? 0) eqn:E; cbn; [apply reads_only_refl; exact HI|].
    apply reads_only_after_read; [exact HI|unfold copy_count in *; lia].
  - (* STryExact k *)
    unfold wp, bind. rewrite (try_read_exact_spec SIZE chk s _ HI).
    pose proof (zlen_nonneg (repeat 221 (N.to_nat k))).
    destruct (len_ s <? _) eqn:E; cbn; [apply reads_only_refl; exact HI|].
    destruct (_ =? 0) eqn:E2; cbn; [apply reads_only_refl; exact HI|].
    apply reads_only_after_read; [exact HI|lia].
  - (* SAll *)
    unfold wp, bind. rewrite (read_all_spec SIZE chk s HI). cbn. apply reads_only_after_read; [exact HI|lia].
  - (* SNested *)
    assert (Hgo : reading ((fix go (l : list rstep) : M fb (list Z) :=
                        match l with
                        | [] => ret []
                        | x :: t => a <- run_step chk x ;; b <- go t ;; ret (a ++ b)
                        end) body)).
    { induction IHb as [|x t Hx _ IHt]; [intros s0 HI0; apply wp_ret; apply reads_only_refl; exact HI0|].
      apply (reading_bind _ _ (@app Z)); [exact Hx|exact IHt]. }
    unfold wp, bind at 1. rewrite try_parse_spec. unfold bind at 1.
    specialize (Hgo s HI). unfold wp in Hgo.
    destruct ((fix go (l : list rstep) : M fb (list Z) := _) body s) as [log s'|s'] eqn:Eg.
    + cbn. destruct some; cbn; [exact Hgo|].
      destruct Hgo as (I' & M' & _). rewrite M'.
      replace {| mem := mem s; read_index := read_index s; write_index := write_index s |} with s by (destruct s; reflexivity).
      apply reads_only_refl; exact HI.
    + exact Hgo.
Qed.

Lemma run_steps_reading : forall body, reading (run_steps chk body).
Proof.
  induction body as [|x t IHt]; [intros s0 HI0; apply wp_ret; apply reads_only_refl; exact HI0|].
  cbn [run_steps]. apply (reading_bind _ _ (@app Z)); [apply run_step_reading|exact IHt].
Qed.

(* C11 in one equation: try_parse over a reading script *)
Lemma try_parse_script_spec body some s : Inv SIZE s ->
  match try_parse (closure chk body some) s with
  | Val None s' => some = false /\ s' = s
  | Val (Some _) s' => some = true /\ reads_only s s'
  | Panic s' => reads_only s s'
  end.
Proof.
  intros HI. rewrite try_parse_spec. unfold closure, bind.
  pose proof (run_steps_reading body s HI) as Hr. unfold wp in Hr.
  destruct (run_steps chk body s) as [log s'|s']; [|exact Hr].
  destruct some; cbn; [split; [reflexivity|exact Hr]|].
  split; [reflexivity|]. destruct Hr as (_ & M' & _). rewrite M'. destruct s; reflexivity.
Qed.

(* ---------------- writable() + wrote(n) ---------------- *)
Definition scribbled (s : fb) (sc : list Z) : fb :=
  {| mem := splice (mem s) (write_index s) (firstn (Z.to_nat (Z.min (zlen sc) (wlen SIZE s))) sc);
     read_index := read_index s; write_index := write_index s |}.
Lemma scribbled_facts s sc : Inv SIZE s ->
  Inv SIZE (scribbled s sc) /\ unread (scribbled s sc) = unread s /\ wlen SIZE (scribbled s sc) = wlen SIZE s /\
  len_ (scribbled s sc) = len_ s.
Proof.
  intros (H1&H2&H3&H4&H5). pose proof (zlen_nonneg sc) as Hs.
  unfold scribbled, Inv, unread, wlen, len_; cbn [mem read_index write_index].
  set (k := Z.min (zlen sc) (SIZE - write_index s)).
  assert (Hk : zlen (firstn (Z.to_nat k) sc) = k) by (rewrite zlen_firstn; lia).
  rewrite zlen_splice by lia. split; [repeat split; lia|]. split; [|lia].
  apply slice_splice_before; lia.
Qed.
Lemma scribble_then_wrote_spec s sc n : Inv SIZE s -> 0 <= n <= usize_max ->
  scribble_then_wrote chk sc n s =
  if wlen SIZE s <? n then Panic (scribbled s sc)
  else Val tt {| mem := mem (scribbled s sc); read_index := read_index s; write_index := write_index s + n |}.
Proof.
  intros HI Hn. unfold scribble_then_wrote. rewrite (bind_val _ _ _ _ _ (writable_spec SIZE s HI)).
  unfold vlen; cbn [v_off v_end]. fold (wlen SIZE s).
  pose proof (zlen_nonneg sc) as Hs. pose proof HI as (H1&H2&H3&H4&H5).
  set (k := Z.min (zlen sc) (wlen SIZE s)).
  assert (Hk0 : 0 <= k <= wlen SIZE s) by (unfold k, wlen; lia).
  unfold view_sub, vlen; cbn [v_off v_end]. fold (wlen SIZE s).
  replace ((0 <=? k) && (k <=? wlen SIZE s)) with true by (symmetry; apply andb_true_iff; lia).
  cbv iota. rewrite bind_ret_l.
  unfold view_copy_from_slice, vlen; cbn [v_off v_end].
  assert (Hk : zlen (firstn (Z.to_nat k) sc) = k) by (rewrite zlen_firstn; unfold k; lia).
  rewrite Hk. replace (write_index s + k - (write_index s + 0) =? k) with true by lia.
  rewrite Z.add_0_r.
  pose proof (scribbled_facts s sc HI) as (HI1 & _ & Hw1 & _). fold k in HI1.
  unfold bind, get_mem, set_mem. cbn [mem read_index write_index].
  change {| mem := splice (mem s) (write_index s) (firstn (Z.to_nat k) sc); read_index := read_index s; write_index := write_index s |}
    with (scribbled s sc).
  destruct (wlen SIZE s <? n) eqn:E.
  - rewrite (wrote_panic SIZE chk _ n HI1 Hn) by lia. reflexivity.
  - rewrite (wrote_ok SIZE chk _ n HI1) by lia. reflexivity.
Qed.

(* ---------------- copy_once_from (one-shot reader with an arbitrary answer) ---------------- *)
Definition offered (s : fb) : list Z := slice (mem s) (write_index s) SIZE.
Definition after_fill (s : fb) (d' : list Z) : fb :=
  {| mem := splice (mem s) (write_index s) (fit d' (offered s)); read_index := read_index s; write_index := write_index s |}.
Lemma after_fill_facts s d' : Inv SIZE s ->
  Inv SIZE (after_fill s d') /\ unread (after_fill s d') = unread s /\ wlen SIZE (after_fill s d') = wlen SIZE s /\
  len_ (after_fill s d') = len_ s /\ offered (after_fill s d') = fit d' (offered s).
Proof.
  intros (H1&H2&H3&H4&H5).
  assert (Ho : zlen (offered s) = SIZE - write_index s) by (unfold offered; apply zlen_slice; lia).
  unfold after_fill, Inv, unread, wlen, len_, offered; cbn [mem read_index write_index].
  fold (offered s). pose proof (zlen_fit d' (offered s)) as Hf.
  rewrite zlen_splice by lia. split; [repeat split; lia|]. split; [apply slice_splice_before; lia|].
  split; [reflexivity|]. split; [reflexivity|].
  replace SIZE with (write_index s + zlen (fit d' (offered s))) at 1 by lia.
  apply slice_splice_same; lia.
Qed.
Lemma copy_once_from_spec s ans : Inv SIZE s ->
  copy_once_from chk (one_shot ans) (s, tt) =
  if wlen SIZE s =? 0 then Val (Err InvalidData) (s, tt) else
  match ans (offered s) with
  | ROk d' n => match wrote chk n (after_fill s d') with
                | Val _ s' => Val (Ok n) (s', tt)
                | Panic s' => Panic (s', tt)
                end
  | RErr k => Val (Err k) (s, tt)
  | RPanic => Panic (s, tt)
  end.
Proof.
  intros HI. unfold copy_once_from.
  assert (Hw : self_ (RS := unit) writable (s, tt) = Val {| v_off := write_index s; v_end := SIZE |} (s, tt)).
  { unfold self_. cbn [fst snd]. rewrite (writable_spec SIZE s HI). reflexivity. }
  rewrite (bind_val _ _ _ _ _ Hw). unfold vlen; cbn [v_off v_end]. fold (wlen SIZE s).
  destruct (wlen SIZE s =? 0) eqn:E; [reflexivity|].
  unfold bind at 1. unfold call_read. cbn [fst snd v_off v_end rd one_shot]. fold (offered s).
  destruct (ans (offered s)) as [d' n|k|]; try reflexivity.
  fold (after_fill s d'). unfold bind, self_. cbn [fst snd].
  destruct (wrote chk n (after_fill s d')); reflexivity.
Qed.
End F3.
