(* Facets/AStreams.v — stream-level statement for AsyncReadWriteChain, for ANY two inner streams of the "async prefix source" kind
   (a stream that, polled with any well-formed ReadBuf, either answers Pending leaving the filled part alone, or appends a prefix of a
   fixed remaining sequence after the untouched filled bytes, makes progress when there is room and something is left, never fails):
   the chain is again an async prefix source, of remaining(first) ++ remaining(second) — all of first, then all of second, under every
   pattern of Pending and for every ReadBuf, zero remaining capacity included.  [C16, stream level]
   (The poll-level theorems — equality with tokio's own Chain for arbitrary inner streams — are in Facets/TokioAdapters.v.) *)
From FB Require Import Sem.Base Sem.Lemmas Sem.ReadBuf Model.Tokio.
Open Scope Z_scope.

(* b' is b with the bytes d appended after the filled part *)
Definition grows (b b' : rb) (d : list Z) : Prop :=
  rb_wf b' /\ zlen (rb_buf b') = zlen (rb_buf b) /\ rb_filled b' = rb_filled b + zlen d /\
  rb_filled_bytes b' = rb_filled_bytes b ++ d.

Definition async_prefix_source {S} (A : AsyncReader S) (rem : S -> list Z) (okS : S -> Prop) : Prop :=
  forall s b, okS s -> rb_wf b -> zlen (rb_buf b) <= usize_max ->     (* the backing slice of a real ReadBuf is no longer than usize::MAX *)
  match prd A s b with
  | (ARPending b', s') => grows b b' [] /\ rem s' = rem s /\ okS s'
  | (AROk b', s') => exists k, 0 <= k <= rb_remaining b /\ k <= zlen (rem s) /\ grows b b' (firstn (Z.to_nat k) (rem s)) /\
        rem s' = skipn (Z.to_nat k) (rem s) /\ okS s' /\ (0 < rb_remaining b -> rem s <> [] -> 1 <= k)
  | _ => False
  end.

Lemma grows_remaining b b' d : grows b b' d -> rb_remaining b' = rb_remaining b - zlen d.
Proof. intros (_ & Hl & Hf & _). unfold rb_remaining, rb_capacity. lia. Qed.

Lemma grows_trans b b1 b2 d2 : grows b b1 [] -> grows b1 b2 d2 -> grows b b2 d2.
Proof.
  intros (W1 & L1 & F1 & B1) (W2 & L2 & F2 & B2). unfold zlen in F1. cbn [length] in F1.
  split; [exact W2|]. split; [lia|]. split; [lia|]. rewrite B2, B1, app_nil_r. reflexivity.
Qed.

Section ACHAIN2.
Context {S1 S2 : Type}.
Variable chk : bool.
Variable A1 : AsyncReader S1.
Variable rem1 : S1 -> list Z.
Variable ok1 : S1 -> Prop.
Variable A2 : AsyncReader S2.
Variable rem2 : S2 -> list Z.
Variable ok2 : S2 -> Prop.
Hypothesis H1 : async_prefix_source A1 rem1 ok1.
Hypothesis H2 : async_prefix_source A2 rem2 ok2.

Notation ACW := (@acw S1 S2).
(* impl AsyncRead for AsyncReadWriteChain, seen as a stream (to be wrapped by a take, or by another chain) *)
Definition ACH2 : AsyncReader ACW := {| prd := fun w b =>
  match achain_poll_read chk A1 A2 b w with
  | Val (PReady (Ok _), b') w' => (AROk b', w')
  | Val (PReady (Err k), b') w' => (ARErr k b', w')
  | Val (PPending, b') w' => (ARPending b', w')
  | Panic w' => (ARPanic, w')
  end |}.
Definition rem_ach (w : ACW) : list Z := (if ac_has w then rem1 (ac_first w) else []) ++ rem2 (ac_rw w).
Definition ok_ach (w : ACW) : Prop := (ac_has w = true -> ok1 (ac_first w)) /\ ok2 (ac_rw w).

Lemma firstn_app_le' {A} (a b : list A) n : (n <= length a)%nat -> firstn n (a ++ b) = firstn n a.
Proof. intros H. rewrite firstn_app. replace (n - length a)%nat with 0%nat by lia. cbn [firstn]. apply app_nil_r. Qed.
Lemma skipn_app_le' {A} (a b : list A) n : (n <= length a)%nat -> skipn n (a ++ b) = skipn n a ++ b.
Proof. intros H. rewrite skipn_app. replace (n - length a)%nat with 0%nat by lia. reflexivity. Qed.

(* the second stream alone, polled with buffer bx, from a chain state whose first stream contributes nothing any more *)
Lemma second_alone (w : ACW) b bx : ok2 (ac_rw w) -> grows b bx [] -> zlen (rb_buf b) <= usize_max ->
  match acall_rw A2 bx w with
  | Val (PrPending, b') w' => grows b b' [] /\ rem2 (ac_rw w') = rem2 (ac_rw w) /\ ok2 (ac_rw w') /\ ac_has w' = ac_has w /\ ac_first w' = ac_first w
  | Val (PrOk, b') w' => exists k, 0 <= k <= rb_remaining b /\ k <= zlen (rem2 (ac_rw w)) /\
        grows b b' (firstn (Z.to_nat k) (rem2 (ac_rw w))) /\ rem2 (ac_rw w') = skipn (Z.to_nat k) (rem2 (ac_rw w)) /\ ok2 (ac_rw w') /\
        ac_has w' = ac_has w /\ ac_first w' = ac_first w /\ (0 < rb_remaining b -> rem2 (ac_rw w) <> [] -> 1 <= k)
  | _ => False
  end.
Proof.
  intros Ho2 Hg Hmax. pose proof (grows_remaining _ _ _ Hg) as Hr. unfold zlen in Hr; cbn [length] in Hr. rewrite Z.sub_0_r in Hr.
  pose proof (H2 (ac_rw w) bx Ho2 (proj1 Hg) ltac:(destruct Hg as (_ & Hl & _); lia)) as Hs. unfold acall_rw.
  destruct (prd A2 (ac_rw w) bx) as [[b'|e b'|b'|] s2]; try contradiction.
  - destruct Hs as (k & Hk & Hkr & Hg2 & Hrem & Hok & Hprog). exists k. cbn [ac_rw ac_has ac_first]. rewrite Hr in *.
    split; [exact Hk|]. split; [exact Hkr|]. split; [exact (grows_trans _ _ _ _ Hg Hg2)|]. auto 8.
  - destruct Hs as (Hg2 & Hrem & Hok). cbn [ac_rw ac_has ac_first]. split; [exact (grows_trans _ _ _ _ Hg Hg2)|]. auto.
Qed.

Lemma grows_refl b : rb_wf b -> grows b b [].
Proof. intros Hw. split; [exact Hw|]. split; [reflexivity|]. split; [unfold zlen; cbn [length]; lia|symmetry; apply app_nil_r]. Qed.

Theorem achain_prefix_source : async_prefix_source ACH2 rem_ach ok_ach.
Proof.
  intros w b [Ho1 Ho2] Hwf Hmax. cbn [prd ACH2]. unfold achain_poll_read. unfold bind at 1. unfold aget_reader_is_some, rem_ach.
  destruct (ac_has w) eqn:Eh.
  - (* the first stream is still there *)
    unfold bind at 1. unfold bind at 1. unfold acall_reader.
    pose proof (H1 (ac_first w) b (Ho1 eq_refl) Hwf Hmax) as Hs.
    destruct (prd A1 (ac_first w) b) as [[b1|e b1|b1|] s1]; try contradiction.
    + destruct Hs as (k & Hk & Hkr & Hg & Hrem & Hok & Hprog).
      destruct Hg as (W1 & L1 & F1 & B1).
      assert (Hzk : zlen (firstn (Z.to_nat k) (rem1 (ac_first w))) = k) by (rewrite zlen_firstn; lia).
      cbv beta iota. rewrite B1, zlen_app, Hzk. unfold bind at 1. unfold usub.
      replace (zlen (rb_filled_bytes b) <=? zlen (rb_filled_bytes b) + k) with true by lia.
      unfold ret at 1. cbv beta iota.
      replace (zlen (rb_filled_bytes b) + k - zlen (rb_filled_bytes b)) with k by lia.
      destruct ((0 <? k) || negb (0 <? rb_remaining b)) eqn:Ec.
      * (* bytes delivered, or no room: Ready, the first stream stays *)
        unfold ret. cbv beta iota. cbn [ac_has ac_first ac_rw]. rewrite Eh.
        assert (Hkn : (Z.to_nat k <= length (rem1 (ac_first w)))%nat) by (unfold zlen in Hkr; lia).
        exists k. split; [exact Hk|]. split; [rewrite zlen_app; pose proof (zlen_nonneg (rem2 (ac_rw w))); lia|].
        split; [rewrite firstn_app_le' by exact Hkn; split; [exact W1|]; split; [exact L1|]; split; [exact F1|exact B1]|].
        split; [rewrite Hrem, skipn_app_le' by exact Hkn; reflexivity|].
        split; [split; [intros _; exact Hok|exact Ho2]|].
        intros Hroom _. destruct (0 <? k) eqn:X; [lia|]. replace (0 <? rb_remaining b) with true in Ec by lia. discriminate.
      * (* end of the first stream (nothing delivered although there was room): it is dropped, the same ReadBuf goes to the second *)
        assert (Hk0 : k = 0) by (destruct (0 <? k) eqn:X; [discriminate|lia]).
        assert (Hroom : 0 < rb_remaining b) by (destruct (0 <? rb_remaining b) eqn:X; [lia|rewrite orb_true_r in Ec; discriminate]).
        assert (He : rem1 (ac_first w) = []).
        { destruct (rem1 (ac_first w)) as [|x t] eqn:Er; [reflexivity|]. exfalso.
          assert (1 <= k) by (apply Hprog; [exact Hroom|discriminate]). lia. }
        subst k. rewrite He in *. cbn [Z.to_nat firstn] in *.
        unfold bind at 1. unfold aset_reader_none, ret. cbv beta iota. cbn [ac_has ac_first ac_rw].
        unfold bind at 1.
        set (w1 := {| ac_has := false; ac_first := s1; ac_rw := ac_rw w |}).
        assert (Hg1 : grows b b1 []) by (split; [exact W1|]; split; [exact L1|]; split; [exact F1|rewrite B1; reflexivity]).
        pose proof (second_alone w1 b b1 Ho2 Hg1 Hmax) as Hs2. cbn [app].
        destruct (acall_rw A2 b1 w1) as [[[| |] b2] w2|w2]; try contradiction; cbn [fst snd poll_of ret].
        -- destruct Hs2 as (k2 & Hk2 & Hkr2 & Hg2 & Hrem2 & Hok2 & Hh & Hf & Hprog2). unfold w1 in *; cbn [ac_has ac_first ac_rw] in *.
           exists k2. rewrite Hh. cbn [app]. split; [exact Hk2|]. split; [exact Hkr2|]. split; [exact Hg2|]. split; [exact Hrem2|].
           split; [split; [rewrite Hh; discriminate|exact Hok2]|exact Hprog2].
        -- destruct Hs2 as (Hg2 & Hrem2 & Hok2 & Hh & Hf). unfold w1 in *; cbn [ac_has ac_first ac_rw] in *.
           rewrite Hh. cbn [app]. split; [exact Hg2|]. split; [exact Hrem2|]. split; [rewrite Hh; discriminate|exact Hok2].
    + (* Pending from the first *)
      destruct Hs as (Hg & Hrem & Hok). cbv beta iota. unfold ret. cbv beta iota. cbn [ac_has ac_first ac_rw]. rewrite Eh.
      split; [exact Hg|]. split; [rewrite Hrem; reflexivity|]. split; [intros _; exact Hok|exact Ho2].
  - (* the first stream has been dropped: the second alone *)
    unfold bind, ret. cbv beta iota.
    pose proof (second_alone w b b Ho2 (grows_refl b Hwf) Hmax) as Hs2. cbn [app].
    destruct (acall_rw A2 b w) as [[[| |] b2] w2|w2]; try contradiction; cbn [fst snd poll_of ret].
    + destruct Hs2 as (k2 & Hk2 & Hkr2 & Hg2 & Hrem2 & Hok2 & Hh & Hf & Hprog2). rewrite Hh, Eh. cbn [app].
      exists k2. split; [exact Hk2|]. split; [exact Hkr2|]. split; [exact Hg2|]. split; [exact Hrem2|].
      split; [split; [rewrite Hh, Eh; discriminate|exact Hok2]|exact Hprog2].
    + destruct Hs2 as (Hg2 & Hrem2 & Hok2 & Hh & Hf). rewrite Hh, Eh. cbn [app].
      split; [exact Hg2|]. split; [exact Hrem2|]. split; [rewrite Hh, Eh; discriminate|exact Hok2].
Qed.
End ACHAIN2.

(* ---- instances: a byte list as an async stream, optionally answering Pending according to a list of marks ---- *)
Definition adeliver (b : rb) (d : list Z) : rb :=
  {| rb_buf := splice (rb_buf b) (rb_filled b) d; rb_filled := rb_filled b + zlen d; rb_init := Z.max (rb_init b) (rb_filled b + zlen d) |}.

Lemma grows_adeliver b d : rb_wf b -> zlen d <= rb_remaining b -> grows b (adeliver b d) d.
Proof.
  intros (W1 & W2 & W3) Hd. pose proof (zlen_nonneg d) as Hdn. unfold rb_remaining, rb_capacity in Hd.
  unfold grows, adeliver, rb_wf, rb_filled_bytes; cbn [rb_buf rb_filled rb_init].
  assert (Hl : zlen (splice (rb_buf b) (rb_filled b) d) = zlen (rb_buf b)) by (apply zlen_splice; lia).
  split; [rewrite Hl; lia|]. split; [exact Hl|]. split; [reflexivity|].
  unfold slice, splice. rewrite !Z.sub_0_r. cbn [Z.to_nat skipn].
  assert (Hf : length (firstn (Z.to_nat (rb_filled b)) (rb_buf b)) = Z.to_nat (rb_filled b)) by (rewrite firstn_length; unfold zlen in *; lia).
  rewrite firstn_app, Hf. replace (Z.to_nat (rb_filled b + zlen d) - Z.to_nat (rb_filled b))%nat with (length d) by (unfold zlen; lia).
  rewrite firstn_app, Nat.sub_diag, firstn_all. cbn [firstn]. rewrite app_nil_r.
  rewrite firstn_firstn. replace (Nat.min (Z.to_nat (rb_filled b + zlen d)) (Z.to_nat (rb_filled b))) with (Z.to_nat (rb_filled b)) by lia.
  reflexivity.
Qed.

(* state: the bytes left, and marks (true = answer Pending once) *)
Definition marked_rd : AsyncReader (list Z * list bool) := {| prd := fun s b =>
  match snd s with
  | true :: t => (ARPending b, (fst s, t))
  | marks => let k := Z.min (rb_remaining b) (zlen (fst s)) in
             (AROk (adeliver b (firstn (Z.to_nat k) (fst s))), (skipn (Z.to_nat k) (fst s), tl marks))
  end |}.
Lemma marked_rd_source : async_prefix_source marked_rd fst (fun _ => True).
Proof.
  intros [rest marks] b _ Hwf _. cbn [prd marked_rd fst snd].
  assert (Hrem : 0 <= rb_remaining b) by (destruct Hwf as (W1 & W2 & W3); unfold rb_remaining, rb_capacity; lia).
  pose proof (zlen_nonneg rest) as Hr.
  assert (Hdel : let k := Z.min (rb_remaining b) (zlen rest) in
     exists k0, 0 <= k0 <= rb_remaining b /\ k0 <= zlen rest /\ grows b (adeliver b (firstn (Z.to_nat k) rest)) (firstn (Z.to_nat k0) rest) /\
       skipn (Z.to_nat k) rest = skipn (Z.to_nat k0) rest /\ True /\ (0 < rb_remaining b -> rest <> [] -> 1 <= k0)).
  { cbv zeta. set (k := Z.min (rb_remaining b) (zlen rest)). exists k. split; [lia|]. split; [lia|].
    split; [apply grows_adeliver; [exact Hwf|rewrite zlen_firstn; lia]|]. split; [reflexivity|]. split; [exact I|].
    intros H0 Hne. assert (0 < zlen rest) by (destruct rest; [congruence|rewrite zlen_cons; pose proof (zlen_nonneg rest); lia]). lia. }
  destruct marks as [|[|] t]; cbn [tl]; [exact Hdel| |exact Hdel].
  split; [apply grows_refl; exact Hwf|]. split; [reflexivity|exact I].
Qed.
