(* Facets/TokioAdapters.v — the async adapters against tokio's own Chain / Take (C16) and write-side forwarding (C13). *)
From FB Require Import Sem.Base Sem.Lemmas Sem.ReadBuf Model.Tokio Spec.TokioAdapters.
Open Scope Z_scope.

Lemma Facets_rb_advance_ok {S} (b : rb) (n : Z) (s : S) : rb_filled b + n <= usize_max -> rb_filled b + n <= rb_init b ->
  rb_advance b n s = Val {| rb_buf := rb_buf b; rb_filled := rb_filled b + n; rb_init := rb_init b |} s.
Proof.
  intros H1 H2. unfold rb_advance, rb_set_filled, assert_, bind, ret.
  replace (rb_filled b + n <=? usize_max) with true by lia. replace (rb_filled b + n <=? rb_init b) with true by lia. reflexivity.
Qed.
Lemma zlen_filled_bytes b : rb_wf b -> zlen (rb_filled_bytes b) = rb_filled b.
Proof. intros (H1 & H2 & H3). unfold rb_filled_bytes. rewrite zlen_slice; lia. Qed.

(* what every AsyncRead implementation guarantees about the ReadBuf it is handed: same backing slice length, filled only grows *)
Definition arb_mono {RS} (R : AsyncReader RS) : Prop :=
  forall rs b, rb_wf b ->
    match prd R rs b with
    | (AROk b', _) | (ARErr _ b', _) | (ARPending b', _) => zlen (rb_buf b') = zlen (rb_buf b) /\ rb_filled b <= rb_filled b' /\ rb_wf b'
    | (ARPanic, _) => True
    end.

Definition map_res {S T A} (f : S -> T) (r : res S A) : res T A :=
  match r with Val a s => Val a (f s) | Panic s => Panic (f s) end.

Section ACHAIN.
Context {R1S RWS : Type}.
Variable chk : bool.
Variable R1 : AsyncReader R1S.
Variable R2 : AsyncReader RWS.
Variable W2 : AsyncWriter RWS.
Hypothesis H1 : arb_mono R1.

Definition abs_achain (w : @acw R1S RWS) : @tcs R1S RWS :=
  {| tc_done_first := negb (ac_has w); tc_first := ac_first w; tc_second := ac_rw w |}.

(* poll for poll equal to tokio's Chain, for every well-formed ReadBuf: any filled prefix, any remaining capacity (0 included) *)
Theorem achain_sim buf w : rb_wf buf ->
  map_res abs_achain (achain_poll_read chk R1 R2 buf w) = tokio_chain_poll_read R1 R2 buf (abs_achain w).
Proof.
  intros Hwf. unfold achain_poll_read, tokio_chain_poll_read, abs_achain.
  unfold bind at 1. unfold aget_reader_is_some. cbn [tc_done_first tc_first tc_second].
  destruct (ac_has w) eqn:Eh; cbn [negb].
  - unfold bind at 1. unfold bind at 1. unfold acall_reader.
    pose proof (H1 (ac_first w) buf Hwf) as Hm.
    destruct (prd R1 (ac_first w) buf) as [[b'|k b'|b'|] r'] eqn:E1; cbn [map_res ret]; try (rewrite ?Eh; reflexivity).
    destruct Hm as (Hz & Hf & Hwf').
    rewrite (zlen_filled_bytes _ Hwf), (zlen_filled_bytes _ Hwf').
    unfold usub. replace (rb_filled buf <=? rb_filled b') with true by lia. unfold bind at 1. cbn [ret].
    assert (Hc : ((0 <? rb_filled b' - rb_filled buf) || negb (0 <? rb_remaining buf)) =
                 negb ((rb_remaining b' =? rb_remaining buf) && negb (rb_remaining buf =? 0))).
    { unfold rb_remaining, rb_capacity. rewrite Hz. destruct Hwf as (A & B & C). destruct Hwf' as (A' & B' & C').
      destruct (0 <? rb_filled b' - rb_filled buf) eqn:X1; destruct (0 <? zlen (rb_buf buf) - rb_filled buf) eqn:X2;
      destruct (zlen (rb_buf buf) - rb_filled b' =? zlen (rb_buf buf) - rb_filled buf) eqn:X3;
      destruct (zlen (rb_buf buf) - rb_filled buf =? 0) eqn:X4; cbn; try reflexivity; lia. }
    rewrite Hc.
    destruct ((rb_remaining b' =? rb_remaining buf) && negb (rb_remaining buf =? 0)); cbn [negb].
    + unfold bind at 1. unfold aset_reader_none. cbn [ret ac_has ac_first ac_rw]. unfold bind at 1. unfold acall_rw. cbn [ac_has ac_first ac_rw].
      destruct (prd R2 (ac_rw w) b') as [[b2|k2 b2|b2|] r2]; reflexivity.
    + cbn [ret map_res ac_has ac_first ac_rw negb]. rewrite Eh. reflexivity.
  - unfold bind at 1. cbn [ret]. unfold bind at 1. unfold acall_rw.
    destruct (prd R2 (ac_rw w) buf) as [[b2|k2 b2|b2|] r2]; cbn [map_res fst snd poll_of ret ac_has ac_first ac_rw]; rewrite ?Eh; reflexivity.
Qed.

(* a Pending first stream is not forgotten: has_first stays, the second stream is not touched *)
Theorem achain_pending_keeps buf w b1 r1 : ac_has w = true -> prd R1 (ac_first w) buf = (ARPending b1, r1) ->
  achain_poll_read chk R1 R2 buf w = Val (PPending, b1) {| ac_has := true; ac_first := r1; ac_rw := ac_rw w |}.
Proof.
  intros Hh Hp. unfold achain_poll_read, bind, aget_reader_is_some, acall_reader. rewrite Hh, Hp. cbn [ret]. rewrite Hh. reflexivity.
Qed.
(* Pending is reported only if a stream polled during this call reported it *)
Theorem achain_pending_only_from_inner buf w b' w' :
  achain_poll_read chk R1 R2 buf w = Val (PPending, b') w' ->
  (exists r1, prd R1 (ac_first w) buf = (ARPending b', r1)) \/ (exists bx r2, prd R2 (ac_rw w) bx = (ARPending b', r2)).
Proof.
  unfold achain_poll_read. unfold bind at 1. unfold aget_reader_is_some.
  destruct (ac_has w) eqn:Eh.
  - unfold bind at 1. unfold bind at 1. unfold acall_reader.
    destruct (prd R1 (ac_first w) buf) as [[b1|k b1|b1|] r1] eqn:E1; cbn [ret]; try discriminate.
    + unfold usub. destruct (_ <=? _); [|destruct chk]; unfold bind at 1; cbn [ret]; try discriminate;
        (destruct (_ || _); [discriminate|]);
        unfold bind at 1; unfold aset_reader_none; cbn [ret ac_has ac_first ac_rw]; unfold bind at 1; unfold acall_rw; cbn [ac_has ac_first ac_rw];
        (destruct (prd R2 (ac_rw w) b1) as [[b2|k2 b2|b2|] r2] eqn:E2; cbn [fst snd poll_of ret]; try discriminate;
         intros H; inversion H; subst; right; eauto).
    + intros H. inversion H; subst. left. eauto.
  - unfold bind at 1. cbn [ret]. unfold bind at 1. unfold acall_rw.
    destruct (prd R2 (ac_rw w) buf) as [[b2|k2 b2|b2|] r2] eqn:E2; cbn [fst snd poll_of ret]; try discriminate.
    intros H; inversion H; subst. right. eauto.
Qed.

(* write side: exactly one inner call of the same kind with the same bytes, its result returned unchanged, read state untouched *)
Theorem achain_write_forward d (w : @acw R1S RWS) :
  achain_poll_write (R1S := R1S) W2 d w =
  match pwr W2 (ac_rw w) d with
  | (AWOk n, r') => Val (PReady (Ok n)) {| ac_has := ac_has w; ac_first := ac_first w; ac_rw := r' |}
  | (AWErr k, r') => Val (PReady (Err k)) {| ac_has := ac_has w; ac_first := ac_first w; ac_rw := r' |}
  | (AWPending, r') => Val PPending {| ac_has := ac_has w; ac_first := ac_first w; ac_rw := r' |}
  | (AWPanic, r') => Panic {| ac_has := ac_has w; ac_first := ac_first w; ac_rw := r' |}
  end.
Proof. unfold achain_poll_write, acall_rw_write, bind, awr_call. destruct (pwr W2 (ac_rw w) d) as [[n|k| |] r']; reflexivity. Qed.
Theorem achain_flush_forward (w : @acw R1S RWS) :
  achain_poll_flush (R1S := R1S) W2 w =
  match pfl W2 (ac_rw w) with
  | (AFOk, r') => Val (PReady (Ok tt)) {| ac_has := ac_has w; ac_first := ac_first w; ac_rw := r' |}
  | (AFErr k, r') => Val (PReady (Err k)) {| ac_has := ac_has w; ac_first := ac_first w; ac_rw := r' |}
  | (AFPending, r') => Val PPending {| ac_has := ac_has w; ac_first := ac_first w; ac_rw := r' |}
  | (AFPanic, r') => Panic {| ac_has := ac_has w; ac_first := ac_first w; ac_rw := r' |}
  end.
Proof. unfold achain_poll_flush, acall_rw_flush, bind, awr_call. destruct (pfl W2 (ac_rw w)) as [[|k| |] r']; reflexivity. Qed.
Theorem achain_shutdown_forward (w : @acw R1S RWS) :
  achain_poll_shutdown (R1S := R1S) W2 w =
  match psh W2 (ac_rw w) with
  | (AFOk, r') => Val (PReady (Ok tt)) {| ac_has := ac_has w; ac_first := ac_first w; ac_rw := r' |}
  | (AFErr k, r') => Val (PReady (Err k)) {| ac_has := ac_has w; ac_first := ac_first w; ac_rw := r' |}
  | (AFPending, r') => Val PPending {| ac_has := ac_has w; ac_first := ac_first w; ac_rw := r' |}
  | (AFPanic, r') => Panic {| ac_has := ac_has w; ac_first := ac_first w; ac_rw := r' |}
  end.
Proof. unfold achain_poll_shutdown, acall_rw_shutdown, bind, awr_call. destruct (psh W2 (ac_rw w)) as [[|k| |] r']; reflexivity. Qed.
End ACHAIN.

(* ---- take: an async stream whose observable behaviour depends only on the capacity it is offered ---- *)
Inductive aaans := AAData (data : list Z) | AAErr (k : ekind) | AAPending | AAPanic.
Record AAReader (RS : Type) := { aprd : RS -> Z -> aaans * RS }.
Arguments aprd {RS}.
Definition same_but (b b' : rb) : Prop :=
  rb_filled_bytes b' = rb_filled_bytes b /\ zlen (rb_buf b') = zlen (rb_buf b) /\ rb_filled b' = rb_filled b /\ rb_wf b'.
Definition aimplements {RS} (R : AsyncReader RS) (AA : AAReader RS) : Prop :=
  forall rs b, rb_wf b ->
    match aprd AA rs (rb_remaining b) with
    | (AAData data, rs') =>
        zlen data <= rb_remaining b /\
        exists b', prd R rs b = (AROk b', rs') /\ rb_filled_bytes b' = rb_filled_bytes b ++ data /\
          zlen (rb_buf b') = zlen (rb_buf b) /\ rb_filled b' = rb_filled b + zlen data /\ rb_wf b'
    | (AAErr k, rs') => exists b', prd R rs b = (ARErr k b', rs') /\ same_but b b'
    | (AAPending, rs') => exists b', prd R rs b = (ARPending b', rs') /\ same_but b b'
    | (AAPanic, rs') => prd R rs b = (ARPanic, rs')
    end.

(* what a caller can observe of one poll_read of a take adapter *)
Definition take_obs {RS} (AA : AAReader RS) (rem : Z) (rs : RS) (b : rb)
  (r : res (Z * RS) (poll (io unit) * rb)) : Prop :=
  if rem =? 0 then r = Val (PReady (Ok tt), b) (rem, rs) else
  match aprd AA rs (Z.min rem (rb_remaining b)) with
  | (AAData data, rs') => exists b', r = Val (PReady (Ok tt), b') (rem - zlen data, rs') /\
        rb_filled_bytes b' = rb_filled_bytes b ++ data /\ rb_remaining b' = rb_remaining b - zlen data /\ zlen data <= Z.min rem (rb_remaining b)
  | (AAErr k, rs') => exists b', r = Val (PReady (Err k), b') (rem, rs') /\ rb_filled_bytes b' = rb_filled_bytes b /\ rb_remaining b' = rb_remaining b
  | (AAPending, rs') => exists b', r = Val (PPending, b') (rem, rs') /\ rb_filled_bytes b' = rb_filled_bytes b /\ rb_remaining b' = rb_remaining b
  | (AAPanic, rs') => r = Panic (rem, rs')
  end.

Section ATAKE.
Context {RWS : Type}.
Variable chk : bool.
Variable R2 : AsyncReader RWS.
Variable AA : AAReader RWS.
Variable W2 : AsyncWriter RWS.
Hypothesis Himpl : aimplements R2 AA.

Lemma sub_new_wf (l : list Z) : rb_wf (rb_new l).
Proof. unfold rb_wf, rb_new; cbn. pose proof (zlen_nonneg l). lia. Qed.
Lemma sub_uninit_wf (l : list Z) : rb_wf (rb_uninit l).
Proof. unfold rb_wf, rb_uninit; cbn. pose proof (zlen_nonneg l). lia. Qed.

(* writing a sub-buffer's contents back over [filled, filled+k) keeps the filled prefix; the next n bytes are the sub-buffer's first n *)
Lemma back_filled (buf : list Z) (filled k n : Z) (sub' : list Z) : 0 <= filled -> 0 <= n <= k -> filled + k <= zlen buf -> zlen sub' = k ->
  slice (splice buf filled sub') 0 (filled + n) = slice buf 0 filled ++ slice sub' 0 n.
Proof.
  intros Hf Hn Hk Hs. rewrite (slice_splice_mid buf sub' filled 0 (filled + n)) by lia.
  f_equal. rewrite slice_0. f_equal. lia.
Qed.

(* the ReadBuf after initialize_unfilled, and the destination handed to the inner stream *)
Definition tk_b3 (buf : rb) : rb :=
  if rb_init buf <? zlen (rb_buf buf)
  then {| rb_buf := splice (rb_buf buf) (rb_init buf) (repeat 0 (Z.to_nat (zlen (rb_buf buf) - rb_init buf)));
          rb_filled := rb_filled buf; rb_init := zlen (rb_buf buf) |} else buf.
Definition tk_dest (buf : rb) (k : Z) : list Z := slice (rb_buf (tk_b3 buf)) (rb_filled buf) (rb_filled buf + k).
Definition tk_back (buf : rb) (k : Z) (b2 : rb) : rb :=
  {| rb_buf := splice (rb_buf (tk_b3 buf)) (rb_filled buf) (fit (rb_buf b2) (tk_dest buf k));
     rb_filled := rb_filled (tk_b3 buf); rb_init := rb_init (tk_b3 buf) |}.

Lemma atake_unfold buf w : rb_wf buf -> 0 <= at_rem w ->
  atake_poll_read chk R2 buf w =
  if at_rem w =? 0 then Val (PReady (Ok tt), buf) w else
  let k := Z.min (at_rem w) (rb_remaining buf) in
  match prd R2 (at_rw w) (rb_new (tk_dest buf k)) with
  | (AROk b2, r') =>
      let n := zlen (rb_filled_bytes b2) in
      match rb_advance (S := atw) (tk_back buf k b2) n {| at_rem := at_rem w; at_rw := r' |} with
      | Val b10 w1 => match usub (S := atw) chk (at_rem w) n w1 with
                      | Val d w2 => Val (PReady (Ok tt), b10) {| at_rem := d; at_rw := r' |}
                      | Panic w2 => Panic w2
                      end
      | Panic w1 => Panic w1
      end
  | (ARErr e b2, r') => Val (PReady (Err e), tk_back buf k b2) {| at_rem := at_rem w; at_rw := r' |}
  | (ARPending b2, r') => Val (PPending, tk_back buf k b2) {| at_rem := at_rem w; at_rw := r' |}
  | (ARPanic, r') => Panic {| at_rem := at_rem w; at_rw := r' |}
  end.
Proof.
  intros (W1 & W2' & W3) Hrem. unfold atake_poll_read. unfold bind at 1. unfold aget_remaining.
  destruct (at_rem w =? 0) eqn:E0; [reflexivity|]. cbv zeta.
  set (cap := zlen (rb_buf buf)). set (fl := rb_filled buf).
  set (v := {| v_off := fl; v_end := cap |}).
  assert (Hiu : rb_initialize_unfilled (S := atw) buf w = Val (tk_b3 buf, v) w).
  { unfold rb_initialize_unfilled, rb_initialize_unfilled_to, assert_, rb_remaining, rb_capacity, tk_b3.
    replace (zlen (rb_buf buf) - rb_filled buf <=? zlen (rb_buf buf) - rb_filled buf) with true by lia.
    unfold bind, ret. fold cap fl. replace (fl + (cap - fl)) with cap by lia. reflexivity. }
  rewrite (bind_val _ _ _ _ _ Hiu). cbv beta iota.
  assert (L3 : zlen (rb_buf (tk_b3 buf)) = cap).
  { unfold tk_b3. fold cap. destruct (rb_init buf <? cap) eqn:E; cbn [rb_buf]; [|reflexivity].
    apply zlen_splice; [lia|]. rewrite zlen_repeat. unfold cap in *. lia. }
  set (k := Z.min (at_rem w) (rb_remaining buf)).
  assert (Hk : 0 <= k <= cap - fl) by (unfold k, rb_remaining, rb_capacity; fold cap fl; lia).
  unfold rb_view_bytes, v; cbn [v_off v_end].
  unfold slice_chk. rewrite zlen_slice by lia.
  replace ((0 <=? k) && (k <=? cap - fl)) with true by (symmetry; apply andb_true_iff; lia).
  rewrite bind_ret_l. rewrite slice_slice by lia. rewrite Z.add_0_r.
  change (slice (rb_buf (tk_b3 buf)) fl (fl + k)) with (tk_dest buf k).
  unfold bind at 1. unfold atcall_rw.
  destruct (prd R2 (at_rw w) (rb_new (tk_dest buf k))) as [[b2|e b2|b2|] r']; cbv beta iota; try reflexivity.
  unfold rb_write_view; cbn [v_off v_end].
  change (slice (rb_buf (tk_b3 buf)) fl (fl + k)) with (tk_dest buf k).
  change {| rb_buf := splice (rb_buf (tk_b3 buf)) fl (fit (rb_buf b2) (tk_dest buf k)); rb_filled := rb_filled (tk_b3 buf); rb_init := rb_init (tk_b3 buf) |} with (tk_back buf k b2).
  unfold bind at 1.
  destruct (rb_advance (tk_back buf k b2) (zlen (rb_filled_bytes b2)) {| at_rem := at_rem w; at_rw := r' |}) as [b10 w1|w1] eqn:Ead; [|reflexivity].
  assert (Hw1 : w1 = {| at_rem := at_rem w; at_rw := r' |}).
  { unfold rb_advance, rb_set_filled, assert_, bind, ret in Ead.
    repeat match type of Ead with context [if ?c then _ else _] => destruct c end; inversion Ead; reflexivity. }
  subst w1. unfold bind at 1. unfold aget_remaining. cbn [at_rem]. unfold bind at 1.
  destruct (usub chk (at_rem w) (zlen (rb_filled_bytes b2)) {| at_rem := at_rem w; at_rw := r' |}) as [d w2|w2] eqn:Eu; [|reflexivity].
  assert (Hw2 : w2 = {| at_rem := at_rem w; at_rw := r' |}).
  { unfold usub, ret, panic in Eu. repeat match type of Eu with context [if ?c then _ else _] => destruct c end; inversion Eu; reflexivity. }
  subst w2. unfold bind, aset_remaining, ret. reflexivity.
Qed.

Theorem atake_observable buf w : rb_wf buf -> 0 <= at_rem w -> zlen (rb_buf buf) <= usize_max ->
  take_obs AA (at_rem w) (at_rw w) buf
    (match atake_poll_read chk R2 buf w with Val a w' => Val a (at_rem w', at_rw w') | Panic w' => Panic (at_rem w', at_rw w') end).
Proof.
  intros Hwf Hrem Hmax. pose proof Hwf as (W1 & W2' & W3). rewrite (atake_unfold buf w Hwf Hrem). unfold take_obs.
  destruct (at_rem w =? 0) eqn:E0; [reflexivity|]. cbv zeta.
  set (cap := zlen (rb_buf buf)). set (fl := rb_filled buf).
  set (k := Z.min (at_rem w) (rb_remaining buf)).
  assert (Hk : 0 <= k <= cap - fl) by (unfold k, rb_remaining, rb_capacity; fold cap fl; lia).
  assert (Hb3 : slice (rb_buf (tk_b3 buf)) 0 fl = slice (rb_buf buf) 0 fl /\ zlen (rb_buf (tk_b3 buf)) = cap /\ rb_filled (tk_b3 buf) = fl /\ rb_init (tk_b3 buf) = cap).
  { unfold tk_b3. fold cap. destruct (rb_init buf <? cap) eqn:E; cbn [rb_buf rb_filled rb_init].
    - assert (Hr : zlen (repeat 0 (Z.to_nat (cap - rb_init buf))) = cap - rb_init buf) by (rewrite zlen_repeat; lia).
      split; [apply slice_splice_before; unfold cap, fl in *; lia|]. split; [apply zlen_splice; unfold cap in *; lia|auto].
    - unfold cap, fl in *. repeat split; lia. }
  destruct Hb3 as (P3 & L3 & F3 & I3).
  set (dest := tk_dest buf k).
  assert (Hdest : zlen dest = k) by (unfold dest, tk_dest; fold fl; rewrite zlen_slice; lia).
  pose proof (Himpl (at_rw w) (rb_new dest) (sub_new_wf dest)) as Hi.
  assert (Hrm : rb_remaining (rb_new dest) = k) by (unfold rb_remaining, rb_capacity, rb_new; cbn [rb_buf rb_filled]; lia).
  rewrite Hrm in Hi.
  assert (Hfb0 : rb_filled_bytes (rb_new dest) = []) by (unfold rb_filled_bytes, rb_new; cbn [rb_buf rb_filled]; apply slice_nil).
  assert (Hback : forall b2, zlen (rb_buf b2) = k ->
            rb_filled_bytes (tk_back buf k b2) = rb_filled_bytes buf /\ rb_remaining (tk_back buf k b2) = rb_remaining buf /\
            rb_buf (tk_back buf k b2) = splice (rb_buf (tk_b3 buf)) fl (rb_buf b2)).
  { intros b2 Hz. unfold tk_back. fold dest fl. rewrite fit_same_length by (unfold zlen in *; lia).
    unfold rb_filled_bytes, rb_remaining, rb_capacity; cbn [rb_buf rb_filled]. rewrite F3.
    split; [rewrite slice_splice_before by lia; exact P3|]. split; [rewrite zlen_splice by lia; fold cap fl; lia|reflexivity]. }
  destruct (aprd AA (at_rw w) k) as [[data|kk| |] rs'] eqn:Ea.
  - destruct Hi as (Hle & b2 & Hr & Hfb & Hzl & Hfl & Hwf2). rewrite Hr.
    rewrite Hfb0 in Hfb. cbn [app] in Hfb. pose proof (zlen_nonneg data) as Hdn.
    cbn [rb_filled rb_new] in Hfl. rewrite Z.add_0_l in Hfl. cbn [rb_buf rb_new] in Hzl.
    destruct (Hback b2 ltac:(lia)) as (Bf & Br & Bb).
    rewrite Hfb.
    rewrite (Facets_rb_advance_ok (tk_back buf k b2) (zlen data)) by (unfold tk_back; cbn [rb_filled rb_init]; lia).
    unfold usub. replace (zlen data <=? at_rem w) with true by lia. cbn [ret at_rem at_rw].
    eexists. split; [reflexivity|]. split; [|split; [|exact Hle]].
    + unfold rb_filled_bytes; cbn [rb_buf rb_filled]. rewrite Bb. unfold tk_back; cbn [rb_filled]. rewrite F3.
      rewrite (back_filled (rb_buf (tk_b3 buf)) fl k (zlen data) (rb_buf b2)) by lia.
      rewrite P3. f_equal. unfold rb_filled_bytes in Hfb. rewrite Hfl in Hfb. exact Hfb.
    + unfold rb_remaining, rb_capacity in *; cbn [rb_buf rb_filled]. unfold tk_back in *; cbn [rb_buf rb_filled] in *. lia.
  - destruct Hi as (b2 & Hr & (Sf & Sz & Sfl & Swf)). rewrite Hr. cbn [rb_buf rb_new] in Sz.
    destruct (Hback b2 ltac:(lia)) as (Bf & Br & Bb). cbn [at_rem at_rw]. eexists. split; [reflexivity|auto].
  - destruct Hi as (b2 & Hr & (Sf & Sz & Sfl & Swf)). rewrite Hr. cbn [rb_buf rb_new] in Sz.
    destruct (Hback b2 ltac:(lia)) as (Bf & Br & Bb). cbn [at_rem at_rw]. eexists. split; [reflexivity|auto].
  - rewrite Hi. reflexivity.
Qed.

(* tokio's own Take has the same observable behaviour: hence poll for poll the same results, bytes, allowance and inner calls *)
Theorem tokio_take_observable buf (w : @tts RWS) : rb_wf buf -> 0 <= tt_limit w ->
  take_obs AA (tt_limit w) (tt_inner w) buf
    (match tokio_take_poll_read R2 buf w with Val a w' => Val a (tt_limit w', tt_inner w') | Panic w' => Panic (tt_limit w', tt_inner w') end).
Proof.
  intros Hwf Hrem. pose proof Hwf as (W1 & W2' & W3). unfold take_obs, tokio_take_poll_read.
  destruct (tt_limit w =? 0) eqn:E0; [reflexivity|]. cbv zeta.
  set (cap := zlen (rb_buf buf)). set (fl := rb_filled buf).
  rewrite (Z.min_comm (rb_remaining buf) (tt_limit w)).
  set (k := Z.min (tt_limit w) (rb_remaining buf)).
  assert (Hk : 0 <= k <= cap - fl) by (unfold k, rb_remaining, rb_capacity; fold cap fl; lia).
  set (dest := slice (rb_buf buf) fl (fl + k)).
  assert (Hdest : zlen dest = k) by (unfold dest; rewrite zlen_slice; unfold cap, fl in *; lia).
  pose proof (Himpl (tt_inner w) (rb_uninit dest) (sub_uninit_wf dest)) as Hi.
  assert (Hrm : rb_remaining (rb_uninit dest) = k) by (unfold rb_remaining, rb_capacity, rb_uninit; cbn [rb_buf rb_filled]; lia).
  rewrite Hrm in Hi.
  assert (Hfb0 : rb_filled_bytes (rb_uninit dest) = []) by (unfold rb_filled_bytes, rb_uninit; cbn [rb_buf rb_filled]; apply slice_nil).
  destruct (aprd AA (tt_inner w) k) as [[data|kk| |] rs'] eqn:Ea.
  - destruct Hi as (Hle & b2 & Hr & Hfb & Hzl & Hfl & Hwf2). rewrite Hr.
    rewrite Hfb0 in Hfb. cbn [app] in Hfb. pose proof (zlen_nonneg data) as Hdn.
    cbn [rb_filled rb_uninit] in Hfl. rewrite Z.add_0_l in Hfl. cbn [rb_buf rb_uninit] in Hzl.
    rewrite Hfb. cbn [rb_buf rb_filled rb_init tt_limit tt_inner].
    eexists. split; [reflexivity|]. split; [|split; [|exact Hle]].
    + unfold rb_filled_bytes; cbn [rb_buf rb_filled]. fold dest. rewrite fit_same_length by (cbn [rb_buf rb_uninit]; unfold zlen in *; lia).
      rewrite (back_filled (rb_buf buf) fl k (zlen data) (rb_buf b2)) by (unfold cap in *; lia).
      f_equal. unfold rb_filled_bytes in Hfb. rewrite Hfl in Hfb. exact Hfb.
    + unfold rb_remaining, rb_capacity; cbn [rb_buf rb_filled]. fold dest. rewrite fit_same_length by (cbn [rb_buf rb_uninit]; unfold zlen in *; lia).
      rewrite zlen_splice by (unfold cap in *; lia). fold cap fl. lia.
  - destruct Hi as (b2 & Hr & (Sf & Sz & Sfl & Swf)). rewrite Hr. cbn [rb_buf rb_uninit] in Sz. cbn [tt_limit tt_inner].
    eexists. split; [reflexivity|]. unfold rb_filled_bytes, rb_remaining, rb_capacity; cbn [rb_buf rb_filled]. fold dest.
    rewrite fit_same_length by (cbn [rb_buf rb_uninit]; unfold zlen in *; lia).
    split; [apply slice_splice_before; unfold cap in *; lia|rewrite zlen_splice by (unfold cap in *; lia); reflexivity].
  - destruct Hi as (b2 & Hr & (Sf & Sz & Sfl & Swf)). rewrite Hr. cbn [rb_buf rb_uninit] in Sz. cbn [tt_limit tt_inner].
    eexists. split; [reflexivity|]. unfold rb_filled_bytes, rb_remaining, rb_capacity; cbn [rb_buf rb_filled]. fold dest.
    rewrite fit_same_length by (cbn [rb_buf rb_uninit]; unfold zlen in *; lia).
    split; [apply slice_splice_before; unfold cap in *; lia|rewrite zlen_splice by (unfold cap in *; lia); reflexivity].
  - rewrite Hi. reflexivity.
Qed.

Theorem atake_write_forward d (w : @atw RWS) :
  atake_poll_write W2 d w =
  match pwr W2 (at_rw w) d with
  | (AWOk n, r') => Val (PReady (Ok n)) {| at_rem := at_rem w; at_rw := r' |}
  | (AWErr k, r') => Val (PReady (Err k)) {| at_rem := at_rem w; at_rw := r' |}
  | (AWPending, r') => Val PPending {| at_rem := at_rem w; at_rw := r' |}
  | (AWPanic, r') => Panic {| at_rem := at_rem w; at_rw := r' |}
  end.
Proof. unfold atake_poll_write, atcall_rw_write, bind, atwr_call. destruct (pwr W2 (at_rw w) d) as [[n|k| |] r']; reflexivity. Qed.
Theorem atake_flush_forward (w : @atw RWS) :
  atake_poll_flush W2 w =
  match pfl W2 (at_rw w) with
  | (AFOk, r') => Val (PReady (Ok tt)) {| at_rem := at_rem w; at_rw := r' |}
  | (AFErr k, r') => Val (PReady (Err k)) {| at_rem := at_rem w; at_rw := r' |}
  | (AFPending, r') => Val PPending {| at_rem := at_rem w; at_rw := r' |}
  | (AFPanic, r') => Panic {| at_rem := at_rem w; at_rw := r' |}
  end.
Proof. unfold atake_poll_flush, atcall_rw_flush, bind, atwr_call. destruct (pfl W2 (at_rw w)) as [[|k| |] r']; reflexivity. Qed.
Theorem atake_shutdown_forward (w : @atw RWS) :
  atake_poll_shutdown W2 w =
  match psh W2 (at_rw w) with
  | (AFOk, r') => Val (PReady (Ok tt)) {| at_rem := at_rem w; at_rw := r' |}
  | (AFErr k, r') => Val (PReady (Err k)) {| at_rem := at_rem w; at_rw := r' |}
  | (AFPending, r') => Val PPending {| at_rem := at_rem w; at_rw := r' |}
  | (AFPanic, r') => Panic {| at_rem := at_rem w; at_rw := r' |}
  end.
Proof. unfold atake_poll_shutdown, atcall_rw_shutdown, bind, atwr_call. destruct (psh W2 (at_rw w)) as [[|k| |] r']; reflexivity. Qed.
End ATAKE.
