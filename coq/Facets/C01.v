(* Facets/C01.v — every API step refines the FIFO queue (Spec/Fifo.v) and keeps the invariant. *)
From FB Require Import Sem.Base Sem.Lemmas Sem.Hoare Model.Fb Model.Script Model.Escape Spec.Api Spec.Fifo Facets.Fb Facets.Fb2.
Open Scope Z_scope.

(* arguments are usize values; collaborators honour the type of their results *)
Definition args_ok (o : op) : Prop :=
  match o with
  | OReadBytes n | OTryReadBytes n => 0 <= n <= usize_max
  | OWritableWrote _ n => 0 <= n <= usize_max
  | OCopyOnce ans => forall dest d' n, ans dest = ROk d' n -> 0 <= n <= usize_max
  | ODeframe df => forall u, df_in_bounds df u
  | _ => True
  end.

Section C01.
Variable SIZE : Z.
Variable chk : bool.

Lemma escape_ascii_total (l : list Z) (s : fb) : (forall x, In x l -> 0 <= x < 256) ->
  exists v, escape_ascii l s = Val v s.
Proof.
Abort.

Lemma lift_val {A} (f : A -> obs) r a s' : r = Val a s' -> lift f r = Val (f a) s'.
Proof. intros ->. reflexivity. Qed.
Lemma lift_panic {A} (f : A -> obs) (r : res fb A) s' : r = Panic s' -> lift f r = Panic s'.
Proof. intros ->. reflexivity. Qed.

Lemma firstn_splice0 (dest src : list Z) : zlen src <= zlen dest ->
  firstn (length src) (splice dest 0 src) = src /\ skipn (length src) (splice dest 0 src) = skipn (length src) dest
  /\ zlen (splice dest 0 src) = zlen dest.
Proof.
  intros H. pose proof (zlen_nonneg src). unfold splice. cbn [Z.to_nat firstn app Nat.add].
  split; [rewrite firstn_app, Nat.sub_diag, firstn_all; cbn; apply app_nil_r|].
  split; [rewrite skipn_app, Nat.sub_diag, skipn_all; reflexivity|].
  unfold zlen in *. rewrite app_length, skipn_length. lia.
Qed.

(* the queries that render text never change the state (they may panic in the model only if a byte is not a byte) *)
Lemma state_of_lift {A} (f : A -> obs) (r : res fb A) : state_of (lift f r) = state_of r.
Proof. destruct r; reflexivity. Qed.

Lemma escape_state (l : list Z) (s : fb) : state_of (escape_ascii l s) = s.
Proof.
  unfold escape_ascii. generalize (@nil Z) as acc. induction l as [|x t IH]; intros acc; [reflexivity|].
  cbn [for_each]. unfold bind at 1.
  assert (Hin : forall (e : list Z) acc0, state_of (for_each e acc0 (fun result ascii_byte =>
       s_1 <- from_utf8_unwrap_1 ascii_byte ;; ret (result ++ s_1)) s) = s).
  { induction e as [|y e IHe]; intros acc0; [reflexivity|]. cbn [for_each]. unfold bind at 1, from_utf8_unwrap_1.
    unfold bind at 1. destruct (y <? 128); [cbn; apply IHe|reflexivity]. }
  specialize (Hin (escape_default x) acc).
  destruct (for_each (escape_default x) acc _ s) as [a s'|s'] eqn:E; cbn in Hin; subst; [apply IH|reflexivity].
Qed.

Lemma fb_escape_state s : Inv SIZE s -> state_of (fb_escape_ascii s) = s.
Proof.
  intros HI. unfold fb_escape_ascii. rewrite (bind_val _ _ _ _ _ (readable_spec SIZE s HI)). apply escape_state.
Qed.
Lemma debug_state s : Inv SIZE s -> state_of (debug_fmt SIZE chk s) = s.
Proof.
  intros HI. unfold debug_fmt, get_write_index. unfold bind at 1.
  pose proof HI as (H1&H2&H3&H4&H5).
  unfold usub. replace (write_index s <=? SIZE) with true by lia. unfold bind at 1, ret at 1.
  rewrite (bind_val _ _ _ _ _ (len_spec SIZE chk s HI)).
  unfold bind at 1. pose proof (fb_escape_state s HI) as He.
  destruct (fb_escape_ascii s) as [v s'|s']; cbn [state_of] in He; rewrite He; reflexivity.
Qed.
Ltac sim := cbn [fifo_ok state_of lift fst snd].
Ltac sim_all := cbn [fifo_ok state_of lift fst snd] in *.
Ltac rsplit := repeat match goal with |- _ /\ _ => split end.
Theorem c01_step s o : Inv SIZE s -> args_ok o ->
  fifo_ok (unread s) o (step SIZE chk s o) (unread (state_of (step SIZE chk s o))) /\
  Inv SIZE (state_of (step SIZE chk s o)).
Proof.
  intros HI Ha. pose proof (len_nonneg SIZE s HI) as Hl. pose proof (zlen_unread SIZE s HI) as Hz.
  destruct o; cbn [step args_ok] in *.
  - (* OLen *) rewrite (lift_val _ _ _ _ (len_spec SIZE chk s HI)). sim. rsplit; auto; lia.
  - rewrite (lift_val _ _ _ _ (is_empty_spec s)). sim. rewrite Hz. rsplit; auto.
  - rewrite (lift_val _ _ _ _ (readable_spec SIZE s HI)). sim. rsplit; auto.
  - (* OMem *) unfold mem_, get_mem. sim. auto.
  - (* OClear *) pose proof (clear_fifo SIZE s HI) as H. unfold wp in H. destruct (clear s) as [[] s'|s'] eqn:E; [|tauto].
    sim. destruct H as [H1 H2]. rewrite H1. auto.
  - (* OShift *) pose proof (shift_fifo SIZE chk s HI) as H. unfold wp in H. destruct (shift chk s) as [[] s'|s'] eqn:E; [|tauto].
    sim. destruct H as [H1 H2]. rewrite H1. auto.
  - (* OReadByte *)
    destruct (Z.eq_dec (len_ s) 0) as [E|E].
    + rewrite (lift_panic _ _ _ (read_byte_panic SIZE chk s HI E)). sim. auto.
    + rewrite (lift_val _ _ _ _ (read_byte_ok SIZE chk s HI ltac:(lia))). sim.
      destruct (after_read_facts SIZE chk s 1 HI ltac:(lia)) as (A & B & _). split; [|exact A].
      rewrite B. apply (unread_nonempty SIZE); [exact HI|lia].
  - (* OTryReadByte *)
    rewrite (try_read_byte_spec SIZE chk s HI). destruct (len_ s =? 0) eqn:E; sim.
    + assert (unread s = []) by (apply zlen_0_nil; lia). rewrite H. auto.
    + destruct (after_read_facts SIZE chk s 1 HI ltac:(lia)) as (A & B & _). split; [|exact A].
      rewrite B. apply (unread_nonempty SIZE); [exact HI|lia].
  - (* OReadBytes *)
    destruct (Z_lt_le_dec (len_ s) n) as [Hlt|Hle].
    + rewrite (lift_panic _ _ _ (read_bytes_panic SIZE chk s n HI Ha Hlt)). sim. auto.
    + rewrite (lift_val _ _ _ _ (read_bytes_ok' SIZE chk s n HI ltac:(lia))). sim.
      destruct (after_read_facts SIZE chk s n HI ltac:(lia)) as (A & B & _). split; [|exact A].
      rewrite B. split; [rewrite zlen_firstn; lia|symmetry; apply firstn_skipn].
  - (* OTryReadBytes *)
    rewrite (try_read_bytes_spec SIZE chk s n HI ltac:(lia)). destruct (len_ s <? n) eqn:E; sim.
    + rsplit; auto; lia.
    + destruct (after_read_facts SIZE chk s n HI ltac:(lia)) as (A & B & _). split; [|exact A].
      rewrite B. split; [rewrite zlen_firstn; lia|symmetry; apply firstn_skipn].
  - (* OReadAll *)
    rewrite (lift_val _ _ _ _ (read_all_spec SIZE chk s HI)). sim.
    destruct (after_read_facts SIZE chk s (len_ s) HI ltac:(lia)) as (A & B & _). split; [|exact A].
    rewrite B. split; [reflexivity|]. apply skipn_all2. unfold zlen in Hz. lia.
  - (* OReadCopy *)
    rewrite (read_and_copy_bytes_spec SIZE chk s dest HI). pose proof (zlen_nonneg dest) as Hd.
    unfold copy_count. rewrite <- Hz. set (k := Z.min (zlen dest) (zlen (unread s))).
    destruct (k =? 0) eqn:E; sim.
    + fold k. rsplit; auto; try reflexivity; lia.
    + destruct (after_read_facts SIZE chk s k HI ltac:(lia)) as (A & B & _). split; [|exact A].
      rewrite B.
      assert (Hk : zlen (firstn (Z.to_nat k) (unread s)) = k) by (rewrite zlen_firstn; lia).
      destruct (firstn_splice0 dest (firstn (Z.to_nat k) (unread s)) ltac:(lia)) as (F1 & F2 & F3).
      assert (Hlen : length (firstn (Z.to_nat k) (unread s)) = Z.to_nat k) by (unfold zlen in Hk; lia).
      rewrite Hlen in *. rewrite F1, F2. rsplit; auto. symmetry; apply firstn_skipn.
  - (* OTryReadExact *)
    rewrite (try_read_exact_spec SIZE chk s dest HI). pose proof (zlen_nonneg dest) as Hd.
    destruct (len_ s <? zlen dest) eqn:E; sim; [rsplit; auto; lia|].
    destruct (zlen dest =? 0) eqn:E0; sim.
    + assert (dest = []) by (apply zlen_0_nil; lia). subst dest. sim. auto.
    + set (k := zlen dest) in *.
      destruct (after_read_facts SIZE chk s k HI ltac:(lia)) as (A & B & _). split; [|exact A].
      rewrite B.
      assert (Hk : zlen (firstn (Z.to_nat k) (unread s)) = k) by (rewrite zlen_firstn; lia).
      destruct (firstn_splice0 dest (firstn (Z.to_nat k) (unread s)) ltac:(lia)) as (F1 & F2 & F3).
      assert (Hlen : length (firstn (Z.to_nat k) (unread s)) = Z.to_nat k) by (unfold zlen in Hk; lia).
      assert (Hsp : splice dest 0 (firstn (Z.to_nat k) (unread s)) = firstn (Z.to_nat k) (unread s)).
      { rewrite <- (firstn_skipn (Z.to_nat k) (splice dest 0 _)). rewrite Hlen in *. rewrite F1, F2.
        rewrite skipn_all2 by (unfold k, zlen; lia). apply app_nil_r. }
      rewrite Hsp. split; [lia|symmetry; apply firstn_skipn].
  - (* OIoRead *)
    rewrite (io_read_spec SIZE chk s dest HI). pose proof (zlen_nonneg dest) as Hd.
    unfold copy_count. rewrite <- Hz. set (k := Z.min (zlen dest) (zlen (unread s))).
    destruct (k =? 0) eqn:E; sim.
    + fold k. rsplit; auto; try reflexivity; lia.
    + destruct (after_read_facts SIZE chk s k HI ltac:(lia)) as (A & B & _). split; [|exact A].
      rewrite B.
      assert (Hk : zlen (firstn (Z.to_nat k) (unread s)) = k) by (rewrite zlen_firstn; lia).
      destruct (firstn_splice0 dest (firstn (Z.to_nat k) (unread s)) ltac:(lia)) as (F1 & F2 & F3).
      assert (Hlen : length (firstn (Z.to_nat k) (unread s)) = Z.to_nat k) by (unfold zlen in Hk; lia).
      rewrite Hlen in *. rewrite F1, F2. rsplit; auto. symmetry; apply firstn_skipn.
  - (* OWriteBytes *)
    rewrite (write_bytes_spec SIZE chk s d HI). destruct (wlen SIZE s <? zlen d) eqn:E; sim; [auto|].
    destruct (after_write_facts SIZE s d HI ltac:(lia)) as (A & B & _). rewrite B. auto.
  - rewrite (write_str_spec SIZE chk s d HI). destruct (wlen SIZE s <? zlen d) eqn:E; sim; [auto|].
    destruct (after_write_facts SIZE s d HI ltac:(lia)) as (A & B & _). rewrite B. auto.
  - rewrite (io_write_spec SIZE chk s d HI). destruct (wlen SIZE s <? zlen d) eqn:E; sim; [auto|].
    destruct (after_write_facts SIZE s d HI ltac:(lia)) as (A & B & _). rewrite B. auto.
  - (* OIoFlush *) unfold io_flush, ret. sim. auto.
  - (* OWritableWrote *)
    rewrite (scribble_then_wrote_spec SIZE chk s scribble n HI Ha).
    destruct (scribbled_facts SIZE s scribble HI) as (I1 & U1 & W1 & L1).
    destruct (wlen SIZE s <? n) eqn:E; sim; [rewrite U1; auto|].
    set (s1 := scribbled SIZE s scribble) in *.
    pose proof (wrote_fifo SIZE chk s1 n I1 ltac:(lia)) as Hw.
    unfold wp in Hw. rewrite (wrote_ok SIZE chk s1 n I1 ltac:(lia)) in Hw.
    change (read_index s1) with (read_index s) in Hw. change (write_index s1) with (write_index s) in Hw.
    destruct Hw as (Hu & Hi' & _). split; [|exact Hi']. rewrite Hu, U1.
    unfold s1, scribbled; cbn [mem].
    eexists. split; [reflexivity|].
    pose proof HI as (H1&H2&H3&H4&H5). pose proof (zlen_nonneg scribble) as Hs. unfold wlen in *.
    set (k := Z.min (zlen scribble) (SIZE - write_index s)).
    assert (Hk : zlen (firstn (Z.to_nat k) scribble) = k) by (rewrite zlen_firstn; lia).
    split; [rewrite zlen_slice by (rewrite ?zlen_splice; lia); lia|].
    set (j := Z.min n (zlen scribble)).
    assert (Hj : 0 <= j <= k /\ j <= n) by (unfold j, k; lia).
    rewrite <- slice_0. rewrite slice_slice by (rewrite ?zlen_splice; lia).
    rewrite Z.add_0_r.
    set (X := splice (mem s) (write_index s) (firstn (Z.to_nat k) scribble)).
    assert (HX : zlen X = SIZE) by (unfold X; rewrite zlen_splice; lia).
    assert (Hs2 : slice X (write_index s) (write_index s + j) = slice (slice X (write_index s) (write_index s + k)) 0 j).
    { rewrite slice_slice by lia. f_equal; lia. }
    rewrite Hs2. unfold X. rewrite <- Hk at 2. rewrite slice_splice_same by lia.
    rewrite slice_0, firstn_firstn. f_equal. lia.
  - (* OCopyOnce *)
    rewrite (copy_once_from_spec SIZE chk s ans HI).
    destruct (wlen SIZE s =? 0) eqn:E; sim; [auto|].
    destruct (ans (offered SIZE s)) as [d' n|k|] eqn:Ea; sim; auto.
    destruct (after_fill_facts SIZE s d' HI) as (I1 & U1 & W1 & L1 & O1).
    specialize (Ha _ _ _ Ea).
    destruct (Z_lt_le_dec (wlen SIZE s) n) as [Hlt|Hle].
    + rewrite (wrote_panic SIZE chk _ n I1 Ha ltac:(lia)). sim. rewrite U1. auto.
    + pose proof (wrote_fifo SIZE chk (after_fill SIZE s d') n I1 ltac:(lia)) as Hw.
      unfold wp in Hw. rewrite (wrote_ok SIZE chk _ n I1 ltac:(lia)) in *. sim. destruct Hw as (Hu & Hi' & _).
      split; [|exact Hi']. rewrite Hu, U1. exists (offered SIZE s), d'. split; [exact Ea|]. f_equal.
      pose proof HI as (H1&H2&H3&H4&H5). unfold wlen in *.
      assert (Ho : zlen (offered SIZE s) = SIZE - write_index s) by (unfold offered; apply zlen_slice; lia).
      rewrite <- O1. unfold offered. cbn [mem write_index after_fill]. fold (offered SIZE s).
      pose proof (zlen_fit d' (offered SIZE s)) as Hf.
      rewrite firstn_slice by (rewrite ?zlen_splice; lia). reflexivity.
  - (* ODeframe *)
    rewrite (deframe_spec SIZE chk s df HI (Ha _)).
    destruct (len_ s =? 0) eqn:E; sim; [auto|].
    destruct (df (unread s)) as [|a b n| |] eqn:Ed; sim; auto.
    destruct (Ha _ a b n Ed) as (B1 & B2 & B3 & B4).
    destruct (after_read_facts SIZE chk s n HI ltac:(lia)) as (A & B & _). split; [|exact A].
    exists a, b, n. split; [exact Ed|exact B].
  - (* OTryParse *)
    pose proof (try_parse_script_spec SIZE chk body some s HI) as Hp.
    destruct (try_parse (closure chk body some) s) as [[log|] s'|s'] eqn:Et; sim.
    + destruct Hp as (_ & I' & _ & k & Hk & Hu & _). split; [|exact I']. exists (Z.to_nat k). exact Hu.
    + destruct Hp as (_ & ->). auto.
    + destruct Hp as (I' & _ & k & Hk & Hu & _). split; [|exact I']. exists (Z.to_nat k). exact Hu.
  - (* OEscapeAscii *)
    pose proof (fb_escape_state s HI) as He.
    destruct (fb_escape_ascii s) as [v s'|s']; cbn [state_of] in He; rewrite He; sim; auto.
  - (* ODebug *)
    pose proof (debug_state s HI) as He.
    destruct (debug_fmt SIZE chk s) as [v s'|s']; cbn [state_of] in He; rewrite He; sim; auto.
Qed.

(* lift to every finite history *)
Fixpoint ops_ok (ops : list op) : Prop := match ops with [] => True | o :: t => args_ok o /\ ops_ok t end.
Fixpoint unreads (s : fb) (ops : list op) : list (list Z) :=
  match ops with [] => [] | o :: t => let s' := state_of (step SIZE chk s o) in unread s' :: unreads s' t end.

Theorem c01_history : forall ops s, Inv SIZE s -> ops_ok ops ->
  fifo_chain (unread s) (trace SIZE chk s ops) (unreads s ops) /\ Inv SIZE (run SIZE chk s ops).
Proof.
  induction ops as [|o t IH]; intros s HI Hok; cbn [trace unreads run fifo_chain]; [auto|].
  destruct Hok as [Ho Ht]. destruct (c01_step s o HI Ho) as [Hf Hi'].
  destruct (IH _ Hi' Ht) as [Hc Hr]. auto.
Qed.
End C01.

(* ---- the ledger form of C01 on the fragment whose observations carry the bytes themselves ---- *)
Definition delivered (o : op) (r : res fb obs) : list Z :=
  match r with
  | Val v _ =>
      match o, v with
      | OReadByte, VZ b => [b]
      | OTryReadByte, VOptZ (Some b) => [b]
      | OReadBytes _, VBytes l => l
      | OTryReadBytes _, VOptBytes (Some l) => l
      | OReadAll, VBytes l => l
      | OReadCopy _, VCopy n d => firstn (Z.to_nat n) d
      | OIoRead _, VIoRead (Ok n) d => firstn (Z.to_nat n) d
      | OTryReadExact _, VExact (Some _) d => d
      | _, _ => []
      end
  | Panic _ => []
  end.
Definition accepted (o : op) (r : res fb obs) : list Z :=
  match r with
  | Val v _ =>
      match o, v with
      | OWriteBytes d, VWrite (Ok _) => d
      | OWriteStr d, VWriteStr (Ok _) => d
      | OIoWrite d, VIo (Ok _) => d
      | _, _ => []
      end
  | Panic _ => []
  end.
Definition plain (o : op) : Prop :=
  match o with
  | OClear | ODeframe _ | OTryParse _ _ | OWritableWrote _ _ | OCopyOnce _ => False
  | _ => True
  end.

Lemma fifo_ok_ledger q o r q' : plain o -> fifo_ok q o r q' -> delivered o r ++ q' = q ++ accepted o r.
Proof.
  intros Hp H. destruct r as [v s|s].
  - destruct o; cbn [plain] in Hp; try tauto; destruct v; cbn [fifo_ok delivered accepted] in *; try tauto;
      repeat match goal with
             | H : _ /\ _ |- _ => destruct H
             | H : match ?x with _ => _ end |- _ => destruct x
             | |- context [match ?x with _ => _ end] => destruct x
             end; subst; cbn [app]; rewrite ?app_nil_r; try tauto; try congruence; auto.
  - destruct o; cbn [plain] in Hp; try tauto; cbn [fifo_ok delivered accepted] in *; subst; rewrite app_nil_r; reflexivity.
Qed.

Section LEDGER.
Variable SIZE : Z.
Variable chk : bool.
Fixpoint all_plain (ops : list op) : Prop := match ops with [] => True | o :: t => plain o /\ all_plain t end.
Theorem c01_ledger : forall ops s, Inv SIZE s -> ops_ok ops -> all_plain ops ->
  concat (map (fun p => delivered (fst p) (snd p)) (trace SIZE chk s ops)) ++ unread (run SIZE chk s ops)
  = unread s ++ concat (map (fun p => accepted (fst p) (snd p)) (trace SIZE chk s ops)).
Proof.
  induction ops as [|o t IH]; intros s HI Hok Hpl; cbn [trace run map concat].
  - rewrite app_nil_r. reflexivity.
  - destruct Hok as [Ho Ht]. destruct Hpl as [Hp Hpt].
    destruct (c01_step SIZE chk s o HI Ho) as [Hf Hi'].
    pose proof (fifo_ok_ledger _ _ _ _ Hp Hf) as Hl.
    specialize (IH _ Hi' Ht Hpt). cbn [fst snd].
    rewrite <- app_assoc, IH, app_assoc, Hl, <- app_assoc. reflexivity.
Qed.
End LEDGER.
