(* Facets/C02.v — read_frame yields the stream's frames regardless of how reads are chunked:
   the translated loop (Facets/RfRefine) composed with the chunk-free theorem (Facets/Frames). *)
From FB Require Import Sem.Base Sem.Lemmas Model.Fb Model.Deframers Spec.Api Spec.Frames
  Facets.Fb Facets.Fb2 Facets.Rf Facets.RfRefine Facets.Frames Facets.DfContract.
Open Scope Z_scope.

Lemma df_contract_mono L L' df : L' <= L -> df_contract L df -> df_contract L' df.
Proof.
  intros H [B S N]. constructor.
  - intros d a b n Hd. apply B. lia.
  - intros d e Hd. apply S. lia.
  - intros d Hd. apply N. lia.
Qed.
Lemma contract_in_bounds L df : df_contract L df -> forall u, zlen u <= L -> df_in_bounds df u.
Proof. intros Hc u Hu a b n Hd. destruct (dfc_bounds _ _ Hc u a b n Hu Hd) as (A&B&C&D&E). auto. Qed.

(* the canonical well-behaved transport as a std::io::Read implementation *)
Definition stream_rd : Reader stream_reader := {| rd := fun st dest =>
  match ar stream_ar st (zlen dest) with
  | (AData d, st') => (ROk (d ++ skipn (length d) dest) (zlen d), st')
  | (AErr k, st') => (RErr k, st')
  | (APanic, st') => (RPanic, st')
  end |}.
Lemma stream_rd_implements : implements stream_rd stream_ar.
Proof.
  intros st dest. cbn [ar stream_ar rd stream_rd].
  set (want := match sr_sched st with k :: _ => Z.max 1 k | [] => zlen (sr_rest st) end).
  set (k := Z.min want (Z.min (zlen dest) (zlen (sr_rest st)))).
  pose proof (zlen_nonneg dest). pose proof (zlen_nonneg (sr_rest st)).
  set (d := firstn (Z.to_nat k) (sr_rest st)).
  assert (Hd : zlen d <= zlen dest) by (unfold d; rewrite zlen_firstn; lia).
  split; [exact Hd|]. eexists. split; [reflexivity|].
  rewrite fit_same_length by (rewrite app_length, skipn_length; unfold zlen in *; lia).
  rewrite firstn_app, Nat.sub_diag, firstn_all. cbn [firstn]. apply app_nil_r.
Qed.

Section C02.
Variable SIZE : Z.
Variable chk : bool.
Variable R : Reader stream_reader.
Variable df : list Z -> dres.
Hypothesis HR : implements R stream_ar.          (* any transport that cuts the stream into non-empty chunks *)
Hypothesis Hc : df_contract SIZE df.             (* any deframer honouring the documented contract *)

(* one call: under ANY schedule, the chunk-free answer; unread ++ unpulled = the specification's remainder *)
Theorem c02_call s st fuel : Inv2 SIZE s -> zlen (sr_rest st) < Z.of_nat fuel ->
  exists r s' st' o, read_frame chk R fuel df (s, st) = Val r (s', st') /\ out_of r = Some o /\
    (o, unread s' ++ sr_rest st') = next SIZE df (unread s ++ sr_rest st) /\ Inv2 SIZE s'.
Proof.
  intros HI2 Hf. pose proof HI2 as [HI _].
  assert (Hs : 0 <= SIZE) by (destruct HI as (H1&H2&H3&H4&H5); lia).
  assert (Hu : zlen (unread s) <= SIZE).
  { rewrite (zlen_unread SIZE s HI). destruct HI as (H1&H2&H3&H4&H5). unfold len_. lia. }
  destruct (aread_frame_spec SIZE df Hs Hc fuel (unread s) st Hu Hf) as (r & u' & st' & o & Hrun & Ho & Hn & Hl).
  pose proof (read_frame_refines SIZE chk R stream_ar df HR (contract_in_bounds _ _ Hc) fuel s st HI2) as Hsim.
  rewrite Hrun in Hsim. unfold sim in Hsim.
  destruct (read_frame chk R fuel df (s, st)) as [r2 [s2 st2]|[s2 st2]]; [|contradiction].
  destruct Hsim as (Hr & Hu2 & Hst & I2). subst.
  exists r, s2, st', o. auto.
Qed.

(* repeated calls = iterating the chunk-free specification *)
Fixpoint spec_run (n : nat) (r : list Z) : list outcome :=
  match n with O => [] | S m => let '(o, r') := next SIZE df r in o :: spec_run m r' end.
Fixpoint impl_run (n : nat) (w : fb * stream_reader) : list (option outcome) :=
  match n with
  | O => []
  | S m =>
      match read_frame chk R (S (length (sr_rest (snd w)))) df w with
      | Val r w' => out_of r :: impl_run m w'
      | Panic w' => [None]
      end
  end.
Theorem c02_run : forall n s st, Inv2 SIZE s ->
  impl_run n (s, st) = map Some (spec_run n (unread s ++ sr_rest st)).
Proof.
  induction n as [|n IH]; intros s st HI2; cbn [impl_run spec_run map]; [reflexivity|].
  cbn [snd].
  destruct (c02_call s st (S (length (sr_rest st))) HI2 ltac:(unfold zlen; lia)) as (r & s' & st' & o & Hrun & Ho & Hn & I').
  rewrite Hrun. rewrite <- Hn. cbn [map]. rewrite Ho. f_equal. apply IH. exact I'.
Qed.
End C02.

(* chunking independence: two transports delivering the same stream under different schedules *)
Theorem c02_chunking SIZE chk R1 R2 df : implements R1 stream_ar -> implements R2 stream_ar -> df_contract SIZE df ->
  forall n s st1 st2, Inv2 SIZE s -> sr_rest st1 = sr_rest st2 ->
  impl_run chk R1 df n (s, st1) = impl_run chk R2 df n (s, st2).
Proof.
  intros H1 H2 Hc n s st1 st2 HI2 Hr.
  rewrite (c02_run SIZE chk R1 df H1 Hc n s st1 HI2), (c02_run SIZE chk R2 df H2 Hc n s st2 HI2), Hr. reflexivity.
Qed.

(* each frame's block is a prefix of what remained: nothing lost, duplicated or reordered *)
Lemma next_conserve SIZE df r : exists blk, blk ++ snd (next SIZE df r) = r.
Proof.
  unfold next. destruct (zlen (firstn (Z.to_nat SIZE) r) =? 0); [exists []; reflexivity|].
  destruct (df (firstn (Z.to_nat SIZE) r)) as [|a b n| |]; try (exists []; reflexivity).
  exists (firstn (Z.to_nat n) r). apply firstn_skipn.
Qed.

(* a zero-size buffer can never hold a frame *)
Lemma next_size0 df r : next 0 df r = (OErr InvalidData, r).
Proof. unfold next. cbn [Z.to_nat firstn]. reflexivity. Qed.

(* the three provided deframers honour the contract for every SIZE a buffer can have *)
Lemma provided_contracts chk SIZE : SIZE <= usize_max ->
  df_contract SIZE (df_line chk) /\ df_contract SIZE (df_crlf chk) /\ df_contract SIZE (df_null chk).
Proof.
  intros H. split; [|split]; apply (df_contract_mono usize_max); auto.
  - apply df_line_contract.
  - apply df_crlf_contract.
  - apply df_null_contract.
Qed.
