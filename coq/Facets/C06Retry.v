(* Facets/C06Retry.v — C06 end to end: the caller that calls read_frame again after every transient error, as an executable loop over
   the translated read_frame and ANY reader implementing the failing transport, obtains exactly what one obtains from the same
   transport with the faults removed — same result, same unread bytes, same unpulled bytes, same remaining chunks — wherever the
   faults are and however many there are. *)
From FB Require Import Sem.Base Sem.Lemmas Model.Fb Spec.Api Spec.Frames Spec.Retry
  Facets.Fb Facets.Fb2 Facets.Rf Facets.RfRefine Facets.C06.
Open Scope Z_scope.

Section RETRY.
Variable SIZE : Z.
Variable chk : bool.
Variable R : Reader fstream.
Hypothesis HR : implements R fstream_ar.
Variable df : list Z -> dres.
Hypothesis Hdf : forall u, zlen u <= SIZE -> df_in_bounds df u.

(* `loop { match buf.read_frame(&mut transport, df) { Err(e) if transient(e) => continue, r => break r } }`, at most `tries` calls *)
Fixpoint retry_with (rf : fb * fstream -> res (fb * fstream) (fueled frame_res)) (tries : nat) (w : fb * fstream)
  : res (fb * fstream) (fueled frame_res) :=
  match tries with
  | O => Val OutOfFuel w
  | S t =>
    match rf w with
    | Val (Done (FErr k)) w' => if transient k then retry_with rf t w' else Val (Done (FErr k)) w'
    | x => x
    end
  end.
Definition retry (fuel tries : nat) := retry_with (read_frame chk R fuel df) tries.

Lemma retry_retries fuel : forall tries s st r s' st', Inv2 SIZE s ->
  retry fuel tries (s, st) = Val (Done r) (s', st') ->
  retries SIZE df (unread s, st) r (unread s', st') /\ Inv2 SIZE s'.
Proof.
  induction tries as [|t IH]; intros s st r s' st' HI Hrun; [discriminate|].
  unfold retry in *. cbn [retry_with] in Hrun.
  destruct (read_frame chk R fuel df (s, st)) as [[r1|] [s1 st1]|w1] eqn:E; try discriminate.
  destruct (call_runs SIZE chk R fstream_ar df HR Hdf fuel s st r1 s1 st1 HI E) as [Hr1 HI1].
  destruct r1 as [p| |k].
  - inversion Hrun; subst. split; [|exact HI1]. apply rt_final; [exact Hr1|intros k Hk; discriminate].
  - inversion Hrun; subst. split; [|exact HI1]. apply rt_final; [exact Hr1|intros k Hk; discriminate].
  - destruct (transient k) eqn:Ek.
    + destruct (IH s1 st1 r s' st' HI1 Hrun) as [Hret HI']. split; [|exact HI'].
      exact (rt_again SIZE df _ k _ r _ Hr1 Ek Hret).
    + inversion Hrun; subst. split; [|exact HI1]. apply rt_final; [exact Hr1|].
      intros k0 Hk0. inversion Hk0; subst. exact Ek.
Qed.

(* the theorem: whatever the placement of the transient faults, the retrying caller ends as a run of the fault-free transport *)
Theorem retrying_caller_sees_no_faults : forall fuel tries s st r s' st', Inv2 SIZE s -> all_transient st ->
  retry fuel tries (s, st) = Val (Done r) (s', st') ->
  runs (abody SIZE fstream_ar df) (clean (unread s, st)) r (clean (unread s', st')) /\ Inv2 SIZE s'.
Proof.
  intros fuel tries s st r s' st' HI Ht Hrun.
  destruct (retry_retries fuel tries s st r s' st' HI Hrun) as [Hret HI']. split; [|exact HI'].
  exact (faults_invisible SIZE df _ r _ Hret Ht).
Qed.
End RETRY.
