(* Facets/RfRefine.v — the translated read_frame loop refines the abstract loop on the unread bytes. *)
From FB Require Import Sem.Base Sem.Lemmas Sem.Hoare Model.Fb Spec.Api Spec.Frames Facets.Fb Facets.Fb2 Facets.Rf.
Open Scope Z_scope.

Ltac rsplit := repeat match goal with |- _ /\ _ => split end.

Section REF.
Variable SIZE : Z.
Variable chk : bool.
Context {RS : Type}.
Variable R : Reader RS.
Variable AR : AReader RS.
Variable df : list Z -> dres.
Hypothesis Himpl : implements R AR.
Hypothesis Hdf : forall u, zlen u <= SIZE -> df_in_bounds df u.

(* simulation between a concrete outcome (buffer, reader) and an abstract one (unread bytes, reader) *)
Definition sim {A} (x : res (fb * RS) A) (y : res (list Z * RS) A) : Prop :=
  match x, y with
  | Val a (s', rs'), Val a2 (u', rs2) => a = a2 /\ unread s' = u' /\ rs' = rs2 /\ Inv2 SIZE s'
  | Panic (s', rs'), Panic (u', rs2) => unread s' = u' /\ rs' = rs2 /\ Inv2 SIZE s'
  | _, _ => False
  end.

Lemma inv2_shifted s : Inv2 SIZE s -> Inv2 SIZE (shifted s).
Proof. intros [HI Hn]. destruct (shifted_facts SIZE chk s HI) as (_ & I1 & _ & _ & _ & _ & _ & N1). split; auto. Qed.

Lemma fill_refines s rs : Inv2 SIZE s -> sim (body_fill SIZE chk R s rs) (afill SIZE AR (unread s, rs)).
Proof.
  intros HI2. pose proof HI2 as [HI Hnf].
  destruct (shifted_facts SIZE chk s HI) as (_ & I1 & U1 & Ri1 & Wi1 & L1 & W1 & N1).
  pose proof (zlen_unread SIZE s HI) as Hz. pose proof (len_nonneg SIZE s HI) as Hl.
  unfold body_fill, afill. cbv zeta. set (s1 := shifted s) in *.
  rewrite W1, Hz.
  assert (HI21 : Inv2 SIZE s1) by (split; auto).
  destruct (SIZE - len_ s =? 0) eqn:E.
  { unfold sim. rewrite U1. rsplit; auto. }
  assert (Ho : zlen (offered SIZE s1) = SIZE - len_ s).
  { pose proof I1 as (H1&H2&H3&H4&H5). unfold offered. rewrite zlen_slice by lia. lia. }
  pose proof (Himpl rs (offered SIZE s1)) as Hi. rewrite Ho in Hi.
  destruct (ar AR rs (SIZE - len_ s)) as [[data|k|] rs'] eqn:Ea.
  - destruct Hi as (Hle & d' & Hr & Hd). rewrite Hr.
    destruct (after_fill_facts SIZE s1 d' I1) as (I2 & U2 & W2 & L2 & O2).
    assert (HI22 : Inv2 SIZE (after_fill SIZE s1 d')) by (split; [exact I2|exact (proj2 HI21)]).
    pose proof (zlen_nonneg data) as Hdn.
    destruct (zlen data =? 0) eqn:En.
    + unfold sim. rewrite U2, U1. rsplit; auto.
    + assert (Hw : wrote chk (zlen data) (after_fill SIZE s1 d') =
                   Val tt {| mem := mem (after_fill SIZE s1 d'); read_index := read_index (after_fill SIZE s1 d');
                             write_index := write_index (after_fill SIZE s1 d') + zlen data |})
        by (apply (wrote_ok SIZE); [exact I2|lia]).
      pose proof (wrote_fifo SIZE chk (after_fill SIZE s1 d') (zlen data) I2 ltac:(lia)) as Hf.
      unfold wp in Hf. rewrite Hw in *. destruct Hf as (Hu & I3 & _).
      unfold sim. split; [reflexivity|]. split; [|split; [reflexivity|]].
      * rewrite Hu, U2, U1. f_equal.
        pose proof I2 as (H1&H2&H3&H4&H5).
        assert (Hwi : write_index (after_fill SIZE s1 d') = write_index s1) by reflexivity.
        assert (Hoff : slice (mem (after_fill SIZE s1 d')) (write_index s1) (write_index s1 + zlen data)
                       = firstn (Z.to_nat (zlen data)) (offered SIZE (after_fill SIZE s1 d'))).
        { unfold offered. rewrite Hwi. rewrite firstn_slice by (unfold wlen in *; lia). reflexivity. }
        rewrite Hwi, Hoff, O2. unfold zlen. rewrite Nat2Z.id. exact Hd.
      * split; [exact I3|]. unfold nf; cbn [read_index write_index].
        change (read_index (after_fill SIZE s1 d')) with (read_index s1).
        change (write_index (after_fill SIZE s1 d')) with (write_index s1). lia.
  - rewrite Hi. unfold sim. rewrite U1. rsplit; auto.
  - rewrite Hi. unfold sim. rewrite U1. rsplit; auto.
Qed.

Theorem body_refines s rs : Inv2 SIZE s ->
  sim (read_frame_body chk R df (s, rs)) (abody SIZE AR df (unread s, rs)).
Proof.
  intros HI2. pose proof HI2 as [HI Hnf].
  pose proof (zlen_unread SIZE s HI) as Hz.
  assert (Hzs : zlen (unread s) <= SIZE) by (destruct HI as (H1&H2&H3&H4&H5); unfold len_ in Hz; lia).
  rewrite (read_frame_body_spec SIZE chk R df s rs HI (Hdf _ Hzs)).
  unfold body_spec, abody. rewrite Hz.
  destruct (len_ s =? 0) eqn:E0; [apply fill_refines; exact HI2|].
  destruct (df (unread s)) as [|a b n| |] eqn:Ed.
  - apply fill_refines; exact HI2.
  - destruct (Hdf _ Hzs a b n Ed) as (B1 & B2 & B3 & B4). rewrite Hz in B4.
    destruct (after_read_facts SIZE chk s n HI ltac:(lia)) as (I' & U' & _).
    assert (Inv2 SIZE (after_read s n)) by (split; [exact I'|apply (nf_after_read SIZE s n HI); lia]).
    unfold sim. rsplit; auto.
  - unfold sim. rsplit; auto.
  - unfold sim. rsplit; auto.
Qed.

Theorem read_frame_refines : forall fuel s rs, Inv2 SIZE s ->
  sim (read_frame chk R fuel df (s, rs)) (aread_frame SIZE AR df fuel (unread s, rs)).
Proof.
  induction fuel as [|f IH]; intros s rs HI2; unfold read_frame, aread_frame.
  - cbn [loop_fuel]. unfold sim, ret. rsplit; auto.
  - rewrite !loop_fuel_S. pose proof (body_refines s rs HI2) as Hb.
    destruct (read_frame_body chk R df (s, rs)) as [[r|] [s' rs']|[s' rs']];
      destruct (abody SIZE AR df (unread s, rs)) as [[r2|] [u' rs2]|[u' rs2]]; cbn [sim] in Hb; try tauto.
    + destruct Hb as (Hr & Hu & Hrs & I'). inversion Hr; subst. unfold sim. rsplit; auto.
    + destruct Hb as (Hr & _). discriminate.
    + destruct Hb as (Hr & _). discriminate.
    + destruct Hb as (_ & Hu & Hrs & I'). subst. apply IH. exact I'.
    + exact Hb.
Qed.
End REF.
