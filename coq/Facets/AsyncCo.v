(* Facets/AsyncCo.v — AsyncFixedBuf::copy_once_from as an instance of the modelled lowering (Sem/Async.v), like read_frame in
   Facets/Async.v: prefix = writable() / full check, awaited future = tokio's Read on that view, suffix = wrote(n).
   Hence for copy_once_from too: cancellation at any pending point is invisible (C15), any placement of Pending gives the
   result of the blocking call (C14), and the blocking side IS the translated blocking FixedBuf::copy_once_from. *)
From FB Require Import Sem.Base Sem.Lemmas Sem.Hoare Sem.ReadBuf Sem.Async Model.Fb Model.TokioAsync Spec.Api
  Facets.Fb Facets.Fb2 Facets.Rf Facets.Async Facets.C14Blocking.
Open Scope Z_scope.

Section CO.
Variable SIZE : Z.
Variable chk : bool.
Context {RS : Type}.
Variable A : AsyncReader RS.

Notation pre := (lift_s (RS := RS) aco_pre).
Notation post := (fun q => lift_s (RS := RS) (aco_post chk q)).

(* the prefix: no state change; full -> InvalidData, else the await on writable() *)
Lemma aco_pre_spec s : Inv SIZE s ->
  aco_pre s = if wlen SIZE s =? 0 then Val (inl (Err InvalidData)) s else Val (inr {| v_off := write_index s; v_end := SIZE |}) s.
Proof.
  intros HI. unfold aco_pre. rewrite (bind_val _ _ _ _ _ (writable_spec SIZE s HI)).
  unfold vlen; cbn [v_off v_end]. fold (wlen SIZE s). destruct (wlen SIZE s =? 0); reflexivity.
Qed.

Lemma co_pre_inv w x t : WI SIZE w -> pre w = Val x t -> WI SIZE t.
Proof.
  unfold WI, lift_s. destruct w as [s rs]; cbn [fst snd]. intros HI. rewrite (aco_pre_spec s HI).
  destruct (wlen SIZE s =? 0); intros H; inversion H; subst; exact HI.
Qed.
Lemma co_at_await w v t : WI SIZE w -> pre w = Val (inr v) t ->
  t = w /\ v = {| v_off := write_index (fst w); v_end := SIZE |} /\ 0 < wlen SIZE (fst w).
Proof.
  unfold WI, lift_s. destruct w as [s rs]; cbn [fst snd]. intros HI. rewrite (aco_pre_spec s HI).
  destruct (wlen SIZE s =? 0) eqn:E; intros H; inversion H; subst.
  split; [reflexivity|]. split; [reflexivity|]. pose proof HI as (H1&H2&H3&H4&H5). unfold wlen in *. lia.
Qed.
Lemma co_pre_restart w v t : WI SIZE w -> pre w = Val (inr v) t -> pre t = Val (inr v) t.
Proof. intros HI H. destruct (co_at_await w v t HI H) as (-> & _). exact H. Qed.

Lemma co_pending_inv v t u : WI SIZE t -> pre t = Val (inr v) t -> rf_await A v t = AwPending u -> WI SIZE u.
Proof.
  intros HI Hp Ha. destruct (co_at_await t v t HI Hp) as (_ & Hv & _). pose proof (poll_future_frame SIZE A t v HI Hv) as Hf.
  unfold rf_await in Ha. destruct (poll_read_future A v t) as [[|q|] t']; inversion Ha; subst. apply Hf.
Qed.
Lemma co_pending_keeps_pre v t u : WI SIZE t -> pre t = Val (inr v) t -> rf_await A v t = AwPending u -> pre u = Val (inr v) u.
Proof.
  intros HI Hp Ha. destruct (co_at_await t v t HI Hp) as (_ & Hv & Hw). pose proof (poll_future_frame SIZE A t v HI Hv) as Hf.
  unfold rf_await in Ha. destruct (poll_read_future A v t) as [[|q|] t'] eqn:Ep; inversion Ha; subst.
  destruct Hf as (I' & U' & R' & W' & L'). destruct u as [s' rs']. destruct t as [s rs]. cbn [fst snd] in *.
  unfold lift_s. cbn [fst snd]. rewrite (aco_pre_spec s' I'). unfold wlen in *. rewrite W'.
  replace (SIZE - write_index s =? 0) with false by lia. reflexivity.
Qed.
Lemma co_ready_post_inv v t x u o w : WI SIZE t -> pre t = Val (inr v) t -> rf_await A v t = AwReady x u ->
  post x u = Val o w -> WI SIZE w.
Proof.
  intros HI Hp Ha Hpo. destruct (co_at_await t v t HI Hp) as (_ & Hv & _). pose proof (poll_future_frame SIZE A t v HI Hv) as Hf.
  unfold rf_await in Ha. destruct (poll_read_future A v t) as [[|q|] t'] eqn:Ep; inversion Ha; subst.
  destruct Hf as (I' & _). unfold WI. unfold lift_s in Hpo. destruct u as [s' rs']. cbn [fst snd] in *.
  assert (Hx : match x with Ok n => 0 <= n | Err _ => True end).
  { unfold poll_read_future in Ep. cbn [fst snd] in Ep.
    destruct (prd A (snd t) _) as [[b'|k b'|b'|] r']; inversion Ep; subst; [apply zlen_nonneg|exact Logic.I]. }
  unfold aco_post in Hpo. destruct x as [n|e].
  - unfold bind at 1 in Hpo. destruct (wrote chk n s') as [[] s2|s2] eqn:Ew; [|discriminate].
    cbn [ret] in Hpo. inversion Hpo; subst. cbn [fst].
    destruct (Z_lt_le_dec (wlen SIZE s') n) as [Hlt|Hle].
    + destruct (Z_le_gt_dec n usize_max) as [Hm|Hm].
      * rewrite (wrote_panic SIZE chk s' n I' ltac:(lia) Hlt) in Ew. discriminate.
      * exfalso. pose proof I' as (H1&H2&H3&H4&H5). unfold wlen in *. revert Ew. munf. inv_tac. brk; intros; try discriminate; lia.
    + pose proof (wrote_fifo SIZE chk s' n I' ltac:(lia)) as Hf. unfold wp in Hf. rewrite Ew in Hf. apply Hf.
  - inversion Hpo; subst. exact I'.
Qed.

(* C15 for copy_once_from: any two cancellation patterns give the same outcome *)
Theorem aco_cancel_invisible n cancel cancel' w : WI SIZE w ->
  aco_drive chk A n cancel w = aco_drive chk A n cancel' w.
Proof.
  intros HI. unfold aco_drive.
  apply (cancel_invisible _ _ _ _ pre (rf_await A) post (WI SIZE)
           co_pre_inv co_pending_inv co_ready_post_inv co_pre_restart co_pending_keeps_pre).
  split; [exact HI|exact Logic.I].
Qed.
(* C14 for copy_once_from: whatever the placement of Pending, the result of the call with the reader polled until ready *)
Theorem aco_pending_invisible n k w : WI SIZE w ->
  finished (bloop pre (rf_await A) post n k w) ->
  forall cancel, exists polls, forall p, (polls <= p)%nat ->
    aco_drive chk A p cancel w = bloop pre (rf_await A) post n k w.
Proof.
  intros HI Hfin cancel. unfold aco_drive.
  exact (pending_invisible _ _ _ _ pre (rf_await A) post (WI SIZE)
           co_pre_inv co_pending_inv co_ready_post_inv co_pre_restart co_pending_keeps_pre n k w HI Hfin cancel).
Qed.

(* the blocking side is the translated blocking FixedBuf::copy_once_from against the polled reader *)
Hypothesis Hq : quiet A.
Definition co_out (r : res (fb * RS) (io Z)) : @out (fb * RS) (io Z) :=
  match r with Val x w => Ready x w | Panic w => Panicked w end.
Theorem copy_once_is_bloop k w : WI SIZE w ->
  finished (bloop pre (rf_await A) post 1 k w) ->
  co_out (copy_once_from chk (BR A k) w) = bloop pre (rf_await A) post 1 k w.
Proof.
  intros HI Hfin. destruct w as [s rs]. unfold WI in HI. cbn [fst] in HI.
  cbn [bloop] in *. unfold copy_once_from.
  unfold bind at 1. unfold self_ at 1. cbn [fst snd].
  assert (Hpre : lift_s aco_pre (s, rs) = match aco_pre s with Val a s0 => Val a (s0, rs) | Panic s0 => Panic (s0, rs) end) by reflexivity.
  rewrite Hpre in *. clear Hpre.
  rewrite (aco_pre_spec s HI) in *. rewrite (writable_spec SIZE s HI).
  unfold vlen; cbn [v_off v_end]. fold (wlen SIZE s).
  destruct (wlen SIZE s =? 0) eqn:Ew; [reflexivity|].
  set (v := {| v_off := write_index s; v_end := SIZE |}) in *.
  assert (Hvok : vok v s).
  { pose proof HI as (H1 & H2 & H3 & H4 & H5). unfold vok, v, wlen in *. cbn [v_off v_end]. lia. }
  pose proof (await_until_call A Hq v s Hvok k rs) as Hcall.
  destruct (await_until (rf_await A) k v (s, rs)) as [u|u|x u] eqn:Eau.
  - unfold bind at 1. rewrite Hcall. reflexivity.
  - contradiction.
  - unfold bind at 1. rewrite Hcall. destruct x as [n|e].
    + unfold lift_s, aco_post. unfold bind at 1. unfold self_ at 1. unfold bind at 1.
      destruct (wrote chk n (fst u)) as [[] s2|s2]; reflexivity.
    + destruct u as [s' rs']. reflexivity.
Qed.
End CO.
