(* Facets/Deframers.v — what the three provided deframers compute, for every input and both
   overflow profiles.  Proof shape: the loop body is a pure per-index function (both profiles),
   then the generic first-hit lemma for `for_range`. *)
From FB Require Import Sem.Base Sem.Lemmas Model.Deframers.
Open Scope Z_scope.

Notation dfr := (rres (option ((Z * Z) * Z)) unit).

(* ---- per-index functions ---- *)
Definition line_at (d : list Z) (n : Z) : option dfr :=
  if znth d n =? 10 then
    Some (Ok (Some ((0, if (0 <? n) && (znth d (n - 1) =? 13) then n - 1 else n), n + 1)))
  else None.
Definition null_at (d : list Z) (n : Z) : option dfr :=
  if znth d n =? 0 then Some (Ok (Some ((0, n), n + 1))) else None.
Definition crlf_at (d : list Z) (n : Z) : option dfr :=
  if (znth d (n - 1) =? 13) && (znth d n =? 10) then Some (Ok (Some ((0, n - 1), n + 1))) else None.

Ltac dunf := unfold line_at, null_at, crlf_at, index_chk, usub, uadd, assert_, bind, ret, panic, usize_max, znth in *.
Ltac brk := repeat match goal with
  | |- context [if ?c then _ else _] => let E := fresh "E" in destruct c eqn:E; cbn [andb] in *
  end.

Section D.
Variable chk : bool.

Lemma line_body_pure d n : 0 <= n < zlen d -> zlen d <= usize_max ->
  (el_1 <- index_chk d n ;;
   if (el_1 =? 10) then
     let data_start_incl := 0 in
     and_4 <- (if (0 <? n) then
                 dif_2 <- usub chk n 1 ;; el_3 <- index_chk d dif_2 ;; ret (el_3 =? 13)
               else ret false) ;;
     ite_6 <- (if and_4 then usub chk n 1 else ret n) ;;
     let data_end_excl := ite_6 in
     sum_7 <- uadd chk n 1 ;;
     let block_len := sum_7 in
     ret (Some (Ok (Some ((data_start_incl, data_end_excl), block_len))))
   else ret None) tt = Val (line_at d n) tt.
Proof. intros Hn Hmax. dunf. brk; try reflexivity; try lia. Qed.

Lemma null_body_pure d n : 0 <= n < zlen d -> zlen d <= usize_max ->
  (el_1 <- index_chk d n ;;
   if (el_1 =? 0) then
     sum_2 <- uadd chk n 1 ;;
     ret (Some (Ok (Some ((0, n), sum_2))))
   else ret None) tt = Val (null_at d n) tt.
Proof. intros Hn Hmax. dunf. brk; try reflexivity; try lia. Qed.

Lemma crlf_body_pure d n : 1 <= n < zlen d -> zlen d <= usize_max ->
  (dif_1 <- usub chk n 1 ;;
   el_2 <- index_chk d dif_1 ;;
   and_4 <- (if (el_2 =? 13) then el_3 <- index_chk d n ;; ret (el_3 =? 10) else ret false) ;;
   if and_4 then
     dif_5 <- usub chk n 1 ;;
     sum_6 <- uadd chk n 1 ;;
     ret (Some (Ok (Some ((0, dif_5), sum_6))))
   else ret None) tt = Val (crlf_at d n) tt.
Proof. intros Hn Hmax. dunf. brk; try reflexivity; try lia. Qed.

(* ---- what each deframer returns: index form ---- *)
Theorem deframe_line_spec d : zlen d <= usize_max ->
  ((forall j, 0 <= j < zlen d -> znth d j <> 10) /\ deframe_line chk d tt = Val (Ok None) tt)
  \/ (exists i, 0 <= i < zlen d /\ znth d i = 10 /\ (forall j, 0 <= j < i -> znth d j <> 10) /\
        deframe_line chk d tt =
        Val (Ok (Some ((0, if (0 <? i) && (znth d (i - 1) =? 13) then i - 1 else i), i + 1))) tt).
Proof.
  intros Hmax. unfold deframe_line.
  pose proof (zlen_nonneg d) as Hnn.
  match goal with |- context [for_range 0 (zlen d) ?b] =>
    destruct (for_range_spec b (line_at d) tt 0 (zlen d)) as [(i & v & Hi & Hf & Hmin & Hrun)|(Hnone & Hrun)];
    [lia | intros i Hi; cbv beta; apply line_body_pure; lia | |] end.
  - right. exists i. split; [lia|].
    unfold line_at in Hf. destruct (znth d i =? 10) eqn:E; [|discriminate].
    split; [lia|]. split.
    + intros j Hj. specialize (Hmin j Hj). unfold line_at in Hmin.
      destruct (znth d j =? 10) eqn:E2; [discriminate|lia].
    + erewrite bind_val by exact Hrun. inversion Hf; subst. reflexivity.
  - left. split.
    + intros j Hj. specialize (Hnone j Hj). unfold line_at in Hnone.
      destruct (znth d j =? 10) eqn:E2; [discriminate|lia].
    + erewrite bind_val by exact Hrun. reflexivity.
Qed.

Theorem deframe_null_spec d : zlen d <= usize_max ->
  ((forall j, 0 <= j < zlen d -> znth d j <> 0) /\ deframe_null chk d tt = Val (Ok None) tt)
  \/ (exists i, 0 <= i < zlen d /\ znth d i = 0 /\ (forall j, 0 <= j < i -> znth d j <> 0) /\
        deframe_null chk d tt = Val (Ok (Some ((0, i), i + 1))) tt).
Proof.
  intros Hmax. unfold deframe_null.
  pose proof (zlen_nonneg d) as Hnn.
  match goal with |- context [for_range 0 (zlen d) ?b] =>
    destruct (for_range_spec b (null_at d) tt 0 (zlen d)) as [(i & v & Hi & Hf & Hmin & Hrun)|(Hnone & Hrun)];
    [lia | intros i Hi; cbv beta; apply null_body_pure; lia | |] end.
  - right. exists i. split; [lia|].
    unfold null_at in Hf. destruct (znth d i =? 0) eqn:E; [|discriminate].
    split; [lia|]. split.
    + intros j Hj. specialize (Hmin j Hj). unfold null_at in Hmin.
      destruct (znth d j =? 0) eqn:E2; [discriminate|lia].
    + erewrite bind_val by exact Hrun. inversion Hf; subst. reflexivity.
  - left. split.
    + intros j Hj. specialize (Hnone j Hj). unfold null_at in Hnone.
      destruct (znth d j =? 0) eqn:E2; [discriminate|lia].
    + erewrite bind_val by exact Hrun. reflexivity.
Qed.

Definition is_crlf_at (d : list Z) (i : Z) : Prop := znth d (i - 1) = 13 /\ znth d i = 10.
Theorem deframe_crlf_spec d : zlen d <= usize_max ->
  ((forall j, 1 <= j < zlen d -> ~ is_crlf_at d j) /\ deframe_crlf chk d tt = Val (Ok None) tt)
  \/ (exists i, 1 <= i < zlen d /\ is_crlf_at d i /\ (forall j, 1 <= j < i -> ~ is_crlf_at d j) /\
        deframe_crlf chk d tt = Val (Ok (Some ((0, i - 1), i + 1))) tt).
Proof.
  intros Hmax. unfold deframe_crlf.
  pose proof (zlen_nonneg d) as Hnn.
  destruct (1 <? zlen d) eqn:E1.
  - match goal with |- context [for_range 1 (zlen d) ?b] =>
    destruct (for_range_spec b (crlf_at d) tt 1 (zlen d)) as [(i & v & Hi & Hf & Hmin & Hrun)|(Hnone & Hrun)];
    [lia | intros i Hi; cbv beta; apply crlf_body_pure; lia | |] end.
    + right. exists i. split; [lia|].
      unfold crlf_at in Hf. destruct ((znth d (i - 1) =? 13) && (znth d i =? 10)) eqn:E; [|discriminate].
      split; [unfold is_crlf_at; lia|]. split.
      * intros j Hj [Ha Hb]. specialize (Hmin j Hj). unfold crlf_at in Hmin.
        rewrite Ha, Hb in Hmin. discriminate.
      * erewrite bind_val by exact Hrun. inversion Hf; subst. reflexivity.
    + left. split.
      * intros j Hj [Ha Hb]. specialize (Hnone j Hj). unfold crlf_at in Hnone.
        rewrite Ha, Hb in Hnone. discriminate.
      * erewrite bind_val by exact Hrun. reflexivity.
  - left. split; [intros j Hj; lia|]. reflexivity.
Qed.
End D.
