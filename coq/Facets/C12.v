(* Facets/C12.v — readers are called only when needed; exactly what they report is committed. *)
From FB Require Import Sem.Base Sem.Lemmas Sem.Hoare Model.Fb Spec.Api Facets.Fb Facets.Fb2 Facets.Rf.
Open Scope Z_scope.

(* a reader wrapped so that every call records the length of the destination it was offered *)
Definition log_reader {RS} (R : Reader RS) : Reader (RS * list Z) := {| rd := fun st dest =>
  let '(a, rs') := rd R (fst st) dest in (a, (rs', zlen dest :: snd st)) |}.

Section C12.
Variable SIZE : Z.
Variable chk : bool.
Context {RS : Type}.
Variable R : Reader RS.
Variable df : list Z -> dres.
Hypothesis Hdf : forall u, zlen u <= SIZE -> df_in_bounds df u.

Lemma unread_le s : Inv SIZE s -> zlen (unread s) <= SIZE.
Proof. intros HI. rewrite (zlen_unread SIZE s HI). destruct HI as (H1&H2&H3&H4&H5). unfold len_. lia. Qed.

(* (a) a buffered complete frame, or buffered data the deframer rejects, is answered without calling the reader *)
Theorem no_call_when_decided fuel s rs : Inv SIZE s -> 0 < len_ s ->
  match df (unread s) with
  | DFrame a b n => read_frame chk R (S fuel) df (s, rs) = Val (Done (FFrame (slice (unread s) a b))) (after_read s n, rs)
  | DErr => read_frame chk R (S fuel) df (s, rs) = Val (Done (FErr InvalidData)) (s, rs)
  | _ => True
  end.
Proof.
  intros HI Hl. unfold read_frame. rewrite loop_fuel_S.
  rewrite (read_frame_body_spec SIZE chk R df s rs HI (Hdf _ (unread_le s HI))).
  unfold body_spec. replace (len_ s =? 0) with false by lia.
  destruct (df (unread s)); auto.
Qed.

(* (c) exactly the reported count is committed: bytes the reader wrote past it never become readable *)
Theorem fill_commit s rs d' n rs' : Inv SIZE s -> 0 < wlen SIZE (shifted s) ->
  rd R rs (rf_offer SIZE s) = (ROk d' n, rs') -> 0 < n <= zlen (rf_offer SIZE s) ->
  exists s3, body_fill SIZE chk R s rs = Val None (s3, rs') /\ Inv SIZE s3 /\
    unread s3 = unread s ++ firstn (Z.to_nat n) (fit d' (rf_offer SIZE s)).
Proof.
  intros HI Hw Hr Hn. unfold rf_offer in *.
  destruct (shifted_facts SIZE chk s HI) as (_ & I1 & U1 & Ri1 & Wi1 & L1 & W1 & _).
  unfold body_fill. cbv zeta. set (s1 := shifted s) in *.
  replace (wlen SIZE s1 =? 0) with false by lia. rewrite Hr. replace (n =? 0) with false by lia.
  destruct (after_fill_facts SIZE s1 d' I1) as (I2 & U2 & W2 & L2 & O2).
  assert (Ho : zlen (offered SIZE s1) = wlen SIZE s1).
  { pose proof I1 as (H1&H2&H3&H4&H5). unfold offered, wlen. rewrite zlen_slice by lia. lia. }
  assert (Hw3 : wrote chk n (after_fill SIZE s1 d') = Val tt
     {| mem := mem (after_fill SIZE s1 d'); read_index := read_index (after_fill SIZE s1 d');
        write_index := write_index (after_fill SIZE s1 d') + n |}) by (apply (wrote_ok SIZE); [exact I2|lia]).
  pose proof (wrote_fifo SIZE chk (after_fill SIZE s1 d') n I2 ltac:(lia)) as Hf.
  unfold wp in Hf. rewrite Hw3 in *. destruct Hf as (Hu & I3 & _).
  eexists. split; [reflexivity|]. split; [exact I3|].
  rewrite Hu, U2, U1. f_equal.
  pose proof I2 as (H1&H2&H3&H4&H5).
  change (write_index (after_fill SIZE s1 d')) with (write_index s1).
  rewrite <- O2. unfold offered. change (write_index (after_fill SIZE s1 d')) with (write_index s1).
  rewrite firstn_slice by (unfold wlen in *; lia). reflexivity.
Qed.
End C12.

(* (b) every destination offered during a call is non-empty and no larger than the free space *)
Section CAPS.
Variable SIZE : Z.
Variable chk : bool.
Context {RS : Type}.
Variable R : Reader RS.
Variable df : list Z -> dres.
Hypothesis Hdf : forall u, zlen u <= SIZE -> df_in_bounds df u.
Hypothesis Hcount : forall rs dest d' n rs', rd R rs dest = (ROk d' n, rs') -> 0 <= n.   (* the count is a usize *)

Definition caps_ok (len0 : Z) (before after : list Z) : Prop :=
  exists new, after = new ++ before /\ Forall (fun c => 1 <= c <= SIZE - len0) new.

Lemma caps_ok_refl len0 l : caps_ok len0 l l.
Proof. exists []. split; [reflexivity|constructor]. Qed.

Theorem caps_in_range : forall fuel len0 s rs log, Inv SIZE s -> len0 <= len_ s ->
  match read_frame chk (log_reader R) fuel df (s, (rs, log)) with
  | Val _ (_, (_, log')) | Panic (_, (_, log')) => caps_ok len0 log log'
  end.
Proof.
  induction fuel as [|f IH]; intros len0 s rs log HI Hlen; unfold read_frame.
  - cbn [loop_fuel ret]. apply caps_ok_refl.
  - rewrite loop_fuel_S. fold (read_frame chk (log_reader R) f df).
    rewrite (read_frame_body_spec SIZE chk (log_reader R) df s (rs, log) HI (Hdf _ (unread_le SIZE s HI))).
    assert (Hfill : match
        match body_fill SIZE chk (log_reader R) s (rs, log) with
        | Val (Some v) w' => Val (Done v) w'
        | Val None w' => read_frame chk (log_reader R) f df w'
        | Panic w' => Panic w'
        end with
      | Val _ (_, (_, log')) | Panic (_, (_, log')) => caps_ok len0 log log' end).
    { destruct (shifted_facts SIZE chk s HI) as (_ & I1 & U1 & Ri1 & Wi1 & L1 & W1 & _).
      unfold body_fill. cbv zeta. set (s1 := shifted s) in *.
      destruct (wlen SIZE s1 =? 0) eqn:E; [apply caps_ok_refl|].
      assert (Ho : zlen (offered SIZE s1) = wlen SIZE s1).
      { pose proof I1 as (H1&H2&H3&H4&H5). unfold offered, wlen. rewrite zlen_slice by lia. lia. }
      assert (Hcap : 1 <= zlen (offered SIZE s1) <= SIZE - len0).
      { rewrite Ho, W1. pose proof I1 as (H1&H2&H3&H4&H5). unfold wlen in *. lia. }
      assert (Hone : forall lg, caps_ok len0 lg (zlen (offered SIZE s1) :: lg)).
      { intros lg. exists [zlen (offered SIZE s1)]. split; [reflexivity|]. constructor; [exact Hcap|constructor]. }
      cbn [rd log_reader fst snd].
      destruct (rd R rs (offered SIZE s1)) as [[d' n|k|] rs'] eqn:Er; try apply Hone.
      destruct (after_fill_facts SIZE s1 d' I1) as (I2 & U2 & W2 & L2 & O2).
      destruct (n =? 0) eqn:En; [apply Hone|].
      pose proof (Hcount _ _ _ _ _ Er) as Hn0.
      destruct (Z_lt_le_dec (wlen SIZE (after_fill SIZE s1 d')) n) as [Hlt|Hle].
      - destruct (Z_le_gt_dec n usize_max) as [Hm|Hm].
        + rewrite (wrote_panic SIZE chk _ n I2 ltac:(lia) Hlt). apply Hone.
        + assert (Hq : wrote chk n (after_fill SIZE s1 d') = Panic (after_fill SIZE s1 d')).
          { pose proof I2 as (H1&H2&H3&H4&H5). unfold wlen in *. munf. inv_tac. brk; auto; try lia. }
          rewrite Hq. apply Hone.
      - rewrite (wrote_ok SIZE chk _ n I2 ltac:(lia)).
        pose proof (wrote_fifo SIZE chk (after_fill SIZE s1 d') n I2 ltac:(lia)) as Hf.
        pose proof (wrote_cap SIZE chk (after_fill SIZE s1 d') n I2 ltac:(lia)) as Hc.
        unfold wp in Hf, Hc. rewrite (wrote_ok SIZE chk _ n I2 ltac:(lia)) in Hf, Hc.
        destruct Hf as (_ & I3 & _). destruct Hc as (C1 & _).
        match goal with |- match read_frame _ _ _ _ (?s3, _) with _ => _ end => specialize (IH len0 s3 rs' (zlen (offered SIZE s1) :: log) I3 ltac:(lia)) end.
        match goal with |- match ?X with _ => _ end => destruct X as [r3 [s4 [rs4 log4]]|[s4 [rs4 log4]]] end;
          (destruct IH as (new & Hnew & Hall); exists (new ++ [zlen (offered SIZE s1)]);
           split; [rewrite Hnew, <- app_assoc; reflexivity|apply Forall_app; split; [exact Hall|constructor; [exact Hcap|constructor]]]). }
    unfold body_spec. destruct (len_ s =? 0); [exact Hfill|].
    destruct (df (unread s)); try exact Hfill; apply caps_ok_refl.
Qed.
End CAPS.

(* (d) copy_once_from with any reader *)
Section COPY.
Variable SIZE : Z.
Variable chk : bool.
Context {RS : Type}.
Variable R : Reader RS.
Theorem copy_once_from_any s rs : Inv SIZE s ->
  copy_once_from chk R (s, rs) =
  if wlen SIZE s =? 0 then Val (Err InvalidData) (s, rs) else        (* full at the end: no call at all *)
  match rd R rs (offered SIZE s) with                                 (* otherwise exactly this one call, on all of writable() *)
  | (ROk d' n, rs') => match wrote chk n (after_fill SIZE s d') with
                       | Val _ s' => Val (Ok n) (s', rs')
                       | Panic s' => Panic (s', rs')
                       end
  | (RErr k, rs') => Val (Err k) (s, rs')                             (* an error leaves the buffer as it was *)
  | (RPanic, rs') => Panic (s, rs')
  end.
Proof.
  intros HI. unfold copy_once_from.
  rewrite (bind_val _ _ _ _ _ (self_val _ _ rs _ _ (writable_spec SIZE s HI))).
  unfold vlen; cbn [v_off v_end]. fold (wlen SIZE s).
  destruct (wlen SIZE s =? 0) eqn:E; [reflexivity|].
  unfold bind at 1. unfold call_read. cbn [fst snd v_off v_end]. fold (offered SIZE s).
  destruct (rd R rs (offered SIZE s)) as [[d' n|k|] rs']; try reflexivity.
  fold (after_fill SIZE s d'). unfold bind, self_. cbn [fst snd].
  destruct (wrote chk n (after_fill SIZE s d')); reflexivity.
Qed.
Theorem copy_once_commit s rs d' n rs' : Inv SIZE s -> 0 < wlen SIZE s ->
  rd R rs (offered SIZE s) = (ROk d' n, rs') -> 0 <= n <= wlen SIZE s ->
  exists s', copy_once_from chk R (s, rs) = Val (Ok n) (s', rs') /\ Inv SIZE s' /\
    unread s' = unread s ++ firstn (Z.to_nat n) (fit d' (offered SIZE s)) /\ zlen (offered SIZE s) = wlen SIZE s.
Proof.
  intros HI Hw Hr Hn. rewrite (copy_once_from_any s rs HI). replace (wlen SIZE s =? 0) with false by lia. rewrite Hr.
  destruct (after_fill_facts SIZE s d' HI) as (I2 & U2 & W2 & L2 & O2).
  rewrite (wrote_ok SIZE chk _ n I2 ltac:(lia)).
  pose proof (wrote_fifo SIZE chk (after_fill SIZE s d') n I2 ltac:(lia)) as Hf.
  unfold wp in Hf. rewrite (wrote_ok SIZE chk _ n I2 ltac:(lia)) in Hf. destruct Hf as (Hu & I3 & _).
  eexists. split; [reflexivity|]. split; [exact I3|]. split.
  - rewrite Hu, U2. f_equal. pose proof I2 as (H1&H2&H3&H4&H5).
    change (write_index (after_fill SIZE s d')) with (write_index s).
    rewrite <- O2. unfold offered. change (write_index (after_fill SIZE s d')) with (write_index s).
    rewrite firstn_slice by (unfold wlen in *; lia). reflexivity.
  - pose proof HI as (H1&H2&H3&H4&H5). unfold offered, wlen. rewrite zlen_slice by lia. lia.
Qed.
End COPY.
