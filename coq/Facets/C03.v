(* Facets/C03.v — every API step refines the capacity ledger (Spec/Capacity.v). *)
From FB Require Import Sem.Base Sem.Lemmas Sem.Hoare Model.Fb Model.Script Model.Escape Spec.Api Spec.Capacity
  Facets.Fb Facets.Fb2 Facets.C01.
Open Scope Z_scope.


Section C03.
Variable SIZE : Z.
Variable chk : bool.

Lemma glob s : Inv2 SIZE s -> 0 <= len_ s /\ 0 <= wlen SIZE s /\ len_ s + wlen SIZE s <= SIZE /\ (len_ s = 0 -> wlen SIZE s = SIZE).
Proof. intros [(H1&H2&H3&H4&H5) Hn]. unfold nf, len_, wlen in *. lia. Qed.

Ltac sim := cbn [cap_ok state_of lift fst snd].
Ltac rsplit := repeat match goal with |- _ /\ _ => split end.
(* close a goal "global part /\ specific part /\ Inv2" once the new state s' is known to satisfy Inv2 *)
Ltac fin_with HI2' := split; [split; [apply (glob _ HI2')|split; [apply (glob _ HI2')|split; [apply (glob _ HI2')|split; [apply (glob _ HI2')|]]]]|exact HI2'].

Lemma inv2_after_read s n : Inv2 SIZE s -> 0 <= n <= len_ s -> Inv2 SIZE (after_read s n).
Proof.
  intros [HI Hn] Hb. split; [apply (after_read_facts SIZE chk s n HI Hb)|apply (nf_after_read SIZE s n HI Hb)].
Qed.

Theorem c03_step s o : Inv2 SIZE s -> args_ok o ->
  cap_ok SIZE (len_ s) (wlen SIZE s) o (step SIZE chk s o)
         (len_ (state_of (step SIZE chk s o))) (wlen SIZE (state_of (step SIZE chk s o))) /\
  Inv2 SIZE (state_of (step SIZE chk s o)).
Proof.
  intros HI2 Ha. pose proof HI2 as [HI Hnf]. pose proof (len_nonneg SIZE s HI) as Hl.
  pose proof (glob s HI2) as (G1 & G2 & G3 & G4).
  assert (Hread : forall n, 0 <= n <= len_ s ->
            len_ (after_read s n) <= len_ s /\ wlen SIZE s <= wlen SIZE (after_read s n)).
  { intros n Hn. destruct (after_read_facts SIZE chk s n HI Hn) as (_ & _ & _ & D & E & _). lia. }
  destruct o; cbn [step args_ok] in *.
  - rewrite (lift_val _ _ _ _ (len_spec SIZE chk s HI)). sim. fin_with HI2. auto.
  - rewrite (lift_val _ _ _ _ (is_empty_spec s)). sim. fin_with HI2. auto.
  - rewrite (lift_val _ _ _ _ (readable_spec SIZE s HI)). sim. fin_with HI2. auto.
  - unfold mem_, get_mem. sim. fin_with HI2. auto.
  - (* OClear *)
    pose proof (clear_fifo SIZE s HI) as Hf. pose proof (clear_cap SIZE s HI) as Hc. unfold wp in *.
    destruct (clear s) as [[] s'|s'] eqn:E; [|tauto]. sim. destruct Hf as [_ Hi']. destruct Hc as [C1 C2].
    assert (HI2' : Inv2 SIZE s').
    { split; [exact Hi'|]. unfold nf. destruct Hi' as (I1&I2&I3&I4&I5). unfold len_, wlen in *. lia. }
    fin_with HI2'. auto.
  - (* OShift *)
    pose proof (shift_fifo SIZE chk s HI) as Hf. pose proof (shift_cap SIZE chk s HI) as Hc. unfold wp in *.
    destruct (shift chk s) as [[] s'|s'] eqn:E; [|tauto]. sim. destruct Hf as [_ Hi']. destruct Hc as (C1 & C2 & C3).
    assert (HI2' : Inv2 SIZE s').
    { split; [exact Hi'|]. unfold nf. unfold len_, wlen in *. lia. }
    fin_with HI2'. auto.
  - (* OReadByte *)
    destruct (Z.eq_dec (len_ s) 0) as [E|E].
    + rewrite (lift_panic _ _ _ (read_byte_panic SIZE chk s HI E)). sim. fin_with HI2. lia.
    + rewrite (lift_val _ _ _ _ (read_byte_ok SIZE chk s HI ltac:(lia))). sim.
      pose proof (inv2_after_read s 1 HI2 ltac:(lia)) as HI2'. fin_with HI2'. apply Hread; lia.
  - rewrite (try_read_byte_spec SIZE chk s HI). destruct (len_ s =? 0) eqn:E; sim.
    + fin_with HI2. lia.
    + pose proof (inv2_after_read s 1 HI2 ltac:(lia)) as HI2'. fin_with HI2'. apply Hread; lia.
  - (* OReadBytes *)
    destruct (Z_lt_le_dec (len_ s) n) as [Hlt|Hle].
    + rewrite (lift_panic _ _ _ (read_bytes_panic SIZE chk s n HI Ha Hlt)). sim. fin_with HI2. lia.
    + rewrite (lift_val _ _ _ _ (read_bytes_ok' SIZE chk s n HI ltac:(lia))). sim.
      pose proof (inv2_after_read s n HI2 ltac:(lia)) as HI2'. fin_with HI2'. apply Hread; lia.
  - rewrite (try_read_bytes_spec SIZE chk s n HI ltac:(lia)). destruct (len_ s <? n) eqn:E; sim.
    + fin_with HI2. lia.
    + pose proof (inv2_after_read s n HI2 ltac:(lia)) as HI2'. fin_with HI2'. apply Hread; lia.
  - rewrite (lift_val _ _ _ _ (read_all_spec SIZE chk s HI)). sim.
    pose proof (inv2_after_read s (len_ s) HI2 ltac:(lia)) as HI2'. fin_with HI2'. apply Hread; lia.
  - (* OReadCopy *)
    rewrite (read_and_copy_bytes_spec SIZE chk s dest HI). pose proof (zlen_nonneg dest) as Hd.
    unfold copy_count. set (k := Z.min (zlen dest) (len_ s)). destruct (k =? 0) eqn:E; sim.
    + fin_with HI2. lia.
    + pose proof (inv2_after_read s k HI2 ltac:(lia)) as HI2'. fin_with HI2'. apply Hread; lia.
  - (* OTryReadExact *)
    rewrite (try_read_exact_spec SIZE chk s dest HI). pose proof (zlen_nonneg dest) as Hd.
    destruct (len_ s <? zlen dest) eqn:E; sim; [fin_with HI2; lia|].
    destruct (zlen dest =? 0) eqn:E0; sim; [fin_with HI2; lia|].
    pose proof (inv2_after_read s (zlen dest) HI2 ltac:(lia)) as HI2'. fin_with HI2'. apply Hread; lia.
  - (* OIoRead *)
    rewrite (io_read_spec SIZE chk s dest HI). pose proof (zlen_nonneg dest) as Hd.
    unfold copy_count. set (k := Z.min (zlen dest) (len_ s)). destruct (k =? 0) eqn:E; sim.
    + fin_with HI2. lia.
    + pose proof (inv2_after_read s k HI2 ltac:(lia)) as HI2'. fin_with HI2'. apply Hread; lia.
  - (* OWriteBytes *)
    rewrite (write_bytes_spec SIZE chk s d HI). pose proof (zlen_nonneg d) as Hd.
    destruct (wlen SIZE s <? zlen d) eqn:E; sim; [fin_with HI2; lia|].
    destruct (after_write_facts SIZE s d HI ltac:(lia)) as (A & _ & C & D).
    assert (HI2' : Inv2 SIZE (after_write s d)).
    { split; [exact A|]. unfold nf, after_write; cbn [read_index write_index].
      destruct HI as (H1&H2&H3&H4&H5). unfold nf in Hnf. lia. }
    fin_with HI2'. lia.
  - rewrite (write_str_spec SIZE chk s d HI). pose proof (zlen_nonneg d) as Hd.
    destruct (wlen SIZE s <? zlen d) eqn:E; sim; [fin_with HI2; lia|].
    destruct (after_write_facts SIZE s d HI ltac:(lia)) as (A & _ & C & D).
    assert (HI2' : Inv2 SIZE (after_write s d)).
    { split; [exact A|]. unfold nf, after_write; cbn [read_index write_index].
      destruct HI as (H1&H2&H3&H4&H5). unfold nf in Hnf. lia. }
    fin_with HI2'. lia.
  - rewrite (io_write_spec SIZE chk s d HI). pose proof (zlen_nonneg d) as Hd.
    destruct (wlen SIZE s <? zlen d) eqn:E; sim; [fin_with HI2; rsplit; auto; lia|].
    destruct (after_write_facts SIZE s d HI ltac:(lia)) as (A & _ & C & D).
    assert (HI2' : Inv2 SIZE (after_write s d)).
    { split; [exact A|]. unfold nf, after_write; cbn [read_index write_index].
      destruct HI as (H1&H2&H3&H4&H5). unfold nf in Hnf. lia. }
    fin_with HI2'. lia.
  - (* OIoFlush *) unfold io_flush, ret. sim. fin_with HI2. auto.
  - (* OWritableWrote *)
    rewrite (scribble_then_wrote_spec SIZE chk s scribble n HI Ha).
    destruct (scribbled_facts SIZE s scribble HI) as (I1 & U1 & W1 & L1).
    assert (Hnf1 : nf (scribbled SIZE s scribble)) by exact Hnf.
    destruct (wlen SIZE s <? n) eqn:E; sim.
    + assert (HI2' : Inv2 SIZE (scribbled SIZE s scribble)) by (split; assumption).
      fin_with HI2'. lia.
    + set (s1 := scribbled SIZE s scribble) in *.
      pose proof (wrote_fifo SIZE chk s1 n I1 ltac:(lia)) as Hw. pose proof (wrote_cap SIZE chk s1 n I1 ltac:(lia)) as Hc.
      unfold wp in Hw, Hc. rewrite (wrote_ok SIZE chk s1 n I1 ltac:(lia)) in Hw, Hc.
      change (read_index s1) with (read_index s) in Hw, Hc. change (write_index s1) with (write_index s) in Hw, Hc.
      destruct Hw as (_ & Hi' & _). destruct Hc as (C1 & C2).
      set (s2 := {| mem := mem s1; read_index := read_index s; write_index := write_index s + n |}) in *.
      assert (HI2' : Inv2 SIZE s2).
      { split; [exact Hi'|]. unfold nf, s2; cbn [read_index write_index]. destruct HI as (H1&H2&H3&H4&H5). unfold nf in Hnf. lia. }
      fin_with HI2'. lia.
  - (* OCopyOnce *)
    rewrite (copy_once_from_spec SIZE chk s ans HI).
    destruct (wlen SIZE s =? 0) eqn:E; sim; [fin_with HI2; auto|].
    destruct (ans (offered SIZE s)) as [d' n|k|] eqn:Ea; sim; [|fin_with HI2; auto|fin_with HI2; auto].
    destruct (after_fill_facts SIZE s d' HI) as (I1 & U1 & W1 & L1 & O1).
    assert (HI2f : Inv2 SIZE (after_fill SIZE s d')) by (split; [exact I1|exact Hnf]).
    specialize (Ha _ _ _ Ea).
    destruct (Z_lt_le_dec (wlen SIZE s) n) as [Hlt|Hle].
    + rewrite (wrote_panic SIZE chk _ n I1 Ha ltac:(lia)). sim. fin_with HI2f. lia.
    + pose proof (wrote_fifo SIZE chk (after_fill SIZE s d') n I1 ltac:(lia)) as Hw.
      pose proof (wrote_cap SIZE chk (after_fill SIZE s d') n I1 ltac:(lia)) as Hc.
      unfold wp in Hw, Hc. rewrite (wrote_ok SIZE chk _ n I1 ltac:(lia)) in *. sim.
      destruct Hw as (_ & Hi' & _). destruct Hc as (C1 & C2).
      set (s2 := {| mem := mem (after_fill SIZE s d'); read_index := read_index (after_fill SIZE s d'); write_index := write_index (after_fill SIZE s d') + n |}) in *.
      assert (HI2' : Inv2 SIZE s2).
      { split; [exact Hi'|]. unfold nf, s2, after_fill; cbn [read_index write_index]. destruct HI as (H1&H2&H3&H4&H5). unfold nf in Hnf. lia. }
      fin_with HI2'. lia.
  - (* ODeframe *)
    rewrite (deframe_spec SIZE chk s df HI (Ha _)).
    destruct (len_ s =? 0) eqn:E; sim; [fin_with HI2; lia|].
    destruct (df (unread s)) as [|a b n| |] eqn:Ed; sim; try (fin_with HI2; lia).
    destruct (Ha _ a b n Ed) as (B1 & B2 & B3 & B4). rewrite (zlen_unread SIZE s HI) in B4.
    pose proof (inv2_after_read s n HI2 ltac:(lia)) as HI2'. fin_with HI2'. apply Hread; lia.
  - (* OTryParse *)
    pose proof (try_parse_script_spec SIZE chk body some s HI) as Hp.
    destruct (try_parse (closure chk body some) s) as [[log|] s'|s'] eqn:Et; sim.
    + destruct Hp as (_ & I' & _ & k & Hk & _ & Hl' & Hw' & Hn').
      assert (HI2' : Inv2 SIZE s') by (split; auto). fin_with HI2'. lia.
    + destruct Hp as (_ & ->). fin_with HI2. auto.
    + destruct Hp as (I' & _ & k & Hk & _ & Hl' & Hw' & Hn').
      assert (HI2' : Inv2 SIZE s') by (split; auto). fin_with HI2'. lia.
  - pose proof (fb_escape_state SIZE s HI) as He.
    destruct (fb_escape_ascii s) as [v s'|s']; cbn [state_of] in He; rewrite He; sim; fin_with HI2; auto.
  - pose proof (debug_state SIZE chk s HI) as He.
    destruct (debug_fmt SIZE chk s) as [v s'|s']; cbn [state_of] in He; rewrite He; sim; fin_with HI2; auto.
Qed.

Fixpoint caps (s : fb) (ops : list op) : list (Z * Z) :=
  match ops with [] => [] | o :: t => let s' := state_of (step SIZE chk s o) in (len_ s', wlen SIZE s') :: caps s' t end.
Theorem c03_history : forall ops s, Inv2 SIZE s -> ops_ok ops ->
  cap_chain SIZE (len_ s) (wlen SIZE s) (trace SIZE chk s ops) (caps s ops) /\ Inv2 SIZE (run SIZE chk s ops).
Proof.
  induction ops as [|o t IH]; intros s HI Hok; cbn [trace caps run cap_chain]; [auto|].
  destruct Hok as [Ho Ht]. destruct (c03_step s o HI Ho) as [Hf Hi'].
  destruct (IH _ Hi' Ht) as [Hc Hr]. auto.
Qed.

(* the boundary, stated separately so it cannot be lost: a write of n bytes succeeds iff n <= writable().len() *)
Theorem c03_write_boundary s d : Inv2 SIZE s ->
  (exists n s', write_bytes chk d s = Val (Ok n) s') <-> zlen d <= wlen SIZE s.
Proof.
  intros [HI _]. rewrite (write_bytes_spec SIZE chk s d HI). destruct (wlen SIZE s <? zlen d) eqn:E; split.
  - intros (n & s' & H). discriminate.
  - lia.
  - lia.
  - intros _. eauto.
Qed.
End C03.
