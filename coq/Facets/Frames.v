(* Facets/Frames.v — one read_frame call under ANY chunk schedule returns the chunk-free answer `next`,
   for any deframer honouring the documented contract.  (Abstract level: unread bytes + stream reader.) *)
From FB Require Import Sem.Base Sem.Lemmas Model.Fb Spec.Frames Facets.DfContract.
Open Scope Z_scope.

Section SPEC.
Variable SIZE : Z.
Variable df : list Z -> dres.
Hypothesis Hsize : 0 <= SIZE.
Hypothesis Hc : df_contract SIZE df.

(* the first SIZE bytes of u ++ rest, when u fits *)
Lemma window (u rest : list Z) : zlen u <= SIZE ->
  firstn (Z.to_nat SIZE) (u ++ rest) = u ++ firstn (Z.to_nat (SIZE - zlen u)) rest.
Proof.
  intros H. pose proof (zlen_nonneg u). rewrite firstn_app. f_equal.
  - apply firstn_all2. unfold zlen in *. lia.
  - f_equal. unfold zlen in *. lia.
Qed.
Lemma window_len (u rest : list Z) : zlen u <= SIZE -> zlen (u ++ firstn (Z.to_nat (SIZE - zlen u)) rest) <= SIZE.
Proof. intros H. pose proof (zlen_nonneg u). rewrite zlen_app, zlen_firstn. lia. Qed.

Lemma df_prefix_none (u e : list Z) : zlen (u ++ e) <= SIZE -> df (u ++ e) = DNone -> df u = DNone.
Proof.
  intros HL H. destruct (df u) eqn:E; auto; rewrite (dfc_stable _ _ Hc u e HL) in H; congruence.
Qed.

Theorem aread_frame_spec : forall fuel u st,
  zlen u <= SIZE -> zlen (sr_rest st) < Z.of_nat fuel ->
  exists r u' st' o, aread_frame SIZE stream_ar df fuel (u, st) = Val r (u', st') /\ out_of r = Some o /\
    (o, u' ++ sr_rest st') = next SIZE df (u ++ sr_rest st) /\ zlen u' <= SIZE.
Proof.
  induction fuel as [|fuel IH]; intros u st Hu Hf; [pose proof (zlen_nonneg (sr_rest st)); lia|].
  pose proof (zlen_nonneg u) as Hun. pose proof (zlen_nonneg (sr_rest st)) as Hrn.
  unfold aread_frame. rewrite loop_fuel_S. fold (aread_frame SIZE stream_ar df fuel).
  set (rest := sr_rest st) in *.
  (* the chunk-free side *)
  assert (Hwin := window u rest Hu). assert (Hwl := window_len u rest Hu).
  set (e := firstn (Z.to_nat (SIZE - zlen u)) rest) in *.
  (* common: the fill branch *)
  assert (Hfill : (zlen u = 0 \/ df u = DNone) ->
     exists r u' st' o, match afill SIZE stream_ar (u, st) with
                        | Val (Some v) w' => Val (Done v) w'
                        | Val None w' => aread_frame SIZE stream_ar df fuel w'
                        | Panic w' => Panic w'
                        end = Val r (u', st') /\ out_of r = Some o /\
       (o, u' ++ sr_rest st') = next SIZE df (u ++ rest) /\ zlen u' <= SIZE).
  { intros Hnone. unfold afill.
    destruct (SIZE - zlen u =? 0) eqn:Efull.
    - (* buffer full *)
      exists (Done (FErr InvalidData)), u, st, (OErr InvalidData). split; [reflexivity|]. split; [reflexivity|]. split; [|lia].
      unfold next. rewrite Hwin. unfold e. replace (SIZE - zlen u) with 0 by lia. cbn [Z.to_nat firstn]. rewrite app_nil_r.
      destruct (zlen u =? 0) eqn:E0.
      + replace (SIZE =? 0) with true by lia. reflexivity.
      + destruct Hnone as [Hz|Hd]; [lia|]. rewrite Hd. rewrite zlen_app. fold rest.
        replace (SIZE <=? zlen u + zlen rest) with true by lia. reflexivity.
    - (* ask the reader *)
      cbn [ar stream_ar]. fold rest.
      set (want := match sr_sched st with k :: _ => Z.max 1 k | [] => zlen rest end).
      set (k := Z.min want (Z.min (SIZE - zlen u) (zlen rest))).
      assert (Hk : 0 <= k <= SIZE - zlen u /\ k <= zlen rest /\ (zlen rest > 0 -> 1 <= k)).
      { unfold k, want. destruct (sr_sched st); lia. }
      assert (Hdata : zlen (firstn (Z.to_nat k) rest) = k) by (rewrite zlen_firstn; lia).
      rewrite Hdata.
      destruct (k =? 0) eqn:Ek.
      + (* end of stream *)
        assert (Hrest : rest = []) by (apply zlen_0_nil; lia).
        cbn [sr_rest]. rewrite Hrest. cbn [skipn]. rewrite skipn_nil.
        destruct (zlen u =? 0) eqn:E0.
        * exists (Done FNone), u, {| sr_rest := []; sr_sched := tl (sr_sched st) |}, ONone.
          split; [reflexivity|]. cbn [sr_rest]. rewrite app_nil_r.
          unfold next. rewrite firstn_all2 by (unfold zlen in *; lia). rewrite E0.
          replace (SIZE =? 0) with false by lia. split; [reflexivity|]. split; [reflexivity|lia].
        * exists (Done (FErr UnexpectedEof)), u, {| sr_rest := []; sr_sched := tl (sr_sched st) |}, (OErr UnexpectedEof).
          split; [reflexivity|]. cbn [sr_rest]. rewrite app_nil_r.
          unfold next. rewrite firstn_all2 by (unfold zlen in *; lia). rewrite E0.
          destruct Hnone as [Hz|Hd]; [lia|]. rewrite Hd. replace (SIZE <=? zlen u) with false by lia.
          split; [reflexivity|]. split; [reflexivity|lia].
      + (* data: recurse *)
        set (d := firstn (Z.to_nat k) rest) in *.
        set (st2 := {| sr_rest := skipn (Z.to_nat k) rest; sr_sched := tl (sr_sched st) |}).
        destruct (IH (u ++ d) st2) as (r & u' & st' & o & Hrun & Ho & Hn & Hl).
        { rewrite zlen_app. lia. }
        { unfold st2; cbn [sr_rest]. rewrite zlen_skipn. lia. }
        exists r, u', st', o. split; [exact Hrun|]. split; [exact Ho|]. split; [|exact Hl].
        rewrite Hn. unfold st2; cbn [sr_rest]. unfold d. rewrite <- app_assoc, firstn_skipn. reflexivity. }
  unfold abody. destruct (zlen u =? 0) eqn:E0; [apply Hfill; left; lia|].
  destruct (df u) as [|a b n| |] eqn:Ed.
  - apply Hfill. right. reflexivity.
  - (* a complete frame is buffered *)
    destruct (dfc_bounds _ _ Hc u a b n ltac:(lia) Ed) as (B1 & B2 & B3 & B4 & B5).
    exists (Done (FFrame (slice u a b))), (skipn (Z.to_nat n) u), st, (OFrame (slice u a b)).
    split; [reflexivity|]. split; [reflexivity|]. split; [|rewrite zlen_skipn; lia].
    unfold next. rewrite Hwin.
    assert (Hp : df (u ++ e) = DFrame a b n) by (rewrite (dfc_stable _ _ Hc u e Hwl); congruence).
    replace (zlen (u ++ e) =? 0) with false by (rewrite zlen_app; pose proof (zlen_nonneg e); lia).
    rewrite Hp. f_equal.
    + f_equal. unfold slice. rewrite skipn_app, firstn_app.
      replace (Z.to_nat (b - a) - length (skipn (Z.to_nat a) u))%nat with 0%nat by (rewrite skipn_length; unfold zlen in *; lia).
      cbn [firstn]. rewrite app_nil_r. reflexivity.
    + rewrite skipn_app. replace (Z.to_nat n - length u)%nat with 0%nat by (unfold zlen in *; lia). reflexivity.
  - (* the deframer rejects *)
    exists (Done (FErr InvalidData)), u, st, (OErr InvalidData).
    split; [reflexivity|]. split; [reflexivity|]. split; [|lia].
    unfold next. rewrite Hwin.
    assert (Hp : df (u ++ e) = DErr) by (rewrite (dfc_stable _ _ Hc u e Hwl); congruence).
    replace (zlen (u ++ e) =? 0) with false by (rewrite zlen_app; pose proof (zlen_nonneg e); lia).
    rewrite Hp. reflexivity.
  - exfalso. exact (dfc_nopanic _ _ Hc u ltac:(lia) Ed).
Qed.
End SPEC.
