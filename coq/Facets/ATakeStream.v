(* Facets/ATakeStream.v — stream-level statement for AsyncReadWriteTake, from its observational specification (Facets/TokioAdapters.v,
   atake_observable): over ANY inner stream whose observable behaviour is that of a capacity-determined prefix source (offered c bytes
   of room it either answers Pending, or delivers a prefix of a fixed remaining sequence; progress when there is room and something is
   left), one poll either changes nothing a caller can see (Pending), or appends — after the untouched filled bytes — a prefix of the
   first `allowance` bytes that remain, charges exactly that many bytes, and leaves every later byte unread in the inner stream.
   [C16 / C09, stream level, every Pending pattern, every ReadBuf] *)
From FB Require Import Sem.Base Sem.Lemmas Sem.ReadBuf Model.Tokio Facets.TokioAdapters Facets.AStreams.
Open Scope Z_scope.

Definition aa_prefix_source {S} (AA : AAReader S) (rem : S -> list Z) (okS : S -> Prop) : Prop :=
  forall s cap, okS s -> 0 <= cap ->
  match aprd AA s cap with
  | (AAData d, s') => exists k, 0 <= k <= cap /\ k <= zlen (rem s) /\ d = firstn (Z.to_nat k) (rem s) /\
        rem s' = skipn (Z.to_nat k) (rem s) /\ okS s' /\ (0 < cap -> rem s <> [] -> 1 <= k)
  | (AAPending, s') => rem s' = rem s /\ okS s'
  | _ => False
  end.

Section ATAKE.
Context {RWS : Type}.
Variable chk : bool.
Variable R2 : AsyncReader RWS.
Variable AA : AAReader RWS.
Variable rem : RWS -> list Z.
Variable okS : RWS -> Prop.
Hypothesis Himpl : aimplements R2 AA.
Hypothesis Hsrc : aa_prefix_source AA rem okS.

Theorem atake_stream buf w : rb_wf buf -> 0 <= at_rem w -> zlen (rb_buf buf) <= usize_max -> okS (at_rw w) ->
  match atake_poll_read chk R2 buf w with
  | Val (PReady (Ok _), b') w' => exists k, 0 <= k <= Z.min (at_rem w) (rb_remaining buf) /\ k <= zlen (rem (at_rw w)) /\
        rb_filled_bytes b' = rb_filled_bytes buf ++ firstn (Z.to_nat k) (rem (at_rw w)) /\
        rb_remaining b' = rb_remaining buf - k /\ at_rem w' = at_rem w - k /\
        rem (at_rw w') = skipn (Z.to_nat k) (rem (at_rw w)) /\ okS (at_rw w') /\
        (0 < at_rem w -> 0 < rb_remaining buf -> rem (at_rw w) <> [] -> 1 <= k)
  | Val (PPending, b') w' => rb_filled_bytes b' = rb_filled_bytes buf /\ rb_remaining b' = rb_remaining buf /\
        at_rem w' = at_rem w /\ rem (at_rw w') = rem (at_rw w) /\ okS (at_rw w')
  | _ => False
  end.
Proof.
  intros Hwf Hn Hmax Hok.
  pose proof (atake_observable chk R2 AA Himpl buf w Hwf Hn Hmax) as Hobs. unfold take_obs in Hobs.
  assert (Hroom : 0 <= rb_remaining buf) by (destruct Hwf as (W1 & W2 & W3); unfold rb_remaining, rb_capacity; lia).
  destruct (at_rem w =? 0) eqn:E0.
  - (* allowance exhausted: Ready with nothing appended, the inner stream is not polled *)
    destruct (atake_poll_read chk R2 buf w) as [[p b'] w'|w']; [|discriminate].
    assert (Hz : at_rem w = 0) by (apply Z.eqb_eq; exact E0).
    inversion Hobs as [[Hp Hb Hr1 Hr2]]. exists 0. cbn [Z.to_nat firstn skipn]. rewrite app_nil_r, !Z.sub_0_r.
    pose proof (zlen_nonneg (rem (at_rw w))). subst p b'. rewrite ?Hr2, ?Hr1.
    split; [lia|]. split; [lia|]. split; [reflexivity|]. split; [reflexivity|]. split; [first [reflexivity|lia]|]. split; [reflexivity|].
    split; [exact Hok|]. intros; lia.
  - pose proof (Hsrc (at_rw w) (Z.min (at_rem w) (rb_remaining buf)) Hok ltac:(lia)) as Hs.
    destruct (aprd AA (at_rw w) (Z.min (at_rem w) (rb_remaining buf))) as [[d|e| |] s']; try contradiction.
    + destruct Hs as (k & Hk & Hkr & Hd & Hrem & Hok' & Hprog).
      destruct Hobs as (b' & Hr & Hb & Hroom' & Hle).
      destruct (atake_poll_read chk R2 buf w) as [[p b''] w'|w']; [|discriminate].
      inversion Hr as [[Hp Hbb Hrw Hst]]. subst p b''.
      assert (Hzd : zlen d = k) by (rewrite Hd, zlen_firstn; lia).
      exists k. rewrite Hst. rewrite Hzd in *. subst d.
      split; [lia|]. split; [exact Hkr|]. split; [exact Hb|]. split; [exact Hroom'|]. split; [lia|]. split; [exact Hrem|]. split; [exact Hok'|].
      intros G1 G2 G3. apply Hprog; [lia|exact G3].
    + destruct Hs as (Hrem & Hok').
      destruct Hobs as (b' & Hr & Hb & Hroom').
      destruct (atake_poll_read chk R2 buf w) as [[p b''] w'|w']; [|discriminate].
      inversion Hr as [[Hp Hbb Hrw Hst]]. subst p b''.
      rewrite Hst. auto.
Qed.
End ATAKE.

(* ---- an instance: the byte list with Pending marks of Facets/AStreams.v, seen through the capacity it is offered ---- *)
Definition marked_aa : AAReader (list Z * list bool) := {| aprd := fun s cap =>
  match snd s with
  | true :: t => (AAPending, (fst s, t))
  | marks => let k := Z.min cap (zlen (fst s)) in (AAData (firstn (Z.to_nat k) (fst s)), (skipn (Z.to_nat k) (fst s), tl marks))
  end |}.
Lemma marked_aimplements : aimplements marked_rd marked_aa.
Proof.
  intros [rest marks] b Hwf. cbn [aprd marked_aa prd marked_rd fst snd].
  assert (Hrem : 0 <= rb_remaining b) by (destruct Hwf as (W1 & W2 & W3); unfold rb_remaining, rb_capacity; lia).
  pose proof (zlen_nonneg rest) as Hr.
  assert (Hdata : let k := Z.min (rb_remaining b) (zlen rest) in
     zlen (firstn (Z.to_nat k) rest) <= rb_remaining b /\
     exists b', (AROk (adeliver b (firstn (Z.to_nat k) rest)), (skipn (Z.to_nat k) rest, tl marks)) = (AROk b', (skipn (Z.to_nat k) rest, tl marks)) /\
       rb_filled_bytes b' = rb_filled_bytes b ++ firstn (Z.to_nat k) rest /\ zlen (rb_buf b') = zlen (rb_buf b) /\
       rb_filled b' = rb_filled b + zlen (firstn (Z.to_nat k) rest) /\ rb_wf b').
  { cbv zeta. set (k := Z.min (rb_remaining b) (zlen rest)).
    assert (Hz : zlen (firstn (Z.to_nat k) rest) <= rb_remaining b) by (rewrite zlen_firstn; lia).
    destruct (grows_adeliver b (firstn (Z.to_nat k) rest) Hwf Hz) as (G1 & G2 & G3 & G4).
    split; [exact Hz|]. eexists. split; [reflexivity|]. auto. }
  destruct marks as [|[|] t]; cbn [tl]; [exact Hdata| |exact Hdata].
  exists b. split; [reflexivity|]. split; [reflexivity|]. split; [reflexivity|]. split; [reflexivity|exact Hwf].
Qed.
Lemma marked_aa_source : aa_prefix_source marked_aa fst (fun _ => True).
Proof.
  intros [rest marks] cap _ Hc. cbn [aprd marked_aa fst snd]. pose proof (zlen_nonneg rest) as Hr.
  assert (Hd : let k := Z.min cap (zlen rest) in exists k0, 0 <= k0 <= cap /\ k0 <= zlen rest /\
     firstn (Z.to_nat k) rest = firstn (Z.to_nat k0) rest /\ skipn (Z.to_nat k) rest = skipn (Z.to_nat k0) rest /\ True /\
     (0 < cap -> rest <> [] -> 1 <= k0)).
  { cbv zeta. exists (Z.min cap (zlen rest)). split; [lia|]. split; [lia|]. split; [reflexivity|]. split; [reflexivity|]. split; [exact I|].
    intros H0 Hne. assert (0 < zlen rest) by (destruct rest; [congruence|rewrite zlen_cons; pose proof (zlen_nonneg rest); lia]). lia. }
  destruct marks as [|[|] t]; cbn [tl]; [exact Hd| |exact Hd]. split; [reflexivity|exact I].
Qed.
