(* Facets/Fb.v — per-function contracts ("facets") of the FixedBuf model, by aspect:
   _spec (exact, for queries), _fifo (content), _cap (capacity ledger), _panic (panic contract),
   _frame (what is left untouched).  Primitive functions are proved from their text by
   unfold / case-split / lia; composite ones from the facets of their callees (wp calculus). *)
From FB Require Import Sem.Base Sem.Lemmas Sem.Hoare Model.Fb.
Open Scope Z_scope.

Definition Inv (SIZE : Z) (s : fb) : Prop :=
  0 <= read_index s /\ read_index s <= write_index s /\ write_index s <= SIZE /\
  zlen (mem s) = SIZE /\ SIZE <= usize_max.
Definition unread (s : fb) : list Z := slice (mem s) (read_index s) (write_index s).
Definition len_ (s : fb) : Z := write_index s - read_index s.
Definition wlen (SIZE : Z) (s : fb) : Z := SIZE - write_index s.

(* normal form: an empty buffer sits at offset 0 (established by every constructor, kept by every call) *)
Definition nf (s : fb) : Prop := read_index s = write_index s -> write_index s = 0.
Definition Inv2 (SIZE : Z) (s : fb) : Prop := Inv SIZE s /\ nf s.

Lemma zlen_unread SIZE s : Inv SIZE s -> zlen (unread s) = len_ s.
Proof. intros (H1&H2&H3&H4&H5). unfold unread, len_. apply zlen_slice; lia. Qed.

Ltac munf := unfold wp, read_bytes, wrote, shift, len, is_empty, clear, readable, mem_, writable, mem_copy_within,
  view_of, view_sub, view_copy_from_slice, try_parse,
  get_read_index, get_write_index, get_mem, set_read_index, set_write_index, set_mem,
  uadd, usub, assert_, slice_chk, index_chk, bind, ret, panic, vlen in *;
  cbn [read_index write_index mem v_off v_end] in *.
Ltac brk := repeat match goal with
  | |- context [if ?c then _ else _] => let E := fresh "E" in destruct c eqn:E; cbn [read_index write_index mem v_off v_end andb] in *
  end.
Ltac inv_tac := unfold Inv, unread, len_, wlen, usize_max in *; cbn [read_index write_index mem] in *.

Section F.
Variable SIZE : Z.
Variable chk : bool.

(* ---------------- constructors ---------------- *)
Lemma new_inv : 0 <= SIZE <= usize_max -> Inv SIZE (new SIZE) /\ unread (new SIZE) = [] /\ wlen SIZE (new SIZE) = SIZE.
Proof.
  intros H. unfold new. inv_tac. rewrite zlen_repeat, slice_nil. repeat split; lia.
Qed.
Lemma empty_inv m : zlen m = SIZE -> SIZE <= usize_max -> Inv SIZE (empty m) /\ unread (empty m) = [] /\ wlen SIZE (empty m) = SIZE.
Proof.
  intros H H2. pose proof (zlen_nonneg m). unfold empty. inv_tac. rewrite slice_nil. repeat split; lia.
Qed.
Lemma filled_inv m : zlen m = SIZE -> SIZE <= usize_max -> Inv SIZE (filled SIZE m) /\ unread (filled SIZE m) = m /\ wlen SIZE (filled SIZE m) = 0.
Proof.
  intros H H2. pose proof (zlen_nonneg m). unfold filled. inv_tac. rewrite <- H, slice_full. repeat split; lia.
Qed.

(* ---------------- queries: exact ---------------- *)
Lemma len_spec s : Inv SIZE s -> len chk s = Val (len_ s) s.
Proof. intros (H1&H2&H3&H4&H5). munf. unfold len_. brk; try reflexivity; lia. Qed.
Lemma is_empty_spec s : is_empty s = Val (len_ s =? 0) s.
Proof. munf. unfold len_. f_equal. destruct (write_index s =? read_index s) eqn:E; lia. Qed.
Lemma readable_spec s : Inv SIZE s -> readable s = Val (unread s) s.
Proof. intros (H1&H2&H3&H4&H5). munf. brk; try reflexivity; lia. Qed.
Lemma writable_spec s : Inv SIZE s ->
  writable s = Val {| v_off := write_index s; v_end := SIZE |} s.
Proof. intros (H1&H2&H3&H4&H5). munf. brk; rewrite ?H4; try reflexivity; lia. Qed.

(* ---------------- clear ---------------- *)
Lemma clear_fifo s : Inv SIZE s -> wp clear s (fun _ s' => unread s' = [] /\ Inv SIZE s') (fun _ => False).
Proof. intros (H1&H2&H3&H4&H5). munf. inv_tac. rewrite slice_nil. repeat split; lia. Qed.
Lemma clear_cap s : Inv SIZE s -> wp clear s (fun _ s' => len_ s' = 0 /\ wlen SIZE s' = SIZE) (fun _ => False).
Proof. intros _. munf. inv_tac. lia. Qed.

(* ---------------- read_bytes ---------------- *)
Lemma read_bytes_panic s n : Inv SIZE s -> 0 <= n <= usize_max -> len_ s < n -> read_bytes chk n s = Panic s.
Proof. intros (H1&H2&H3&H4&H5) Hn Hlt. munf. inv_tac. brk; try reflexivity; lia. Qed.
(* exact effect on the three fields when the count is within range *)
Lemma read_bytes_ok s n : Inv SIZE s -> 0 <= n <= len_ s ->
  read_bytes chk n s =
  Val (slice (mem s) (read_index s) (read_index s + n))
      (if read_index s + n =? write_index s
       then {| mem := mem s; read_index := 0; write_index := 0 |}
       else {| mem := mem s; read_index := read_index s + n; write_index := write_index s |}).
Proof. intros (H1&H2&H3&H4&H5) Hn. munf. inv_tac. brk; try reflexivity; lia. Qed.
Lemma read_bytes_fifo s n : Inv SIZE s -> 0 <= n <= len_ s ->
  wp (read_bytes chk n) s
     (fun v s' => v = firstn (Z.to_nat n) (unread s) /\ unread s' = skipn (Z.to_nat n) (unread s) /\ Inv SIZE s')
     (fun _ => False).
Proof.
  intros HI Hn. unfold wp. rewrite (read_bytes_ok s n HI Hn).
  destruct HI as (H1&H2&H3&H4&H5). unfold len_ in Hn.
  unfold unread. rewrite firstn_slice, skipn_slice by lia.
  destruct (read_index s + n =? write_index s) eqn:E; inv_tac.
  - split; [reflexivity|]. split; [|repeat split; lia].
    replace (read_index s + n) with (write_index s) by lia. rewrite !slice_nil. reflexivity.
  - split; [reflexivity|]. split; [reflexivity|repeat split; lia].
Qed.
Lemma read_bytes_cap s n : Inv SIZE s -> 0 <= n <= len_ s ->
  wp (read_bytes chk n) s
     (fun _ s' => len_ s' = len_ s - n /\ wlen SIZE s <= wlen SIZE s' /\ (len_ s' = 0 -> wlen SIZE s' = SIZE))
     (fun _ => False).
Proof.
  intros HI Hn. unfold wp. rewrite (read_bytes_ok s n HI Hn).
  destruct HI as (H1&H2&H3&H4&H5). unfold len_ in Hn.
  destruct (read_index s + n =? write_index s) eqn:E; inv_tac; lia.
Qed.
(* reads never touch mem; indices move forward or rewind to (0,0) exactly when the buffer drains *)
Lemma read_bytes_frame s n : Inv SIZE s -> 0 <= n <= usize_max ->
  wp (read_bytes chk n) s
     (fun _ s' => mem s' = mem s /\
        ((read_index s' = read_index s + n /\ write_index s' = write_index s /\ read_index s + n < write_index s) \/
         (read_index s' = 0 /\ write_index s' = 0 /\ read_index s + n = write_index s)))
     (fun s' => s' = s).
Proof.
  intros HI Hn. destruct (Z_lt_le_dec (len_ s) n) as [Hlt|Hle].
  - unfold wp. rewrite (read_bytes_panic s n HI Hn Hlt). reflexivity.
  - unfold wp. rewrite (read_bytes_ok s n HI ltac:(lia)).
    destruct HI as (H1&H2&H3&H4&H5). unfold len_ in *.
    destruct (read_index s + n =? write_index s) eqn:E; cbn [mem read_index write_index]; split; auto; lia.
Qed.

(* ---------------- wrote ---------------- *)
Lemma wrote_panic s n : Inv SIZE s -> 0 <= n <= usize_max -> wlen SIZE s < n -> wrote chk n s = Panic s.
Proof. intros (H1&H2&H3&H4&H5) Hn Hlt. munf. inv_tac. brk; try reflexivity; lia. Qed.
Lemma wrote_ok s n : Inv SIZE s -> 0 <= n <= wlen SIZE s ->
  wrote chk n s = Val tt {| mem := mem s; read_index := read_index s; write_index := write_index s + n |}.
Proof.
  intros (H1&H2&H3&H4&H5) Hn. munf. inv_tac. brk; try reflexivity; try lia.
  destruct s; cbn in *. f_equal. f_equal. lia.
Qed.
Lemma wrote_fifo s n : Inv SIZE s -> 0 <= n <= wlen SIZE s ->
  wp (wrote chk n) s
     (fun _ s' => unread s' = unread s ++ slice (mem s) (write_index s) (write_index s + n) /\ Inv SIZE s' /\ mem s' = mem s)
     (fun _ => False).
Proof.
  intros HI Hn. unfold wp. rewrite (wrote_ok s n HI Hn).
  destruct HI as (H1&H2&H3&H4&H5). inv_tac.
  split; [apply slice_split; lia|]. split; [repeat split; lia|reflexivity].
Qed.
Lemma wrote_cap s n : Inv SIZE s -> 0 <= n <= wlen SIZE s ->
  wp (wrote chk n) s (fun _ s' => len_ s' = len_ s + n /\ wlen SIZE s' = wlen SIZE s - n) (fun _ => False).
Proof.
  intros HI Hn. unfold wp. rewrite (wrote_ok s n HI Hn). inv_tac. lia.
Qed.

(* ---------------- shift ---------------- *)
Lemma shift_ok s : Inv SIZE s ->
  shift chk s = Val tt (if read_index s =? 0 then s else
     {| mem := splice (mem s) 0 (unread s); read_index := 0; write_index := write_index s - read_index s |}).
Proof.
  intros (H1&H2&H3&H4&H5). munf. inv_tac.
  destruct (read_index s =? 0) eqn:E0; [reflexivity|].
  brk; try reflexivity; lia.
Qed.
Lemma shift_fifo s : Inv SIZE s -> wp (shift chk) s (fun _ s' => unread s' = unread s /\ Inv SIZE s') (fun _ => False).
Proof.
  intros HI. unfold wp. rewrite (shift_ok s HI). pose proof (zlen_unread SIZE s HI) as Hl.
  destruct HI as (H1&H2&H3&H4&H5).
  destruct (read_index s =? 0) eqn:E0; [split; [reflexivity|unfold Inv; repeat split; lia]|].
  unfold len_ in Hl. unfold Inv; cbn [read_index write_index mem]. split.
  - unfold unread at 1. cbn [read_index write_index mem].
    rewrite <- Hl at 1. rewrite <- (Z.add_0_l (zlen _)). apply slice_splice_same; lia.
  - rewrite zlen_splice by lia. repeat split; lia.
Qed.
Lemma shift_cap s : Inv SIZE s ->
  wp (shift chk) s (fun _ s' => len_ s' = len_ s /\ wlen SIZE s' = SIZE - len_ s /\ read_index s' = 0) (fun _ => False).
Proof.
  intros HI. unfold wp. rewrite (shift_ok s HI). destruct HI as (H1&H2&H3&H4&H5).
  destruct (read_index s =? 0) eqn:E0; inv_tac; lia.
Qed.
(* shift is idempotent: restartability of read_frame's loop prefix (C06, C15) *)
Lemma shift_at_zero s : read_index s = 0 -> shift chk s = Val tt s.
Proof. intros H. munf. rewrite H. reflexivity. Qed.
End F.

(* ---------------- the state after consuming n unread bytes ---------------- *)
Definition after_read (s : fb) (n : Z) : fb :=
  if read_index s + n =? write_index s
  then {| mem := mem s; read_index := 0; write_index := 0 |}
  else {| mem := mem s; read_index := read_index s + n; write_index := write_index s |}.

Section F2.
Variable SIZE : Z.
Variable chk : bool.

Lemma read_bytes_ok' s n : Inv SIZE s -> 0 <= n <= len_ s ->
  read_bytes chk n s = Val (firstn (Z.to_nat n) (unread s)) (after_read s n).
Proof.
  intros HI Hn. rewrite (read_bytes_ok SIZE chk s n HI Hn). unfold after_read, unread.
  destruct HI as (H1&H2&H3&H4&H5). unfold len_ in Hn. rewrite firstn_slice by lia. reflexivity.
Qed.
Lemma after_read_facts s n : Inv SIZE s -> 0 <= n <= len_ s ->
  Inv SIZE (after_read s n) /\ unread (after_read s n) = skipn (Z.to_nat n) (unread s) /\
  mem (after_read s n) = mem s /\ len_ (after_read s n) = len_ s - n /\
  wlen SIZE s <= wlen SIZE (after_read s n) /\ (len_ (after_read s n) = 0 -> wlen SIZE (after_read s n) = SIZE).
Proof.
  intros HI Hn. pose proof (read_bytes_fifo SIZE chk s n HI Hn) as Hf.
  pose proof (read_bytes_cap SIZE chk s n HI Hn) as Hc.
  unfold wp in *. rewrite (read_bytes_ok' s n HI Hn) in *.
  destruct Hf as (_ & Hu & Hi'). destruct Hc as (Hl & Hw & Hz).
  split; [exact Hi'|]. split; [exact Hu|]. split; [unfold after_read; destruct (_ =? _); reflexivity|].
  split; [exact Hl|]. split; [exact Hw|exact Hz].
Qed.
Lemma nf_after_read s n : Inv SIZE s -> 0 <= n <= len_ s -> nf (after_read s n).
Proof.
  intros (H1&H2&H3&H4&H5) Hn. unfold nf, after_read, len_ in *.
  destruct (read_index s + n =? write_index s) eqn:E; cbn [read_index write_index]; lia.
Qed.
Lemma after_read_0 s : Inv SIZE s -> 0 < len_ s -> after_read s 0 = s.
Proof.
  intros (H1&H2&H3&H4&H5) Hl. unfold after_read, len_ in *. rewrite Z.add_0_r.
  destruct (read_index s =? write_index s) eqn:E; [lia|]. destruct s; reflexivity.
Qed.

Lemma unread_nonempty s : Inv SIZE s -> 0 < len_ s -> unread s = znth (unread s) 0 :: skipn 1 (unread s).
Proof.
  intros HI Hl. pose proof (zlen_unread SIZE s HI) as Hz.
  destruct (unread s) as [|x t] eqn:E; [rewrite zlen_nil in Hz; lia|reflexivity].
Qed.

(* ---------------- read_byte, try_read_byte, try_read_bytes, read_all ---------------- *)
Lemma read_byte_panic s : Inv SIZE s -> len_ s = 0 -> read_byte chk s = Panic s.
Proof.
  intros HI Hl. unfold read_byte. apply bind_panic. apply (read_bytes_panic SIZE); auto; unfold usize_max; lia.
Qed.
Lemma read_byte_ok s : Inv SIZE s -> 0 < len_ s ->
  read_byte chk s = Val (znth (unread s) 0) (after_read s 1).
Proof.
  intros HI Hl. unfold read_byte. erewrite bind_val by (apply read_bytes_ok'; [exact HI|lia]).
  rewrite (unread_nonempty s HI Hl). cbn [Z.to_nat Pos.to_nat Pos.iter_op Nat.add firstn].
  unfold index_chk, znth, ret. cbn. reflexivity.
Qed.
Lemma try_read_byte_spec s : Inv SIZE s ->
  try_read_byte chk s = if len_ s =? 0 then Val None s else Val (Some (znth (unread s) 0)) (after_read s 1).
Proof.
  intros HI. unfold try_read_byte. rewrite (bind_val _ _ _ _ _ (is_empty_spec s)).
  assert (0 <= len_ s) by (destruct HI as (H1&H2&H3&H4&H5); unfold len_; lia).
  destruct (len_ s =? 0) eqn:E; [reflexivity|].
  erewrite bind_val by (apply read_byte_ok; [exact HI|lia]). reflexivity.
Qed.
Lemma try_read_bytes_spec s n : Inv SIZE s -> 0 <= n ->
  try_read_bytes chk n s = if len_ s <? n then Val None s
                           else Val (Some (firstn (Z.to_nat n) (unread s))) (after_read s n).
Proof.
  intros HI Hn. unfold try_read_bytes. rewrite (bind_val _ _ _ _ _ (len_spec SIZE chk s HI)).
  destruct (len_ s <? n) eqn:E; [reflexivity|].
  erewrite bind_val by (apply read_bytes_ok'; [exact HI|lia]). reflexivity.
Qed.
Lemma read_all_spec s : Inv SIZE s -> read_all chk s = Val (unread s) (after_read s (len_ s)).
Proof.
  intros HI. unfold read_all. rewrite (bind_val _ _ _ _ _ (len_spec SIZE chk s HI)).
  assert (0 <= len_ s) by (destruct HI as (H1&H2&H3&H4&H5); unfold len_; lia).
  rewrite (read_bytes_ok' s (len_ s) HI ltac:(lia)). f_equal.
  rewrite <- (zlen_unread SIZE s HI). unfold zlen. rewrite Nat2Z.id. apply firstn_all.
Qed.

(* ---------------- read_and_copy_bytes, try_read_exact, io_read ---------------- *)
Definition copy_count (s : fb) (dest : list Z) : Z := Z.min (zlen dest) (len_ s).
Lemma read_and_copy_bytes_spec s dest : Inv SIZE s ->
  read_and_copy_bytes chk dest s =
  if copy_count s dest =? 0 then Val (0, dest) s
  else Val (copy_count s dest, splice dest 0 (firstn (Z.to_nat (copy_count s dest)) (unread s)))
           (after_read s (copy_count s dest)).
Proof.
  intros HI. unfold read_and_copy_bytes, copy_count.
  rewrite (bind_val _ _ _ _ _ (readable_spec SIZE s HI)). rewrite (zlen_unread SIZE s HI).
  assert (0 <= len_ s) by (destruct HI as (H1&H2&H3&H4&H5); unfold len_; lia).
  pose proof (zlen_nonneg dest) as Hd.
  set (k := Z.min (zlen dest) (len_ s)).
  destruct (k =? 0) eqn:E; [reflexivity|].
  assert (Hk : 0 < k <= len_ s /\ k <= zlen dest) by lia.
  unfold slice_chk. rewrite (zlen_unread SIZE s HI).
  replace ((0 <=? k) && (k <=? len_ s)) with true by (symmetry; apply andb_true_iff; lia).
  cbv iota. rewrite bind_ret_l.
  unfold assert_.
  replace ((0 <=? k) && (k <=? zlen dest)) with true by (symmetry; apply andb_true_iff; lia).
  cbv iota. rewrite bind_ret_l.
  rewrite zlen_slice by (try rewrite (zlen_unread SIZE s HI); lia).
  replace (k =? k - 0) with true by lia.
  cbv iota. rewrite bind_ret_l.
  erewrite bind_val by (apply read_bytes_ok'; [exact HI|lia]).
  rewrite slice_0. reflexivity.
Qed.
Lemma try_read_exact_spec s dest : Inv SIZE s ->
  try_read_exact chk dest s =
  if len_ s <? zlen dest then Val (None, dest) s
  else if zlen dest =? 0 then Val (Some tt, dest) s
  else Val (Some tt, splice dest 0 (firstn (Z.to_nat (zlen dest)) (unread s))) (after_read s (zlen dest)).
Proof.
  intros HI. unfold try_read_exact. rewrite (bind_val _ _ _ _ _ (len_spec SIZE chk s HI)).
  destruct (len_ s <? zlen dest) eqn:E; [reflexivity|].
  rewrite (bind_val _ _ _ _ _ (read_and_copy_bytes_spec s dest HI)) || idtac.
  pose proof (read_and_copy_bytes_spec s dest HI) as Hr. unfold copy_count in Hr.
  replace (Z.min (zlen dest) (len_ s)) with (zlen dest) in Hr by lia.
  destruct (zlen dest =? 0) eqn:E0; erewrite bind_val by exact Hr; reflexivity.
Qed.
Lemma io_read_spec s buf : Inv SIZE s ->
  io_read chk buf s =
  if copy_count s buf =? 0 then Val (Ok 0, buf) s
  else Val (Ok (copy_count s buf), splice buf 0 (firstn (Z.to_nat (copy_count s buf)) (unread s)))
           (after_read s (copy_count s buf)).
Proof.
  intros HI. unfold io_read. pose proof (read_and_copy_bytes_spec s buf HI) as Hr.
  destruct (copy_count s buf =? 0); erewrite bind_val by exact Hr; reflexivity.
Qed.

(* ---------------- write_bytes, write_str, io_write ---------------- *)
Definition after_write (s : fb) (d : list Z) : fb :=
  {| mem := splice (mem s) (write_index s) d; read_index := read_index s; write_index := write_index s + zlen d |}.
Lemma write_bytes_spec s d : Inv SIZE s ->
  write_bytes chk d s = if wlen SIZE s <? zlen d then Val (Err tt) s else Val (Ok (zlen d)) (after_write s d).
Proof.
  intros HI. unfold write_bytes. rewrite (bind_val _ _ _ _ _ (writable_spec SIZE s HI)).
  unfold vlen; cbn [v_off v_end]. fold (wlen SIZE s).
  destruct (wlen SIZE s <? zlen d) eqn:E; [reflexivity|].
  pose proof (zlen_nonneg d) as Hd. destruct HI as (H1&H2&H3&H4&H5). unfold wlen in *.
  unfold view_sub, vlen; cbn [v_off v_end].
  replace ((0 <=? zlen d) && (zlen d <=? SIZE - write_index s)) with true by (symmetry; apply andb_true_iff; lia).
  cbv iota. rewrite bind_ret_l.
  unfold view_copy_from_slice, vlen; cbn [v_off v_end].
  replace (write_index s + zlen d - (write_index s + 0) =? zlen d) with true by lia.
  rewrite Z.add_0_r.
  set (s1 := {| mem := splice (mem s) (write_index s) d; read_index := read_index s; write_index := write_index s |}).
  assert (HI1 : Inv SIZE s1).
  { unfold Inv, s1; cbn [mem read_index write_index]. rewrite zlen_splice by lia. repeat split; lia. }
  assert (Hw : wrote chk (zlen d) s1 = Val tt (after_write s d)).
  { rewrite (wrote_ok SIZE chk s1 (zlen d) HI1) by (unfold wlen, s1; cbn; lia). reflexivity. }
  unfold bind, get_mem, set_mem. cbn [mem read_index write_index]. fold s1. rewrite Hw. reflexivity.
Qed.
Lemma after_write_facts s d : Inv SIZE s -> zlen d <= wlen SIZE s ->
  Inv SIZE (after_write s d) /\ unread (after_write s d) = unread s ++ d /\
  len_ (after_write s d) = len_ s + zlen d /\ wlen SIZE (after_write s d) = wlen SIZE s - zlen d.
Proof.
  intros (H1&H2&H3&H4&H5) Hd. pose proof (zlen_nonneg d) as Hn. unfold wlen in *.
  unfold after_write, Inv, unread, len_, wlen; cbn [mem read_index write_index].
  rewrite zlen_splice by lia. split; [repeat split; lia|]. split; [|lia].
  rewrite (slice_split _ (read_index s) (write_index s) (write_index s + zlen d)) by (rewrite ?zlen_splice; lia).
  rewrite slice_splice_before by lia. rewrite slice_splice_same by lia. reflexivity.
Qed.
Lemma write_str_spec s d : Inv SIZE s ->
  write_str chk d s = if wlen SIZE s <? zlen d then Val (Err tt) s else Val (Ok tt) (after_write s d).
Proof.
  intros HI. unfold write_str. pose proof (write_bytes_spec s d HI) as Hw.
  destruct (wlen SIZE s <? zlen d); erewrite bind_val by exact Hw; reflexivity.
Qed.
Lemma io_write_spec s d : Inv SIZE s ->
  io_write chk d s = if wlen SIZE s <? zlen d then Val (Err InvalidData) s else Val (Ok (zlen d)) (after_write s d).
Proof.
  intros HI. unfold io_write. pose proof (write_bytes_spec s d HI) as Hw.
  destruct (wlen SIZE s <? zlen d); erewrite bind_val by exact Hw; reflexivity.
Qed.
End F2.
