(* Facets/C14Frames.v — C14 composed with C02 ("so C02 ... hold for them"): the async read_frame, under ANY placement of Pending among the
   reader's polls and ANY cancellation pattern, returns what the chunk-free specification `next` gives on unread ++ unpulled, whenever the
   reader, polled until ready, behaves as an abstract reader AR that is a chunk-schedule transport up to a state map `phi` (the map
   forgets what the transport keeps beside the stream: its Pending marks, for instance). *)
From FB Require Import Sem.Base Sem.Lemmas Sem.ReadBuf Sem.Async Model.Fb Model.TokioAsync Spec.Api Spec.Frames
  Facets.Fb Facets.Fb2 Facets.DfContract Facets.Rf Facets.RfRefine Facets.Frames Facets.Async Facets.C14Blocking Facets.C02 Facets.ARSim.
Open Scope Z_scope.

Theorem async_read_frame_gets_next : forall SIZE chk RS (A : AsyncReader RS) (AR : AReader RS) (phi : RS -> stream_reader) (P : RS -> Prop) df k,
  quiet A -> implements (BR A k) AR -> ar_sim AR stream_ar phi P -> df_contract SIZE df ->
  forall n s rs, Inv2 SIZE s -> P rs -> zlen (sr_rest (phi rs)) < Z.of_nat n ->
  finished (bloop (rf_pre chk df) (rf_await A) (rf_post chk) n k (s, rs)) ->
  forall cancel, exists polls, forall p, (polls <= p)%nat ->
    exists x s' rs' o, arf_drive chk A p cancel df (s, rs) = Ready x (s', rs') /\ out_of (Done x) = Some o /\
      (o, unread s' ++ sr_rest (phi rs')) = next SIZE df (unread s ++ sr_rest (phi rs)) /\ Inv2 SIZE s' /\ P rs'.
Proof.
  intros SIZE chk RS A AR phi P df k Hq HR Hsim Hc n s rs HI Hp Hn Hfin cancel.
  pose proof (contract_in_bounds SIZE df Hc) as Hdf.
  assert (HW : WI SIZE (s, rs)) by exact (proj1 HI).
  destruct (Facets.Async.c14_pending_invisible SIZE chk A df Hdf n k (s, rs) HW Hfin cancel) as (polls & Hpi).
  exists polls. intros p Hle. rewrite (Hpi p Hle).
  rewrite <- (read_frame_is_bloop SIZE chk A df Hdf Hq n k (s, rs) HW Hfin).
  (* the blocking call refines the abstract loop over AR, which is the abstract loop over the chunk-schedule transport *)
  pose proof (read_frame_refines SIZE chk (BR A k) AR df HR Hdf n s rs HI) as Href.
  pose proof (aread_frame_map AR stream_ar phi P Hsim SIZE df n (unread s) rs Hp) as Hmap.
  assert (Hs : 0 <= SIZE) by (destruct HI as [(H1&H2&H3&H4&H5) _]; lia).
  assert (Hu : zlen (unread s) <= SIZE).
  { rewrite (zlen_unread SIZE s (proj1 HI)). destruct HI as [(H1&H2&H3&H4&H5) _]. unfold len_. lia. }
  destruct (aread_frame_spec SIZE df Hs Hc n (unread s) (phi rs) Hu Hn) as (r2 & u2 & st2 & o & Hrun & Ho & Hnext & _).
  unfold sim in Href. unfold maps_to in Hmap.
  destruct (read_frame chk (BR A k) n df (s, rs)) as [r [s' rs']|[s' rs']];
    destruct (aread_frame SIZE AR df n (unread s, rs)) as [ra [ua rsa]|[ua rsa]]; try contradiction.
  - destruct Href as (Er & Eu & Ers & HI'). destruct Hmap as [Em Hp']. subst.
    rewrite Em in Hrun. inversion Hrun; subst.
    destruct r2 as [x|]; [|discriminate].
    exists x, s', rsa, o. cbn [to_out]. auto.
  - rewrite Hmap in Hrun. discriminate.
Qed.

(* the special case of a transport whose whole state is the stream and its chunk schedule *)
Corollary async_read_frame_gets_next_plain : forall SIZE chk (A : AsyncReader stream_reader) df k,
  quiet A -> implements (BR A k) stream_ar -> df_contract SIZE df ->
  forall n s st, Inv2 SIZE s -> zlen (sr_rest st) < Z.of_nat n ->
  finished (bloop (rf_pre chk df) (rf_await A) (rf_post chk) n k (s, st)) ->
  forall cancel, exists polls, forall p, (polls <= p)%nat ->
    exists x s' st' o, arf_drive chk A p cancel df (s, st) = Ready x (s', st') /\ out_of (Done x) = Some o /\
      (o, unread s' ++ sr_rest st') = next SIZE df (unread s ++ sr_rest st) /\ Inv2 SIZE s'.
Proof.
  intros SIZE chk A df k Hq HR Hc n s st HI Hn Hfin cancel.
  assert (Hsim : ar_sim stream_ar stream_ar (fun x => x) (fun _ => True)).
  { intros rs cap _. split; [destruct (ar stream_ar rs cap); reflexivity|exact I]. }
  destruct (async_read_frame_gets_next SIZE chk _ A stream_ar (fun x => x) (fun _ => True) df k Hq HR Hsim Hc n s st HI I Hn Hfin cancel) as (polls & H).
  exists polls. intros p Hle. destruct (H p Hle) as (x & s' & st' & o & H1 & H2 & H3 & H4 & _). exists x, s', st', o. auto.
Qed.
