(* Facets/Escape.v — escape_ascii is the concatenation of escape_default of each byte; printable,
   compositional, decodable (hence injective); the method and Debug forms. *)
From FB Require Import Sem.Base Sem.Lemmas Sem.Hoare Model.Fb Model.Escape Facets.Fb.
Open Scope Z_scope.

Definition is_byte (x : Z) : Prop := 0 <= x < 256.
Definition bytes (l : list Z) : Prop := forall x, In x l -> is_byte x.

Lemma hex_digit_range d : 0 <= d < 16 -> (48 <= hex_digit d <= 57 \/ 97 <= hex_digit d <= 102).
Proof. intros H. unfold hex_digit. destruct (d <? 10) eqn:E; lia. Qed.

Lemma div16 x : is_byte x -> 0 <= x / 16 < 16 /\ 0 <= x mod 16 < 16 /\ x = 16 * (x / 16) + x mod 16.
Proof.
  intros [H1 H2]. split; [split; [apply Z.div_pos; lia|apply Z.div_lt_upper_bound; lia]|].
  split; [apply Z.mod_pos_bound; lia|apply Z.div_mod; lia].
Qed.

(* every escape byte is printable ASCII (0x20..0x7e), in particular < 128 *)
Lemma escape_default_printable x : is_byte x -> forall y, In y (escape_default x) -> 32 <= y <= 126.
Proof.
  intros Hx y Hy. destruct (div16 x Hx) as (D1 & D2 & _).
  pose proof (hex_digit_range _ D1). pose proof (hex_digit_range _ D2).
  unfold escape_default in Hy.
  repeat match type of Hy with In _ (if ?c then _ else _) => destruct c eqn:? end; cbn [In] in Hy;
  repeat match type of Hy with _ \/ _ => destruct Hy as [Hy|Hy] | False => contradiction end; subst; lia.
Qed.
Lemma escape_default_nonempty x : escape_default x <> [].
Proof. unfold escape_default. repeat match goal with |- context [if ?c then _ else _] => destruct c end; discriminate. Qed.
(* printable bytes other than backslash and the quotes are rendered as themselves *)
Lemma escape_default_self x : 32 <= x <= 126 -> x <> 92 -> x <> 39 -> x <> 34 -> escape_default x = [x].
Proof.
  intros. unfold escape_default.
  replace (x =? 9) with false by lia. replace (x =? 13) with false by lia. replace (x =? 10) with false by lia.
  replace (x =? 39) with false by lia. replace (x =? 34) with false by lia. replace (x =? 92) with false by lia.
  replace ((32 <=? x) && (x <=? 126)) with true by (symmetry; apply andb_true_iff; lia). reflexivity.
Qed.

(* ---- the translated loops compute flat_map ---- *)
Lemma inner_loop {S} (e acc : list Z) (s : S) : (forall y, In y e -> y < 128) ->
  for_each e acc (fun result ascii_byte => s_1 <- from_utf8_unwrap_1 ascii_byte ;; ret (result ++ s_1)) s = Val (acc ++ e) s.
Proof.
  revert acc. induction e as [|y e IH]; intros acc Hy; cbn [for_each]; [rewrite app_nil_r; reflexivity|].
  unfold bind at 1, from_utf8_unwrap_1. unfold bind at 1.
  replace (y <? 128) with true by (specialize (Hy y (or_introl eq_refl)); lia). cbn [ret].
  rewrite IH by (intros z Hz; apply Hy; right; exact Hz). rewrite <- app_assoc. reflexivity.
Qed.
Theorem escape_ascii_spec {S} (l : list Z) (s : S) : bytes l -> escape_ascii l s = Val (flat_map escape_default l) s.
Proof.
  unfold escape_ascii. change (flat_map escape_default l) with ([] ++ flat_map escape_default l).
  generalize (@nil Z) as acc. induction l as [|x t IH]; intros acc Hb; cbn [for_each flat_map]; [rewrite app_nil_r; reflexivity|].
  unfold bind at 1. rewrite inner_loop.
  - rewrite IH by (intros z Hz; apply Hb; right; exact Hz). rewrite app_assoc. reflexivity.
  - intros y Hy. pose proof (escape_default_printable x (Hb x (or_introl eq_refl)) y Hy). lia.
Qed.

(* ---- a decoder: the bytes can be recovered, so distinct inputs give distinct outputs ---- *)
Definition unhex (h : Z) : Z := if h <? 58 then h - 48 else h - 87.
Fixpoint unescape (l : list Z) : option (list Z) :=
  match l with
  | [] => Some []
  | b :: t =>
      if b =? 92 then
        match t with
        | [] => None
        | c :: t2 =>
            if c =? 120 then
              match t2 with
              | h1 :: h2 :: t3 => option_map (cons (unhex h1 * 16 + unhex h2)) (unescape t3)
              | _ => None
              end
            else
              let v := if c =? 116 then 9 else if c =? 114 then 13 else if c =? 110 then 10 else c in
              option_map (cons v) (unescape t2)
        end
      else option_map (cons b) (unescape t)
  end.
Lemma unhex_hex d : 0 <= d < 16 -> unhex (hex_digit d) = d.
Proof. intros H. unfold unhex, hex_digit. destruct (d <? 10) eqn:E; [replace (48 + d <? 58) with true by lia|replace (87 + d <? 58) with false by lia]; lia. Qed.
Lemma unescape_one x t : is_byte x -> unescape (escape_default x ++ t) = option_map (cons x) (unescape t).
Proof.
  intros Hx. destruct (div16 x Hx) as (D1 & D2 & D3). unfold escape_default.
  destruct (x =? 9) eqn:E1; [replace x with 9 by lia; reflexivity|].
  destruct (x =? 13) eqn:E2; [replace x with 13 by lia; reflexivity|].
  destruct (x =? 10) eqn:E3; [replace x with 10 by lia; reflexivity|].
  destruct (x =? 39) eqn:E4; [replace x with 39 by lia; reflexivity|].
  destruct (x =? 34) eqn:E5; [replace x with 34 by lia; reflexivity|].
  destruct (x =? 92) eqn:E6; [replace x with 92 by lia; reflexivity|].
  destruct ((32 <=? x) && (x <=? 126)) eqn:E7.
  - cbn [app unescape]. rewrite E6. reflexivity.
  - cbn [app unescape]. replace (92 =? 92) with true by reflexivity. replace (120 =? 120) with true by reflexivity.
    rewrite !unhex_hex by lia. f_equal. f_equal. lia.
Qed.
Theorem unescape_escape l : bytes l -> unescape (flat_map escape_default l) = Some l.
Proof.
  induction l as [|x t IH]; intros Hb; cbn [flat_map]; [reflexivity|].
  rewrite unescape_one by (apply Hb; left; reflexivity).
  rewrite IH by (intros z Hz; apply Hb; right; exact Hz). reflexivity.
Qed.
Theorem escape_injective a b : bytes a -> bytes b -> flat_map escape_default a = flat_map escape_default b -> a = b.
Proof.
  intros Ha Hb H. pose proof (unescape_escape a Ha) as Ua. rewrite H, (unescape_escape b Hb) in Ua. congruence.
Qed.
Theorem escape_app a b : flat_map escape_default (a ++ b) = flat_map escape_default a ++ flat_map escape_default b.
Proof. apply flat_map_app. Qed.
Theorem escape_printable l : bytes l -> forall y, In y (flat_map escape_default l) -> 32 <= y <= 126.
Proof.
  intros Hb y Hy. apply in_flat_map in Hy. destruct Hy as (x & Hx & Hy). exact (escape_default_printable x (Hb x Hx) y Hy).
Qed.

(* ---- method and Debug forms ---- *)
Section FBFORMS.
Variable SIZE : Z.
Variable chk : bool.
Theorem fb_escape_ascii_spec s : Inv SIZE s -> bytes (unread s) ->
  fb_escape_ascii s = Val (flat_map escape_default (unread s)) s.
Proof.
  intros HI Hb. unfold fb_escape_ascii. rewrite (bind_val _ _ _ _ _ (readable_spec SIZE s HI)). apply escape_ascii_spec. exact Hb.
Qed.
Theorem debug_fmt_spec s : Inv SIZE s -> bytes (unread s) ->
  debug_fmt SIZE chk s =
  Val ([70;105;120;101;100;66;117;102;60] ++ dec SIZE ++ [62;123] ++ dec (wlen SIZE s) ++
       [32;119;114;105;116;97;98;108;101;44;32] ++ dec (len_ s) ++
       [32;114;101;97;100;97;98;108;101;58;32;34] ++ flat_map escape_default (unread s) ++ [34;125]) s.
Proof.
  intros HI Hb. unfold debug_fmt, get_write_index. unfold bind at 1.
  pose proof HI as (H1&H2&H3&H4&H5).
  unfold usub. replace (write_index s <=? SIZE) with true by lia. unfold bind at 1, ret at 1.
  rewrite (bind_val _ _ _ _ _ (len_spec SIZE chk s HI)).
  rewrite (bind_val _ _ _ _ _ (fb_escape_ascii_spec s HI Hb)). reflexivity.
Qed.
End FBFORMS.
