(* Facets/Adapters.v — ReadWriteChain / ReadWriteTake against the std reference machines; bounds, charging,
   write pass-through.  Every statement is for arbitrary inner objects (Section variables). *)
From FB Require Import Sem.Base Sem.Lemmas Model.Adapters Spec.StdAdapters.
Open Scope Z_scope.

Section CHAIN.
Context {R1S RWS : Type}.
Variable R1 : Reader R1S.
Variable R2 : Reader RWS.
Variable W2 : Writer RWS.

(* simulation relation: reader is Some <-> !done_first, same inner objects *)
Definition abs_chain (w : @cw R1S RWS) : @sc R1S RWS :=
  {| sc_done_first := negb (c_has w); sc_first := c_first w; sc_second := c_rw w |}.
Definition map_res {S T A} (f : S -> T) (r : res S A) : res T A :=
  match r with Val a s => Val a (f s) | Panic s => Panic (f s) end.

(* call for call, for every destination (length 0 included): same result, same destination bytes, same calls on the same
   inner reader with the same argument, and the relation is kept *)
Theorem chain_sim buf w : map_res abs_chain (chain_read R1 R2 buf w) = std_chain_read R1 R2 buf (abs_chain w).
Proof.
  unfold chain_read, std_chain_read, abs_chain. unfold bind at 1. unfold bind at 1. unfold get_reader_is_some. cbn [sc_done_first sc_first sc_second].
  destruct (c_has w) eqn:Eh; cbn [negb].
  - unfold bind at 1. unfold call_reader_read.
    destruct (rd R1 (c_first w) buf) as [[d' n|k|] r'] eqn:E1; cbn [map_res fst snd]; cbv zeta; try (rewrite Eh; reflexivity).
    rewrite zlen_fit.
    destruct ((n =? 0) && negb (zlen buf =? 0)) eqn:Ec.
    + unfold bind at 1. unfold set_reader_none. cbn [c_has c_first c_rw ret]. unfold call_rw_read. cbn [c_has c_first c_rw].
      destruct (rd R2 (c_rw w) (fit d' buf)) as [[d2 n2|k2|] r2]; reflexivity.
    + cbn [ret map_res c_has c_first c_rw]. rewrite Eh. reflexivity.
  - cbn [ret]. unfold call_rw_read.
    destruct (rd R2 (c_rw w) buf) as [[d2 n2|k2|] r2]; cbn [map_res c_has c_first c_rw]; rewrite Eh; reflexivity.
Qed.

(* the corollaries the property names *)
Theorem chain_second_waits buf w : c_has w = true ->
  match rd R1 (c_first w) buf with
  | (ROk _ n, _) => (n <> 0 \/ zlen buf = 0) -> c_rw (state_of (chain_read R1 R2 buf w)) = c_rw w /\ c_has (state_of (chain_read R1 R2 buf w)) = true
  | (RErr _, _) => c_rw (state_of (chain_read R1 R2 buf w)) = c_rw w /\ c_has (state_of (chain_read R1 R2 buf w)) = true
  | _ => True
  end.
Proof.
  intros Hh. unfold chain_read, bind, get_reader_is_some, call_reader_read. rewrite Hh.
  destruct (rd R1 (c_first w) buf) as [[d' n|k|] r'] eqn:E1; [|cbn; auto|exact I].
  - intros Hn. cbn [fst snd]. cbv zeta. rewrite zlen_fit. replace ((n =? 0) && negb (zlen buf =? 0)) with false; [cbn; auto|].
    destruct Hn as [Hn|Hn]; [replace (n =? 0) with false by lia; reflexivity|rewrite Hn; cbn; symmetry; apply andb_false_r].
Qed.
Theorem chain_first_never_again buf w : c_has w = false ->
  c_first (state_of (chain_read R1 R2 buf w)) = c_first w /\ c_has (state_of (chain_read R1 R2 buf w)) = false.
Proof.
  intros Hh. unfold chain_read, bind, get_reader_is_some, call_rw_read. rewrite Hh. cbn [ret].
  destruct (rd R2 (c_rw w) buf) as [[d2 n2|k2|] r2]; cbn; auto.
Qed.

(* writes: exactly one inner call of the same kind with the same bytes, result unchanged, first reader untouched *)
Theorem chain_write_forward buf (w : @cw R1S RWS) :
  chain_write (R1S := R1S) W2 buf w =
  match wr W2 (c_rw w) buf with
  | (WOk n, r') => Val (Ok n) {| c_has := c_has w; c_first := c_first w; c_rw := r' |}
  | (WErr k, r') => Val (Err k) {| c_has := c_has w; c_first := c_first w; c_rw := r' |}
  | (WPanic, r') => Panic {| c_has := c_has w; c_first := c_first w; c_rw := r' |}
  end.
Proof. reflexivity. Qed.
Theorem chain_flush_forward (w : @cw R1S RWS) :
  chain_flush (R1S := R1S) W2 w =
  match fl W2 (c_rw w) with
  | (FOk, r') => Val (Ok tt) {| c_has := c_has w; c_first := c_first w; c_rw := r' |}
  | (FErr k, r') => Val (Err k) {| c_has := c_has w; c_first := c_first w; c_rw := r' |}
  | (FPanic, r') => Panic {| c_has := c_has w; c_first := c_first w; c_rw := r' |}
  end.
Proof. reflexivity. Qed.
End CHAIN.

Section TAKE.
Context {RWS : Type}.
Variable chk : bool.
Variable R2 : Reader RWS.
Variable W2 : Writer RWS.

Definition abs_take (w : @tw RWS) : @st RWS := {| st_limit := t_rem w; st_inner := t_rw w |}.

(* exact behaviour of one read *)
Theorem take_read_spec buf w : 0 <= t_rem w ->
  take_read chk R2 buf w =
  if t_rem w =? 0 then Val (Ok 0, buf) w else
  let dest := slice buf 0 (Z.min (t_rem w) (zlen buf)) in
  match rd R2 (t_rw w) dest with
  | (ROk d' n, r') =>
      if n <=? t_rem w then Val (Ok n, splice buf 0 (fit d' dest)) {| t_rem := t_rem w - n; t_rw := r' |}
      else if chk then Panic {| t_rem := t_rem w; t_rw := r' |}
      else Val (Ok n, splice buf 0 (fit d' dest)) {| t_rem := wrap64 (t_rem w - n); t_rw := r' |}
  | (RErr k, r') => Val (Err k, splice buf 0 dest) {| t_rem := t_rem w; t_rw := r' |}
  | (RPanic, r') => Panic {| t_rem := t_rem w; t_rw := r' |}
  end.
Proof.
  intros Hr. unfold take_read. unfold bind at 1. unfold get_remaining_bytes.
  destruct (t_rem w =? 0) eqn:E0; [reflexivity|].
  unfold bind at 1. cbv zeta. pose proof (zlen_nonneg buf) as Hb.
  replace ((0 <=? Z.min (t_rem w) (zlen buf)) && (Z.min (t_rem w) (zlen buf) <=? zlen buf)) with true
    by (symmetry; apply andb_true_iff; lia).
  unfold bind at 1. cbn [assert_ ret]. unfold bind at 1. unfold tcall_rw_read.
  destruct (rd R2 (t_rw w) (slice buf 0 (Z.min (t_rem w) (zlen buf)))) as [[d' n|k|] r']; cbn [fst snd]; try reflexivity.
  unfold bind at 1. cbn [t_rem t_rw]. unfold usub. unfold bind at 1.
  destruct (n <=? t_rem w); [reflexivity|]. destruct chk; reflexivity.
Qed.

(* call for call equal to std::io::Take for every reader honouring the Read contract (count <= offered length) *)
Theorem take_sim buf w : 0 <= t_rem w ->
  (forall dest d' n r', rd R2 (t_rw w) dest = (ROk d' n, r') -> 0 <= n <= zlen dest) ->
  map_res abs_take (take_read chk R2 buf w) = std_take_read R2 buf (abs_take w).
Proof.
  intros Hr Hok. rewrite (take_read_spec buf w Hr). unfold std_take_read, abs_take. cbn [st_limit st_inner].
  destruct (t_rem w =? 0) eqn:E0; [reflexivity|]. cbv zeta. pose proof (zlen_nonneg buf) as Hb.
  rewrite (Z.min_comm (zlen buf) (t_rem w)).
  destruct (rd R2 (t_rw w) (slice buf 0 (Z.min (t_rem w) (zlen buf)))) as [[d' n|k|] r'] eqn:Er; try reflexivity.
  specialize (Hok _ _ _ _ Er). rewrite zlen_slice in Hok by lia.
  replace (n <=? t_rem w) with true by lia. reflexivity.
Qed.

(* the facets the property names *)
Theorem take_exhausted_silent buf w : t_rem w = 0 -> take_read chk R2 buf w = Val (Ok 0, buf) w.
Proof. intros H. unfold take_read, bind, get_remaining_bytes. rewrite H. reflexivity. Qed.
Theorem take_request_bound buf w : 0 < t_rem w ->
  exists dest, dest = slice buf 0 (Z.min (t_rem w) (zlen buf)) /\ zlen dest = Z.min (t_rem w) (zlen buf) /\
    (* inner is called exactly once, with exactly this destination *)
    t_rw (state_of (take_read chk R2 buf w)) = snd (rd R2 (t_rw w) dest).
Proof.
  intros Hr. eexists. split; [reflexivity|]. pose proof (zlen_nonneg buf) as Hb. split; [rewrite zlen_slice; lia|].
  rewrite (take_read_spec buf w ltac:(lia)). replace (t_rem w =? 0) with false by lia. cbv zeta.
  destruct (rd R2 (t_rw w) _) as [[d' n|k|] r']; cbn [snd]; try reflexivity.
  destruct (n <=? t_rem w); [reflexivity|]. destruct chk; reflexivity.
Qed.
Theorem take_charge buf w : 0 < t_rem w ->
  match rd R2 (t_rw w) (slice buf 0 (Z.min (t_rem w) (zlen buf))) with
  | (ROk _ n, _) => 0 <= n <= t_rem w -> t_rem (state_of (take_read chk R2 buf w)) = t_rem w - n   (* a short read uses up only what it returned *)
  | (RErr _, _) => t_rem (state_of (take_read chk R2 buf w)) = t_rem w                       (* an error uses up nothing *)
  | _ => True
  end.
Proof.
  intros Hr. rewrite (take_read_spec buf w ltac:(lia)). replace (t_rem w =? 0) with false by lia. cbv zeta.
  destruct (rd R2 (t_rw w) _) as [[d' n|k|] r']; auto.
  intros Hn. replace (n <=? t_rem w) with true by lia. reflexivity.
Qed.
(* destination bytes past what inner was offered are not modified *)
Theorem take_dest_suffix_untouched buf w : 0 <= t_rem w ->
  match take_read chk R2 buf w with
  | Val (_, buf') _ => let k := Z.min (t_rem w) (zlen buf) in skipn (Z.to_nat k) buf' = skipn (Z.to_nat k) buf /\ zlen buf' = zlen buf
  | Panic _ => True
  end.
Proof.
  intros Hr. rewrite (take_read_spec buf w Hr). pose proof (zlen_nonneg buf) as Hb.
  destruct (t_rem w =? 0) eqn:E0; [split; reflexivity|]. cbv zeta.
  set (k := Z.min (t_rem w) (zlen buf)). set (dest := slice buf 0 k).
  assert (Hd : zlen dest = k) by (unfold dest; rewrite zlen_slice; lia).
  assert (Hsp : forall x, length x = length dest -> skipn (Z.to_nat k) (splice buf 0 x) = skipn (Z.to_nat k) buf /\ zlen (splice buf 0 x) = zlen buf).
  { intros x Hx. unfold splice. cbn [Z.to_nat firstn app Nat.add].
    assert (length x = Z.to_nat k) by (unfold zlen in Hd; lia).
    split; [rewrite skipn_app; replace (Z.to_nat k - length x)%nat with 0%nat by lia; rewrite skipn_all2 by lia; rewrite H; reflexivity|].
    unfold zlen in *. rewrite app_length, skipn_length. lia. }
  destruct (rd R2 (t_rw w) dest) as [[d' n|kk|] r']; auto.
  - destruct (n <=? t_rem w); [apply Hsp; apply fit_length|]. destruct chk; [exact I|apply Hsp; apply fit_length].
Qed.

Theorem take_write_forward buf (w : @tw RWS) :
  take_write W2 buf w =
  match wr W2 (t_rw w) buf with
  | (WOk n, r') => Val (Ok n) {| t_rem := t_rem w; t_rw := r' |}
  | (WErr k, r') => Val (Err k) {| t_rem := t_rem w; t_rw := r' |}
  | (WPanic, r') => Panic {| t_rem := t_rem w; t_rw := r' |}
  end.
Proof. reflexivity. Qed.
Theorem take_flush_forward (w : @tw RWS) :
  take_flush W2 w =
  match fl W2 (t_rw w) with
  | (FOk, r') => Val (Ok tt) {| t_rem := t_rem w; t_rw := r' |}
  | (FErr k, r') => Val (Err k) {| t_rem := t_rem w; t_rw := r' |}
  | (FPanic, r') => Panic {| t_rem := t_rem w; t_rw := r' |}
  end.
Proof. reflexivity. Qed.
End TAKE.
