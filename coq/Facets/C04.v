(* Facets/C04.v — the panic contract of the FixedBuf API, in both overflow profiles. *)
From FB Require Import Sem.Base Sem.Lemmas Sem.Hoare Model.Fb Model.Script Model.Escape Spec.Api
  Facets.Fb Facets.Fb2 Facets.C01.
Open Scope Z_scope.

Section C04.
Variable SIZE : Z.
Variable chk : bool.

(* exactly the situations in which the documentation allows a panic *)
Definition documented_panic (s : fb) (o : op) : Prop :=
  match o with
  | OReadByte => len_ s = 0
  | OReadBytes n => len_ s < n
  | OWritableWrote _ n => wlen SIZE s < n
  | OCopyOnce ans =>       (* caller-supplied reader panics, or reports more than it was offered *)
      0 < wlen SIZE s /\ (ans (offered SIZE s) = RPanic \/ exists d' n, ans (offered SIZE s) = ROk d' n /\ wlen SIZE s < n)
  | ODeframe df => 0 < len_ s /\ df (unread s) = DPanic          (* caller-supplied deframer panics *)
  | OTryParse body some => is_panic (closure chk body some s) = true   (* the closure itself panics *)
  | _ => False
  end.

Ltac sim := cbn [state_of lift fst snd is_panic].
Ltac rsplit := repeat match goal with |- _ /\ _ => split end.

Lemma escape_no_panic (l : list Z) (s : fb) : (forall x, In x l -> 0 <= x < 256) -> is_panic (escape_ascii l s) = false.
Proof.
  unfold escape_ascii. generalize (@nil Z) as acc. induction l as [|x t IH]; intros acc Hb; [reflexivity|].
  cbn [for_each]. unfold bind at 1.
  assert (Hin : forall (e : list Z) acc0, (forall y, In y e -> y < 128) -> exists v, for_each e acc0 (fun result ascii_byte =>
       s_1 <- from_utf8_unwrap_1 ascii_byte ;; ret (result ++ s_1)) s = Val v s).
  { induction e as [|y e IHe]; intros acc0 Hy; [eexists; reflexivity|]. cbn [for_each]. unfold bind at 1, from_utf8_unwrap_1.
    unfold bind at 1. replace (y <? 128) with true by (specialize (Hy y (or_introl eq_refl)); lia).
    cbn. apply IHe. intros z Hz. apply Hy. right. exact Hz. }
  assert (Hesc : forall y, In y (escape_default x) -> y < 128).
  { specialize (Hb x (or_introl eq_refl)). unfold escape_default, hex_digit.
    intros y Hy.
    repeat match type of Hy with
           | In _ (if ?c then _ else _) => destruct c eqn:?
           end; cbn [In] in Hy;
    repeat match type of Hy with _ \/ _ => destruct Hy as [Hy|Hy] | False => contradiction end; subst; try lia.
    - assert (0 <= x / 16 < 16) by (split; [apply Z.div_pos; lia|apply Z.div_lt_upper_bound; lia]).
      destruct (x / 16 <? 10); lia.
    - assert (0 <= x mod 16 < 16) by (apply Z.mod_pos_bound; lia).
      destruct (x mod 16 <? 10); lia. }
  destruct (Hin (escape_default x) acc Hesc) as (v & Hv). rewrite Hv. apply IH. intros z Hz. apply Hb. right. exact Hz.
Qed.

Definition text_op (o : op) : Prop := match o with OEscapeAscii | ODebug => True | _ => False end.

Theorem c04_step s o : Inv SIZE s -> args_ok o -> ~ text_op o ->
  (is_panic (step SIZE chk s o) = true <-> documented_panic s o) /\
  (is_panic (step SIZE chk s o) = true ->
     let s' := state_of (step SIZE chk s o) in
     Inv SIZE s' /\ len_ s' <= len_ s /\ wlen SIZE s <= wlen SIZE s' /\
     match o with
     | OReadByte | OReadBytes _ | ODeframe _ => s' = s                       (* nothing at all changed *)
     | OTryParse _ _ => exists k, unread s' = skipn k (unread s)             (* what the closure had consumed *)
     | _ => unread s' = unread s /\ len_ s' = len_ s /\ wlen SIZE s' = wlen SIZE s  (* observably unchanged *)
     end).
Proof.
  intros HI Ha Ht. pose proof (len_nonneg SIZE s HI) as Hl.
  destruct o; cbn [step args_ok documented_panic text_op] in *; try tauto.
  - rewrite (lift_val _ _ _ _ (len_spec SIZE chk s HI)). sim. split; [split; [discriminate|tauto]|discriminate].
  - rewrite (lift_val _ _ _ _ (is_empty_spec s)). sim. split; [split; [discriminate|tauto]|discriminate].
  - rewrite (lift_val _ _ _ _ (readable_spec SIZE s HI)). sim. split; [split; [discriminate|tauto]|discriminate].
  - unfold mem_, get_mem. sim. split; [split; [discriminate|tauto]|discriminate].
  - unfold clear, set_read_index, set_write_index, bind. sim. split; [split; [discriminate|tauto]|discriminate].
  - rewrite (lift_val _ _ _ _ (shift_ok SIZE chk s HI)). sim. split; [split; [discriminate|tauto]|discriminate].
  - (* OReadByte *)
    destruct (Z.eq_dec (len_ s) 0) as [E|E].
    + rewrite (lift_panic _ _ _ (read_byte_panic SIZE chk s HI E)). sim. split; [tauto|]. intros _. rsplit; auto; lia.
    + rewrite (lift_val _ _ _ _ (read_byte_ok SIZE chk s HI ltac:(lia))). sim. split; [split; [discriminate|lia]|discriminate].
  - rewrite (try_read_byte_spec SIZE chk s HI). destruct (len_ s =? 0); sim; (split; [split; [discriminate|tauto]|discriminate]).
  - (* OReadBytes *)
    destruct (Z_lt_le_dec (len_ s) n) as [Hlt|Hle].
    + rewrite (lift_panic _ _ _ (read_bytes_panic SIZE chk s n HI Ha Hlt)). sim. split; [tauto|]. intros _. rsplit; auto; lia.
    + rewrite (lift_val _ _ _ _ (read_bytes_ok' SIZE chk s n HI ltac:(lia))). sim. split; [split; [discriminate|lia]|discriminate].
  - rewrite (try_read_bytes_spec SIZE chk s n HI ltac:(lia)). destruct (len_ s <? n); sim; (split; [split; [discriminate|tauto]|discriminate]).
  - rewrite (lift_val _ _ _ _ (read_all_spec SIZE chk s HI)). sim. split; [split; [discriminate|tauto]|discriminate].
  - rewrite (read_and_copy_bytes_spec SIZE chk s dest HI). destruct (copy_count s dest =? 0); sim; (split; [split; [discriminate|tauto]|discriminate]).
  - rewrite (try_read_exact_spec SIZE chk s dest HI). destruct (len_ s <? zlen dest); [|destruct (zlen dest =? 0)]; sim; (split; [split; [discriminate|tauto]|discriminate]).
  - rewrite (io_read_spec SIZE chk s dest HI). destruct (copy_count s dest =? 0); sim; (split; [split; [discriminate|tauto]|discriminate]).
  - rewrite (write_bytes_spec SIZE chk s d HI). destruct (wlen SIZE s <? zlen d); sim; (split; [split; [discriminate|tauto]|discriminate]).
  - rewrite (write_str_spec SIZE chk s d HI). destruct (wlen SIZE s <? zlen d); sim; (split; [split; [discriminate|tauto]|discriminate]).
  - rewrite (io_write_spec SIZE chk s d HI). destruct (wlen SIZE s <? zlen d); sim; (split; [split; [discriminate|tauto]|discriminate]).
  - unfold io_flush, ret. sim. split; [split; [discriminate|tauto]|discriminate].
  - (* OWritableWrote *)
    rewrite (scribble_then_wrote_spec SIZE chk s scribble n HI Ha).
    destruct (scribbled_facts SIZE s scribble HI) as (I1 & U1 & W1 & L1).
    destruct (wlen SIZE s <? n) eqn:E; sim.
    + split; [split; [lia|reflexivity]|]. intros _. rsplit; auto; lia.
    + split; [split; [discriminate|lia]|discriminate].
  - (* OCopyOnce *)
    rewrite (copy_once_from_spec SIZE chk s ans HI).
    pose proof HI as (H1&H2&H3&H4&H5).
    destruct (wlen SIZE s =? 0) eqn:E; sim.
    { split; [split; [discriminate|intros [Hw _]; lia]|discriminate]. }
    assert (0 < wlen SIZE s) by (unfold wlen in *; lia).
    destruct (ans (offered SIZE s)) as [d' n|k|] eqn:Ea; sim.
    + destruct (after_fill_facts SIZE s d' HI) as (I1 & U1 & W1 & L1 & O1). specialize (Ha _ _ _ Ea).
      destruct (Z_lt_le_dec (wlen SIZE s) n) as [Hlt|Hle].
      * rewrite (wrote_panic SIZE chk _ n I1 Ha ltac:(lia)). sim.
        split; [split; [intros _; split; [lia|right; eauto]|reflexivity]|]. intros _. rsplit; auto; lia.
      * rewrite (wrote_ok SIZE chk _ n I1 ltac:(lia)). sim.
        split; [split; [discriminate|]|discriminate].
        intros [_ [Hp|(d2 & n2 & Hp & Hn2)]]; [discriminate|]. inversion Hp; subst. lia.
    + split; [split; [discriminate|]|discriminate]. intros [_ [Hp|(d2 & n2 & Hp & _)]]; discriminate.
    + split; [split; [intros _; split; [lia|left; reflexivity]|reflexivity]|]. intros _. rsplit; auto; lia.
  - (* ODeframe *)
    rewrite (deframe_spec SIZE chk s df HI (Ha _)).
    destruct (len_ s =? 0) eqn:E; sim.
    { split; [split; [discriminate|intros [Hw _]; lia]|discriminate]. }
    destruct (df (unread s)) as [|a b n| |] eqn:Ed; sim.
    + split; [split; [discriminate|intros [_ Hp]; discriminate]|discriminate].
    + split; [split; [discriminate|intros [_ Hp]; discriminate]|discriminate].
    + split; [split; [discriminate|intros [_ Hp]; discriminate]|discriminate].
    + split; [split; [intros _; split; [lia|reflexivity]|reflexivity]|]. intros _. rsplit; auto; lia.
  - (* OTryParse *)
    pose proof (try_parse_script_spec SIZE chk body some s HI) as Hp.
    rewrite try_parse_spec in *.
    destruct (closure chk body some s) as [[log|] s'|s'] eqn:Ec; sim.
    + split; [split; [discriminate|discriminate]|discriminate].
    + split; [split; [discriminate|discriminate]|discriminate].
    + split; [tauto|]. intros _. destruct Hp as (I' & _ & k & Hk & Hu & Hl' & Hw' & _).
      rsplit; auto; try lia. exists (Z.to_nat k). exact Hu.
Qed.

(* the two String-producing helpers never panic on bytes *)
Theorem c04_text_no_panic s : Inv SIZE s -> (forall x, In x (unread s) -> 0 <= x < 256) ->
  is_panic (step SIZE chk s OEscapeAscii) = false /\ is_panic (step SIZE chk s ODebug) = false.
Proof.
  intros HI Hb. cbn [step].
  assert (He : is_panic (fb_escape_ascii s) = false).
  { unfold fb_escape_ascii. rewrite (bind_val _ _ _ _ _ (readable_spec SIZE s HI)). apply escape_no_panic. exact Hb. }
  split.
  - destruct (fb_escape_ascii s); cbn in *; congruence.
  - unfold debug_fmt, get_write_index. unfold bind at 1.
    pose proof HI as (H1&H2&H3&H4&H5).
    unfold usub. replace (write_index s <=? SIZE) with true by lia. unfold bind at 1, ret at 1.
    rewrite (bind_val _ _ _ _ _ (len_spec SIZE chk s HI)).
    unfold bind at 1. destruct (fb_escape_ascii s); cbn in *; congruence.
Qed.
End C04.
