(* Facets/Streams.v — stream-level statements for the two blocking adapters, for ANY inner readers of the "prefix source" kind
   (a reader that delivers a fixed remaining sequence in order, makes progress on a non-empty destination, and never fails:
   Cursor, &[u8], a socket seen as a chunk schedule, a FixedBuf, another chain ...):
     * ReadWriteChain(first, second) is again a prefix source, of  remaining(first) ++ remaining(second)      [C08, stream level]
     * hence (Facets/C07.drain_spec) reading ReadWriteTake(ReadWriteChain(first, second), n) with ANY schedule of destination
       lengths, zero included, delivers exactly the first min(n, total) bytes of first ++ second, and leaves the rest  [C08+C09]
   The call-level theorems (equality with std::io::Chain / Take for arbitrary readers) are in Facets/Adapters.v. *)
From FB Require Import Sem.Base Sem.Lemmas Model.Adapters Model.Serve Facets.C07.
Open Scope Z_scope.

Definition prefix_source {S} (Src : Reader S) (rem : S -> list Z) (okS : S -> Prop) : Prop :=
  forall s dest, okS s ->
  exists d' k s', rd Src s dest = (ROk d' k, s') /\ 0 <= k <= zlen dest /\ k <= zlen (rem s) /\
    firstn (Z.to_nat k) (fit d' dest) = firstn (Z.to_nat k) (rem s) /\ rem s' = skipn (Z.to_nat k) (rem s) /\ okS s' /\
    (0 < zlen dest -> rem s <> [] -> 1 <= k).

Section CHAIN2.
Context {S1 S2 : Type}.
Variable Src1 : Reader S1.
Variable rem1 : S1 -> list Z.
Variable ok1 : S1 -> Prop.
Variable Src2 : Reader S2.
Variable rem2 : S2 -> list Z.
Variable ok2 : S2 -> Prop.
Hypothesis H1 : prefix_source Src1 rem1 ok1.
Hypothesis H2 : prefix_source Src2 rem2 ok2.

Notation CW := (@cw S1 S2).
(* impl Read for ReadWriteChain, seen as a reader (to be wrapped by a take, or by another chain) *)
Definition CH2 : Reader CW := {| rd := fun w dest =>
  match chain_read Src1 Src2 dest w with
  | Val (Ok n, d') w' => (ROk d' n, w')
  | Val (Err k, _) w' => (RErr k, w')
  | Panic w' => (RPanic, w')
  end |}.
Definition rem_ch (w : CW) : list Z := (if c_has w then rem1 (c_first w) else []) ++ rem2 (c_rw w).
Definition ok_ch (w : CW) : Prop := (c_has w = true -> ok1 (c_first w)) /\ ok2 (c_rw w).

Lemma firstn_app_le {A} (a b : list A) n : (n <= length a)%nat -> firstn n (a ++ b) = firstn n a.
Proof. intros H. rewrite firstn_app. replace (n - length a)%nat with 0%nat by lia. cbn [firstn]. apply app_nil_r. Qed.
Lemma skipn_app_le {A} (a b : list A) n : (n <= length a)%nat -> skipn n (a ++ b) = skipn n a ++ b.
Proof. intros H. rewrite skipn_app. replace (n - length a)%nat with 0%nat by lia. reflexivity. Qed.

Theorem chain_prefix_source : prefix_source CH2 rem_ch ok_ch.
Proof.
  intros w dest [Ho1 Ho2]. pose proof (zlen_nonneg dest) as Hdn.
  cbn [rd CH2]. unfold chain_read. unfold bind at 1. unfold bind at 1. unfold get_reader_is_some, rem_ch.
  destruct (c_has w) eqn:Eh.
  - (* the first reader is still there *)
    destruct (H1 (c_first w) dest (Ho1 eq_refl)) as (d1 & k & s1 & Hr & Hk & Hkr & Hp & Hrem & Hok & Hprog).
    unfold bind at 1. unfold call_reader_read. rewrite Hr. cbn [fst snd]. rewrite zlen_fit.
    destruct ((k =? 0) && negb (zlen dest =? 0)) eqn:Esw.
    + (* it reported end-of-stream on a non-empty destination: it is dropped, the same destination goes to the second *)
      assert (Hk0 : k = 0) by (destruct (k =? 0) eqn:X; [lia|discriminate]).
      assert (Hd0 : 0 < zlen dest) by (destruct (zlen dest =? 0) eqn:X; [rewrite andb_false_r in Esw; discriminate|lia]).
      assert (He : rem1 (c_first w) = []).
      { destruct (rem1 (c_first w)) as [|x t] eqn:Er; [reflexivity|]. exfalso.
        assert (1 <= k) by (apply Hprog; [lia|discriminate]). lia. }
      unfold bind at 1. unfold set_reader_none, ret. cbv beta iota. cbn [c_has c_first c_rw].
      unfold call_rw_read. cbn [c_has c_first c_rw].
      destruct (H2 (c_rw w) (fit d1 dest) Ho2) as (d2 & k2 & s2 & Hr2 & Hk2 & Hkr2 & Hp2 & Hrem2 & Hok2 & Hprog2).
      rewrite Hr2. rewrite zlen_fit in *.
      exists (fit d2 (fit d1 dest)), k2, {| c_has := false; c_first := s1; c_rw := s2 |}.
      rewrite He. cbn [app c_has c_first c_rw].
      split; [reflexivity|]. split; [lia|]. split; [lia|].
      split; [rewrite (fit_same_length (fit d2 (fit d1 dest)) dest) by (rewrite !fit_length; reflexivity); exact Hp2|].
      split; [exact Hrem2|]. split; [split; [discriminate|exact Hok2]|].
      intros _ Hne. apply Hprog2; [lia|exact Hne].
    + (* k bytes from the first (possibly 0 into an empty destination) *)
      unfold ret. cbv beta iota.
      exists (fit d1 dest), k, {| c_has := c_has w; c_first := s1; c_rw := c_rw w |}.
      rewrite Eh. cbn [c_has c_first c_rw].
      assert (Hkn : (Z.to_nat k <= length (rem1 (c_first w)))%nat) by (unfold zlen in Hkr; lia).
      split; [reflexivity|]. split; [lia|]. split; [rewrite zlen_app; pose proof (zlen_nonneg (rem2 (c_rw w))); lia|].
      split; [rewrite (fit_same_length (fit d1 dest) dest) by apply fit_length; rewrite firstn_app_le by exact Hkn; exact Hp|].
      split; [rewrite Hrem, skipn_app_le by exact Hkn; reflexivity|].
      split; [split; [intros _; exact Hok|exact Ho2]|].
      intros Hd0 _. destruct (k =? 0) eqn:X; [|lia].
      replace (zlen dest =? 0) with false in Esw by lia. cbn in Esw. discriminate.
  - (* the first reader has been dropped: the second alone *)
    unfold ret. cbv beta iota. unfold call_rw_read.
    destruct (H2 (c_rw w) dest Ho2) as (d2 & k2 & s2 & Hr2 & Hk2 & Hkr2 & Hp2 & Hrem2 & Hok2 & Hprog2).
    rewrite Hr2. exists (fit d2 dest), k2, {| c_has := c_has w; c_first := c_first w; c_rw := s2 |}.
    rewrite Eh. cbn [app c_has c_first c_rw].
    split; [reflexivity|]. split; [lia|]. split; [lia|].
    split; [rewrite (fit_same_length (fit d2 dest) dest) by apply fit_length; exact Hp2|].
    split; [exact Hrem2|]. split; [split; [discriminate|exact Hok2]|exact Hprog2].
Qed.

(* all of first, then all of second, cut at the limit: for every schedule of destination lengths (0 allowed anywhere) *)
Theorem take_chain_stream : forall chk fuel dests n (s1 : S1) (s2 : S2), ok1 s1 -> ok2 s2 -> 0 <= n ->
  Forall (fun d => 0 <= d) dests ->
  let all := rem1 s1 ++ rem2 s2 in
  let n' := Z.min n (zlen all) in
  (length dests + Z.to_nat n' + 2 <= fuel)%nat ->
  exists tk, drain_gen chk CH2 fuel dests [] (take_new (chain_new s1 s2) n) = (firstn (Z.to_nat n') all, DrOk, tk) /\
    rem_ch (t_rw tk) = skipn (Z.to_nat n') all /\ t_rem tk = n - n' /\ ok_ch (t_rw tk).
Proof.
  intros chk fuel dests n s1 s2 Ho1 Ho2 Hn Hd all n' Hfuel.
  exact (drain_spec chk CH2 rem_ch ok_ch chain_prefix_source fuel dests [] (take_new (chain_new s1 s2) n)
           (conj (fun _ => Ho1) Ho2) Hn Hd Hfuel).
Qed.
End CHAIN2.

(* the simplest prefix source: a byte list read front to back (std::io::Cursor / &[u8]) *)
Definition list_rd : Reader (list Z) := {| rd := fun rest dest =>
  let k := Z.min (zlen dest) (zlen rest) in
  (ROk (firstn (Z.to_nat k) rest ++ skipn (Z.to_nat k) dest) k, skipn (Z.to_nat k) rest) |}.
Lemma list_rd_source : prefix_source list_rd (fun rest => rest) (fun _ => True).
Proof.
  intros rest dest _. pose proof (zlen_nonneg dest) as Hd. pose proof (zlen_nonneg rest) as Hr. cbn [rd list_rd].
  set (k := Z.min (zlen dest) (zlen rest)).
  eexists _, k, _. split; [reflexivity|]. split; [lia|]. split; [lia|].
  assert (Hkl : length (firstn (Z.to_nat k) rest) = Z.to_nat k) by (rewrite firstn_length; unfold zlen in *; lia).
  split; [|split; [reflexivity|split; [exact I|]]].
  - rewrite fit_same_length.
    + rewrite firstn_app, Hkl, Nat.sub_diag. cbn [firstn]. rewrite app_nil_r. rewrite firstn_firstn, Nat.min_id. reflexivity.
    + rewrite app_length, Hkl, skipn_length. unfold zlen in *. lia.
  - intros H0 Hne. assert (0 < zlen rest) by (destruct rest; [congruence|rewrite zlen_cons; pose proof (zlen_nonneg rest); lia]). lia.
Qed.

(* chains nest: a chain of a chain of lists is the concatenation of the three *)
Example nested_chain_ex :
  let inner := CH2 list_rd list_rd in
  fst (fst (drain_gen true (CH2 inner list_rd) 40 [0; 2; 0; 3; 1] []
              (take_new (chain_new (chain_new [1; 2; 3] [4]) [5; 6; 7; 8]) 7))) = [1; 2; 3; 4; 5; 6; 7].
Proof. vm_compute. reflexivity. Qed.
