(* Facets/C14Blocking.v — the blocking side of C14 is the translated BLOCKING read_frame itself:
   for the std::io::Read implementation obtained from an AsyncRead by polling it until it is ready (patience k),
   `read_frame chk (BR k) n df` computes exactly the generic blocking loop `bloop` of Sem/Async.v that `pending_invisible`
   compares the async fn with.  Hence: async read_frame under any Pending placement / cancellation = blocking read_frame.
   Hypothesis `quiet`: a poll that delivers no data (Pending or Err) leaves the caller's buffer as it found it — a blocking
   reader has no way to hand back bytes it scribbled before failing, so for readers that do scribble the two sides agree on
   everything except bytes outside the unread region; the harness (ARF family) covers those. *)
From FB Require Import Sem.Base Sem.Lemmas Sem.Hoare Sem.ReadBuf Sem.Async Model.Fb Model.TokioAsync Spec.Api
  Facets.Fb Facets.Fb2 Facets.Rf Facets.Async.
Open Scope Z_scope.

Section BL.
Variable SIZE : Z.
Variable chk : bool.
Context {RS : Type}.
Variable A : AsyncReader RS.
Variable df : list Z -> dres.
Hypothesis Hdf : forall u, zlen u <= SIZE -> df_in_bounds df u.

Definition quiet : Prop := forall rs b,
  match prd A rs b with
  | (ARErr _ b', _) => rb_buf b' = rb_buf b
  | (ARPending b', _) => rb_buf b' = rb_buf b
  | _ => True
  end.
Hypothesis Hq : quiet.

(* the blocking reader: poll the async reader with a fresh ReadBuf over the destination until it is ready *)
Fixpoint br_poll (k : nat) (rs : RS) (dest : list Z) : rd_res * RS :=
  match prd A rs (rb_new dest) with
  | (AROk b', rs') => (ROk (fit (rb_buf b') dest) (zlen (rb_filled_bytes b')), rs')
  | (ARErr e _, rs') => (RErr e, rs')
  | (ARPending _, rs') => match k with O => (RErr WouldBlock, rs') | S k' => br_poll k' rs' dest end
  | (ARPanic, rs') => (RPanic, rs')
  end.
Definition BR (k : nat) : Reader RS := {| rd := br_poll k |}.

Lemma fb_eta (s : fb) : {| mem := mem s; read_index := read_index s; write_index := write_index s |} = s.
Proof. destruct s; reflexivity. Qed.

(* in-bounds view *)
Definition vok (v : view) (s : fb) : Prop := 0 <= v_off v /\ v_off v <= v_end v /\ v_end v <= zlen (mem s).

Lemma put_same s v : vok v s ->
  {| mem := splice (mem s) (v_off v) (fit (slice (mem s) (v_off v) (v_end v)) (slice (mem s) (v_off v) (v_end v)));
     read_index := read_index s; write_index := write_index s |} = s.
Proof.
  intros (H1 & H2 & H3). rewrite fit_same_length by reflexivity. rewrite splice_self by lia. apply fb_eta.
Qed.

(* a quiet poll that is not Ready(Ok) leaves the buffer alone *)
Lemma poll_pending_state v s rs u : vok v s -> rf_await A v (s, rs) = AwPending u -> exists rs', u = (s, rs') /\
  exists b', prd A rs (rb_new (slice (mem s) (v_off v) (v_end v))) = (ARPending b', rs').
Proof.
  intros Hv. unfold rf_await, poll_read_future. cbn [fst snd].
  pose proof (Hq rs (rb_new (slice (mem s) (v_off v) (v_end v)))) as Hqq.
  destruct (prd A rs (rb_new (slice (mem s) (v_off v) (v_end v)))) as [[b'|e b'|b'|] rs'] eqn:E; intros H; inversion H; subst.
  exists rs'. split; [|exists b'; reflexivity]. cbn [rb_new rb_buf] in Hqq. rewrite Hqq. rewrite (put_same s v Hv). reflexivity.
Qed.

(* polling until ready = one call of the blocking reader *)
Lemma await_until_call v s : vok v s -> forall k rs,
  match await_until (rf_await A) k v (s, rs) with
  | AwReady x u => call_read (BR k) v (s, rs) = Val x u
  | AwPanic u => call_read (BR k) v (s, rs) = Panic u
  | AwPending _ => True
  end.
Proof.
  intros Hv. induction k as [|k IH]; intros rs.
  - cbn [await_until]. unfold call_read, rf_await, poll_read_future. cbn [fst snd BR rd br_poll].
    pose proof (Hq rs (rb_new (slice (mem s) (v_off v) (v_end v)))) as Hqq.
    destruct (prd A rs (rb_new (slice (mem s) (v_off v) (v_end v)))) as [[b'|e b'|b'|] rs'] eqn:E; try exact Logic.I.
    + rewrite (fit_same_length (fit _ _)) by apply fit_length. reflexivity.
    + cbn [rb_new rb_buf] in Hqq. rewrite Hqq, (put_same s v Hv). reflexivity.
    + reflexivity.
  - cbn [await_until]. destruct (rf_await A v (s, rs)) as [u|u|x u] eqn:Ea.
    + unfold call_read, rf_await, poll_read_future in *. cbn [fst snd BR rd br_poll] in *.
      destruct (prd A rs (rb_new (slice (mem s) (v_off v) (v_end v)))) as [[b'|e b'|b'|] rs'] eqn:E; inversion Ea; subst. reflexivity.
    + destruct (poll_pending_state v s rs u Hv Ea) as (rs' & -> & b' & Eb).
      specialize (IH rs'). destruct (await_until (rf_await A) k v (s, rs')) as [u'|u'|x' u'] eqn:Eu; try exact Logic.I.
      * rewrite <- IH. unfold call_read. cbn [fst snd BR rd br_poll]. rewrite Eb. reflexivity.
      * rewrite <- IH. unfold call_read. cbn [fst snd BR rd br_poll]. rewrite Eb. reflexivity.
    + unfold call_read, rf_await, poll_read_future in *. cbn [fst snd BR rd br_poll] in *.
      pose proof (Hq rs (rb_new (slice (mem s) (v_off v) (v_end v)))) as Hqq.
      destruct (prd A rs (rb_new (slice (mem s) (v_off v) (v_end v)))) as [[b'|e b'|b'|] rs'] eqn:E; inversion Ea; subst.
      * rewrite (fit_same_length (fit _ _)) by apply fit_length. reflexivity.
      * cbn [rb_new rb_buf] in Hqq. rewrite Hqq, (put_same s v Hv). reflexivity.
Qed.

(* the poll that finally answers happens at the same buffer state (only the reader moved) *)
Lemma await_until_ready_at v s : vok v s -> forall k rs x u,
  await_until (rf_await A) k v (s, rs) = AwReady x u -> exists rs1, rf_await A v (s, rs1) = AwReady x u.
Proof.
  intros Hv. induction k as [|k IH]; intros rs x u; cbn [await_until].
  - destruct (rf_await A v (s, rs)) eqn:Ea; intros H; inversion H; subst. exists rs. exact Ea.
  - destruct (rf_await A v (s, rs)) as [u0|u0|x0 u0] eqn:Ea; intros H.
    + discriminate.
    + destruct (poll_pending_state v s rs u0 Hv Ea) as (rs' & -> & _). exact (IH rs' x u H).
    + inversion H; subst. exists rs. exact Ea.
Qed.

Definition to_out {R} (r : res (fb * RS) (fueled R)) : @out (fb * RS) R :=
  match r with Val (Done x) w => Ready x w | Val OutOfFuel w => Exhausted w | Panic w => Panicked w end.

(* the translated blocking read_frame, run against the polled reader, IS the generic blocking loop *)
Theorem read_frame_is_bloop : forall n k w, WI SIZE w ->
  finished (bloop (rf_pre chk df) (rf_await A) (rf_post chk) n k w) ->
  to_out (read_frame chk (BR k) n df w) = bloop (rf_pre chk df) (rf_await A) (rf_post chk) n k w.
Proof.
  induction n as [|n IH]; intros k w HI Hfin; [contradiction|].
  destruct w as [s rs]. unfold WI in HI. cbn [fst] in HI.
  unfold read_frame. rewrite loop_fuel_S. cbn [bloop] in *.
  rewrite (blocking_body_decomposes SIZE chk df Hdf (BR k) s rs HI).
  assert (Hpre_eq : rf_pre chk df (s, rs) =
            match arf_pre chk df s with Val a s0 => Val a (s0, rs) | Panic s0 => Panic (s0, rs) end) by reflexivity.
  rewrite Hpre_eq in *. clear Hpre_eq.
  destruct (arf_pre chk df s) as [[r|v] s1|s1] eqn:Epre; try reflexivity.
  (* at the await *)
  assert (Hw1 : WI SIZE (s1, rs)) by (apply (rf_pre_inv SIZE chk df Hdf (s, rs) (inr v) (s1, rs) HI); unfold rf_pre, lift_s; cbn [fst snd]; rewrite Epre; reflexivity).
  assert (Hp1 : rf_pre chk df (s1, rs) = Val (inr v) (s1, rs)).
  { apply (rf_pre_restart SIZE chk df Hdf (s, rs) v (s1, rs) HI). unfold rf_pre, lift_s; cbn [fst snd]; rewrite Epre; reflexivity. }
  destruct (at_await SIZE chk df Hdf (s1, rs) v Hw1 Hp1) as (Hv & _ & Hwl & Hpre1). cbn [fst] in *.
  assert (Hvok : vok v s1).
  { pose proof Hw1 as (H1 & H2 & H3 & H4 & H5). cbn [fst] in *. subst v. unfold vok, wlen in *. cbn [v_off v_end]. lia. }
  pose proof (await_until_call v s1 Hvok k rs) as Hcall.
  destruct (await_until (rf_await A) k v (s1, rs)) as [u|u|x u] eqn:Eau.
  - rewrite Hcall. reflexivity.
  - contradiction.
  - rewrite Hcall. fold (rf_post chk x u).
    destruct (rf_post chk x u) as [[r|] w2|w2] eqn:Epost; try reflexivity.
    destruct (await_until_ready_at v s1 Hvok k rs x u Eau) as (rs1 & Ea1).
    assert (Hp2 : rf_pre chk df (s1, rs1) = Val (inr v) (s1, rs1)) by (unfold rf_pre, lift_s; cbn [fst snd]; rewrite Hpre1; reflexivity).
    assert (Hw2 : WI SIZE w2) by exact (rf_ready_post_inv SIZE chk A df Hdf v (s1, rs1) x u None w2 Hw1 Hp2 Ea1 Epost).
    exact (IH k w2 Hw2 Hfin).
Qed.
End BL.
