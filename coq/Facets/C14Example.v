(* Facets/C14Example.v — the hypotheses of c14_async_gets_next are met by a transport that answers Poll::Pending:
   a chunk-schedule stream with a list of marks beside it; a `true` mark makes the next poll Pending. *)
From FB Require Import Sem.Base Sem.Lemmas Sem.ReadBuf Sem.Async Model.Fb Model.TokioAsync Spec.Api Spec.Frames
  Facets.Fb Facets.Fb2 Facets.DfContract Facets.Rf Facets.Async Facets.C14Blocking Facets.C01 Facets.ARSim Facets.C14Frames.
Open Scope Z_scope.

Definition PRS := (stream_reader * list bool)%type.
Definition deliver (b : rb) (d : list Z) : rb :=
  {| rb_buf := splice (rb_buf b) (rb_filled b) d; rb_filled := rb_filled b + zlen d; rb_init := Z.max (rb_init b) (rb_filled b + zlen d) |}.
Definition PA : AsyncReader PRS := {| prd := fun rs b =>
  match snd rs with
  | true :: t => (ARPending b, (fst rs, t))
  | marks =>
      match ar stream_ar (fst rs) (rb_remaining b) with
      | (AData d, st') => (AROk (deliver b d), (st', tl marks))
      | (_, st') => (ARPanic, (st', tl marks))
      end
  end |}.

(* what polling PA until ready (at most k extra polls) amounts to *)
Fixpoint br_marks (k : nat) (marks : list bool) : bool * list bool :=
  match marks with
  | true :: t => match k with O => (false, t) | S k' => br_marks k' t end
  | _ => (true, marks)
  end.
Definition PAR (k : nat) : AReader PRS := {| ar := fun rs cap =>
  let '(ok, m) := br_marks k (snd rs) in
  if ok then let '(a, st') := ar stream_ar (fst rs) cap in (a, (st', tl m)) else (AErr WouldBlock, (fst rs, m)) |}.
(* no run of more than k Pending marks *)
Fixpoint runs_ok (k cur : nat) (marks : list bool) : bool :=
  match marks with
  | [] => true
  | true :: t => match cur with O => false | S c => runs_ok k c t end
  | false :: t => runs_ok k k t
  end.
Definition PP (k : nat) (rs : PRS) : Prop := runs_ok k k (snd rs) = true.

Lemma PA_quiet : quiet PA.
Proof.
  intros rs b. cbn [prd PA]. destruct (snd rs) as [|[|] t]; try reflexivity;
    destruct (ar stream_ar (fst rs) (rb_remaining b)) as [[d|e|] st']; exact I.
Qed.

Lemma stream_answer st cap : 0 <= cap -> exists d st', ar stream_ar st cap = (AData d, st') /\ zlen d <= cap.
Proof.
  intros Hc. cbn [ar stream_ar]. eexists _, _. split; [reflexivity|].
  rewrite zlen_firstn. pose proof (zlen_nonneg (sr_rest st)). destruct (sr_sched st); lia.
Qed.

Lemma PA_implements k : implements (BR PA k) (PAR k).
Proof.
  induction k as [|k IH]; intros [st marks] dest; cbn [ar PAR snd fst].
  - destruct marks as [|[|] t]; cbn [br_marks rd BR br_poll prd PA snd fst].
    + unfold rb_remaining, rb_capacity, rb_new; cbn [rb_buf rb_filled]. rewrite Z.sub_0_r.
      destruct (stream_answer st (zlen dest) (zlen_nonneg dest)) as (d & st' & E & Hd). rewrite E. cbn [tl].
      split; [exact Hd|]. eexists. split; [unfold deliver, rb_filled_bytes, rb_new; cbn [rb_buf rb_filled]; rewrite Z.add_0_l|].
      * pose proof (slice_splice_same dest d 0 ltac:(lia) ltac:(lia)) as Hs. rewrite Z.add_0_l in Hs. rewrite Hs. reflexivity.
      * unfold deliver, rb_new; cbn [rb_buf rb_filled]. destruct (firstn_splice0 dest d Hd) as (F1 & _ & F3).
        rewrite !(fit_same_length (splice dest 0 d) dest) by (unfold zlen in F3; lia). exact F1.
    + reflexivity.
    + unfold rb_remaining, rb_capacity, rb_new; cbn [rb_buf rb_filled]. rewrite Z.sub_0_r.
      destruct (stream_answer st (zlen dest) (zlen_nonneg dest)) as (d & st' & E & Hd). rewrite E. cbn [tl].
      split; [exact Hd|]. eexists. split; [unfold deliver, rb_filled_bytes, rb_new; cbn [rb_buf rb_filled]; rewrite Z.add_0_l|].
      * pose proof (slice_splice_same dest d 0 ltac:(lia) ltac:(lia)) as Hs. rewrite Z.add_0_l in Hs. rewrite Hs. reflexivity.
      * unfold deliver, rb_new; cbn [rb_buf rb_filled]. destruct (firstn_splice0 dest d Hd) as (F1 & _ & F3).
        rewrite !(fit_same_length (splice dest 0 d) dest) by (unfold zlen in F3; lia). exact F1.
  - destruct marks as [|[|] t]; cbn [br_marks rd BR br_poll prd PA snd fst].
    + unfold rb_remaining, rb_capacity, rb_new; cbn [rb_buf rb_filled]. rewrite Z.sub_0_r.
      destruct (stream_answer st (zlen dest) (zlen_nonneg dest)) as (d & st' & E & Hd). rewrite E. cbn [tl].
      split; [exact Hd|]. eexists. split; [unfold deliver, rb_filled_bytes, rb_new; cbn [rb_buf rb_filled]; rewrite Z.add_0_l|].
      * pose proof (slice_splice_same dest d 0 ltac:(lia) ltac:(lia)) as Hs. rewrite Z.add_0_l in Hs. rewrite Hs. reflexivity.
      * unfold deliver, rb_new; cbn [rb_buf rb_filled]. destruct (firstn_splice0 dest d Hd) as (F1 & _ & F3).
        rewrite !(fit_same_length (splice dest 0 d) dest) by (unfold zlen in F3; lia). exact F1.
    + exact (IH (st, t) dest).
    + unfold rb_remaining, rb_capacity, rb_new; cbn [rb_buf rb_filled]. rewrite Z.sub_0_r.
      destruct (stream_answer st (zlen dest) (zlen_nonneg dest)) as (d & st' & E & Hd). rewrite E. cbn [tl].
      split; [exact Hd|]. eexists. split; [unfold deliver, rb_filled_bytes, rb_new; cbn [rb_buf rb_filled]; rewrite Z.add_0_l|].
      * pose proof (slice_splice_same dest d 0 ltac:(lia) ltac:(lia)) as Hs. rewrite Z.add_0_l in Hs. rewrite Hs. reflexivity.
      * unfold deliver, rb_new; cbn [rb_buf rb_filled]. destruct (firstn_splice0 dest d Hd) as (F1 & _ & F3).
        rewrite !(fit_same_length (splice dest 0 d) dest) by (unfold zlen in F3; lia). exact F1.
Qed.

Lemma br_marks_ok k : forall c marks, (c <= k)%nat -> runs_ok k c marks = true ->
  exists m, br_marks c marks = (true, m) /\ runs_ok k k (tl m) = true.
Proof.
  induction c as [|c IH]; intros marks Hc H; destruct marks as [|[|] t]; cbn [br_marks runs_ok] in *;
    try discriminate; try (eexists; split; [reflexivity|cbn [tl]; auto]).
  apply IH; [lia|exact H].
Qed.

Lemma PAR_sim k : ar_sim (PAR k) stream_ar fst (PP k).
Proof.
  intros [st marks] cap Hp. unfold PP in Hp. cbn [snd] in Hp. cbn [ar PAR fst snd].
  destruct (br_marks_ok k k marks (le_n k) Hp) as (m & E & Hm). rewrite E.
  destruct (ar stream_ar st cap) as [a st'] eqn:Ea. cbn [fst snd]. split; [reflexivity|exact Hm].
Qed.

(* non-vacuity of c14_async_gets_next, and a run: "ab\n" arrives as 'a', Pending, Pending, 'b', Pending, '\n'; the second poll is
   cancelled (the future dropped and a new call started); the frame "ab" comes out *)
Example c14_example :
  quiet PA /\ implements (BR PA 2) (PAR 2) /\ ar_sim (PAR 2) stream_ar fst (PP 2) /\
  PP 2 ({| sr_rest := [97; 98; 10]; sr_sched := [1; 1; 1] |}, [false; true; true; false; true; false]) /\
  match arf_drive true PA 12 [false; true; false]
          (fun d => match d with [97; 98; 10] => DFrame 0 2 3 | _ => DNone end)
          (new 8, ({| sr_rest := [97; 98; 10]; sr_sched := [1; 1; 1] |}, [false; true; true; false; true; false])) with
  | Ready (FFrame p) (s', _) => p = [97; 98] /\ unread s' = []
  | _ => False
  end.
Proof.
  split; [exact PA_quiet|]. split; [exact (PA_implements 2)|]. split; [exact (PAR_sim 2)|]. split; [reflexivity|].
  vm_compute. auto.
Qed.
