(* Facets/C06.v — read_frame loses nothing when the reader fails, and can always be resumed. *)
From FB Require Import Sem.Base Sem.Lemmas Model.Fb Spec.Api Spec.Frames Spec.Retry
  Facets.Fb Facets.Fb2 Facets.Rf Facets.RfRefine.
Open Scope Z_scope.

Section ABS.
Variable SIZE : Z.
Variable df : list Z -> dres.
Notation body := (abody SIZE fstream_ar df).
Notation AW := (list Z * fstream)%type.

(* the fault-free image of a world: same bytes, faults dropped from the schedule *)
Definition clean (w : AW) : AW :=
  (fst w, {| f_rest := f_rest (snd w); f_sched := filter is_give (f_sched (snd w)) |}).

Definition all_transient (st : fstream) : Prop :=
  forall k, In (Fail k) (f_sched st) -> transient k = true.

(* one iteration on a world vs its fault-free image *)
Lemma body_clean u st : all_transient st ->
  match body (u, st) with
  | Val None w1 => body (clean (u, st)) = Val None (clean w1) /\ all_transient (snd w1)
  | Val (Some r) w1 =>
      (body (clean (u, st)) = Val (Some r) (clean w1) /\ all_transient (snd w1) /\ (forall k, r = FErr k -> transient k = false))
      \/ (exists k, r = FErr k /\ transient k = true /\ clean w1 = clean (u, st) /\ all_transient (snd w1) /\ fst w1 = u)
  | Panic w1 => body (clean (u, st)) = Panic (clean w1)
  end.
Proof.
  intros Ht. unfold abody, clean. cbn [fst snd f_rest f_sched].
  assert (Hfill : match afill SIZE fstream_ar (u, st) with
    | Val None w1 => afill SIZE fstream_ar (u, {| f_rest := f_rest st; f_sched := filter is_give (f_sched st) |}) = Val None (clean w1) /\ all_transient (snd w1)
    | Val (Some r) w1 =>
        (afill SIZE fstream_ar (u, {| f_rest := f_rest st; f_sched := filter is_give (f_sched st) |}) = Val (Some r) (clean w1)
         /\ all_transient (snd w1) /\ (forall k, r = FErr k -> transient k = false))
        \/ (exists k, r = FErr k /\ transient k = true /\ clean w1 = clean (u, st) /\ all_transient (snd w1) /\ fst w1 = u)
    | Panic w1 => afill SIZE fstream_ar (u, {| f_rest := f_rest st; f_sched := filter is_give (f_sched st) |}) = Panic (clean w1)
    end).
  { unfold afill, clean. cbn [fst snd f_rest f_sched].
    destruct (SIZE - zlen u =? 0) eqn:E.
    { left. split; [reflexivity|]. split; [exact Ht|]. intros k Hk. inversion Hk; reflexivity. }
    destruct st as [rest sched]. cbn [f_rest f_sched ar fstream_ar] in *.
    destruct sched as [|[k|kind] t].
    - (* schedule exhausted: identical on both sides *)
      cbn [filter tl f_rest f_sched].
      destruct (zlen (firstn _ rest) =? 0).
      + left. split; [reflexivity|]. split; [exact Ht|]. destruct (zlen u =? 0); intros k Hk; inversion Hk; reflexivity.
      + split; [reflexivity|exact Ht].
    - (* a chunk: identical, one entry consumed on both sides *)
      cbn [filter is_give tl f_rest f_sched].
      assert (Ht' : all_transient {| f_rest := skipn (Z.to_nat (Z.min (Z.max 1 k) (Z.min (SIZE - zlen u) (zlen rest)))) rest; f_sched := t |}).
      { intros k0 Hk0. apply Ht. right. exact Hk0. }
      destruct (zlen (firstn _ rest) =? 0).
      + left. split; [reflexivity|]. split; [exact Ht'|]. destruct (zlen u =? 0); intros k0 Hk; inversion Hk; reflexivity.
      + split; [reflexivity|exact Ht'].
    - (* a fault: returned to the caller; the fault-free world has not moved *)
      right. exists kind. split; [reflexivity|]. split; [apply Ht; left; reflexivity|].
      cbn [fst snd f_rest f_sched filter is_give]. split; [reflexivity|]. split; [|reflexivity].
      intros k0 Hk0. apply Ht. right. exact Hk0. }
  destruct (zlen u =? 0); [exact Hfill|].
  destruct (df u) as [|a b n| |]; cbn [fst snd f_rest f_sched].
  - exact Hfill.
  - left. split; [reflexivity|]. split; [exact Ht|]. intros k Hk; discriminate.
  - left. split; [reflexivity|]. split; [exact Ht|]. intros k Hk; inversion Hk; reflexivity.
  - reflexivity.
Qed.

(* a whole call: either it is a call of the fault-free world, or it stopped at a transient fault and the
   fault-free world is where it was *)
Lemma runs_clean w r w' : runs body w r w' -> all_transient (snd w) ->
  (runs body (clean w) r (clean w') /\ all_transient (snd w') /\ (forall k, r = FErr k -> transient k = false))
  \/ (exists k, r = FErr k /\ transient k = true /\ all_transient (snd w') /\
        (* the fault-free world advanced by the successful reads only: running it from clean w' gives what it gives from clean w *)
        forall r2 w2, runs body (clean w') r2 w2 -> runs body (clean w) r2 w2).
Proof.
  induction 1 as [[u st] r w' E|[u st] w1 r w' E Hr IH]; intros Ht; cbn [snd] in Ht.
  - pose proof (body_clean u st Ht) as Hb. rewrite E in Hb.
    destruct Hb as [(Hc & Ht' & Hk)|(k & Hr & Hk & Hc & Ht' & Hu)].
    + left. split; [apply runs_done; exact Hc|auto].
    + right. exists k. split; [exact Hr|]. split; [exact Hk|]. split; [exact Ht'|].
      intros r2 w2 H2. rewrite Hc in H2. exact H2.
  - pose proof (body_clean u st Ht) as Hb. rewrite E in Hb. destruct Hb as [Hc Ht1].
    destruct (IH Ht1) as [(Hrun & Ht' & Hk)|(k & Hr' & Hk & Ht' & Hcont)].
    + left. split; [eapply runs_step; [exact Hc|exact Hrun]|auto].
    + right. exists k. split; [exact Hr'|]. split; [exact Hk|]. split; [exact Ht'|].
      intros r2 w2 H2. eapply runs_step; [exact Hc|]. apply Hcont. exact H2.
Qed.

(* C06: for any placement of any number of transient faults, the retrying caller obtains what the
   fault-free run obtains: same result, same unread bytes, same unpulled bytes, same remaining chunks *)
Theorem faults_invisible w r w' : retries SIZE df w r w' -> all_transient (snd w) ->
  runs body (clean w) r (clean w').
Proof.
  induction 1 as [w r w' Hrun Hnt|w k w1 r w' Hrun Hk Hret IH]; intros Ht.
  - destruct (runs_clean w r w' Hrun Ht) as [(Hc & _ & _)|(k & Hr & Hk & _ & _)]; [exact Hc|].
    rewrite (Hnt k Hr) in Hk. discriminate.
  - destruct (runs_clean w (FErr k) w1 Hrun Ht) as [(_ & _ & Hnt)|(k' & Hr & _ & Ht1 & Hcont)].
    + rewrite (Hnt k eq_refl) in Hk. discriminate.
    + apply Hcont. apply IH. exact Ht1.
Qed.
End ABS.

(* ---- nothing is consumed or lost by a call that ends in an error or in Ok(None) (any abstract reader) ---- *)
Section CONSERVE.
Variable SIZE : Z.
Context {RS : Type}.
Variable AR : AReader RS.
Variable df : list Z -> dres.
Notation body := (abody SIZE AR df).

(* bytes the reader delivered during a run *)
Inductive delivered : list Z * RS -> list Z * RS -> list Z -> Prop :=
| dl_refl w : delivered w w []
| dl_step u rs d rs' w' ds : ar AR rs (SIZE - zlen u) = (AData d, rs') -> delivered (u ++ d, rs') w' ds -> delivered (u, rs) w' (d ++ ds).

Lemma error_keeps_everything w r w' : runs body w r w' ->
  match r with
  | FFrame _ => True
  | _ => exists ds, fst w' = fst w ++ ds     (* the unread bytes only grew, by what the reader delivered *)
  end.
Proof.
  induction 1 as [[u rs] r w' E|[u rs] w1 r w' E Hr IH].
  - unfold abody in E. destruct r as [p| |k]; [exact I| |].
    + exists []. rewrite app_nil_r.
      destruct (zlen u =? 0); [|destruct (df u); try discriminate];
      unfold afill in E; destruct (SIZE - zlen u =? 0); try discriminate;
      destruct (ar AR rs (SIZE - zlen u)) as [[d|k|] rs']; try discriminate;
      destruct (zlen d =? 0); inversion E; reflexivity.
    + exists []. rewrite app_nil_r.
      destruct (zlen u =? 0); [|destruct (df u); try (inversion E; reflexivity)];
      unfold afill in E; destruct (SIZE - zlen u =? 0); try (inversion E; reflexivity);
      destruct (ar AR rs (SIZE - zlen u)) as [[d|k0|] rs']; try discriminate; try (inversion E; reflexivity);
      destruct (zlen d =? 0); inversion E; reflexivity.
  - assert (Hw1 : exists d, fst w1 = u ++ d).
    { unfold abody in E.
      destruct (zlen u =? 0); [|destruct (df u); try discriminate];
      unfold afill in E; destruct (SIZE - zlen u =? 0); try discriminate;
      destruct (ar AR rs (SIZE - zlen u)) as [[d|k0|] rs']; try discriminate;
      destruct (zlen d =? 0); inversion E; exists d; reflexivity. }
    destruct Hw1 as (d & Hd). destruct r as [p| |k]; [exact I| |];
      destruct IH as (ds & Hds); exists (d ++ ds); rewrite Hds, Hd, app_assoc; reflexivity.
Qed.

(* read_frame's own errors repeat: a rejected or over-long buffered frame is answered again without touching anything *)
Lemma own_error_repeats u rs : zlen u <> 0 -> (df u = DErr \/ (df u = DNone /\ zlen u = SIZE)) ->
  body (u, rs) = Val (Some (FErr InvalidData)) (u, rs).
Proof.
  intros Hu [Hd|[Hd Hf]]; unfold abody; replace (zlen u =? 0) with false by lia; rewrite Hd; [reflexivity|].
  unfold afill. replace (SIZE - zlen u =? 0) with true by lia. reflexivity.
Qed.
End CONSERVE.

(* ---- link to the translated loop ---- *)
Section LINK.
Variable SIZE : Z.
Variable chk : bool.
Context {RS : Type}.
Variable R : Reader RS.
Variable AR : AReader RS.
Variable df : list Z -> dres.
Hypothesis Himpl : implements R AR.
Hypothesis Hdf : forall u, zlen u <= SIZE -> df_in_bounds df u.

(* every completed call of the translated read_frame is a run of the abstract loop on the unread bytes *)
Theorem call_runs fuel s rs r s' rs' : Inv2 SIZE s ->
  read_frame chk R fuel df (s, rs) = Val (Done r) (s', rs') ->
  runs (abody SIZE AR df) (unread s, rs) r (unread s', rs') /\ Inv2 SIZE s'.
Proof.
  intros HI2 Hrun. pose proof (read_frame_refines SIZE chk R AR df Himpl Hdf fuel s rs HI2) as Hsim.
  rewrite Hrun in Hsim. unfold sim in Hsim.
  destruct (aread_frame SIZE AR df fuel (unread s, rs)) as [r2 [u2 rs2]|[u2 rs2]] eqn:Ea; [|contradiction].
  destruct Hsim as (Hr & Hu & Hrs & I'). subst. split; [|exact I'].
  apply (loop_runs _ fuel). exact Ea.
Qed.
(* a panic of the caller-supplied reader or deframer inside read_frame leaves a usable buffer holding every byte received *)
Theorem call_panics fuel s rs s' rs' : Inv2 SIZE s ->
  read_frame chk R fuel df (s, rs) = Panic (s', rs') ->
  Inv2 SIZE s' /\ exists u', aread_frame SIZE AR df fuel (unread s, rs) = Panic (u', rs') /\ unread s' = u'.
Proof.
  intros HI2 Hrun. pose proof (read_frame_refines SIZE chk R AR df Himpl Hdf fuel s rs HI2) as Hsim.
  rewrite Hrun in Hsim. unfold sim in Hsim.
  destruct (aread_frame SIZE AR df fuel (unread s, rs)) as [r2 [u2 rs2]|[u2 rs2]] eqn:Ea; [contradiction|].
  destruct Hsim as (Hu & Hrs & I'). subst. split; [exact I'|]. exists (unread s'). auto.
Qed.
End LINK.

(* the failing transport as a std::io::Read implementation *)
Definition fstream_rd : Reader fstream := {| rd := fun st dest =>
  match ar fstream_ar st (zlen dest) with
  | (AData d, st') => (ROk (d ++ skipn (length d) dest) (zlen d), st')
  | (AErr k, st') => (RErr k, st')
  | (APanic, st') => (RPanic, st')
  end |}.
Lemma fstream_rd_implements : implements fstream_rd fstream_ar.
Proof.
  intros st dest. cbn [rd fstream_rd].
  destruct (ar fstream_ar st (zlen dest)) as [[d|k|] st'] eqn:Ea; try reflexivity.
  assert (Hd : zlen d <= zlen dest).
  { pose proof (zlen_nonneg dest). pose proof (zlen_nonneg (f_rest st)).
    cbn [ar fstream_ar] in Ea. destruct (f_sched st) as [|[k|kind] t]; inversion Ea; subst; rewrite zlen_firstn; lia. }
  split; [exact Hd|]. eexists. split; [reflexivity|].
  rewrite fit_same_length by (rewrite app_length, skipn_length; unfold zlen in *; lia).
  rewrite firstn_app, Nat.sub_diag, firstn_all. cbn [firstn]. apply app_nil_r.
Qed.
