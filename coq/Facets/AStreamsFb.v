(* Facets/AStreamsFb.v — AsyncFixedBuf, read through its AsyncRead impl, is an async prefix source of its unread bytes (it never
   answers Pending); hence AsyncReadWriteChain(buffer, transport) — the payload source of the documented tokio request loop — delivers
   unread ++ unpulled in order, buffer bytes first, under every pattern of Pending of the transport and for every ReadBuf.  [C07, async] *)
From FB Require Import Sem.Base Sem.Lemmas Sem.ReadBuf Model.Fb Model.Tokio Facets.Fb Facets.Fb2 Facets.Tokio Facets.AStreams.
Open Scope Z_scope.

Section FB.
Variable SIZE : Z.
Variable chk : bool.

(* impl AsyncRead for AsyncFixedBuf as a stream *)
Definition AFB : AsyncReader fb := {| prd := fun s b =>
  match afb_poll_read chk b s with
  | Val (PReady (Ok _), b') s' => (AROk b', s')
  | Val (PReady (Err k), b') s' => (ARErr k b', s')
  | Val (PPending, b') s' => (ARPending b', s')
  | Panic s' => (ARPanic, s')
  end |}.

Theorem afb_prefix_source : async_prefix_source AFB unread (Inv SIZE).
Proof.
  intros s b HI Hwf Hmax. cbn [prd AFB].
  destruct (afb_poll_read_spec SIZE chk s b HI Hwf Hmax) as (b' & Hrun & Hbytes & Hfill & Hlen & Hwf').
  rewrite Hrun. pose proof (len_nonneg SIZE s HI) as Hl. pose proof (zlen_unread SIZE s HI) as Hz.
  assert (Hrem : 0 <= rb_remaining b) by (destruct Hwf as (W1 & W2 & W3); unfold rb_remaining, rb_capacity; lia).
  set (m := Z.min (rb_remaining b) (len_ s)) in *.
  assert (Hzm : zlen (firstn (Z.to_nat m) (unread s)) = m) by (rewrite zlen_firstn; lia).
  exists m. split; [lia|]. split; [lia|].
  split; [split; [exact Hwf'|]; split; [exact Hlen|]; split; [rewrite Hzm; exact Hfill|exact Hbytes]|].
  destruct (m =? 0) eqn:Em.
  - assert (m = 0) by lia. rewrite H. cbn [Z.to_nat skipn]. split; [reflexivity|]. split; [exact HI|].
    intros Hroom Hne. assert (0 < zlen (unread s)) by (destruct (unread s); [congruence|rewrite zlen_cons; pose proof (zlen_nonneg l); lia]). lia.
  - destruct (after_read_facts SIZE chk s m HI ltac:(lia)) as (A & B & _).
    split; [exact B|]. split; [exact A|]. intros _ _. lia.
Qed.

(* the payload source of the tokio request loop *)
Theorem achain_fb_is_source : forall TS (T : AsyncReader TS) remT okT, async_prefix_source T remT okT ->
  async_prefix_source (ACH2 chk AFB T) (rem_ach unread remT) (ok_ach (Inv SIZE) okT).
Proof. intros TS T remT okT HT. exact (achain_prefix_source chk AFB unread (Inv SIZE) T remT okT afb_prefix_source HT). Qed.
End FB.
