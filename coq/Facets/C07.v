(* Facets/C07.v — the payload drain of the request loop: a take adapter over ANY reader that delivers a fixed remaining
   sequence in order ("prefix source") hands out exactly the first min(n, available) bytes, whatever the schedule of destination
   lengths; and ReadWriteChain(FixedBuf, transport) is such a source whose remaining sequence is unread ++ unpulled. *)
From FB Require Import Sem.Base Sem.Lemmas Model.Fb Model.Adapters Model.Serve Spec.Api Spec.Frames
  Facets.Fb Facets.Fb2 Facets.Adapters.
Open Scope Z_scope.

Section SOURCE.
Context {S : Type}.
Variable chk : bool.
Variable Src : Reader S.
Variable rem : S -> list Z.          (* what the source will still deliver, in order *)
Variable okS : S -> Prop.            (* its invariant *)
(* one read: delivers a prefix of rem (the first k bytes of the destination), at least one byte when it can, never fails *)
Hypothesis Hsrc : forall s dest, okS s ->
  exists d' k s', rd Src s dest = (ROk d' k, s') /\ 0 <= k <= zlen dest /\ k <= zlen (rem s) /\
    firstn (Z.to_nat k) (fit d' dest) = firstn (Z.to_nat k) (rem s) /\ rem s' = skipn (Z.to_nat k) (rem s) /\ okS s' /\
    (0 < zlen dest -> rem s <> [] -> 1 <= k).

Lemma firstn_splice_head (buf x : list Z) k : 0 <= k <= zlen x -> zlen x <= zlen buf ->
  firstn (Z.to_nat k) (splice buf 0 x) = firstn (Z.to_nat k) x.
Proof.
  intros Hk Hx. unfold splice. cbn [Z.to_nat firstn app Nat.add]. rewrite firstn_app.
  replace (Z.to_nat k - length x)%nat with 0%nat by (unfold zlen in *; lia). cbn [firstn]. apply app_nil_r.
Qed.

Theorem drain_spec : forall fuel dests acc w,
  okS (t_rw w) -> 0 <= t_rem w -> Forall (fun d => 0 <= d) dests ->
  (length dests + Z.to_nat (Z.min (t_rem w) (zlen (rem (t_rw w)))) + 2 <= fuel)%nat ->
  let n' := Z.min (t_rem w) (zlen (rem (t_rw w))) in
  exists w', drain_gen chk Src fuel dests acc w = (acc ++ firstn (Z.to_nat n') (rem (t_rw w)), DrOk, w') /\
    rem (t_rw w') = skipn (Z.to_nat n') (rem (t_rw w)) /\ t_rem w' = t_rem w - n' /\ okS (t_rw w').
Proof.
  induction fuel as [|fuel IH]; intros dests acc w Hok Hrem Hd Hfuel; [lia|]. cbv zeta.
  pose proof (zlen_nonneg (rem (t_rw w))) as Hrn.
  cbn [drain_gen]. set (d := match dests with [] => 8 | x :: _ => x end).
  assert (Hd0 : 0 <= d) by (unfold d; destruct dests as [|x t]; [lia|inversion Hd; assumption]).
  set (buf := repeat 221 (Z.to_nat d)).
  assert (Hbuf : zlen buf = d) by (unfold buf; rewrite zlen_repeat; lia).
  rewrite (take_read_spec chk Src buf w Hrem).
  destruct (t_rem w =? 0) eqn:E0.
  - (* allowance exhausted: Ok(0) without calling the source *)
    assert (Hn0 : Z.min (t_rem w) (zlen (rem (t_rw w))) = 0) by lia. rewrite Hn0. cbn [Z.to_nat firstn]. rewrite app_nil_r.
    replace (0 =? 0) with true by reflexivity. cbn [andb].
    destruct (d =? 0) eqn:Ed; cbn [negb].
    + (* an empty destination: not an end-of-payload signal; next destination *)
      destruct dests as [|x t]; [unfold d in Ed; discriminate|]. cbn [tl].
      destruct (IH t acc w Hok Hrem ltac:(inversion Hd; assumption) ltac:(cbn [length] in Hfuel; lia)) as (w' & Hrun & Hr & Ht & Hk).
      rewrite Hn0 in *. cbn [Z.to_nat firstn skipn] in *. rewrite app_nil_r in Hrun. exists w'. rewrite Z.sub_0_r in *. auto.
    + exists w. cbn [skipn]. rewrite Z.sub_0_r. auto.
  - cbv zeta. set (m := Z.min (t_rem w) (zlen buf)). set (dest := slice buf 0 m).
    assert (Hm : 0 <= m <= d /\ m <= t_rem w) by (unfold m; lia).
    assert (Hdest : zlen dest = m) by (unfold dest; rewrite zlen_slice; lia).
    destruct (Hsrc (t_rw w) dest Hok) as (d' & k & s' & Hr & Hk & Hkr & Hpre & Hrem' & Hok' & Hprog).
    rewrite Hr. replace (k <=? t_rem w) with true by lia.
    destruct ((k =? 0) && negb (d =? 0)) eqn:Estop.
    + (* the source is exhausted (a non-empty destination came back empty): the payload ends here *)
      assert (Hk0 : k = 0) by (destruct (k =? 0) eqn:X; [lia|discriminate]).
      assert (Hdn : d <> 0) by (destruct (d =? 0) eqn:X; [rewrite andb_false_r in Estop; discriminate|lia]).
      assert (Hempty : rem (t_rw w) = []).
      { destruct (rem (t_rw w)) as [|x t] eqn:Er; [reflexivity|]. exfalso.
        assert (1 <= k) by (apply Hprog; [lia|discriminate]). lia. }
      rewrite Hempty in *. rewrite firstn_nil, skipn_nil, app_nil_r. rewrite skipn_nil in Hrem'.
      replace (Z.min (t_rem w) (zlen (@nil Z))) with 0 by (unfold zlen; cbn [length]; lia).
      eexists. split; [reflexivity|]. cbn [t_rw t_rem]. subst k. rewrite !Z.sub_0_r. auto.
    + (* k bytes delivered (possibly 0 into an empty destination): continue *)
      set (w1 := {| t_rem := t_rem w - k; t_rw := s' |}).
      assert (Hacc : firstn (Z.to_nat k) (splice buf 0 (fit d' dest)) = firstn (Z.to_nat k) (rem (t_rw w))).
      { rewrite firstn_splice_head by (rewrite zlen_fit; lia). exact Hpre. }
      rewrite Hacc.
      assert (Hmeasure : (length (tl dests) + Z.to_nat (Z.min (t_rem w1) (zlen (rem (t_rw w1)))) + 2 <= fuel)%nat).
      { unfold w1; cbn [t_rem t_rw]. rewrite Hrem', zlen_skipn.
        destruct (Z.eq_dec k 0) as [Hk0|Hk0].
        - (* no byte delivered: then the destination was empty, so it came from the schedule *)
          subst k. assert (d = 0) by (destruct (d =? 0) eqn:X; [lia|cbn in Estop; discriminate]).
          destruct dests as [|x t]; [unfold d in H; lia|]. cbn [tl length] in *. lia.
        - destruct dests as [|x t]; cbn [tl length] in *; lia. }
      destruct (IH (tl dests) (acc ++ firstn (Z.to_nat k) (rem (t_rw w))) w1 Hok' ltac:(unfold w1; cbn; lia)
                   ltac:(destruct dests; [constructor|inversion Hd; assumption]) Hmeasure) as (w' & Hrun & Hr' & Ht' & Hk').
      exists w'. rewrite Hrun. unfold w1 in *; cbn [t_rem t_rw] in *. rewrite Hrem' in *. rewrite zlen_skipn in *.
      set (L := zlen (rem (t_rw w))) in *.
      assert (Hsplit : Z.min (t_rem w) L = k + Z.min (t_rem w - k) (Z.max 0 (L - Z.of_nat (Z.to_nat k)))) by lia.
      split; [|split; [|split; [lia|exact Hk']]].
      * f_equal. rewrite <- app_assoc. f_equal. rewrite Hsplit.
        rewrite <- (firstn_skipn (Z.to_nat k) (firstn (Z.to_nat (k + _)) (rem (t_rw w)))).
        rewrite firstn_firstn, skipn_firstn_comm. f_equal. f_equal; [f_equal; lia|f_equal; lia].
      * rewrite Hr', skipn_skipn. f_equal. lia.
Qed.
End SOURCE.

(* ---- ReadWriteChain(FixedBuf, transport) is a prefix source of unread ++ unpulled ---- *)
Section CHAINSRC.
Variable SIZE : Z.
Variable chk : bool.
Variable R : Reader stream_reader.
Hypothesis HR : implements R stream_ar.

Notation CW := (@cw fb stream_reader).
Definition rem_c (w : CW) : list Z := unread (c_first w) ++ sr_rest (c_rw w).
Definition ok_c (w : CW) : Prop := Inv2 SIZE (c_first w) /\ (c_has w = false -> unread (c_first w) = []).

(* the transport alone *)
Lemma transport_read ts dest :
  exists d' k ts', rd R ts dest = (ROk d' k, ts') /\ 0 <= k <= zlen dest /\ k <= zlen (sr_rest ts) /\
    firstn (Z.to_nat k) (fit d' dest) = firstn (Z.to_nat k) (sr_rest ts) /\ sr_rest ts' = skipn (Z.to_nat k) (sr_rest ts) /\
    (0 < zlen dest -> sr_rest ts <> [] -> 1 <= k).
Proof.
  pose proof (HR ts dest) as Hi. cbn [ar stream_ar] in Hi.
  set (want := match sr_sched ts with k :: _ => Z.max 1 k | [] => zlen (sr_rest ts) end) in *.
  set (k := Z.min want (Z.min (zlen dest) (zlen (sr_rest ts)))) in *.
  pose proof (zlen_nonneg dest). pose proof (zlen_nonneg (sr_rest ts)).
  destruct Hi as (Hle & d' & Hr & Hd).
  assert (Hk : 0 <= k) by (unfold k, want; destruct (sr_sched ts); lia).
  assert (Hz : zlen (firstn (Z.to_nat k) (sr_rest ts)) = k) by (rewrite zlen_firstn; unfold k in *; lia).
  rewrite Hz in Hr. exists d', k, {| sr_rest := skipn (Z.to_nat k) (sr_rest ts); sr_sched := tl (sr_sched ts) |}.
  split; [exact Hr|]. split; [unfold k; lia|]. split; [unfold k; lia|].
  split; [|split; [reflexivity|]].
  - transitivity (firstn (length (firstn (Z.to_nat k) (sr_rest ts))) (fit d' dest)); [f_equal; unfold zlen in Hz; lia|exact Hd].
  - intros Hd0 Hne. assert (0 < zlen (sr_rest ts)) by (destruct (sr_rest ts) as [|x0 t0]; [congruence|rewrite zlen_cons; pose proof (zlen_nonneg t0); lia]).
    unfold k, want. destruct (sr_sched ts); lia.
Qed.

(* one read of the chain whose first half is the buffer, computed *)
Lemma chain_read_fb (w : CW) dest : Inv SIZE (c_first w) ->
  chain_read (FBR chk) R dest w =
  if c_has w then
    let cc := Z.min (zlen dest) (len_ (c_first w)) in
    if cc =? 0 then
      if zlen dest =? 0 then Val (Ok 0, dest) w
      else call_rw_read R dest {| c_has := false; c_first := c_first w; c_rw := c_rw w |}
    else Val (Ok cc, splice dest 0 (firstn (Z.to_nat cc) (unread (c_first w))))
             {| c_has := true; c_first := after_read (c_first w) cc; c_rw := c_rw w |}
  else call_rw_read R dest w.
Proof.
  intros HI. unfold chain_read. unfold bind at 1. unfold bind at 1. unfold get_reader_is_some.
  destruct (c_has w) eqn:Eh; [|unfold ret; reflexivity].
  unfold bind at 1. unfold call_reader_read. cbn [rd FBR].
  rewrite (io_read_spec SIZE chk (c_first w) dest HI). unfold copy_count. cbv zeta.
  set (cc := Z.min (zlen dest) (len_ (c_first w))).
  destruct (cc =? 0) eqn:Ecc.
  - cbn [c_has c_first c_rw fst snd]. rewrite fit_same_length by reflexivity. replace (0 =? 0) with true by reflexivity. cbn [andb].
    destruct (zlen dest =? 0) eqn:Ed; cbn [negb].
    + unfold ret. cbv beta iota. rewrite Eh. destruct w; cbn in *; subst; reflexivity.
    + unfold bind at 1. unfold set_reader_none, ret. cbv beta iota. cbn [c_has c_first c_rw]. reflexivity.
  - cbn [c_has c_first c_rw fst snd].
    set (src := firstn (Z.to_nat cc) (unread (c_first w))).
    assert (Hcc : 0 < cc <= len_ (c_first w) /\ cc <= zlen dest) by (pose proof (len_nonneg SIZE _ HI); pose proof (zlen_nonneg dest); unfold cc in *; lia).
    assert (Hsrc : zlen src = cc) by (unfold src; rewrite zlen_firstn, (zlen_unread SIZE _ HI); lia).
    rewrite fit_same_length by (pose proof (zlen_splice dest src 0 ltac:(lia) ltac:(lia)); unfold zlen in *; lia).
    rewrite (zlen_splice dest src 0) by lia.
    replace ((cc =? 0) && negb (zlen dest =? 0)) with false by (rewrite Ecc; reflexivity).
    unfold ret. cbv beta iota. rewrite Eh. reflexivity.
Qed.

Theorem chain_is_source w dest : ok_c w ->
  exists d' k w', rd (CHR chk R) w dest = (ROk d' k, w') /\ 0 <= k <= zlen dest /\ k <= zlen (rem_c w) /\
    firstn (Z.to_nat k) (fit d' dest) = firstn (Z.to_nat k) (rem_c w) /\ rem_c w' = skipn (Z.to_nat k) (rem_c w) /\ ok_c w' /\
    (0 < zlen dest -> rem_c w <> [] -> 1 <= k).
Proof.
  intros [[HI Hnf] Hnone]. pose proof (zlen_nonneg dest) as Hdn. pose proof (zlen_unread SIZE _ HI) as Hz.
  pose proof (len_nonneg SIZE _ HI) as Hl.
  unfold rem_c. cbn [rd CHR]. rewrite (chain_read_fb w dest HI).
  (* reading the transport with the chain in state w1 (first exhausted, buffer empty) *)
  assert (Htr : forall (w1 : CW) dst, unread (c_first w1) = [] -> Inv2 SIZE (c_first w1) -> c_has w1 = false ->
     exists d' k w', call_rw_read R dst w1 = Val (Ok k, fit d' dst) w' /\ 0 <= k <= zlen dst /\ k <= zlen (sr_rest (c_rw w1)) /\
       firstn (Z.to_nat k) (fit d' dst) = firstn (Z.to_nat k) (sr_rest (c_rw w1)) /\
       sr_rest (c_rw w') = skipn (Z.to_nat k) (sr_rest (c_rw w1)) /\ c_first w' = c_first w1 /\ c_has w' = false /\
       (0 < zlen dst -> sr_rest (c_rw w1) <> [] -> 1 <= k)).
  { intros w1 dst Hu Hi1 Hh1. destruct (transport_read (c_rw w1) dst) as (d' & k & ts' & Hr & Hk & Hkr & Hp & Hrs & Hpr).
    exists d', k, {| c_has := c_has w1; c_first := c_first w1; c_rw := ts' |}.
    unfold call_rw_read. rewrite Hr. cbn [c_rw c_first c_has]. repeat split; auto; lia. }
  destruct (c_has w) eqn:Eh.
  - cbv zeta. set (cc := Z.min (zlen dest) (len_ (c_first w))).
    destruct (cc =? 0) eqn:Ecc.
    + destruct (zlen dest =? 0) eqn:Ed.
      * (* an empty destination: Ok(0), the chain does not switch *)
        exists dest, 0, w. cbn [Z.to_nat firstn skipn].
        pose proof (zlen_nonneg (unread (c_first w) ++ sr_rest (c_rw w))).
        split; [reflexivity|]. split; [lia|]. split; [lia|]. split; [reflexivity|]. split; [reflexivity|].
        split; [split; [split; assumption|rewrite Eh; discriminate]|lia].
      * (* the buffer is drained: switch to the transport, same destination *)
        assert (Hlen0 : len_ (c_first w) = 0) by (unfold cc in Ecc; lia).
        assert (Hu : unread (c_first w) = []) by (apply zlen_0_nil; lia).
        set (w1 := {| c_has := false; c_first := c_first w; c_rw := c_rw w |}).
        destruct (Htr w1 dest Hu (conj HI Hnf) eq_refl) as (d' & k & w' & Hr & Hk & Hkr & Hp & Hrs & Hf & Hh & Hpr).
        rewrite Hr. exists (fit d' dest), k, w'. rewrite Hu. cbn [app]. unfold w1 in *; cbn [c_first c_rw] in *.
        rewrite (fit_same_length (fit d' dest) dest) by apply fit_length. rewrite Hf, Hu. cbn [app].
        split; [reflexivity|]. split; [lia|]. split; [lia|]. split; [exact Hp|]. split; [exact Hrs|].
        split; [|exact Hpr]. unfold ok_c. rewrite Hf. split; [split; assumption|auto].
    + (* cc bytes from the buffer *)
      assert (Hcc : 0 < cc <= len_ (c_first w) /\ cc <= zlen dest) by (unfold cc in *; lia).
      set (src := firstn (Z.to_nat cc) (unread (c_first w))).
      assert (Hsrc : zlen src = cc) by (unfold src; rewrite zlen_firstn; lia).
      assert (Hfit : fit (splice dest 0 src) dest = splice dest 0 src).
      { apply fit_same_length. pose proof (zlen_splice dest src 0 ltac:(lia) ltac:(lia)). unfold zlen in *. lia. }
      destruct (after_read_facts SIZE chk (c_first w) cc HI ltac:(lia)) as (A & B & _).
      exists (splice dest 0 src), cc, {| c_has := true; c_first := after_read (c_first w) cc; c_rw := c_rw w |}.
      split; [reflexivity|]. cbn [c_first c_rw c_has]. rewrite Hfit.
      split; [lia|]. split; [rewrite zlen_app; pose proof (zlen_nonneg (sr_rest (c_rw w))); lia|].
      split; [|split; [|split; [|lia]]].
      * rewrite (firstn_splice_head dest src cc) by lia. unfold src. rewrite firstn_firstn, firstn_app.
        replace (Z.to_nat cc - length (unread (c_first w)))%nat with 0%nat by (unfold zlen in *; lia).
        cbn [firstn]. rewrite app_nil_r. f_equal. lia.
      * rewrite B, skipn_app. replace (Z.to_nat cc - length (unread (c_first w)))%nat with 0%nat by (unfold zlen in *; lia). reflexivity.
      * unfold ok_c; cbn [c_first c_has]. split; [split; [exact A|apply (nf_after_read SIZE); [exact HI|lia]]|discriminate].
  - (* the buffer was exhausted earlier: everything comes from the transport *)
    specialize (Hnone eq_refl).
    destruct (Htr w dest Hnone (conj HI Hnf) Eh) as (d' & k & w' & Hr & Hk & Hkr & Hp & Hrs & Hf & Hh & Hpr).
    rewrite Hr. exists (fit d' dest), k, w'. rewrite Hnone. cbn [app].
    rewrite (fit_same_length (fit d' dest) dest) by apply fit_length. rewrite Hf, Hnone. cbn [app].
    split; [reflexivity|]. split; [lia|]. split; [lia|]. split; [exact Hp|]. split; [exact Hrs|].
    split; [|exact Hpr]. unfold ok_c. rewrite Hf. split; [split; assumption|auto].
Qed.

(* C07, the payload: for ANY schedule of destination lengths (0 allowed), any allowance n and any chunking by the transport, draining
   ReadWriteTake(ReadWriteChain(buffer, transport), n) yields exactly the first min(n, available) bytes of unread ++ unpulled —
   leftover buffer bytes first — and leaves the rest as unread ++ unpulled for the next read_frame *)
Theorem c07_drain fuel dests n s ts :
  Inv2 SIZE s -> 0 <= n -> Forall (fun d => 0 <= d) dests ->
  let avail := unread s ++ sr_rest ts in
  let n' := Z.min n (zlen avail) in
  (length dests + Z.to_nat n' + 2 <= fuel)%nat ->
  exists tk, drain chk R fuel dests [] (take_new (chain_new s ts) n) = (firstn (Z.to_nat n') avail, DrOk, tk) /\
    unread (c_first (t_rw tk)) ++ sr_rest (c_rw (t_rw tk)) = skipn (Z.to_nat n') avail /\ Inv2 SIZE (c_first (t_rw tk)).
Proof.
  intros HI Hn Hd. cbv zeta. intros Hfuel. unfold drain.
  destruct (drain_spec chk (CHR chk R) rem_c ok_c chain_is_source fuel dests [] (take_new (chain_new s ts) n))
    as (w' & Hrun & Hrem & _ & Hok); cbn [take_new chain_new t_rw t_rem c_first c_rw c_has rem_c]; auto.
  - split; [exact HI|discriminate].
  - exists w'. cbn [app] in Hrun. split; [exact Hrun|]. split; [exact Hrem|apply Hok].
Qed.
End CHAINSRC.

(* ---- one request of the loop: the header the chunk-free specification gives, then exactly that payload ---- *)
From FB Require Import Facets.Rf Facets.RfRefine Facets.Frames Facets.DfContract Facets.C02.
Section REQUEST.
Variable SIZE : Z.
Variable chk : bool.
Variable R : Reader stream_reader.
Variable W : Writer stream_reader.
Variable df : list Z -> dres.
Variable plen : list Z -> Z.
Variable resp : list Z -> list Z -> list Z.
Hypothesis HR : implements R stream_ar.
Hypothesis Hc : df_contract SIZE df.
Hypothesis Hplen : forall l, 0 <= plen l.
(* the write half of the transport does not consume its input *)
Hypothesis HW : forall ts d, sr_rest (snd (wr W ts d)) = sr_rest ts.

Lemma write_all_read_side : forall fuel data (c : @cw fb stream_reader),
  let '(_, c') := write_all W fuel data c in c_first c' = c_first c /\ sr_rest (c_rw c') = sr_rest (c_rw c) /\ c_has c' = c_has c.
Proof.
  induction fuel as [|f IH]; intros data c; cbn [write_all]; [auto|].
  destruct data as [|x t]; [auto|].
  unfold chain_write, call_rw_write. pose proof (HW (c_rw c) (x :: t)) as Hw.
  destruct (wr W (c_rw c) (x :: t)) as [[n|k|] r'] eqn:Ew; cbn [snd] in Hw.
  - destruct (n =? 0); [cbn; auto|].
    specialize (IH (skipn (Z.to_nat n) (x :: t)) {| c_has := c_has c; c_first := c_first c; c_rw := r' |}).
    destruct (write_all W f _ _) as [st c']. cbn [c_first c_rw c_has] in IH. destruct IH as (A & B & C). rewrite A, B, C. auto.
  - destruct k; try (cbn; auto).
    specialize (IH (x :: t) {| c_has := c_has c; c_first := c_first c; c_rw := r' |}).
    destruct (write_all W f _ _) as [st c']. cbn [c_first c_rw c_has] in IH. destruct IH as (A & B & C). rewrite A, B, C. auto.
  - cbn. auto.
Qed.

Theorem c07_request fuel dests s ts : Inv2 SIZE s -> Forall (fun d => 0 <= d) dests ->
  let r0 := unread s ++ sr_rest ts in
  (Z.to_nat (zlen r0) + length dests + 2 < fuel)%nat ->
  match next SIZE df r0 with
  | (OFrame line, r1) =>
      let n' := Z.min (plen line) (zlen r1) in
      exists wr_ w', serve_one chk R W df plen resp fuel dests (s, ts) = (RqServed line (firstn (Z.to_nat n') r1) DrOk wr_, w') /\
        unread (fst w') ++ sr_rest (snd w') = skipn (Z.to_nat n') r1 /\ Inv2 SIZE (fst w')
  | (ONone, _) => exists w', serve_one chk R W df plen resp fuel dests (s, ts) = (RqEof, w')
  | (OErr k, _) => exists w', serve_one chk R W df plen resp fuel dests (s, ts) = (RqErr k, w')
  | (ODfPanic, _) => True
  end.
Proof.
  intros HI2 Hd. cbv zeta. intros Hfuel.
  pose proof (zlen_nonneg (unread s)) as Hu0. pose proof (zlen_nonneg (sr_rest ts)) as Hr0.
  destruct (c02_call SIZE chk R df HR Hc s ts fuel HI2 ltac:(rewrite zlen_app in Hfuel; lia)) as (r & s' & st' & o & Hrun & Ho & Hn & I').
  unfold serve_one. rewrite Hrun. rewrite <- Hn.
  destruct r as [[p| |k]|]; cbn [out_of] in Ho; inversion Ho; subst; try (eexists; reflexivity).
  pose proof (next_conserve SIZE df (unread s ++ sr_rest ts)) as (blk & Hblk). rewrite <- Hn in Hblk. cbn [snd] in Hblk.
  set (r1 := unread s' ++ sr_rest st') in *.
  assert (Hr1 : zlen r1 <= zlen (unread s ++ sr_rest ts)).
  { rewrite <- Hblk, zlen_app. pose proof (zlen_nonneg blk). lia. }
  set (n' := Z.min (plen p) (zlen r1)).
  pose proof (Hplen p) as Hp0. pose proof (zlen_nonneg r1) as Hr1n.
  destruct (c07_drain SIZE chk R HR fuel dests (plen p) s' st' I' Hp0 Hd ltac:(fold r1; fold n'; lia)) as (tk & Hdr & Hrest & It).
  fold r1 in Hdr, Hrest. fold n' in Hdr, Hrest. rewrite Hdr.
  pose proof (write_all_read_side fuel (resp p (firstn (Z.to_nat n') r1)) (t_rw tk)) as Hw.
  destruct (write_all W fuel (resp p (firstn (Z.to_nat n') r1)) (t_rw tk)) as [wst c'].
  destruct Hw as (A & B & _). eexists _, _. split; [reflexivity|]. cbn [fst snd]. rewrite A, B. auto.
Qed.
End REQUEST.
