(* Facets/Tokio.v — AsyncFixedBuf's AsyncRead/AsyncWrite impls mirror FixedBuf's io::Read / io::Write and never pend (C17). *)
From FB Require Import Sem.Base Sem.Lemmas Sem.Hoare Sem.ReadBuf Model.Fb Model.Script Model.Tokio Spec.Api Facets.Fb Facets.Fb2.
Open Scope Z_scope.

Lemma rb_advance_ok {S} (b : rb) (n : Z) (s : S) : rb_filled b + n <= usize_max -> rb_filled b + n <= rb_init b ->
  rb_advance b n s = Val {| rb_buf := rb_buf b; rb_filled := rb_filled b + n; rb_init := rb_init b |} s.
Proof.
  intros H1 H2. unfold rb_advance, rb_set_filled, assert_, bind, ret.
  replace (rb_filled b + n <=? usize_max) with true by lia. replace (rb_filled b + n <=? rb_init b) with true by lia. reflexivity.
Qed.

Section AFB.
Variable SIZE : Z.
Variable chk : bool.

(* zero-filling the uninitialised tail never touches the filled prefix *)
Lemma init_keeps_filled (b : rb) : rb_wf b ->
  let b2 := {| rb_buf := splice (rb_buf b) (rb_init b) (repeat 0 (Z.to_nat (zlen (rb_buf b) - rb_init b)));
               rb_filled := rb_filled b; rb_init := zlen (rb_buf b) |} in
  rb_filled_bytes b2 = rb_filled_bytes b /\ zlen (rb_buf b2) = zlen (rb_buf b).
Proof.
  intros (H1 & H2 & H3). cbv zeta. unfold rb_filled_bytes; cbn [rb_buf rb_filled].
  assert (Hr : zlen (repeat 0 (Z.to_nat (zlen (rb_buf b) - rb_init b))) = zlen (rb_buf b) - rb_init b) by (rewrite zlen_repeat; lia).
  split; [apply slice_splice_before; lia|apply zlen_splice; lia].
Qed.

Theorem afb_poll_read_spec s b : Inv SIZE s -> rb_wf b -> zlen (rb_buf b) <= usize_max ->
  let m := Z.min (rb_remaining b) (len_ s) in
  exists b', afb_poll_read chk b s = Val (PReady (Ok tt), b') (if m =? 0 then s else after_read s m) /\
    rb_filled_bytes b' = rb_filled_bytes b ++ firstn (Z.to_nat m) (unread s) /\
    rb_filled b' = rb_filled b + m /\ zlen (rb_buf b') = zlen (rb_buf b) /\ rb_wf b'.
Proof.
  intros HI (W1 & W2 & W3) Hmax. cbv zeta.
  pose proof (len_nonneg SIZE s HI) as Hl. pose proof (zlen_unread SIZE s HI) as Hz.
  unfold rb_remaining, rb_capacity in *.
  (* the ReadBuf after initialize_unfilled *)
  set (b2 := if rb_init b <? zlen (rb_buf b)
             then {| rb_buf := splice (rb_buf b) (rb_init b) (repeat 0 (Z.to_nat (zlen (rb_buf b) - rb_init b)));
                     rb_filled := rb_filled b; rb_init := zlen (rb_buf b) |} else b).
  set (v := {| v_off := rb_filled b; v_end := zlen (rb_buf b) |}).
  assert (Hiu : rb_initialize_unfilled (S := fb) b s = Val (b2, v) s).
  { unfold rb_initialize_unfilled, rb_initialize_unfilled_to, assert_, rb_remaining, rb_capacity.
    replace (zlen (rb_buf b) - rb_filled b <=? zlen (rb_buf b) - rb_filled b) with true by lia.
    unfold bind, ret. replace (rb_filled b + (zlen (rb_buf b) - rb_filled b)) with (zlen (rb_buf b)) by lia. reflexivity. }
  unfold afb_poll_read. rewrite (bind_val _ _ _ _ _ Hiu). cbv beta iota.
  assert (Hb2 : rb_filled_bytes b2 = rb_filled_bytes b /\ zlen (rb_buf b2) = zlen (rb_buf b) /\ rb_filled b2 = rb_filled b /\ rb_init b2 = zlen (rb_buf b)).
  { unfold b2. destruct (rb_init b <? zlen (rb_buf b)) eqn:E.
    - destruct (init_keeps_filled b (conj W1 (conj W2 W3))) as [A B]. auto.
    - repeat split; lia. }
  destruct Hb2 as (F2 & L2 & Fi2 & In2).
  unfold rb_filled_bytes in F2. rewrite Fi2 in F2.
  set (dest := rb_view_bytes b2 v).
  assert (Hd : zlen dest = zlen (rb_buf b) - rb_filled b).
  { unfold dest, rb_view_bytes, v; cbn [v_off v_end]. rewrite zlen_slice; lia. }
  unfold bind at 1. rewrite (read_and_copy_bytes_spec SIZE chk s dest HI).
  unfold copy_count. rewrite Hd. set (m := Z.min (zlen (rb_buf b) - rb_filled b) (len_ s)).
  destruct (m =? 0) eqn:Em.
  - (* nothing to copy *)
    cbv beta iota.
    assert (Hw : rb_write_view b2 v dest = b2).
    { unfold rb_write_view, v; cbn [v_off v_end].
      change (slice (rb_buf b2) (rb_filled b) (zlen (rb_buf b))) with dest.
      rewrite fit_same_length by reflexivity. unfold dest, rb_view_bytes, v; cbn [v_off v_end].
      rewrite splice_self by lia. destruct b2; reflexivity. }
    rewrite Hw. rewrite (bind_val _ _ _ _ _ (rb_advance_ok b2 0 s ltac:(lia) ltac:(lia))).
    eexists. split; [reflexivity|]. cbn [rb_buf rb_filled rb_init].
    replace m with 0 by lia. cbn [Z.to_nat firstn]. rewrite app_nil_r.
    split; [unfold rb_filled_bytes; cbn [rb_buf rb_filled]; rewrite Z.add_0_r, Fi2; exact F2|].
    split; [lia|]. split; [exact L2|]. unfold rb_wf; cbn [rb_buf rb_filled rb_init]. lia.
  - cbv beta iota.
    set (src := firstn (Z.to_nat m) (unread s)).
    assert (Hsrc : zlen src = m) by (unfold src; rewrite zlen_firstn; lia).
    set (dest' := splice dest 0 src).
    assert (Hd' : zlen dest' = zlen dest) by (unfold dest'; apply zlen_splice; lia).
    set (b3 := rb_write_view b2 v dest').
    assert (Hb3 : rb_buf b3 = splice (rb_buf b2) (rb_filled b) dest' /\ rb_filled b3 = rb_filled b /\ rb_init b3 = zlen (rb_buf b)).
    { unfold b3, rb_write_view, v; cbn [v_off v_end rb_buf rb_filled rb_init].
      change (slice (rb_buf b2) (rb_filled b) (zlen (rb_buf b))) with dest.
      rewrite fit_same_length by (unfold zlen in Hd'; lia). auto. }
    destruct Hb3 as (B3 & Fi3 & In3).
    rewrite (bind_val _ _ _ _ _ (rb_advance_ok b3 m (after_read s m) ltac:(lia) ltac:(lia))).
    eexists. split; [reflexivity|]. cbn [rb_buf rb_filled rb_init].
    assert (L3 : zlen (rb_buf b3) = zlen (rb_buf b)) by (rewrite B3, zlen_splice; lia).
    split; [|split; [lia|split; [exact L3|unfold rb_wf; cbn [rb_buf rb_filled rb_init]; lia]]].
    unfold rb_filled_bytes; cbn [rb_buf rb_filled]. rewrite Fi3, B3.
    rewrite (slice_splice_mid (rb_buf b2) dest' (rb_filled b) 0 (rb_filled b + m)) by lia.
    f_equal; [exact F2|].
    replace (rb_filled b + m - rb_filled b) with m by lia.
    unfold dest'. rewrite <- slice_0. rewrite (slice_splice_mid dest src 0 0 m) by lia.
    rewrite slice_nil. cbn [app]. rewrite Z.sub_0_r. unfold src. rewrite firstn_firstn. f_equal. lia.
Qed.

(* poll_write = io::Write::write with the same all-or-nothing rule; flush and shutdown do nothing *)
Theorem afb_poll_write_spec s d : Inv SIZE s ->
  afb_poll_write chk d s = if wlen SIZE s <? zlen d then Val (PReady (Err InvalidData)) s else Val (PReady (Ok (zlen d))) (after_write s d).
Proof.
  intros HI. unfold afb_poll_write. pose proof (write_bytes_spec SIZE chk s d HI) as Hw.
  destruct (wlen SIZE s <? zlen d); erewrite bind_val by exact Hw; reflexivity.
Qed.
Theorem afb_flush_shutdown s : afb_poll_flush s = Val (PReady (Ok tt)) s /\ afb_poll_shutdown s = Val (PReady (Ok tt)) s.
Proof. split; reflexivity. Qed.
End AFB.
