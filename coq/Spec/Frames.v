(* Spec/Frames.v — read_frame at the level of the unread bytes.
   (1) `aread_frame`: the loop as a function of the unread bytes u and an abstract reader (a reader whose
       count, delivered bytes and next state depend only on the capacity it is offered);
   (2) `next`: the chunk-free specification of one call on the bytes that remain (four lines). *)
From FB Require Import Sem.Base Sem.Lemmas Model.Fb.
Open Scope Z_scope.

Inductive aans := AData (data : list Z) | AErr (k : ekind) | APanic.
Record AReader (RS : Type) := { ar : RS -> Z -> aans * RS }.
Arguments ar {RS}.

(* a concrete std::io::Read implementation behaves as the abstract reader (it may scribble past its count) *)
Definition implements {RS} (R : Reader RS) (AR : AReader RS) : Prop :=
  forall rs dest,
    match ar AR rs (zlen dest) with
    | (AData data, rs') =>
        zlen data <= zlen dest /\
        exists d', rd R rs dest = (ROk d' (zlen data), rs') /\ firstn (length data) (fit d' dest) = data
    | (AErr k, rs') => rd R rs dest = (RErr k, rs')
    | (APanic, rs') => rd R rs dest = (RPanic, rs')
    end.

Section A.
Variable SIZE : Z.
Context {RS : Type}.
Variable AR : AReader RS.
Variable df : list Z -> dres.
Notation AW := (list Z * RS)%type.

Definition afill : M AW (option frame_res) := fun w =>
  let '(u, rs) := w in
  if SIZE - zlen u =? 0 then Val (Some (FErr InvalidData)) (u, rs) else
  match ar AR rs (SIZE - zlen u) with
  | (AData d, rs') =>
      if zlen d =? 0 then Val (Some (if zlen u =? 0 then FNone else FErr UnexpectedEof)) (u, rs')
      else Val None (u ++ d, rs')
  | (AErr k, rs') => Val (Some (FErr k)) (u, rs')
  | (APanic, rs') => Panic (u, rs')
  end.
Definition abody : M AW (option frame_res) := fun w =>
  let '(u, rs) := w in
  if zlen u =? 0 then afill w else
  match df u with
  | DFrame a b n => Val (Some (FFrame (slice u a b))) (skipn (Z.to_nat n) u, rs)
  | DErr => Val (Some (FErr InvalidData)) (u, rs)
  | DPanic => Panic (u, rs)
  | DNone => afill w
  end.
Definition aread_frame (fuel : nat) : M AW (fueled frame_res) := loop_fuel fuel abody.
End A.

(* ---- the chunk-free specification ---- *)
Inductive outcome := OFrame (payload : list Z) | ONone | OErr (k : ekind) | ODfPanic.
Definition next (SIZE : Z) (df : list Z -> dres) (r : list Z) : outcome * list Z :=
  let p := firstn (Z.to_nat SIZE) r in
  if zlen p =? 0 then (if SIZE =? 0 then OErr InvalidData else ONone, r) else
  match df p with
  | DFrame a b n => (OFrame (slice p a b), skipn (Z.to_nat n) r)
  | DErr => (OErr InvalidData, r)
  | DPanic => (ODfPanic, r)
  | DNone => (if SIZE <=? zlen r then OErr InvalidData else OErr UnexpectedEof, r)
  end.
Definition out_of (r : fueled frame_res) : option outcome :=
  match r with
  | Done (FFrame p) => Some (OFrame p) | Done FNone => Some ONone | Done (FErr k) => Some (OErr k) | OutOfFuel => None
  end.

(* a well-behaved transport: a stream cut into non-empty chunks by a schedule; Ok(0) only at end of stream *)
Record stream_reader := { sr_rest : list Z; sr_sched : list Z }.
Definition stream_ar : AReader stream_reader := {| ar := fun st cap =>
  let want := match sr_sched st with k :: _ => Z.max 1 k | [] => zlen (sr_rest st) end in
  let k := Z.min want (Z.min cap (zlen (sr_rest st))) in
  (AData (firstn (Z.to_nat k) (sr_rest st)),
   {| sr_rest := skipn (Z.to_nat k) (sr_rest st); sr_sched := tl (sr_sched st) |}) |}.
