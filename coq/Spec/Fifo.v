(* Spec/Fifo.v — the abstract specification C01 refines to: the buffer is a FIFO queue `q` of bytes.
   `fifo_ok q o r q'` says what one API call with outcome r may do to the queue:
   a read hands out exactly a prefix of q and removes it; an accepted write appends exactly the
   accepted bytes; queries, shift(), refused writes and refused (panicking) calls leave q; clear() empties it;
   len()/is_empty()/readable() report q.  (When a write is accepted is C03's business, not this spec's.) *)
From FB Require Import Sem.Base Sem.Lemmas Model.Fb Model.Script Spec.Api.
Open Scope Z_scope.

Definition fifo_ok (q : list Z) (o : op) (r : res fb obs) (q' : list Z) : Prop :=
  match r with
  | Panic _ =>
      match o with
      | OTryParse _ _ => exists k, q' = skipn k q     (* the closure consumed a prefix, then hit a documented panic *)
      | _ => q' = q
      end
  | Val v _ =>
      match o, v with
      | OLen, VZ z => z = zlen q /\ q' = q
      | OIsEmpty, VBool b => b = (zlen q =? 0) /\ q' = q
      | OReadable, VBytes l => l = q /\ q' = q
      | OMem, VBytes _ => q' = q
      | OIoFlush, VIoUnit _ => q' = q
      | OEscapeAscii, VBytes _ => q' = q
      | ODebug, VBytes _ => q' = q
      | OShift, VUnit => q' = q
      | OClear, VUnit => q' = []
      | OReadByte, VZ b => q = b :: q'
      | OTryReadByte, VOptZ None => q = [] /\ q' = []
      | OTryReadByte, VOptZ (Some b) => q = b :: q'
      | OReadBytes n, VBytes l => zlen l = n /\ q = l ++ q'
      | OTryReadBytes n, VOptBytes None => zlen q < n /\ q' = q
      | OTryReadBytes n, VOptBytes (Some l) => zlen l = n /\ q = l ++ q'
      | OReadAll, VBytes l => l = q /\ q' = []
      | OReadCopy dest, VCopy n dest' =>
          n = Z.min (zlen dest) (zlen q) /\ q = firstn (Z.to_nat n) dest' ++ q' /\
          skipn (Z.to_nat n) dest' = skipn (Z.to_nat n) dest /\ zlen dest' = zlen dest
      | OIoRead dest, VIoRead (Ok n) dest' =>
          n = Z.min (zlen dest) (zlen q) /\ q = firstn (Z.to_nat n) dest' ++ q' /\
          skipn (Z.to_nat n) dest' = skipn (Z.to_nat n) dest /\ zlen dest' = zlen dest
      | OTryReadExact dest, VExact None dest' => zlen q < zlen dest /\ q' = q /\ dest' = dest
      | OTryReadExact dest, VExact (Some _) dest' => zlen dest' = zlen dest /\ q = dest' ++ q'
      | OWriteBytes d, VWrite (Ok n) => n = zlen d /\ q' = q ++ d
      | OWriteBytes d, VWrite (Err _) => q' = q
      | OWriteStr d, VWriteStr (Ok _) => q' = q ++ d
      | OWriteStr d, VWriteStr (Err _) => q' = q
      | OIoWrite d, VIo (Ok n) => n = zlen d /\ q' = q ++ d
      | OIoWrite d, VIo (Err _) => q' = q
      | OWritableWrote sc n, VUnit =>
          exists a, q' = q ++ a /\ zlen a = n /\ firstn (Z.to_nat (Z.min n (zlen sc))) a = firstn (Z.to_nat (Z.min n (zlen sc))) sc
      | OCopyOnce ans, VIo (Ok n) =>
          exists dest d', ans dest = ROk d' n /\ q' = q ++ firstn (Z.to_nat n) (fit d' dest)
      | OCopyOnce ans, VIo (Err _) => q' = q
      | ODeframe df, VDeframe (Ok (Some _)) => exists a b n, df q = DFrame a b n /\ q' = skipn (Z.to_nat n) q
      | ODeframe df, VDeframe _ => q' = q
      | OTryParse _ _, VParse None => q' = q
      | OTryParse _ _, VParse (Some _) => exists k, q' = skipn k q
      | _, _ => False
      end
  end.

(* a history refines the queue: every step is fifo_ok, chained *)
Fixpoint fifo_chain (q : list Z) (tr : list (op * res fb obs)) (unread_after : list (list Z)) : Prop :=
  match tr, unread_after with
  | [], [] => True
  | (o, r) :: t, q' :: u => fifo_ok q o r q' /\ fifo_chain q' t u
  | _, _ => False
  end.
