(* Spec/TokioAdapters.v — reference machines: transcriptions of tokio 1.53.1 `io::util::chain::Chain::poll_read` and
   `io::util::take::Take::poll_read`.  Oracles, themselves compared with the real tokio types by the harness in every run. *)
From FB Require Import Sem.Base Sem.ReadBuf Model.Tokio.
Open Scope Z_scope.

Section TCHAIN.
Context {R1S R2S : Type}.
Variable R1 : AsyncReader R1S.
Variable R2 : AsyncReader R2S.
Record tcs := { tc_done_first : bool; tc_first : R1S; tc_second : R2S }.
(* if !*me.done_first { let rem = buf.remaining(); ready!(me.first.poll_read(cx, buf))?;
     if buf.remaining() == rem && rem != 0 { *me.done_first = true; } else { return Poll::Ready(Ok(())); } }
   me.second.poll_read(cx, buf) *)
Definition tokio_chain_poll_read (buf : rb) : M tcs (poll (io unit) * rb) := fun w =>
  let second := fun (w : tcs) (buf : rb) =>
    match prd R2 (tc_second w) buf with
    | (AROk b', r') => Val (PReady (Ok tt), b') {| tc_done_first := tc_done_first w; tc_first := tc_first w; tc_second := r' |}
    | (ARErr k b', r') => Val (PReady (Err k), b') {| tc_done_first := tc_done_first w; tc_first := tc_first w; tc_second := r' |}
    | (ARPending b', r') => Val (PPending, b') {| tc_done_first := tc_done_first w; tc_first := tc_first w; tc_second := r' |}
    | (ARPanic, r') => Panic {| tc_done_first := tc_done_first w; tc_first := tc_first w; tc_second := r' |}
    end in
  if negb (tc_done_first w) then
    let rem := rb_remaining buf in
    match prd R1 (tc_first w) buf with
    | (AROk b', r') =>
        if (rb_remaining b' =? rem) && negb (rem =? 0)
        then second {| tc_done_first := true; tc_first := r'; tc_second := tc_second w |} b'
        else Val (PReady (Ok tt), b') {| tc_done_first := false; tc_first := r'; tc_second := tc_second w |}
    | (ARErr k b', r') => Val (PReady (Err k), b') {| tc_done_first := false; tc_first := r'; tc_second := tc_second w |}
    | (ARPending b', r') => Val (PPending, b') {| tc_done_first := false; tc_first := r'; tc_second := tc_second w |}
    | (ARPanic, r') => Panic {| tc_done_first := false; tc_first := r'; tc_second := tc_second w |}
    end
  else second w buf.
End TCHAIN.

Section TTAKE.
Context {RS : Type}.
Variable R : AsyncReader RS.
Record tts := { tt_limit : Z; tt_inner : RS }.
(* if self.limit_ == 0 { return Ready(Ok(())) }
   let mut b = buf.take(usize::try_from(limit).unwrap_or(usize::MAX));      // ReadBuf::uninit(&mut unfilled[..min(remaining, n)])
   ready!(me.inner.poll_read(cx, &mut b))?;  let n = b.filled().len();
   unsafe { buf.assume_init(n) }; buf.advance(n); *me.limit_ -= n as u64; Ready(Ok(())) *)
Definition tokio_take_poll_read (buf : rb) : M tts (poll (io unit) * rb) := fun w =>
  if tt_limit w =? 0 then Val (PReady (Ok tt), buf) w else
  let max := Z.min (rb_remaining buf) (tt_limit w) in
  let sub := rb_uninit (slice (rb_buf buf) (rb_filled buf) (rb_filled buf + max)) in
  let back := fun (b2 : rb) => {| rb_buf := splice (rb_buf buf) (rb_filled buf) (fit (rb_buf b2) (rb_buf sub));
                                  rb_filled := rb_filled buf; rb_init := rb_init buf |} in
  match prd R (tt_inner w) sub with
  | (AROk b2, r') =>
      let n := zlen (rb_filled_bytes b2) in
      let b1 := back b2 in
      Val (PReady (Ok tt), {| rb_buf := rb_buf b1; rb_filled := rb_filled buf + n; rb_init := Z.max (rb_init buf) (rb_filled buf + n) |})
          {| tt_limit := tt_limit w - n; tt_inner := r' |}
  | (ARErr k b2, r') => Val (PReady (Err k), back b2) {| tt_limit := tt_limit w; tt_inner := r' |}
  | (ARPending b2, r') => Val (PPending, back b2) {| tt_limit := tt_limit w; tt_inner := r' |}
  | (ARPanic, r') => Panic {| tt_limit := tt_limit w; tt_inner := r' |}
  end.
End TTAKE.
