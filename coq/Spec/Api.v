(* Spec/Api.v — the public API of FixedBuf as an operation alphabet, and `step`, which dispatches
   each operation to the MODEL function.  Histories are lists of operations.
   Collaborators appear as arbitrary functions: a one-shot reader answer `ans`, a deframer `df`,
   a closure script (Model/Script.v). *)
From FB Require Import Sem.Base Model.Fb Model.Script Model.Escape.
Open Scope Z_scope.

Inductive op :=
| OLen | OIsEmpty | OReadable | OMem | OClear | OShift
| OReadByte | OTryReadByte | OReadBytes (n : Z) | OTryReadBytes (n : Z) | OReadAll
| OReadCopy (dest : list Z) | OTryReadExact (dest : list Z) | OIoRead (dest : list Z)
| OWriteBytes (d : list Z) | OWriteStr (d : list Z) | OIoWrite (d : list Z) | OIoFlush
| OWritableWrote (scribble : list Z) (n : Z)      (* fill writable() with scribble (as far as it fits), then wrote(n) *)
| OCopyOnce (ans : list Z -> rd_res)              (* copy_once_from(reader): the reader answers `ans dest` *)
| ODeframe (df : list Z -> dres)
| OTryParse (body : list rstep) (some : bool)
| OEscapeAscii | ODebug.

Inductive obs :=
| VUnit | VZ (z : Z) | VBool (b : bool) | VBytes (l : list Z) | VOptZ (o : option Z) | VOptBytes (o : option (list Z))
| VCopy (n : Z) (dest : list Z) | VExact (o : option unit) (dest : list Z) | VIoRead (r : io Z) (dest : list Z)
| VWrite (r : rres Z unit) | VWriteStr (r : rres unit unit) | VIo (r : io Z) | VIoUnit (r : io unit)
| VDeframe (r : io (option (Z * Z))) | VParse (o : option (list Z)).

Definition lift {A} (f : A -> obs) (r : res fb A) : res fb obs :=
  match r with Val a s => Val (f a) s | Panic s => Panic s end.

Definition one_shot (ans : list Z -> rd_res) : Reader unit := {| rd := fun _ dest => (ans dest, tt) |}.

Section STEP.
Variable SIZE : Z.
Variable chk : bool.
Definition scribble_then_wrote (sc : list Z) (n : Z) : M fb unit :=
  w <- writable ;;
  let k := Z.min (zlen sc) (vlen w) in
  dst <- view_sub w 0 k ;;
  view_copy_from_slice dst (firstn (Z.to_nat k) sc) ;;;
  wrote chk n.
Definition step (s : fb) (o : op) : res fb obs :=
  match o with
  | OLen => lift VZ (len chk s)
  | OIsEmpty => lift VBool (is_empty s)
  | OReadable => lift VBytes (readable s)
  | OMem => lift VBytes (mem_ s)
  | OClear => lift (fun _ => VUnit) (clear s)
  | OShift => lift (fun _ => VUnit) (shift chk s)
  | OReadByte => lift VZ (read_byte chk s)
  | OTryReadByte => lift VOptZ (try_read_byte chk s)
  | OReadBytes n => lift VBytes (read_bytes chk n s)
  | OTryReadBytes n => lift VOptBytes (try_read_bytes chk n s)
  | OReadAll => lift VBytes (read_all chk s)
  | OReadCopy dest => lift (fun r => VCopy (fst r) (snd r)) (read_and_copy_bytes chk dest s)
  | OTryReadExact dest => lift (fun r => VExact (fst r) (snd r)) (try_read_exact chk dest s)
  | OIoRead dest => lift (fun r => VIoRead (fst r) (snd r)) (io_read chk dest s)
  | OWriteBytes d => lift VWrite (write_bytes chk d s)
  | OWriteStr d => lift VWriteStr (write_str chk d s)
  | OIoWrite d => lift VIo (io_write chk d s)
  | OIoFlush => lift VIoUnit (io_flush s)
  | OWritableWrote sc n => lift (fun _ => VUnit) (scribble_then_wrote sc n s)
  | OCopyOnce ans =>
      match copy_once_from chk (one_shot ans) (s, tt) with
      | Val r (s', _) => Val (VIo r) s'
      | Panic (s', _) => Panic s'
      end
  | ODeframe df => lift VDeframe (deframe chk df s)
  | OTryParse body some => lift VParse (try_parse (closure chk body some) s)
  | OEscapeAscii => lift VBytes (fb_escape_ascii s)
  | ODebug => lift VBytes (debug_fmt SIZE chk s)
  end.

Fixpoint run (s : fb) (ops : list op) : fb :=
  match ops with [] => s | o :: t => run (state_of (step s o)) t end.
Fixpoint trace (s : fb) (ops : list op) : list (op * res fb obs) :=
  match ops with [] => [] | o :: t => (o, step s o) :: trace (state_of (step s o)) t end.
End STEP.
