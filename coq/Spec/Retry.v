(* Spec/Retry.v — a transport that can fail: schedule entries are chunks or transient faults; and the
   caller that calls read_frame again after a transient error. *)
From FB Require Import Sem.Base Sem.Lemmas Model.Fb Spec.Frames.
Open Scope Z_scope.

Inductive sitem := Give (k : Z) | Fail (kind : ekind).
Record fstream := { f_rest : list Z; f_sched : list sitem }.
Definition is_give (i : sitem) : bool := match i with Give _ => true | Fail _ => false end.

Definition fstream_ar : AReader fstream := {| ar := fun st cap =>
  match f_sched st with
  | Fail kind :: t => (AErr kind, {| f_rest := f_rest st; f_sched := t |})
  | sched =>
      let want := match sched with Give k :: _ => Z.max 1 k | _ => zlen (f_rest st) end in
      let k := Z.min want (Z.min cap (zlen (f_rest st))) in
      (AData (firstn (Z.to_nat k) (f_rest st)),
       {| f_rest := skipn (Z.to_nat k) (f_rest st); f_sched := tl sched |})
  end |}.

(* errors a transport reports, as opposed to the two read_frame raises itself *)
Definition transient (k : ekind) : bool :=
  match k with InvalidData | UnexpectedEof => false | _ => true end.

Section RETRY.
Variable SIZE : Z.
Variable df : list Z -> dres.
Notation body := (abody SIZE fstream_ar df).

(* the caller: call again after every transient error; stop at any other result *)
Inductive retries : list Z * fstream -> frame_res -> list Z * fstream -> Prop :=
| rt_final w r w' : runs body w r w' -> (forall k, r = FErr k -> transient k = false) -> retries w r w'
| rt_again w k w1 r w' : runs body w (FErr k) w1 -> transient k = true -> retries w1 r w' -> retries w r w'.
End RETRY.
