(* Spec/StdAdapters.v — reference machines: transcriptions of std::io::Chain::read and std::io::Take::read
   (rust-src 1.95, library/std/src/io/mod.rs).  They are oracles; the harness runs the REAL std types on the same
   scripts in the same run and compares them with these transcriptions (they are themselves under tie T2). *)
From FB Require Import Sem.Base.
Open Scope Z_scope.

Section STDCHAIN.
Context {R1S R2S : Type}.
Variable R1 : Reader R1S.
Variable R2 : Reader R2S.
Record sc := { sc_done_first : bool; sc_first : R1S; sc_second : R2S }.
(* if !self.done_first { match self.first.read(buf)? { 0 if !buf.is_empty() => self.done_first = true, n => return Ok(n) } }
   self.second.read(buf) *)
Definition std_chain_read (buf : list Z) : M sc (io Z * list Z) := fun w =>
  let second := fun (w : sc) (buf : list Z) =>
    match rd R2 (sc_second w) buf with
    | (ROk d' n, r') => Val (Ok n, fit d' buf) {| sc_done_first := sc_done_first w; sc_first := sc_first w; sc_second := r' |}
    | (RErr k, r') => Val (Err k, buf) {| sc_done_first := sc_done_first w; sc_first := sc_first w; sc_second := r' |}
    | (RPanic, r') => Panic {| sc_done_first := sc_done_first w; sc_first := sc_first w; sc_second := r' |}
    end in
  if negb (sc_done_first w) then
    match rd R1 (sc_first w) buf with
    | (ROk d' n, r') =>
        let w1 := {| sc_done_first := sc_done_first w; sc_first := r'; sc_second := sc_second w |} in
        if (n =? 0) && negb (zlen buf =? 0)
        then second {| sc_done_first := true; sc_first := r'; sc_second := sc_second w |} (fit d' buf)
        else Val (Ok n, fit d' buf) w1
    | (RErr k, r') => Val (Err k, buf) {| sc_done_first := sc_done_first w; sc_first := r'; sc_second := sc_second w |}
    | (RPanic, r') => Panic {| sc_done_first := sc_done_first w; sc_first := r'; sc_second := sc_second w |}
    end
  else second w buf.
End STDCHAIN.

Section STDTAKE.
Context {RS : Type}.
Variable chk : bool.
Variable R : Reader RS.
Record st := { st_limit : Z; st_inner : RS }.
(* if self.limit == 0 { return Ok(0); }
   let max = cmp::min(buf.len() as u64, self.limit) as usize;
   let n = self.inner.read(&mut buf[..max])?;
   assert!(n as u64 <= self.limit, "number of read bytes exceeds limit");
   self.limit -= n as u64;  Ok(n) *)
Definition std_take_read (buf : list Z) : M st (io Z * list Z) := fun w =>
  if st_limit w =? 0 then Val (Ok 0, buf) w else
  let max := Z.min (zlen buf) (st_limit w) in
  let dest := slice buf 0 max in
  match rd R (st_inner w) dest with
  | (ROk d' n, r') =>
      if n <=? st_limit w then Val (Ok n, splice buf 0 (fit d' dest)) {| st_limit := st_limit w - n; st_inner := r' |}
      else Panic {| st_limit := st_limit w; st_inner := r' |}
  | (RErr k, r') => Val (Err k, splice buf 0 dest) {| st_limit := st_limit w; st_inner := r' |}
  | (RPanic, r') => Panic {| st_limit := st_limit w; st_inner := r' |}
  end.
End STDTAKE.
