(* Spec/Capacity.v — the abstract specification C03 refines to: the pair (l, w) = (len(), writable().len()).
   `cap_ok SIZE l w o r l' w'` says what one API call with outcome r may do to that pair. *)
From FB Require Import Sem.Base Model.Fb Model.Script Spec.Api.
Open Scope Z_scope.

Definition is_val {S A} (r : res S A) : Prop := match r with Val _ _ => True | Panic _ => False end.

Definition cap_ok (SIZE l w : Z) (o : op) (r : res fb obs) (l' w' : Z) : Prop :=
  (* global: nothing is lost, and an empty buffer has all of its capacity writable *)
  0 <= l' /\ 0 <= w' /\ l' + w' <= SIZE /\ (l' = 0 -> w' = SIZE) /\
  match o with
  | OWriteBytes d =>
      match r with
      | Val (VWrite (Ok n)) _ => zlen d <= w /\ n = zlen d /\ l' = l + zlen d /\ w' = w - zlen d
      | Val (VWrite (Err _)) _ => w < zlen d /\ l' = l /\ w' = w
      | _ => False
      end
  | OWriteStr d =>
      match r with
      | Val (VWriteStr (Ok _)) _ => zlen d <= w /\ l' = l + zlen d /\ w' = w - zlen d
      | Val (VWriteStr (Err _)) _ => w < zlen d /\ l' = l /\ w' = w
      | _ => False
      end
  | OIoWrite d =>
      match r with
      | Val (VIo (Ok n)) _ => zlen d <= w /\ n = zlen d /\ l' = l + zlen d /\ w' = w - zlen d
      | Val (VIo (Err k)) _ => k = InvalidData /\ w < zlen d /\ l' = l /\ w' = w
      | _ => False
      end
  | OWritableWrote _ n =>
      match r with
      | Val _ _ => n <= w /\ l' = l + n /\ w' = w - n
      | Panic _ => w < n /\ l' = l /\ w' = w
      end
  | OCopyOnce _ =>
      match r with
      | Val (VIo (Ok n)) _ => 0 < w /\ n <= w /\ l' = l + n /\ w' = w - n
      | _ => l' = l /\ w' = w
      end
  | OShift => l' = l /\ w' = SIZE - l
  | OClear => l' = 0 /\ w' = SIZE
  | OLen | OIsEmpty | OReadable | OMem | OIoFlush | OEscapeAscii | ODebug => l' = l /\ w' = w
  | OTryParse _ _ =>
      match r with
      | Val (VParse None) _ => l' = l /\ w' = w       (* C11: a None rolls the accounting back *)
      | _ => l' <= l /\ w <= w'
      end
  | _ => (* every read path *) l' <= l /\ w <= w'
  end.

Fixpoint cap_chain (SIZE l w : Z) (tr : list (op * res fb obs)) (after : list (Z * Z)) : Prop :=
  match tr, after with
  | [], [] => True
  | (o, r) :: t, (l', w') :: u => cap_ok SIZE l w o r l' w' /\ cap_chain SIZE l' w' t u
  | _, _ => False
  end.
