(* Spec/AllocTable.v — the closed table of callees known NOT to reach the allocator, and of the functions whose purpose is to build
   a String.  A callee outside `noalloc` counts as "may allocate": a new call in a library function makes the C18 theorem fail
   (it is never silently treated as non-allocating).  MODELLED: the table is the reviewer's knowledge of std/core. *)
From Coq Require Import String List Bool.
Import ListNotations.
Open Scope string_scope.

Definition noalloc : list string := [
  (* constructors of Option / Result / Poll and zero-sized or inline structs *)
  "Ok"; "Some"; "Err"; "Self"; "struct:Self"; "struct:NotEnoughSpaceError"; "Self::new";
  (* slices and integers *)
  ".len"; ".is_empty"; ".as_ref"; ".as_mut"; ".as_bytes"; ".copy_from_slice"; ".copy_within"; ".min"; "core::cmp::min"; ".map";
  "assert!";
  (* the crate's own non-allocating methods (each is itself in the table's scope) *)
  ".readable"; ".mem"; ".writable"; ".wrote"; ".shift"; ".read_bytes"; ".read_byte"; ".read_and_copy_bytes"; ".write_bytes"; ".deframe";
  (* caller-supplied code: its allocations are the caller's *)
  ".read"; ".write"; ".flush"; "f"; "deframer_fn"
].
(* the String-producing helpers the property excepts *)
Definition string_fns : list string := [
  "fixed-buffer/src/escape_ascii.rs::escape_ascii";
  "fixed-buffer/src/lib.rs::FixedBuf<SIZE>::escape_ascii";
  "fixed-buffer/src/lib.rs::<FixedBuf<SIZE> as core::fmt::Debug>::fmt";
  "fixed-buffer/src/lib.rs::MalformedInputError::new"
].
Definition mem (x : string) (l : list string) : bool := existsb (String.eqb x) l.
Definition in_scope (f : string) : bool := String.prefix "fixed-buffer/src/" f.
(* a function passes when every call in it is non-allocating, or sits on an error path, or the function is a String helper *)
Definition fn_ok (fc : string * list (string * bool)) : bool :=
  let '(f, calls) := fc in
  negb (in_scope f) || mem f string_fns || forallb (fun ce => mem (fst ce) noalloc || snd ce) calls.
