(* Model/Serve.v — the documented request loop (tests/server.rs in both crates), as a composition of the TRANSLATED pieces:
     loop { line = buf.read_frame(&mut stream, deframe_line)?;  n = plen(line);
            payload = drain(ReadWriteTake::new(&mut ReadWriteChain::new(&mut buf, &mut stream), n));
            chain.write_all(response) }
   HAND-MODELLED glue (the crate ships it only as a test): the loop itself, the header parser `plen` (any function), the drain
   loop with a schedule of destination lengths, write_all.  Held to the real types by the harness (family SRV). *)
From FB Require Import Sem.Base Model.Fb Model.Adapters.
Open Scope Z_scope.

Inductive dstat := DrOk | DrErr (k : ekind) | DrPanic | DrFuel.
(* read a take adapter over ANY inner reader with destinations of the scheduled lengths until it returns Ok(0) on a non-empty one *)
Fixpoint drain_gen {S : Type} (chk : bool) (Src : Reader S) (fuel : nat) (dests : list Z) (acc : list Z) (w : @tw S)
  : list Z * dstat * @tw S :=
  match fuel with
  | O => (acc, DrFuel, w)
  | S f =>
    let d := match dests with [] => 8 | x :: _ => x end in
    match take_read chk Src (repeat 221 (Z.to_nat d)) w with
    | Val (Ok n, dest') w' =>
        (* Ok(0) means end of payload only when the destination was non-empty *)
        if (n =? 0) && negb (d =? 0) then (acc, DrOk, w') else drain_gen chk Src f (tl dests) (acc ++ firstn (Z.to_nat n) dest') w'
    | Val (Err k, _) w' => (acc, DrErr k, w')
    | Panic w' => (acc, DrPanic, w')
    end
  end.

Section SERVE.
Variable SIZE : Z.
Variable chk : bool.
Context {TS : Type}.
Variable R : Reader TS.           (* the transport, read half *)
Variable W : Writer TS.           (* the transport, write half *)
Variable df : list Z -> dres.     (* the header deframer *)
Variable plen : list Z -> Z.      (* the application's header parser: payload length *)
Variable resp : list Z -> list Z -> list Z.   (* the application's response to (line, payload) *)

(* impl std::io::Read for FixedBuf, as the first half of a chain *)
Definition FBR : Reader fb := {| rd := fun s dest =>
  match io_read chk dest s with
  | Val (Ok n, d') s' => (ROk d' n, s')
  | Val (Err k, _) s' => (RErr k, s')
  | Panic s' => (RPanic, s')
  end |}.
(* ReadWriteChain<FixedBuf, Transport> as the inner Read + Write of a take *)
Notation CW := (@cw fb TS).
Definition CHR : Reader CW := {| rd := fun w dest =>
  match chain_read FBR R dest w with
  | Val (Ok n, d') w' => (ROk d' n, w')
  | Val (Err k, _) w' => (RErr k, w')
  | Panic w' => (RPanic, w')
  end |}.

(* read a take adapter with destinations of the scheduled lengths until it returns Ok(0) *)
Definition drain (fuel : nat) (dests : list Z) (acc : list Z) (w : @tw CW) : list Z * dstat * @tw CW :=
  drain_gen chk CHR fuel dests acc w.
(* Write::write_all through the chain *)
Fixpoint write_all (fuel : nat) (data : list Z) (w : CW) : dstat * CW :=
  match fuel with
  | O => (DrFuel, w)
  | S f =>
    match data with
    | [] => (DrOk, w)
    | _ =>
      match chain_write (R1S := fb) W data w with
      | Val (Ok n) w' => if n =? 0 then (DrErr Other, w') (* WriteZero *) else write_all f (skipn (Z.to_nat n) data) w'
      | Val (Err k) w' => if match k with Interrupted => true | _ => false end then write_all f data w' else (DrErr k, w')
      | Panic w' => (DrPanic, w')
      end
    end
  end.

Inductive req_out :=
| RqServed (line payload : list Z) (dr wr : dstat)
| RqEof | RqErr (k : ekind) | RqPanic | RqFuel.

Definition serve_one (fuel : nat) (dests : list Z) (w : fb * TS) : req_out * (fb * TS) :=
  match read_frame chk R fuel df w with
  | Panic w' => (RqPanic, w')
  | Val OutOfFuel w' => (RqFuel, w')
  | Val (Done FNone) w' => (RqEof, w')
  | Val (Done (FErr k)) w' => (RqErr k, w')
  | Val (Done (FFrame line)) (s, ts) =>
      let n := plen line in
      let '(payload, dr, tk) := drain fuel dests [] (take_new (chain_new s ts) n) in
      let c := t_rw tk in
      let '(wr, c') := match dr with DrOk => write_all fuel (resp line payload) c | _ => (DrOk, c) end in
      (RqServed line payload dr wr, (c_first c', c_rw c'))
  end.
Fixpoint serve (nreq : nat) (fuel : nat) (dests : list Z) (w : fb * TS) : list req_out * (fb * TS) :=
  match nreq with
  | O => ([], w)
  | S m =>
    let '(o, w') := serve_one fuel dests w in
    match o with
    | RqServed _ _ DrOk DrOk => let '(os, w'') := serve m fuel dests w' in (o :: os, w'')
    | _ => ([o], w')
    end
  end.
End SERVE.
