(* Model/Fb.v — executable model of fixed-buffer/src/lib.rs (struct FixedBuf and every method),
   one Gallina definition per Rust function, in the translator's target style
   (A-normal monadic form, `self` threaded by M, early exits as if/else nesting). *)
From FB Require Import Sem.Base.
Open Scope Z_scope.

(* pub struct FixedBuf<const SIZE: usize> { mem: [u8; SIZE], read_index: usize, write_index: usize } *)
Record fb := { mem : list Z; read_index : Z; write_index : Z }.

Section FB.
Variable SIZE : Z.
Variable chk : bool.

Notation MF := (M fb).
Definition get_read_index : MF Z := fun s => Val (read_index s) s.
Definition get_write_index : MF Z := fun s => Val (write_index s) s.
Definition get_mem : MF (list Z) := fun s => Val (mem s) s.
Definition set_read_index (v : Z) : MF unit :=
  fun s => Val tt {| mem := mem s; read_index := v; write_index := write_index s |}.
Definition set_write_index (v : Z) : MF unit :=
  fun s => Val tt {| mem := mem s; read_index := read_index s; write_index := v |}.
Definition set_mem (v : list Z) : MF unit :=
  fun s => Val tt {| mem := v; read_index := read_index s; write_index := write_index s |}.

(* view operations on self.mem *)
Definition view_of (lo hi : Z) : MF view :=
  m <- get_mem ;; if (lo <=? hi) && (hi <=? zlen m) then ret {| v_off := lo; v_end := hi |} else panic.
Definition view_sub (v : view) (lo hi : Z) : MF view :=
  if (lo <=? hi) && (hi <=? vlen v) then ret {| v_off := v_off v + lo; v_end := v_off v + hi |} else panic.
Definition view_copy_from_slice (v : view) (src : list Z) : MF unit :=
  if vlen v =? zlen src then m <- get_mem ;; set_mem (splice m (v_off v) src) else panic.
(* self.mem.copy_within(lo..hi, dest) *)
Definition mem_copy_within (lo hi dest : Z) : MF unit :=
  m <- get_mem ;;
  if (lo <=? hi) && (hi <=? zlen m) && (dest + (hi - lo) <=? zlen m)
  then set_mem (splice m dest (slice m lo hi)) else panic.

(* ---- constructors ---- *)
Definition new : fb := {| mem := repeat 0 (Z.to_nat SIZE); read_index := 0; write_index := 0 |}.
Definition empty (m : list Z) : fb := {| mem := m; read_index := 0; write_index := 0 |}.
Definition filled (m : list Z) : fb := {| mem := m; read_index := 0; write_index := SIZE |}.
Definition default : fb := new.
Definition into_inner (s : fb) : list Z := mem s.

(* ---- queries ---- *)
Definition len : MF Z :=
  write_index_1 <- get_write_index ;; read_index_2 <- get_read_index ;; usub chk write_index_1 read_index_2.
Definition is_empty : MF bool :=
  write_index_1 <- get_write_index ;; read_index_2 <- get_read_index ;; ret (write_index_1 =? read_index_2).
Definition clear : MF unit := set_read_index 0 ;;; set_write_index 0.
Definition mem_ : MF (list Z) := get_mem.
Definition readable : MF (list Z) :=
  mem_1 <- get_mem ;; read_index_2 <- get_read_index ;; write_index_3 <- get_write_index ;;
  slice_chk mem_1 read_index_2 write_index_3.

(* ---- read paths ---- *)
Definition read_bytes (num_bytes : Z) : MF (list Z) :=
  len_1 <- len ;;
  assert_ (num_bytes <=? len_1) ;;;
  read_index_2 <- get_read_index ;;
  sum_3 <- uadd chk read_index_2 num_bytes ;;
  let new_read_index := sum_3 in
  read_index_4 <- get_read_index ;;
  let old_read_index := read_index_4 in
  set_read_index new_read_index ;;;
  read_index_5 <- get_read_index ;; write_index_6 <- get_write_index ;;
  (if read_index_5 =? write_index_6 then set_write_index 0 ;;; set_read_index 0 else ret tt) ;;;
  mem_7 <- get_mem ;;
  slice_chk mem_7 old_read_index new_read_index.

Definition read_byte : MF Z := sl_1 <- read_bytes 1 ;; index_chk sl_1 0.
Definition try_read_byte : MF (option Z) :=
  e_1 <- is_empty ;; if e_1 then ret None else b_2 <- read_byte ;; ret (Some b_2).
Definition try_read_bytes (num_bytes : Z) : MF (option (list Z)) :=
  len_1 <- len ;; if len_1 <? num_bytes then ret None else sl_2 <- read_bytes num_bytes ;; ret (Some sl_2).
Definition read_all : MF (list Z) := len_1 <- len ;; read_bytes len_1.

(* dest: &mut [u8] is an in/out list; returns (count, dest') *)
Definition read_and_copy_bytes (dest : list Z) : MF (Z * list Z) :=
  readable_1 <- readable ;;
  let len_ := Z.min (zlen dest) (zlen readable_1) in
  if len_ =? 0 then ret (0, dest) else
  src <- slice_chk readable_1 0 len_ ;;
  (* let copy_dest = &mut dest[..len]; copy_dest.copy_from_slice(src); *)
  assert_ ((0 <=? len_) && (len_ <=? zlen dest)) ;;;
  assert_ (len_ =? zlen src) ;;;
  let dest' := splice dest 0 src in
  read_bytes len_ ;;;
  ret (len_, dest').
Definition try_read_exact (dest : list Z) : MF (option unit * list Z) :=
  len_1 <- len ;; if len_1 <? zlen dest then ret (None, dest) else
  r_2 <- read_and_copy_bytes dest ;; ret (Some tt, snd r_2).

(* ---- write paths ---- *)
Definition writable : MF view :=
  mem_1 <- get_mem ;; write_index_2 <- get_write_index ;; view_of write_index_2 (zlen mem_1).
Definition wrote (num_bytes : Z) : MF unit :=
  if num_bytes =? 0 then ret tt else
  mem_1 <- get_mem ;; write_index_2 <- get_write_index ;;
  dif_3 <- usub chk (zlen mem_1) write_index_2 ;;
  assert_ (num_bytes <=? dif_3) ;;;
  write_index_4 <- get_write_index ;;
  sum_5 <- uadd chk write_index_4 num_bytes ;;
  let new_write_index := sum_5 in
  set_write_index new_write_index.
(* Result<usize, NotEnoughSpaceError> *)
Definition write_bytes (data : list Z) : MF (rres Z unit) :=
  writable_1 <- writable ;;
  if vlen writable_1 <? zlen data then ret (Err tt) else
  dest <- view_sub writable_1 0 (zlen data) ;;
  view_copy_from_slice dest data ;;;
  wrote (zlen data) ;;;
  ret (Ok (zlen data)).
Definition write_str (s : list Z) : MF (rres unit unit) :=
  r_1 <- write_bytes s ;; ret (match r_1 with Ok _ => Ok tt | Err e => Err e end).

Definition shift : MF unit :=
  read_index_1 <- get_read_index ;;
  if read_index_1 =? 0 then ret tt else
  read_index_2 <- get_read_index ;; write_index_3 <- get_write_index ;;
  mem_copy_within read_index_2 write_index_3 0 ;;;
  write_index_4 <- get_write_index ;; read_index_5 <- get_read_index ;;
  dif_6 <- usub chk write_index_4 read_index_5 ;; set_write_index dif_6 ;;;
  set_read_index 0.

(* F: FnOnce(&mut FixedBuf) -> Option<R> is a computation on the buffer *)
Definition try_parse {R} (f : MF (option R)) : MF (option R) :=
  read_index_1 <- get_read_index ;;
  let original_read_index := read_index_1 in
  write_index_2 <- get_write_index ;;
  let original_write_index := write_index_2 in
  r_3 <- f ;;
  match r_3 with
  | Some value => ret (Some value)
  | None => set_read_index original_read_index ;;; set_write_index original_write_index ;;; ret None
  end.

(* deframer callback: a function of the readable bytes; may reject or panic *)
Definition call_df (df : list Z -> dres) (data : list Z) : MF (rres (option ((Z * Z) * Z)) unit) :=
  match df data with
  | DNone => ret (Ok None) | DFrame a b n => ret (Ok (Some ((a, b), n))) | DErr => ret (Err tt) | DPanic => panic
  end.
Definition deframe (df : list Z -> dres) : MF (io (option (Z * Z))) :=
  e_1 <- is_empty ;; if e_1 then ret (Ok None) else
  readable_2 <- readable ;;
  q_3 <- call_df df readable_2 ;;
  match q_3 with
  | Err _ => ret (Err InvalidData)          (* `?` through From<MalformedInputError> for io::Error *)
  | Ok (Some ((ds, de), block_len)) =>
      read_index_4 <- get_read_index ;; mem_start <- uadd chk read_index_4 ds ;;
      read_index_5 <- get_read_index ;; mem_end <- uadd chk read_index_5 de ;;
      read_bytes block_len ;;;
      ret (Ok (Some (mem_start, mem_end)))
  | Ok None => ret (Ok None)
  end.

(* impl std::io::Write / std::io::Read for FixedBuf *)
Definition io_write (data : list Z) : MF (io Z) :=
  r_1 <- write_bytes data ;;
  match r_1 with
  | Err _ => ret (Err InvalidData)      (* `?` through From<NotEnoughSpaceError> for io::Error *)
  | Ok v => ret (Ok v)
  end.
Definition io_flush : MF (io unit) := ret (Ok tt).
Definition io_read (buf : list Z) : MF (io Z * list Z) :=
  r_1 <- read_and_copy_bytes buf ;; ret (Ok (fst r_1), snd r_1).

(* ---- methods with a reader collaborator: world = fb * RS ---- *)
Context {RS : Type} (R : Reader RS).
Notation MW := (M (fb * RS)).
Definition self_ {A} (m : MF A) : MW A := fun w =>
  match m (fst w) with Val a s => Val a (s, snd w) | Panic s => Panic (s, snd w) end.
(* reader.read(view): the reader sees the current bytes of the view and may overwrite them *)
Definition call_read (v : view) : MW (io Z) := fun w =>
  let s := fst w in
  let dest := slice (mem s) (v_off v) (v_end v) in
  match rd R (snd w) dest with
  | (ROk dest' n, r') =>
      Val (Ok n) ({| mem := splice (mem s) (v_off v) (fit dest' dest);
                     read_index := read_index s; write_index := write_index s |}, r')
  | (RErr k, r') => Val (Err k) (s, r')
  | (RPanic, r') => Panic (s, r')
  end.

Definition copy_once_from : MW (io Z) :=
  writable_1 <- self_ writable ;;
  if vlen writable_1 =? 0 then ret (Err InvalidData) else
  q_2 <- call_read writable_1 ;;
  match q_2 with
  | Err e => ret (Err e)
  | Ok num_read => self_ (wrote num_read) ;;; ret (Ok num_read)
  end.

Inductive frame_res := FFrame (payload : list Z) | FNone | FErr (e : ekind).
(* how the three-constructor result type represents Result<Option<&[u8]>, io::Error> *)
Definition to_fr (r : io (option (list Z))) : frame_res :=
  match r with Err e => FErr e | Ok None => FNone | Ok (Some p) => FFrame p end.
Definition read_frame_body (df : list Z -> dres) : MW (option frame_res) :=
  e_1 <- self_ is_empty ;;
  k_2 <- (if negb e_1 then
           q_3 <- self_ (deframe df) ;;
           match q_3 with
           | Err er => ret (Some (FErr er))
           | Ok (Some (a, b)) => m_4 <- self_ mem_ ;; sl_5 <- slice_chk m_4 a b ;; ret (Some (FFrame sl_5))
           | Ok None => ret None
           end
         else ret None) ;;
  match k_2 with
  | Some r => ret (Some r)
  | None =>
    self_ shift ;;;
    writable_6 <- self_ writable ;;
    if vlen writable_6 =? 0 then ret (Some (FErr InvalidData)) else
    q_7 <- call_read writable_6 ;;
    match q_7 with
    | Err er => ret (Some (FErr er))
    | Ok num_read =>
      if num_read =? 0 then
        e_8 <- self_ is_empty ;;
        if e_8 then ret (Some FNone) else ret (Some (FErr UnexpectedEof))
      else
        self_ (wrote num_read) ;;; ret None
    end
  end.
Definition read_frame (fuel : nat) (df : list Z -> dres) : MW (fueled frame_res) :=
  loop_fuel fuel (read_frame_body df).
End FB.
