(* Model/Pinned.v — the bodies of read_bytes and wrote as they were on the pinned tree (before
   `fix:` commit dc31365), kept as the regression oracle for C04: the faithful model of the pinned
   code REFUTES the panic contract in the release profile, by kernel-checked witnesses. *)
From FB Require Import Sem.Base Model.Fb.
Open Scope Z_scope.
Section P.
Variable chk : bool.
Definition read_bytes_pinned (num_bytes : Z) : M fb (list Z) :=
  read_index_1 <- get_read_index ;;
  sum_2 <- uadd chk read_index_1 num_bytes ;;
  let new_read_index := sum_2 in
  write_index_3 <- get_write_index ;;
  assert_ (new_read_index <=? write_index_3) ;;;
  read_index_4 <- get_read_index ;;
  let old_read_index := read_index_4 in
  set_read_index new_read_index ;;;
  read_index_5 <- get_read_index ;; write_index_6 <- get_write_index ;;
  (if read_index_5 =? write_index_6 then set_write_index 0 ;;; set_read_index 0 else ret tt) ;;;
  mem_7 <- get_mem ;;
  slice_chk mem_7 old_read_index new_read_index.
Definition wrote_pinned (num_bytes : Z) : M fb unit :=
  if num_bytes =? 0 then ret tt else
  write_index_1 <- get_write_index ;;
  sum_2 <- uadd chk write_index_1 num_bytes ;;
  let new_write_index := sum_2 in
  mem_3 <- get_mem ;;
  assert_ (new_write_index <=? zlen mem_3) ;;;
  set_write_index new_write_index.
End P.

(* release profile: wrote(usize::MAX) on a FixedBuf<4> holding "abc" returns normally and un-commits a byte *)
Lemma wrote_pinned_refuted :
  wrote_pinned false usize_max {| mem := [97; 98; 99; 0]; read_index := 0; write_index := 3 |}
  = Val tt {| mem := [97; 98; 99; 0]; read_index := 0; write_index := 2 |}.
Proof. vm_compute. reflexivity. Qed.
(* release profile: read_bytes(usize::MAX) at read offset 1 un-consumes a byte, then panics *)
Lemma read_bytes_pinned_refuted :
  read_bytes_pinned false usize_max {| mem := [97; 98; 99; 0]; read_index := 1; write_index := 3 |}
  = Panic {| mem := [97; 98; 99; 0]; read_index := 0; write_index := 3 |}.
Proof. vm_compute. reflexivity. Qed.

(* ReadWriteChain::read as it was before `fix:` commit f472b17: Ok(0) always clears the first reader *)
From FB Require Import Model.Adapters.
Section PCH.
Context {R1S RWS : Type}.
Variable R1 : Reader R1S.
Variable R2 : Reader RWS.
Definition chain_read_pinned (buf : list Z) : M (@cw R1S RWS) (io Z * list Z) :=
  some_1 <- get_reader_is_some ;;
  k_2 <- (if some_1 then
            q_3 <- call_reader_read R1 buf ;;
            match q_3 with
            | (Ok num_read, buf_4) =>
                if (num_read =? 0) then set_reader_none ;;; ret (inr buf_4)
                else ret (inl (Ok num_read, buf_4))
            | (Err e, buf_4) => ret (inl (Err e, buf_4))
            end
          else ret (inr buf)) ;;
  match k_2 with
  | inl r => ret r
  | inr buf_5 => call_rw_read R2 buf_5
  end.
End PCH.

(* AsyncReadWriteChain::poll_read as it was before `fix:` commit 647448a: no `had_capacity` *)
From FB Require Import Sem.ReadBuf Model.Tokio.
Section PACH.
Context {R1S RWS : Type}.
Variable chk : bool.
Variable R1 : AsyncReader R1S.
Variable R2 : AsyncReader RWS.
Definition achain_poll_read_pinned (buf : rb) : M (@acw R1S RWS) (poll (io unit) * rb) :=
  some_1 <- aget_reader_is_some ;;
  k_2 <- (if some_1 then
            let before_len := zlen (rb_filled_bytes buf) in
            q_3 <- acall_reader R1 buf ;;
            match q_3 with
            | (PrPending, buf_4) => ret (inl (PPending, buf_4))
            | (PrErr e, buf_4) => ret (inl (PReady (Err e), buf_4))
            | (PrOk, buf_4) =>
                dif_5 <- usub chk (zlen (rb_filled_bytes buf_4)) before_len ;;
                if (0 <? dif_5) then ret (inl (PReady (Ok tt), buf_4))
                else aset_reader_none ;;; ret (inr buf_4)
            end
          else ret (inr buf)) ;;
  match k_2 with
  | inl r => ret r
  | inr buf_6 => q_7 <- acall_rw R2 buf_6 ;; ret (poll_of (fst q_7), snd q_7)
  end.
End PACH.
