(* Model/Escape.v — escape_ascii.rs, FixedBuf::escape_ascii and impl Debug for FixedBuf.
   String is the list of its UTF-8 bytes.  core::ascii::escape_default is a library model
   (Sem), checked against the real function on all 256 bytes by the harness on every run. *)
From FB Require Import Sem.Base Model.Fb.
Open Scope Z_scope.

(* ---- library model: core::ascii::escape_default, core::str::from_utf8(..).unwrap(), {} of usize ---- *)
Definition hex_digit (n : Z) : Z := if n <? 10 then 48 + n else 87 + n.
Definition escape_default (b : Z) : list Z :=
  if b =? 9 then [92; 116] else if b =? 13 then [92; 114] else if b =? 10 then [92; 110]
  else if b =? 39 then [92; 39] else if b =? 34 then [92; 34] else if b =? 92 then [92; 92]
  else if (32 <=? b) && (b <=? 126) then [b]
  else [92; 120; hex_digit (b / 16); hex_digit (b mod 16)].
(* from_utf8(&[b]).unwrap(): a single byte is valid UTF-8 iff it is ASCII *)
Definition from_utf8_unwrap_1 {S} (b : Z) : M S (list Z) := if b <? 128 then ret [b] else panic.
Fixpoint dec_aux (fuel : nat) (n : Z) (acc : list Z) : list Z :=
  match fuel with
  | O => acc
  | S f => let acc' := (48 + n mod 10) :: acc in if n <? 10 then acc' else dec_aux f (n / 10) acc'
  end.
Definition dec (n : Z) : list Z := dec_aux 25 n [].

(* ---- translated ---- *)
Definition escape_ascii {S} (input : list Z) : M S (list Z) :=
  for_each input [] (fun result byte =>
    for_each (escape_default byte) result (fun result ascii_byte =>
      s_1 <- from_utf8_unwrap_1 ascii_byte ;;
      ret (result ++ s_1))).

Definition fb_escape_ascii : M fb (list Z) := readable_1 <- readable ;; escape_ascii readable_1.

(* "FixedBuf<{}>{{{} writable, {} readable: \"{}\"}}", SIZE, SIZE - self.write_index, self.len(), self.escape_ascii() *)
Definition debug_fmt (SIZE : Z) (chk : bool) : M fb (list Z) :=
  write_index_1 <- get_write_index ;;
  dif_2 <- usub chk SIZE write_index_1 ;;
  len_3 <- len chk ;;
  esc_4 <- fb_escape_ascii ;;
  ret ([70;105;120;101;100;66;117;102;60] ++ dec SIZE ++ [62;123] ++ dec dif_2 ++
       [32;119;114;105;116;97;98;108;101;44;32] ++ dec len_3 ++
       [32;114;101;97;100;97;98;108;101;58;32;34] ++ esc_4 ++ [34;125]).
