(* Model/Adapters.v — read_write_chain.rs and read_write_take.rs in translator style.
   `buf: &mut [u8]` is an in/out list: read returns (io::Result<usize>, buf'). *)
From FB Require Import Sem.Base.
Open Scope Z_scope.

Section CHAIN.
Context {R1S RWS : Type}.
Variable R1 : Reader R1S.          (* reader: &mut R *)
Variable R2 : Reader RWS.          (* read_writer: &mut RW, Read half *)
Variable W2 : Writer RWS.          (* read_writer: &mut RW, Write half *)

(* struct ReadWriteChain { reader: Option<&mut R>, read_writer: &mut RW } *)
Record cw := { c_has : bool; c_first : R1S; c_rw : RWS }.
Notation MC := (M cw).

Definition chain_new (first : R1S) (rw : RWS) : cw := {| c_has := true; c_first := first; c_rw := rw |}.

Definition get_reader_is_some : MC bool := fun w => Val (c_has w) w.
Definition set_reader_none : MC unit := fun w => Val tt {| c_has := false; c_first := c_first w; c_rw := c_rw w |}.
Definition call_reader_read (buf : list Z) : MC (io Z * list Z) := fun w =>
  match rd R1 (c_first w) buf with
  | (ROk d' n, r') => Val (Ok n, fit d' buf) {| c_has := c_has w; c_first := r'; c_rw := c_rw w |}
  | (RErr k, r') => Val (Err k, buf) {| c_has := c_has w; c_first := r'; c_rw := c_rw w |}
  | (RPanic, r') => Panic {| c_has := c_has w; c_first := r'; c_rw := c_rw w |}
  end.
Definition call_rw_read (buf : list Z) : MC (io Z * list Z) := fun w =>
  match rd R2 (c_rw w) buf with
  | (ROk d' n, r') => Val (Ok n, fit d' buf) {| c_has := c_has w; c_first := c_first w; c_rw := r' |}
  | (RErr k, r') => Val (Err k, buf) {| c_has := c_has w; c_first := c_first w; c_rw := r' |}
  | (RPanic, r') => Panic {| c_has := c_has w; c_first := c_first w; c_rw := r' |}
  end.
Definition call_rw_write (buf : list Z) : MC (io Z) := fun w =>
  match wr W2 (c_rw w) buf with
  | (WOk n, r') => Val (Ok n) {| c_has := c_has w; c_first := c_first w; c_rw := r' |}
  | (WErr k, r') => Val (Err k) {| c_has := c_has w; c_first := c_first w; c_rw := r' |}
  | (WPanic, r') => Panic {| c_has := c_has w; c_first := c_first w; c_rw := r' |}
  end.
Definition call_rw_flush : MC (io unit) := fun w =>
  match fl W2 (c_rw w) with
  | (FOk, r') => Val (Ok tt) {| c_has := c_has w; c_first := c_first w; c_rw := r' |}
  | (FErr k, r') => Val (Err k) {| c_has := c_has w; c_first := c_first w; c_rw := r' |}
  | (FPanic, r') => Panic {| c_has := c_has w; c_first := c_first w; c_rw := r' |}
  end.

Definition chain_read (buf : list Z) : MC (io Z * list Z) :=
  k_5 <- (reader_1 <- get_reader_is_some ;;
          if reader_1 then
            q_2 <- call_reader_read buf ;;
            let buf_3 := snd q_2 in
            match fst q_2 with
            | Ok p_4 =>
                if (p_4 =? 0) && negb (zlen buf_3 =? 0) then
                  set_reader_none ;;; ret (inr buf_3)
                else ret (inl (Ok p_4, buf_3))
            | Err e => ret (inl (Err e, buf_3))
            end
          else ret (inr buf)) ;;
  match k_5 with
  | inl r_6 => ret r_6
  | inr buf_7 => call_rw_read buf_7
  end.
Definition chain_write (buf : list Z) : MC (io Z) := call_rw_write buf.
Definition chain_flush : MC (io unit) := call_rw_flush.
End CHAIN.

Section TAKE.
Context {RWS : Type}.
Variable chk : bool.
Variable R2 : Reader RWS.
Variable W2 : Writer RWS.

(* struct ReadWriteTake { read_writer: &mut RW, remaining_bytes: u64 } *)
Record tw := { t_rem : Z; t_rw : RWS }.
Notation MT := (M tw).
Definition take_new (rw : RWS) (len : Z) : tw := {| t_rem := len; t_rw := rw |}.
Definition get_remaining_bytes : MT Z := fun w => Val (t_rem w) w.
Definition set_remaining_bytes (v : Z) : MT unit := fun w => Val tt {| t_rem := v; t_rw := t_rw w |}.
Definition tcall_rw_read (buf : list Z) : MT (io Z * list Z) := fun w =>
  match rd R2 (t_rw w) buf with
  | (ROk d' n, r') => Val (Ok n, fit d' buf) {| t_rem := t_rem w; t_rw := r' |}
  | (RErr k, r') => Val (Err k, buf) {| t_rem := t_rem w; t_rw := r' |}
  | (RPanic, r') => Panic {| t_rem := t_rem w; t_rw := r' |}
  end.
Definition tcall_rw_write (buf : list Z) : MT (io Z) := fun w =>
  match wr W2 (t_rw w) buf with
  | (WOk n, r') => Val (Ok n) {| t_rem := t_rem w; t_rw := r' |}
  | (WErr k, r') => Val (Err k) {| t_rem := t_rem w; t_rw := r' |}
  | (WPanic, r') => Panic {| t_rem := t_rem w; t_rw := r' |}
  end.
Definition tcall_rw_flush : MT (io unit) := fun w =>
  match fl W2 (t_rw w) with
  | (FOk, r') => Val (Ok tt) {| t_rem := t_rem w; t_rw := r' |}
  | (FErr k, r') => Val (Err k) {| t_rem := t_rem w; t_rw := r' |}
  | (FPanic, r') => Panic {| t_rem := t_rem w; t_rw := r' |}
  end.

Definition take_read (buf : list Z) : MT (io Z * list Z) :=
  remaining_bytes_1 <- get_remaining_bytes ;;
  if remaining_bytes_1 =? 0 then ret (Ok 0, buf) else
  remaining_bytes_2 <- get_remaining_bytes ;;
  let num_to_read := Z.min remaining_bytes_2 (zlen buf) in
  (* let dest = &mut buf[0..num_to_read]: bounds check, then dest aliases that part of buf *)
  assert_ ((0 <=? num_to_read) && (num_to_read <=? zlen buf)) ;;;
  q_3 <- tcall_rw_read (slice buf 0 num_to_read) ;;
  let buf_4 := splice buf 0 (snd q_3) in
  match fst q_3 with
  | Ok num_read =>
      remaining_bytes_5 <- get_remaining_bytes ;;
      dif_6 <- usub chk remaining_bytes_5 num_read ;;
      set_remaining_bytes dif_6 ;;;
      ret (Ok num_read, buf_4)
  | Err e => ret (Err e, buf_4)
  end.
Definition take_write (buf : list Z) : MT (io Z) := tcall_rw_write buf.
Definition take_flush : MT (io unit) := tcall_rw_flush.
End TAKE.
