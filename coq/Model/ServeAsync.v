(* Model/ServeAsync.v — the same request loop over the tokio types (fixed-buffer-tokio/tests/server.rs): HAND-MODELLED glue
   composing the modelled futures and the translated poll_* functions; a caller that re-polls on Pending. *)
From FB Require Import Sem.Base Sem.ReadBuf Sem.Async Model.Fb Model.Tokio Model.TokioAsync Model.Serve.
Open Scope Z_scope.

Section ASERVE.
Variable SIZE : Z.
Variable chk : bool.
Context {TS : Type}.
Variable A : AsyncReader TS.
Variable W : AsyncWriter TS.
Variable df : list Z -> dres.
Variable plen : list Z -> Z.
Variable resp : list Z -> list Z -> list Z.

Definition AFBR : AsyncReader fb := {| prd := fun s b =>
  match afb_poll_read chk b s with
  | Val (PReady (Ok _), b') s' => (AROk b', s')
  | Val (PReady (Err k), b') s' => (ARErr k b', s')
  | Val (PPending, b') s' => (ARPending b', s')
  | Panic s' => (ARPanic, s')
  end |}.
Notation ACW := (@acw fb TS).
Definition ACHR : AsyncReader ACW := {| prd := fun w b =>
  match achain_poll_read chk AFBR A b w with
  | Val (PReady (Ok _), b') w' => (AROk b', w')
  | Val (PReady (Err k), b') w' => (ARErr k b', w')
  | Val (PPending, b') w' => (ARPending b', w')
  | Panic w' => (ARPanic, w')
  end |}.

Fixpoint adrain (fuel : nat) (dests : list Z) (acc : list Z) (w : @atw ACW) : list Z * dstat * @atw ACW :=
  match fuel with
  | O => (acc, DrFuel, w)
  | S f =>
    let d := match dests with [] => 8 | x :: _ => x end in
    match atake_poll_read chk ACHR (rb_new (repeat 221 (Z.to_nat d))) w with
    | Val (PPending, _) w' => adrain f dests acc w'
    | Val (PReady (Ok _), b') w' =>
        let got := rb_filled_bytes b' in
        if (zlen got =? 0) && negb (d =? 0) then (acc, DrOk, w') else adrain f (tl dests) (acc ++ got) w'
    | Val (PReady (Err k), _) w' => (acc, DrErr k, w')
    | Panic w' => (acc, DrPanic, w')
    end
  end.
Fixpoint awrite_all (fuel : nat) (data : list Z) (w : ACW) : dstat * ACW :=
  match fuel with
  | O => (DrFuel, w)
  | S f =>
    match data with
    | [] => (DrOk, w)
    | _ =>
      match achain_poll_write (R1S := fb) W data w with
      | Val PPending w' => awrite_all f data w'
      | Val (PReady (Ok n)) w' => if n =? 0 then (DrErr Other, w') else awrite_all f (skipn (Z.to_nat n) data) w'
      | Val (PReady (Err k)) w' => if match k with Interrupted => true | _ => false end then awrite_all f data w' else (DrErr k, w')
      | Panic w' => (DrPanic, w')
      end
    end
  end.

Definition aserve_one (fuel : nat) (cancel : list bool) (dests : list Z) (w : fb * TS) : req_out * (fb * TS) :=
  match arf_drive chk A fuel cancel df w with
  | Panicked w' => (RqPanic, w')
  | Exhausted w' => (RqFuel, w')
  | Ready FNone w' => (RqEof, w')
  | Ready (FErr k) w' => (RqErr k, w')
  | Ready (FFrame line) (s, ts) =>
      let n := plen line in
      let '(payload, dr, tk) := adrain fuel dests [] (atake_new (achain_new s ts) n) in
      let c := at_rw tk in
      let '(wr, c') := match dr with DrOk => awrite_all fuel (resp line payload) c | _ => (DrOk, c) end in
      (RqServed line payload dr wr, (ac_first c', ac_rw c'))
  end.
Fixpoint aserve (nreq : nat) (fuel : nat) (cancel : list bool) (dests : list Z) (w : fb * TS) : list req_out * (fb * TS) :=
  match nreq with
  | O => ([], w)
  | S m =>
    let '(o, w') := aserve_one fuel cancel dests w in
    match o with
    | RqServed _ _ DrOk DrOk => let '(os, w'') := aserve m fuel cancel dests w' in (o :: os, w'')
    | _ => ([o], w')
    end
  end.
End ASERVE.
