(* Model/Deframers.v — deframe_line.rs, deframe_crlf.rs, deframe_null.rs in translator style. *)
From FB Require Import Sem.Base.
Open Scope Z_scope.

Section D.
Variable chk : bool.
Notation MU := (M unit).
Notation dfr := (rres (option ((Z * Z) * Z)) unit).

Definition deframe_line (data : list Z) : MU dfr :=
  brk_8 <- for_range 0 (zlen data) (fun n =>
    el_1 <- index_chk data n ;;
    if (el_1 =? 10) then
      let data_start_incl := 0 in
      and_4 <- (if (0 <? n) then
                  dif_2 <- usub chk n 1 ;; el_3 <- index_chk data dif_2 ;; ret (el_3 =? 13)
                else ret false) ;;
      ite_6 <- (if and_4 then usub chk n 1 else ret n) ;;
      let data_end_excl := ite_6 in
      sum_7 <- uadd chk n 1 ;;
      let block_len := sum_7 in
      ret (Some (Ok (Some ((data_start_incl, data_end_excl), block_len))))
    else ret None) ;;
  match brk_8 with Some v => ret v | None => ret (Ok None) end.

Definition deframe_crlf (data : list Z) : MU dfr :=
  brk_9 <- (if (1 <? zlen data) then
    for_range 1 (zlen data) (fun n =>
      dif_1 <- usub chk n 1 ;;
      el_2 <- index_chk data dif_1 ;;
      and_4 <- (if (el_2 =? 13) then el_3 <- index_chk data n ;; ret (el_3 =? 10) else ret false) ;;
      if and_4 then
        dif_5 <- usub chk n 1 ;;
        sum_6 <- uadd chk n 1 ;;
        ret (Some (Ok (Some ((0, dif_5), sum_6))))
      else ret None)
    else ret None) ;;
  match brk_9 with Some v => ret v | None => ret (Ok None) end.

Definition deframe_null (data : list Z) : MU dfr :=
  brk_3 <- for_range 0 (zlen data) (fun n =>
    el_1 <- index_chk data n ;;
    if (el_1 =? 0) then
      sum_2 <- uadd chk n 1 ;;
      ret (Some (Ok (Some ((0, n), sum_2))))
    else ret None) ;;
  match brk_3 with Some v => ret v | None => ret (Ok None) end.

(* a deframer fn item used as the `deframer_fn` argument of FixedBuf::deframe / read_frame *)
Definition df_of (f : list Z -> MU dfr) (d : list Z) : dres :=
  match f d tt with
  | Val (Ok None) _ => DNone
  | Val (Ok (Some ((a, b), n))) _ => DFrame a b n
  | Val (Err _) _ => DErr
  | Panic _ => DPanic
  end.
End D.
