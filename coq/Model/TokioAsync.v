(* Model/TokioAsync.v — the two async fns of fixed-buffer-tokio (AsyncFixedBuf::read_frame / copy_once_from).
   Their bodies are the blocking bodies with `AsyncReadExt::read(reader, writable).await` in place of `reader.read(writable)`.
   rustc's lowering of an async fn with ONE await inside ONE loop (no locals with destructors live across it) is MODELLED:
   the future is `FStart` or `FAwait v` (v = the writable() view it holds across the await); one poll runs the translated loop
   prefix from FStart up to the await, polls tokio's Read future (a fresh ReadBuf::new(dest) each poll, src/io/util/read.rs),
   and on Ready runs the translated suffix and, if the loop continues, the prefix again inside the same poll.
   Dropping the future forgets `fut` and keeps buffer and reader. *)
From FB Require Import Sem.Base Sem.ReadBuf Sem.Async Model.Fb.
Open Scope Z_scope.

Section ASYNC.
Variable chk : bool.
Context {RS : Type}.
Variable A : AsyncReader RS.
Notation MW := (M (fb * RS)).

(* ---- read_frame: loop prefix (up to the await) and suffix (after it), as translated ---- *)
Definition arf_pre (df : list Z -> dres) : M fb (frame_res + view) :=
  e_1 <- is_empty ;;
  k_2 <- (if negb e_1 then
           q_3 <- deframe chk df ;;
           match q_3 with
           | Err er => ret (Some (FErr er))
           | Ok (Some (a, b)) => m_4 <- mem_ ;; sl_5 <- slice_chk m_4 a b ;; ret (Some (FFrame sl_5))
           | Ok None => ret None
           end
         else ret None) ;;
  match k_2 with
  | Some r => ret (inl r)
  | None =>
    shift chk ;;;
    writable_6 <- writable ;;
    if vlen writable_6 =? 0 then ret (inl (FErr InvalidData)) else ret (inr writable_6)
  end.
Definition arf_post (q_7 : io Z) : M fb (option frame_res) :=
  match q_7 with
  | Err er => ret (Some (FErr er))
  | Ok num_read =>
    if num_read =? 0 then
      e_8 <- is_empty ;; if e_8 then ret (Some FNone) else ret (Some (FErr UnexpectedEof))
    else wrote chk num_read ;;; ret None
  end.

(* ---- tokio::io::util::Read::poll on the view: fresh ReadBuf::new(dest); Pending -> Pending; Ready(Ok) -> filled().len() ---- *)
Inductive rdp := RdPending | RdReady (r : io Z) | RdPanic.
Definition poll_read_future (v : view) : fb * RS -> rdp * (fb * RS) := fun w =>
  let s := fst w in
  let dest := slice (mem s) (v_off v) (v_end v) in
  let put := fun (b' : rb) => {| mem := splice (mem s) (v_off v) (fit (rb_buf b') dest);
                                 read_index := read_index s; write_index := write_index s |} in
  match prd A (snd w) (rb_new dest) with
  | (AROk b', r') => (RdReady (Ok (zlen (rb_filled_bytes b'))), (put b', r'))
  | (ARErr k b', r') => (RdReady (Err k), (put b', r'))
  | (ARPending b', r') => (RdPending, (put b', r'))
  | (ARPanic, r') => (RdPanic, (s, r'))
  end.

Definition lift_s {B} (m : M fb B) : MW B := fun w =>
  match m (fst w) with Val a s => Val a (s, snd w) | Panic s => Panic (s, snd w) end.

(* ---- the futures: instances of the modelled lowering (Sem/Async.v `drive`) ---- *)
Definition rf_pre (df : list Z -> dres) : fb * RS -> res (fb * RS) (frame_res + view) := lift_s (arf_pre df).
Definition rf_await (v : view) (w : fb * RS) : awaited (fb * RS) (io Z) :=
  match poll_read_future v w with
  | (RdPending, w') => AwPending w'
  | (RdReady q, w') => AwReady q w'
  | (RdPanic, w') => AwPanic w'
  end.
Definition rf_post (q : io Z) : fb * RS -> res (fb * RS) (option frame_res) := lift_s (arf_post q).
(* AsyncFixedBuf::read_frame driven to completion: at most n polls of the reader; `cancel` = which pending points drop the future *)
Definition arf_drive (n : nat) (cancel : list bool) (df : list Z -> dres) (w : fb * RS) : out (fb * RS) frame_res :=
  drive (rf_pre df) rf_await rf_post n cancel Start w.

(* ---- copy_once_from: the same shape without a loop (the suffix always returns) ---- *)
Definition aco_pre : M fb (io Z + view) :=
  writable_1 <- writable ;;
  if vlen writable_1 =? 0 then ret (inl (Err InvalidData)) else ret (inr writable_1).
Definition aco_post (q_2 : io Z) : M fb (option (io Z)) :=
  match q_2 with
  | Err e => ret (Some (Err e))
  | Ok num_read => wrote chk num_read ;;; ret (Some (Ok num_read))
  end.
Definition aco_drive (n : nat) (cancel : list bool) (w : fb * RS) : out (fb * RS) (io Z) :=
  drive (lift_s aco_pre) rf_await (fun q => lift_s (aco_post q)) n cancel Start w.
End ASYNC.
