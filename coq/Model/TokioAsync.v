(* Model/TokioAsync.v — the two async fns of fixed-buffer-tokio (AsyncFixedBuf::read_frame / copy_once_from).
   Their bodies are the blocking bodies with `AsyncReadExt::read(reader, writable).await` in place of `reader.read(writable)`.
   rustc's lowering of an async fn with ONE await inside ONE loop (no locals with destructors live across it) is MODELLED:
   the future is `FStart` or `FAwait v` (v = the writable() view it holds across the await); one poll runs the translated loop
   prefix from FStart up to the await, polls tokio's Read future (a fresh ReadBuf::new(dest) each poll, src/io/util/read.rs),
   and on Ready runs the translated suffix and, if the loop continues, the prefix again inside the same poll.
   Dropping the future forgets `fut` and keeps buffer and reader. *)
From FB Require Import Sem.Base Sem.ReadBuf Model.Fb.
Open Scope Z_scope.

Section ASYNC.
Variable chk : bool.
Context {RS : Type}.
Variable A : AsyncReader RS.
Notation MW := (M (fb * RS)).

(* ---- read_frame: loop prefix (up to the await) and suffix (after it), as translated ---- *)
Definition arf_pre (df : list Z -> dres) : M fb (frame_res + view) :=
  e_1 <- is_empty ;;
  k_2 <- (if negb e_1 then
           q_3 <- deframe chk df ;;
           match q_3 with
           | Err er => ret (Some (FErr er))
           | Ok (Some (a, b)) => m_4 <- mem_ ;; sl_5 <- slice_chk m_4 a b ;; ret (Some (FFrame sl_5))
           | Ok None => ret None
           end
         else ret None) ;;
  match k_2 with
  | Some r => ret (inl r)
  | None =>
    shift chk ;;;
    writable_6 <- writable ;;
    if vlen writable_6 =? 0 then ret (inl (FErr InvalidData)) else ret (inr writable_6)
  end.
Definition arf_post (q_7 : io Z) : M fb (option frame_res) :=
  match q_7 with
  | Err er => ret (Some (FErr er))
  | Ok num_read =>
    if num_read =? 0 then
      e_8 <- is_empty ;; if e_8 then ret (Some FNone) else ret (Some (FErr UnexpectedEof))
    else wrote chk num_read ;;; ret None
  end.

(* ---- tokio::io::util::Read::poll on the view: fresh ReadBuf::new(dest); Pending -> Pending; Ready(Ok) -> filled().len() ---- *)
Inductive rdp := RdPending | RdReady (r : io Z) | RdPanic.
Definition poll_read_future (v : view) : fb * RS -> rdp * (fb * RS) := fun w =>
  let s := fst w in
  let dest := slice (mem s) (v_off v) (v_end v) in
  let put := fun (b' : rb) => {| mem := splice (mem s) (v_off v) (fit (rb_buf b') dest);
                                 read_index := read_index s; write_index := write_index s |} in
  match prd A (snd w) (rb_new dest) with
  | (AROk b', r') => (RdReady (Ok (zlen (rb_filled_bytes b'))), (put b', r'))
  | (ARErr k b', r') => (RdReady (Err k), (put b', r'))
  | (ARPending b', r') => (RdPending, (put b', r'))
  | (ARPanic, r') => (RdPanic, (s, r'))
  end.

Inductive fut := FStart | FAwait (v : view).
Definition lift_s {B} (m : M fb B) : MW B := fun w =>
  match m (fst w) with Val a s => Val a (s, snd w) | Panic s => Panic (s, snd w) end.

(* one poll of the read_frame future; fuel bounds the loop iterations inside this poll *)
Fixpoint arf_poll (fuel : nat) (df : list Z -> dres) (f : fut) : MW (fut * poll (fueled frame_res)) :=
  match fuel with
  | O => ret (f, PReady OutOfFuel)
  | S fu =>
    p_1 <- (match f with FAwait v => ret (inr v) | FStart => lift_s (arf_pre df) end) ;;
    match p_1 with
    | inl r => ret (FStart, PReady (Done r))
    | inr v => fun w =>
        match poll_read_future v w with
        | (RdPending, w') => Val (FAwait v, PPending) w'
        | (RdPanic, w') => Panic w'
        | (RdReady q, w') =>
            match lift_s (arf_post q) w' with
            | Val (Some r) w2 => Val (FStart, PReady (Done r)) w2
            | Val None w2 => arf_poll fu df FStart w2
            | Panic w2 => Panic w2
            end
        end
    end
  end.

(* ---- copy_once_from ---- *)
Definition aco_pre : M fb (io Z + view) :=
  writable_1 <- writable ;;
  if vlen writable_1 =? 0 then ret (inl (Err InvalidData)) else ret (inr writable_1).
Definition aco_post (q_2 : io Z) : M fb (io Z) :=
  match q_2 with
  | Err e => ret (Err e)
  | Ok num_read => wrote chk num_read ;;; ret (Ok num_read)
  end.
Definition aco_poll (f : fut) : MW (fut * poll (io Z)) :=
  p_1 <- (match f with FAwait v => ret (inr v) | FStart => lift_s aco_pre end) ;;
  match p_1 with
  | inl r => ret (FStart, PReady r)
  | inr v => fun w =>
      match poll_read_future v w with
      | (RdPending, w') => Val (FAwait v, PPending) w'
      | (RdPanic, w') => Panic w'
      | (RdReady q, w') =>
          match lift_s (aco_post q) w' with
          | Val r w2 => Val (FStart, PReady r) w2
          | Panic w2 => Panic w2
          end
      end
  end.
End ASYNC.
