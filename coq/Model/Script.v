(* counts are usize values: N (never negative) *)
(* Model/Script.v — closures given to try_parse, as a deep embedding of the reading API
   ("all closures built from the buffer's reading operations ... ending in None or Some").
   Hand-modelled glue: the closure language; its interpreter calls the model's read functions. *)
From FB Require Import Sem.Base Model.Fb.
Open Scope Z_scope.

Inductive rstep :=
| SByte | STryByte | SBytes (n : N) | STryBytes (n : N) | SCopy (k : N) | STryExact (k : N) | SAll
| SNested (body : list rstep) (some : bool).

Definition enc_bytes (l : list Z) : list Z := zlen l :: l.
Definition enc_opt_bytes (o : option (list Z)) : list Z :=
  match o with None => [0] | Some l => 1 :: enc_bytes l end.

Section S.
Variable chk : bool.
(* every step appends what it observed to a log; the closure returns Some log or None *)
Fixpoint run_step (s : rstep) : M fb (list Z) :=
  match s with
  | SByte => b <- read_byte chk ;; ret [b]
  | STryByte => o <- try_read_byte chk ;; ret (match o with None => [0] | Some b => [1; b] end)
  | SBytes n => l <- read_bytes chk (Z.of_N n) ;; ret (enc_bytes l)
  | STryBytes n => o <- try_read_bytes chk (Z.of_N n) ;; ret (enc_opt_bytes o)
  | SCopy k => r <- read_and_copy_bytes chk (repeat 221 (N.to_nat k)) ;; ret (fst r :: enc_bytes (snd r))
  | STryExact k => r <- try_read_exact chk (repeat 221 (N.to_nat k)) ;;
                   ret ((match fst r with None => 0 | Some _ => 1 end) :: enc_bytes (snd r))
  | SAll => l <- read_all chk ;; ret (enc_bytes l)
  | SNested body some =>
      o <- try_parse
             (log <- (fix go (l : list rstep) : M fb (list Z) :=
                        match l with
                        | [] => ret []
                        | x :: t => a <- run_step x ;; b <- go t ;; ret (a ++ b)
                        end) body ;;
              ret (if some then Some log else None)) ;;
      ret (match o with None => [0] | Some log => 1 :: log end)
  end.
Fixpoint run_steps (l : list rstep) : M fb (list Z) :=
  match l with
  | [] => ret []
  | x :: t => a <- run_step x ;; b <- run_steps t ;; ret (a ++ b)
  end.
Definition closure (body : list rstep) (some : bool) : M fb (option (list Z)) :=
  log <- run_steps body ;; ret (if some then Some log else None).
End S.
