(* Model/Tokio.v — fixed-buffer-tokio: AsyncFixedBuf's AsyncRead/AsyncWrite, AsyncReadWriteChain, AsyncReadWriteTake,
   in translator style.  `buf: &mut ReadBuf` is an in/out value.  The async fns read_frame / copy_once_from are in
   Model/TokioAsync.v (their lowering is modelled in Sem/Async.v). *)
From FB Require Import Sem.Base Sem.ReadBuf Model.Fb.
Open Scope Z_scope.

Section AFB.
Variable chk : bool.
(* impl AsyncRead for AsyncFixedBuf:
   let num_read = self.get_mut().0.read_and_copy_bytes(buf.initialize_unfilled()); buf.advance(num_read); Poll::Ready(Ok(())) *)
Definition afb_poll_read (buf : rb) : M fb (poll (io unit) * rb) :=
  q_1 <- rb_initialize_unfilled buf ;;
  let '(buf_2, unfilled_3) := q_1 in
  r_4 <- read_and_copy_bytes chk (rb_view_bytes buf_2 unfilled_3) ;;
  let '(num_read, dest_5) := r_4 in
  let buf_6 := rb_write_view buf_2 unfilled_3 dest_5 in
  buf_7 <- rb_advance buf_6 num_read ;;
  ret (PReady (Ok tt), buf_7).
(* Poll::Ready(self.get_mut().0.write_bytes(buf).map_err(|_| io::Error::new(InvalidData, "no space in buffer"))) *)
Definition afb_poll_write (data : list Z) : M fb (poll (io Z)) :=
  r_1 <- write_bytes chk data ;;
  ret (PReady (match r_1 with Ok n => Ok n | Err _ => Err InvalidData end)).
Definition afb_poll_flush : M fb (poll (io unit)) := ret (PReady (Ok tt)).
Definition afb_poll_shutdown : M fb (poll (io unit)) := ret (PReady (Ok tt)).
End AFB.

Section ACHAIN.
Context {R1S RWS : Type}.
Variable chk : bool.
Variable R1 : AsyncReader R1S.
Variable R2 : AsyncReader RWS.
Variable W2 : AsyncWriter RWS.
Record acw := { ac_has : bool; ac_first : R1S; ac_rw : RWS }.
Notation MA := (M acw).
Definition achain_new (first : R1S) (rw : RWS) : acw := {| ac_has := true; ac_first := first; ac_rw := rw |}.
Definition aget_reader_is_some : MA bool := fun w => Val (ac_has w) w.
Definition aset_reader_none : MA unit := fun w => Val tt {| ac_has := false; ac_first := ac_first w; ac_rw := ac_rw w |}.
(* Pin::new(&mut *reader).poll_read(cx, buf) *)
Inductive pr := PrOk | PrErr (k : ekind) | PrPending.
Definition acall_reader (buf : rb) : MA (pr * rb) := fun w =>
  match prd R1 (ac_first w) buf with
  | (AROk b', r') => Val (PrOk, b') {| ac_has := ac_has w; ac_first := r'; ac_rw := ac_rw w |}
  | (ARErr k b', r') => Val (PrErr k, b') {| ac_has := ac_has w; ac_first := r'; ac_rw := ac_rw w |}
  | (ARPending b', r') => Val (PrPending, b') {| ac_has := ac_has w; ac_first := r'; ac_rw := ac_rw w |}
  | (ARPanic, r') => Panic {| ac_has := ac_has w; ac_first := r'; ac_rw := ac_rw w |}
  end.
Definition acall_rw (buf : rb) : MA (pr * rb) := fun w =>
  match prd R2 (ac_rw w) buf with
  | (AROk b', r') => Val (PrOk, b') {| ac_has := ac_has w; ac_first := ac_first w; ac_rw := r' |}
  | (ARErr k b', r') => Val (PrErr k, b') {| ac_has := ac_has w; ac_first := ac_first w; ac_rw := r' |}
  | (ARPending b', r') => Val (PrPending, b') {| ac_has := ac_has w; ac_first := ac_first w; ac_rw := r' |}
  | (ARPanic, r') => Panic {| ac_has := ac_has w; ac_first := ac_first w; ac_rw := r' |}
  end.
Definition poll_of (p : pr) : poll (io unit) :=
  match p with PrOk => PReady (Ok tt) | PrErr k => PReady (Err k) | PrPending => PPending end.

Definition achain_poll_read (buf : rb) : MA (poll (io unit) * rb) :=
  some_1 <- aget_reader_is_some ;;
  k_2 <- (if some_1 then
            let before_len := zlen (rb_filled_bytes buf) in
            let had_capacity := 0 <? rb_remaining buf in
            q_3 <- acall_reader buf ;;
            match q_3 with
            | (PrPending, buf_4) => ret (inl (PPending, buf_4))
            | (PrErr e, buf_4) => ret (inl (PReady (Err e), buf_4))
            | (PrOk, buf_4) =>
                dif_5 <- usub chk (zlen (rb_filled_bytes buf_4)) before_len ;;
                let num_read := dif_5 in
                if (0 <? num_read) || negb had_capacity then ret (inl (PReady (Ok tt), buf_4))
                else aset_reader_none ;;; ret (inr buf_4)
            end
          else ret (inr buf)) ;;
  match k_2 with
  | inl r => ret r
  | inr buf_6 => q_7 <- acall_rw buf_6 ;; ret (poll_of (fst q_7), snd q_7)
  end.

Definition awr_call {A} (f : RWS -> A * RWS) : MA A := fun w =>
  let '(a, r') := f (ac_rw w) in Val a {| ac_has := ac_has w; ac_first := ac_first w; ac_rw := r' |}.
Definition poll_of_wr (r : awr_res) : option (poll (io Z)) :=
  match r with AWOk n => Some (PReady (Ok n)) | AWErr k => Some (PReady (Err k)) | AWPending => Some PPending | AWPanic => None end.
Definition poll_of_fl (r : afl_res) : option (poll (io unit)) :=
  match r with AFOk => Some (PReady (Ok tt)) | AFErr k => Some (PReady (Err k)) | AFPending => Some PPending | AFPanic => None end.
Definition opt_or_panic {S A} (o : option A) : M S A := match o with Some a => ret a | None => panic end.
(* Pin::new(&mut self.read_writer).poll_write(cx, buf) / poll_flush(cx) / poll_shutdown(cx) *)
Definition acall_rw_write (data : list Z) : MA (poll (io Z)) := r <- awr_call (fun s => pwr W2 s data) ;; opt_or_panic (poll_of_wr r).
Definition acall_rw_flush : MA (poll (io unit)) := r <- awr_call (pfl W2) ;; opt_or_panic (poll_of_fl r).
Definition acall_rw_shutdown : MA (poll (io unit)) := r <- awr_call (psh W2) ;; opt_or_panic (poll_of_fl r).
Definition achain_poll_write (data : list Z) : MA (poll (io Z)) := acall_rw_write data.
Definition achain_poll_flush : MA (poll (io unit)) := acall_rw_flush.
Definition achain_poll_shutdown : MA (poll (io unit)) := acall_rw_shutdown.
End ACHAIN.

Section ATAKE.
Context {RWS : Type}.
Variable chk : bool.
Variable R2 : AsyncReader RWS.
Variable W2 : AsyncWriter RWS.
Record atw := { at_rem : Z; at_rw : RWS }.
Notation MT := (M atw).
Definition atake_new (rw : RWS) (len : Z) : atw := {| at_rem := len; at_rw := rw |}.
Definition aget_remaining : MT Z := fun w => Val (at_rem w) w.
Definition aset_remaining (v : Z) : MT unit := fun w => Val tt {| at_rem := v; at_rw := at_rw w |}.
Definition atcall_rw (buf : rb) : MT (pr * rb) := fun w =>
  match prd R2 (at_rw w) buf with
  | (AROk b', r') => Val (PrOk, b') {| at_rem := at_rem w; at_rw := r' |}
  | (ARErr k b', r') => Val (PrErr k, b') {| at_rem := at_rem w; at_rw := r' |}
  | (ARPending b', r') => Val (PrPending, b') {| at_rem := at_rem w; at_rw := r' |}
  | (ARPanic, r') => Panic {| at_rem := at_rem w; at_rw := r' |}
  end.
(* if remaining == 0 { return Ready(Ok(())) }
   let num_to_read = remaining.min(buf.remaining() as u64) as usize;
   let dest = &mut buf.initialize_unfilled()[0..num_to_read]; let mut buf2 = ReadBuf::new(dest);
   match inner.poll_read(cx, &mut buf2) { Ready(Ok(())) => { let n = buf2.filled().len(); buf.advance(n); remaining -= n; Ready(Ok(())) } ... } *)
Definition atake_poll_read (buf : rb) : MT (poll (io unit) * rb) :=
  remaining_1 <- aget_remaining ;;
  if remaining_1 =? 0 then ret (PReady (Ok tt), buf) else
  let num_to_read := Z.min remaining_1 (rb_remaining buf) in
  q_2 <- rb_initialize_unfilled buf ;;
  let '(buf_3, unfilled_4) := q_2 in
  dest_5 <- slice_chk (rb_view_bytes buf_3 unfilled_4) 0 num_to_read ;;
  let buf2 := rb_new dest_5 in
  q_6 <- atcall_rw buf2 ;;
  let '(p_7, buf2_8) := q_6 in
  (* the inner stream wrote through buf2 into the outer buffer's unfilled region *)
  let buf_9 := rb_write_view buf_3 {| v_off := v_off unfilled_4; v_end := v_off unfilled_4 + num_to_read |} (rb_buf buf2_8) in
  match p_7 with
  | PrOk =>
      let num_read := zlen (rb_filled_bytes buf2_8) in
      buf_10 <- rb_advance buf_9 num_read ;;
      remaining_11 <- aget_remaining ;;
      dif_12 <- usub chk remaining_11 num_read ;;
      aset_remaining dif_12 ;;;
      ret (PReady (Ok tt), buf_10)
  | PrErr e => ret (PReady (Err e), buf_9)
  | PrPending => ret (PPending, buf_9)
  end.
Definition atwr_call {A} (f : RWS -> A * RWS) : MT A := fun w =>
  let '(a, r') := f (at_rw w) in Val a {| at_rem := at_rem w; at_rw := r' |}.
Definition atcall_rw_write (data : list Z) : MT (poll (io Z)) := r <- atwr_call (fun s => pwr W2 s data) ;; opt_or_panic (poll_of_wr r).
Definition atcall_rw_flush : MT (poll (io unit)) := r <- atwr_call (pfl W2) ;; opt_or_panic (poll_of_fl r).
Definition atcall_rw_shutdown : MT (poll (io unit)) := r <- atwr_call (psh W2) ;; opt_or_panic (poll_of_fl r).
Definition atake_poll_write (data : list Z) : MT (poll (io Z)) := atcall_rw_write data.
Definition atake_poll_flush : MT (poll (io unit)) := atcall_rw_flush.
Definition atake_poll_shutdown : MT (poll (io unit)) := atcall_rw_shutdown.
End ATAKE.
