(* Run/Codec.v — int-list encoding shared by the model runner and the Rust harness.
   A case is a list of integers; a trace is a list of integers.  Markers are negative
   (data never is): -1 = PANIC, -2 = start of an op record, -3 = start of the post-state. *)
From FB Require Import Sem.Base.
Open Scope Z_scope.

Definition PANIC : Z := -1.
Definition MOP : Z := -2.
Definition MST : Z := -3.

Definition enc_bool (b : bool) : Z := if b then 1 else 0.
Definition enc_bytes (l : list Z) : list Z := zlen l :: l.
Definition enc_ekind (k : ekind) : Z :=
  match k with InvalidData => 1 | UnexpectedEof => 2 | Interrupted => 3 | WouldBlock => 4
             | TimedOut => 5 | ConnectionReset => 6 | Other => 7 end.
(* codes 101..107 are the same kinds delivered in another representation (raw OS error / custom error): the kind is what counts *)
Definition dec_ekind (z0 : Z) : ekind :=
  let z := z0 mod 100 in
  if z =? 1 then InvalidData else if z =? 2 then UnexpectedEof else if z =? 3 then Interrupted
  else if z =? 4 then WouldBlock else if z =? 5 then TimedOut else if z =? 6 then ConnectionReset else Other.

(* take k items *)
Definition take_n (k : Z) (l : list Z) : list Z * list Z :=
  (firstn (Z.to_nat k) l, skipn (Z.to_nat k) l).
(* length-prefixed list *)
Definition take_list (l : list Z) : list Z * list Z :=
  match l with [] => ([], []) | k :: t => take_n k t end.

(* ---- the scripted reader used by every family (same behaviour as harness `ScriptReader`) ----
   state: remaining stream, script of actions, log of offered capacities (newest first)
   action (tag, a, b):
     0 Give k=a scribble=b : deliver n = min(k, cap, |stream|) bytes, then scribble min(b, cap-n) bytes of 0xEE after them; Ok(n)
     1 Fail kind=a         : Err(kind), nothing consumed
     2 PanicNow
     3 Pend                : (async only) Poll::Pending; in the blocking model: treated as Fail WouldBlock
     4 Lie n=a             : write nothing, claim Ok(a) even if a > cap (contract-breaking reader; negative control)
   script exhausted: Give(all that fits, 0). *)
Record sreader := { sr_stream : list Z; sr_script : list (Z * Z * Z); sr_log : list Z }.
Definition sr_read (st : sreader) (dest : list Z) : rd_res * sreader :=
  let cap := zlen dest in
  let '(act, rest) := match sr_script st with [] => ((0, cap, 0), []) | a :: t => (a, t) end in
  let '(tag, a, b) := act in
  let st1 := {| sr_stream := sr_stream st; sr_script := rest; sr_log := cap :: sr_log st |} in
  if tag =? 0 then
    let n := Z.max 0 (Z.min a (Z.min cap (zlen (sr_stream st)))) in
    let data := firstn (Z.to_nat n) (sr_stream st) in
    let sc := Z.max 0 (Z.min b (cap - n)) in
    (ROk (data ++ repeat 238 (Z.to_nat sc) ++ skipn (Z.to_nat (n + sc)) dest) n,
     {| sr_stream := skipn (Z.to_nat n) (sr_stream st); sr_script := rest; sr_log := cap :: sr_log st |})
  else if tag =? 1 then (RErr (dec_ekind a), st1)
  else if tag =? 2 then (RPanic, st1)
  else if tag =? 3 then (RErr WouldBlock, st1)
  else (ROk dest a, st1).
Definition SR : Reader sreader := {| rd := sr_read |}.

(* parse `n (tag a b)*n` *)
Fixpoint take_triples (n : nat) (l : list Z) : list (Z * Z * Z) * list Z :=
  match n with
  | O => ([], l)
  | S m => match l with
           | t :: a :: b :: r => let '(xs, r') := take_triples m r in ((t, a, b) :: xs, r')
           | _ => ([], [])
           end
  end.
Definition take_script (l : list Z) : list (Z * Z * Z) * list Z :=
  match l with [] => ([], []) | n :: t => take_triples (Z.to_nat n) t end.

(* the scripted writer: log of (kind, bytes offered, result); script of results
   action (tag, a): 0 Accept up to a bytes -> Ok(min(a,len)); 1 Fail kind a; 2 PanicNow; 3 Pend (async).
   script exhausted: accept everything.  flush uses the same script (Accept -> Ok(())). *)
Record swriter := { sw_script : list (Z * Z); sw_log : list Z (* flat, newest LAST *) }.
Definition sw_next (st : swriter) : (Z * Z) * list (Z * Z) :=
  match sw_script st with [] => ((0, usize_max), []) | a :: t => (a, t) end.
Definition sw_write (st : swriter) (data : list Z) : wr_res * swriter :=
  let '((tag, a), rest) := sw_next st in
  let log := sw_log st ++ (1 :: enc_bytes data) in
  let st' := {| sw_script := rest; sw_log := log |} in
  if tag =? 0 then (WOk (Z.min a (zlen data)), st')
  else if tag =? 1 then (WErr (dec_ekind a), st')
  else if tag =? 2 then (WPanic, st')
  else (WErr WouldBlock, st').
Definition sw_flush (st : swriter) : fl_res * swriter :=
  let '((tag, a), rest) := sw_next st in
  let st' := {| sw_script := rest; sw_log := sw_log st ++ [2] |} in
  if tag =? 0 then (FOk, st')
  else if tag =? 1 then (FErr (dec_ekind a), st')
  else if tag =? 2 then (FPanic, st')
  else (FErr WouldBlock, st').
Fixpoint take_pairs (n : nat) (l : list Z) : list (Z * Z) * list Z :=
  match n with
  | O => ([], l)
  | S m => match l with
           | t :: a :: r => let '(xs, r') := take_pairs m r in ((t, a) :: xs, r')
           | _ => ([], [])
           end
  end.
Definition take_wscript (l : list Z) : list (Z * Z) * list Z :=
  match l with [] => ([], []) | n :: t => take_pairs (Z.to_nat n) t end.
