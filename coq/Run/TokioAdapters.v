(* Run/TokioAdapters.v — families ACH (23) and ATK (24): poll histories on the async adapters over scripted async inner objects.
   ACH: variant first_stream(list) first_script rw_stream(list) rw_script wscript op*
   ATK: variant limit rw_stream(list) rw_script wscript op*
   variant 0 = the crate's adapter; 1 = tokio's own (reference machine), reads only; 2 = both, separated by -8
   op: 0 rb(pre(list) cap uninit) poll_read | 1 data(list) poll_write | 2 poll_flush | 3 poll_shutdown
   per op: -2 result -6 pos1 nlog1 caps.. -6 pos2 nlog2 caps.. -7 nw wlog.. *)
From FB Require Import Sem.Base Sem.ReadBuf Model.Tokio Spec.TokioAdapters Run.Codec Run.Tokio.
Open Scope Z_scope.

Definition arwst := (sreader * swriter)%type.
Definition ARW_R : AsyncReader arwst := {| prd := fun st b => let '(a, r') := asr_poll (fst st) b in (a, (r', snd st)) |}.
(* scripted async writer: tag 3 = Pending; poll_write logs [1; bytes], flush [2], shutdown [3] *)
Definition asw_next (st : swriter) : (Z * Z) * list (Z * Z) :=
  match sw_script st with [] => ((0, usize_max), []) | a :: t => (a, t) end.
Definition asw_write (st : swriter) (data : list Z) : awr_res * swriter :=
  let '((tag, a), rest) := asw_next st in
  let st' := {| sw_script := rest; sw_log := sw_log st ++ (1 :: enc_bytes data) |} in
  if tag =? 0 then (AWOk (Z.min a (zlen data)), st') else if tag =? 1 then (AWErr (dec_ekind a), st')
  else if tag =? 2 then (AWPanic, st') else (AWPending, st').
Definition asw_unit (code : Z) (st : swriter) : afl_res * swriter :=
  let '((tag, a), rest) := asw_next st in
  let st' := {| sw_script := rest; sw_log := sw_log st ++ [code] |} in
  if tag =? 0 then (AFOk, st') else if tag =? 1 then (AFErr (dec_ekind a), st')
  else if tag =? 2 then (AFPanic, st') else (AFPending, st').
Definition ARW_W : AsyncWriter arwst := {|
  pwr := fun st d => let '(a, w') := asw_write (snd st) d in (a, (fst st, w'));
  pfl := fun st => let '(a, w') := asw_unit 2 (snd st) in (a, (fst st, w'));
  psh := fun st => let '(a, w') := asw_unit 3 (snd st) in (a, (fst st, w')) |}.

Section R.
Variable chk : bool.
Definition clear_logs (a : sreader) : sreader := {| sr_stream := sr_stream a; sr_script := sr_script a; sr_log := [] |}.
Definition clear_wlog (w : swriter) : swriter := {| sw_script := sw_script w; sw_log := [] |}.
Definition tail_obs (tot1 tot2 : Z) (f : sreader) (rw : arwst) : list Z :=
  (-6 :: (tot1 - zlen (sr_stream f)) :: enc_bytes (rev (sr_log f))) ++
  (-6 :: (tot2 - zlen (sr_stream (fst rw))) :: enc_bytes (rev (sr_log (fst rw)))) ++
  (-7 :: enc_bytes (sw_log (snd rw))).
Definition empty_reader : sreader := {| sr_stream := []; sr_script := []; sr_log := [] |}.

(* decode one op; reads carry the ReadBuf *)
Inductive aop := ARead (b : rb) | AWrite (d : list Z) | AFlush | AShutdown.
Definition dec_aop (l : list Z) : option aop * list Z :=
  match l with
  | [] => (None, [])
  | c :: t =>
    if c =? 0 then let '(b, r) := take_rb t in (Some (ARead b), r)
    else if c =? 1 then let '(d, r) := take_list t in (Some (AWrite d), r)
    else if c =? 2 then (Some AFlush, t) else (Some AShutdown, t)
  end.

(* ---- chain ---- *)
Definition achain_op (tot1 tot2 : Z) (w : @acw sreader arwst) (o : aop) : list Z * @acw sreader arwst :=
  let w0 := {| ac_has := ac_has w; ac_first := clear_logs (ac_first w); ac_rw := (clear_logs (fst (ac_rw w)), clear_wlog (snd (ac_rw w))) |} in
  let '(out, w') :=
    match o with
    | ARead b => match achain_poll_read chk ASR ARW_R b w0 with Val (p, b') w' => (enc_poll_unit p ++ enc_rb b', w') | Panic w' => ([PANIC], w') end
    | AWrite d => match achain_poll_write (R1S := sreader) ARW_W d w0 with Val p w' => (enc_poll_z p, w') | Panic w' => ([PANIC], w') end
    | AFlush => match achain_poll_flush (R1S := sreader) ARW_W w0 with Val p w' => (enc_poll_unit p, w') | Panic w' => ([PANIC], w') end
    | AShutdown => match achain_poll_shutdown (R1S := sreader) ARW_W w0 with Val p w' => (enc_poll_unit p, w') | Panic w' => ([PANIC], w') end
    end in
  (MOP :: out ++ tail_obs tot1 tot2 (ac_first w') (ac_rw w'), w').
Fixpoint achain_ops (fuel : nat) (tot1 tot2 : Z) (w : @acw sreader arwst) (l : list Z) : list Z :=
  match fuel with O => [] | S f =>
  match dec_aop l with
  | (None, _) => []
  | (Some o, r) => let '(out, w') := achain_op tot1 tot2 w o in out ++ achain_ops f tot1 tot2 w' r
  end end.
Definition tchain_op (tot1 tot2 : Z) (w : @tcs sreader arwst) (b : rb) : list Z * @tcs sreader arwst :=
  let w0 := {| tc_done_first := tc_done_first w; tc_first := clear_logs (tc_first w);
               tc_second := (clear_logs (fst (tc_second w)), clear_wlog (snd (tc_second w))) |} in
  match tokio_chain_poll_read ASR ARW_R b w0 with
  | Val (p, b') w' => (MOP :: enc_poll_unit p ++ enc_rb b' ++ tail_obs tot1 tot2 (tc_first w') (tc_second w'), w')
  | Panic w' => (MOP :: PANIC :: tail_obs tot1 tot2 (tc_first w') (tc_second w'), w')
  end.
Fixpoint tchain_ops (fuel : nat) (tot1 tot2 : Z) (w : @tcs sreader arwst) (l : list Z) : list Z :=
  match fuel with O => [] | S f =>
  match dec_aop l with
  | (None, _) => []
  | (Some (ARead b), r) => let '(out, w') := tchain_op tot1 tot2 w b in out ++ tchain_ops f tot1 tot2 w' r
  | (Some _, r) => tchain_ops f tot1 tot2 w r
  end end.
Definition run_achain (l : list Z) : list Z :=
  match l with
  | variant :: t =>
    let '(s1, t1) := take_list t in
    let '(sc1, t2) := take_script t1 in
    let '(s2, t3) := take_list t2 in
    let '(sc2, t4) := take_script t3 in
    let '(ws, ops) := take_wscript t4 in
    let f := {| sr_stream := s1; sr_script := sc1; sr_log := [] |} in
    let rw := ({| sr_stream := s2; sr_script := sc2; sr_log := [] |}, {| sw_script := ws; sw_log := [] |}) in
    let a := achain_ops (S (length ops)) (zlen s1) (zlen s2) (achain_new f rw) ops in
    let b := tchain_ops (S (length ops)) (zlen s1) (zlen s2) {| tc_done_first := false; tc_first := f; tc_second := rw |} ops in
    if variant =? 0 then a else if variant =? 2 then a ++ [-8] ++ b else b
  | [] => []
  end.

(* ---- take ---- *)
Definition atake_op (tot2 : Z) (w : @atw arwst) (o : aop) : list Z * @atw arwst :=
  let w0 := {| at_rem := at_rem w; at_rw := (clear_logs (fst (at_rw w)), clear_wlog (snd (at_rw w))) |} in
  let '(out, w') :=
    match o with
    | ARead b => match atake_poll_read chk ARW_R b w0 with Val (p, b') w' => (enc_poll_unit p ++ enc_rb b', w') | Panic w' => ([PANIC], w') end
    | AWrite d => match atake_poll_write ARW_W d w0 with Val p w' => (enc_poll_z p, w') | Panic w' => ([PANIC], w') end
    | AFlush => match atake_poll_flush ARW_W w0 with Val p w' => (enc_poll_unit p, w') | Panic w' => ([PANIC], w') end
    | AShutdown => match atake_poll_shutdown ARW_W w0 with Val p w' => (enc_poll_unit p, w') | Panic w' => ([PANIC], w') end
    end in
  (MOP :: out ++ tail_obs 0 tot2 empty_reader (at_rw w'), w').
Fixpoint atake_ops (fuel : nat) (tot2 : Z) (w : @atw arwst) (l : list Z) : list Z :=
  match fuel with O => [] | S f =>
  match dec_aop l with
  | (None, _) => []
  | (Some o, r) => let '(out, w') := atake_op tot2 w o in out ++ atake_ops f tot2 w' r
  end end.
Definition ttake_op (tot2 : Z) (w : @tts arwst) (b : rb) : list Z * @tts arwst :=
  let w0 := {| tt_limit := tt_limit w; tt_inner := (clear_logs (fst (tt_inner w)), clear_wlog (snd (tt_inner w))) |} in
  match tokio_take_poll_read ARW_R b w0 with
  | Val (p, b') w' => (MOP :: enc_poll_unit p ++ enc_rb b' ++ tail_obs 0 tot2 empty_reader (tt_inner w'), w')
  | Panic w' => (MOP :: PANIC :: tail_obs 0 tot2 empty_reader (tt_inner w'), w')
  end.
Fixpoint ttake_ops (fuel : nat) (tot2 : Z) (w : @tts arwst) (l : list Z) : list Z :=
  match fuel with O => [] | S f =>
  match dec_aop l with
  | (None, _) => []
  | (Some (ARead b), r) => let '(out, w') := ttake_op tot2 w b in out ++ ttake_ops f tot2 w' r
  | (Some _, r) => ttake_ops f tot2 w r
  end end.
Definition run_atake (l : list Z) : list Z :=
  match l with
  | variant :: limit :: t =>
    let '(s2, t3) := take_list t in
    let '(sc2, t4) := take_script t3 in
    let '(ws, ops) := take_wscript t4 in
    let rw := ({| sr_stream := s2; sr_script := sc2; sr_log := [] |}, {| sw_script := ws; sw_log := [] |}) in
    let a := atake_ops (S (length ops)) (zlen s2) (atake_new rw limit) ops in
    let b := ttake_ops (S (length ops)) (zlen s2) {| tt_limit := limit; tt_inner := rw |} ops in
    if variant =? 0 then a else if variant =? 2 then a ++ [-8] ++ b else b
  | _ => []
  end.
End R.
