(* Run/Api.v — runners for the deframer family (DF) and the API-history family (API).
   They decode an int-encoded case, run the MODEL, and encode what a caller observes. *)
From FB Require Import Sem.Base Model.Fb Model.Deframers Model.Script Model.Escape Spec.Api Run.Codec.
Open Scope Z_scope.

Section R.
Variable chk : bool.

(* ---- DF: which b0 b1 ... -> tag a b n ---- *)
Definition enc_dfr (r : res unit (rres (option ((Z * Z) * Z)) unit)) : list Z :=
  match r with
  | Val (Ok None) _ => [0]
  | Val (Ok (Some ((a, b), n))) _ => [1; a; b; n]
  | Val (Err _) _ => [2]
  | Panic _ => [PANIC]
  end.
Definition run_df (l : list Z) : list Z :=
  match l with
  | which :: d =>
      if which =? 0 then enc_dfr (deframe_line chk d tt)
      else if which =? 1 then enc_dfr (deframe_crlf chk d tt)
      else enc_dfr (deframe_null chk d tt)
  | [] => []
  end.

(* ---- ESC: mode bytes... : mode 0 = escape_ascii(bytes); mode 1 = escape_default of one byte (library model) ---- *)
Definition run_escape (l : list Z) : list Z :=
  match l with
  | mode :: d =>
      if mode =? 0 then match escape_ascii d tt with Val v _ => enc_bytes v | Panic _ => [PANIC] end
      else enc_bytes (escape_default (hd 0 d))
  | [] => []
  end.

(* deframer selector shared by API / RF families:
   0 line, 1 crlf, 2 null, 3 always-reject, 4 always-panic,
   5 length-prefix: first byte k, frame = next k bytes (range 1..1+k, block 1+k),
   6 line that rejects data containing 'x' (the test-suite's contract-breaking deframer) *)
Definition df_sel (which : Z) : list Z -> dres :=
  if which =? 0 then df_of (deframe_line chk)
  else if which =? 1 then df_of (deframe_crlf chk)
  else if which =? 2 then df_of (deframe_null chk)
  else if which =? 3 then (fun _ => DErr)
  else if which =? 4 then (fun _ => DPanic)
  else if which =? 5 then (fun d => match d with [] => DNone | k :: t => if k <=? zlen t then DFrame 1 (1 + k) (1 + k) else DNone end)
  else (fun d => if existsb (fun b => b =? 120) d then DErr else df_of (deframe_line chk) d).

(* ---- API histories ---- *)
(* parse a try_parse script: n step*n ; step = code args ; nested = 7 some script *)
Fixpoint parse_steps (fuel : nat) (n : nat) (l : list Z) : list rstep * list Z :=
  match fuel with O => ([], []) | S f =>
  match n with O => ([], l) | S m =>
  match l with
  | [] => ([], [])
  | c :: t =>
    let '(st, r) :=
      if c =? 0 then (SByte, t) else if c =? 1 then (STryByte, t)
      else if c =? 2 then (SBytes (Z.to_N (hd 0 t)), tl t) else if c =? 3 then (STryBytes (Z.to_N (hd 0 t)), tl t)
      else if c =? 4 then (SCopy (Z.to_N (hd 0 t)), tl t) else if c =? 5 then (STryExact (Z.to_N (hd 0 t)), tl t)
      else if c =? 6 then (SAll, t)
      else match t with
           | some :: k :: t2 => let '(body, r2) := parse_steps f (Z.to_nat k) t2 in (SNested body (negb (some =? 0)), r2)
           | _ => (SAll, [])
           end in
    let '(sts, r') := parse_steps f m r in (st :: sts, r')
  end end end.

(* observation of the state after each op *)
Definition obs_z (r : res fb Z) : Z := match r with Val z _ => z | Panic _ => PANIC end.
Definition post (SIZE : Z) (s : fb) : list Z :=
  MST :: obs_z (len chk s) :: obs_z ((v <- writable ;; ret (vlen v)) s)
      :: match readable s with Val l _ => enc_bytes l | Panic _ => [PANIC] end ++ (-5 :: enc_bytes (mem s)).

Definition enc_io_z (r : io Z) : list Z := match r with Ok n => [0; n] | Err k => [1; enc_ekind k] end.
Definition enc_obs (v : obs) : list Z :=
  match v with
  | VUnit => []
  | VZ z => [z]
  | VBool b => [enc_bool b]
  | VBytes l => enc_bytes l
  | VOptZ o => match o with None => [0] | Some b => [1; b] end
  | VOptBytes o => enc_opt_bytes o
  | VCopy n d => n :: enc_bytes d
  | VExact o d => (match o with None => 0 | Some _ => 1 end) :: enc_bytes d
  | VIoRead r d => enc_io_z r ++ enc_bytes d
  | VWrite q => match q with Ok n => [0; n] | Err _ => [1] end
  | VWriteStr q => match q with Ok _ => [0] | Err _ => [1] end
  | VIo r => enc_io_z r
  | VIoUnit q => match q with Ok _ => [0] | Err k => [1; enc_ekind k] end
  | VDeframe q => match q with
                  | Ok None => [0; 0]
                  | Ok (Some (a, b)) => [0; 1; a; b]
                  | Err k => [1; enc_ekind k] end
  | VParse o => match o with None => [0] | Some log => 1 :: log end
  end.

Definition one_shot_ans (tag a b : Z) (data : list Z) (dest : list Z) : rd_res :=
  fst (sr_read {| sr_stream := data; sr_script := [(tag, a, b)]; sr_log := [] |} dest).

(* decode one operation of Spec.Api.op; None = the runner-only op 22 (Copy) *)
Definition dec_op (fuel : nat) (l : list Z) : option op * list Z :=
  match l with
  | [] => (None, [])
  | c :: t =>
    if c =? 0 then (Some OLen, t) else if c =? 1 then (Some OIsEmpty, t)
    else if c =? 2 then (Some OReadable, t) else if c =? 3 then (Some OMem, t)
    else if c =? 4 then (Some OClear, t) else if c =? 5 then (Some OShift, t)
    else if c =? 6 then (Some OReadByte, t) else if c =? 7 then (Some OTryReadByte, t)
    else if c =? 8 then (Some (OReadBytes (hd 0 t)), tl t)
    else if c =? 9 then (Some (OTryReadBytes (hd 0 t)), tl t)
    else if c =? 10 then (Some OReadAll, t)
    else if c =? 11 then (Some (OReadCopy (repeat 221 (Z.to_nat (hd 0 t)))), tl t)
    else if c =? 12 then (Some (OTryReadExact (repeat 221 (Z.to_nat (hd 0 t)))), tl t)
    else if c =? 13 then (Some (OIoRead (repeat 221 (Z.to_nat (hd 0 t)))), tl t)
    else if c =? 14 then let '(d, r) := take_list t in (Some (OWriteBytes d), r)
    else if c =? 15 then let '(d, r) := take_list t in (Some (OWriteStr d), r)
    else if c =? 16 then let '(d, r) := take_list t in (Some (OIoWrite d), r)
    else if c =? 17 then (Some OIoFlush, t)
    else if c =? 18 then let '(d, r) := take_list t in (Some (OWritableWrote d (hd 0 r)), tl r)
    else if c =? 19 then
      match t with
      | tag :: a :: b :: t2 => let '(d, r) := take_list t2 in (Some (OCopyOnce (one_shot_ans tag a b d)), r)
      | _ => (None, [])
      end
    else if c =? 20 then (Some (ODeframe (df_sel (hd 0 t))), tl t)
    else if c =? 21 then
      match t with
      | some :: k :: t2 =>
        let '(body, r) := parse_steps fuel (Z.to_nat k) t2 in (Some (OTryParse body (negb (some =? 0))), r)
      | _ => (None, [])
      end
    else if c =? 23 then (Some OEscapeAscii, t)
    else if c =? 24 then (Some ODebug, t)
    else if c =? 25 then (Some (OWritableWrote [] (hd 0 t)), tl t)
    (* 26 / 27: Write::write_vectored / Read::read_vectored with the slices [empty; d1; d2] / [empty; k1 bytes; k2 bytes].
       std's PROVIDED methods (library/std/src/io/mod.rs default_write_vectored / default_read_vectored) pass the first non-empty
       slice to write / read: modelled here, in the decoder; an override in the crate shows as a disagreement *)
    else if c =? 26 then
      let '(d1, r) := take_list t in let '(d2, r2) := take_list r in
      (Some (OIoWrite (if zlen d1 =? 0 then d2 else d1)), r2)
    (* 28: `buf.write_all(d)` in method-call syntax with std::io::Write in scope.  On the pinned API that is the PROVIDED Write::write_all
       (library/std/src/io/mod.rs default_write_all): nothing for empty data, else one write(d), which is all-or-nothing here — so the
       effect and the Ok/Err of OIoWrite d; an inherent method of that name would be picked instead and shows as a disagreement *)
    else if c =? 28 then let '(d, r) := take_list t in (Some (OIoWrite d), r)
    else if c =? 27 then
      match t with
      | k1 :: k2 :: r => (Some (OIoRead (repeat 221 (Z.to_nat (if k1 =? 0 then k2 else k1)))), r)
      | _ => (None, [])
      end
    else (None, t)
  end.

(* one op: (result encoding, new state, remaining input); a panic yields [PANIC] and the state at the panic *)
Definition run_op (SIZE : Z) (fuel : nat) (s : fb) (l : list Z) : (list Z * fb) * list Z :=
  let '(o, r) := dec_op fuel l in
  match o with
  | Some o => (match step SIZE chk s o with Val v s' => (enc_obs v, s') | Panic s' => ([PANIC], s') end, r)
  | None => (([1], s), r)      (* op 22: `let copy = buf;` (derive(Copy)) — structural identity *)
  end.

Fixpoint run_ops (SIZE : Z) (fuel : nat) (s : fb) (l : list Z) : list Z :=
  match fuel with O => [] | S f =>
  match l with
  | [] => []
  | _ => let '((out, s'), r) := run_op SIZE fuel s l in
         MOP :: out ++ post SIZE s' ++ run_ops SIZE f s' r
  end end.

(* API size ctor [mem] ops... *)
Definition run_api (l : list Z) : list Z :=
  match l with
  | SIZE :: ctor :: t =>
    let '(s0, r) :=
      if ctor =? 1 then let '(m, r) := take_n SIZE t in (empty m, r)
      else if ctor =? 2 then let '(m, r) := take_n SIZE t in (filled SIZE m, r)
      else if ctor =? 3 then (default SIZE, t)
      else (new SIZE, t) in
    post SIZE s0 ++ run_ops SIZE (S (length r)) s0 r
  | _ => []
  end.

(* STEP SIZE ri wi mem[SIZE] op : one operation from an explicitly given state (step-wise correspondence) *)
Definition run_apistep (l : list Z) : list Z :=
  match l with
  | SIZE :: ri :: wi :: t =>
    let '(m, r) := take_n SIZE t in
    let s := {| mem := m; read_index := ri; write_index := wi |} in
    let '((out, s'), _) := run_op SIZE (S (length r)) s r in
    MOP :: out ++ post SIZE s'
  | _ => []
  end.
End R.
