(* Run/Api.v — runners for the deframer family (DF) and the API-history family (API).
   They decode an int-encoded case, run the MODEL, and encode what a caller observes. *)
From FB Require Import Sem.Base Model.Fb Model.Deframers Model.Script Model.Escape Run.Codec.
Open Scope Z_scope.

Section R.
Variable chk : bool.

(* ---- DF: which b0 b1 ... -> tag a b n ---- *)
Definition enc_dfr (r : res unit (rres (option ((Z * Z) * Z)) unit)) : list Z :=
  match r with
  | Val (Ok None) _ => [0]
  | Val (Ok (Some ((a, b), n))) _ => [1; a; b; n]
  | Val (Err _) _ => [2]
  | Panic _ => [PANIC]
  end.
Definition run_df (l : list Z) : list Z :=
  match l with
  | which :: d =>
      if which =? 0 then enc_dfr (deframe_line chk d tt)
      else if which =? 1 then enc_dfr (deframe_crlf chk d tt)
      else enc_dfr (deframe_null chk d tt)
  | [] => []
  end.

(* deframer selector shared by API / RF families:
   0 line, 1 crlf, 2 null, 3 always-reject, 4 always-panic,
   5 length-prefix: first byte k, frame = next k bytes (range 1..1+k, block 1+k),
   6 line that rejects data containing 'x' (the test-suite's contract-breaking deframer) *)
Definition df_sel (which : Z) : list Z -> dres :=
  if which =? 0 then df_of (deframe_line chk)
  else if which =? 1 then df_of (deframe_crlf chk)
  else if which =? 2 then df_of (deframe_null chk)
  else if which =? 3 then (fun _ => DErr)
  else if which =? 4 then (fun _ => DPanic)
  else if which =? 5 then (fun d => match d with [] => DNone | k :: t => if k <=? zlen t then DFrame 1 (1 + k) (1 + k) else DNone end)
  else (fun d => if existsb (fun b => b =? 120) d then DErr else df_of (deframe_line chk) d).

(* ---- API histories ---- *)
(* parse a try_parse script: n step*n ; step = code args ; nested = 7 some script *)
Fixpoint parse_steps (fuel : nat) (n : nat) (l : list Z) : list rstep * list Z :=
  match fuel with O => ([], []) | S f =>
  match n with O => ([], l) | S m =>
  match l with
  | [] => ([], [])
  | c :: t =>
    let '(st, r) :=
      if c =? 0 then (SByte, t) else if c =? 1 then (STryByte, t)
      else if c =? 2 then (SBytes (hd 0 t), tl t) else if c =? 3 then (STryBytes (hd 0 t), tl t)
      else if c =? 4 then (SCopy (hd 0 t), tl t) else if c =? 5 then (STryExact (hd 0 t), tl t)
      else if c =? 6 then (SAll, t)
      else match t with
           | some :: k :: t2 => let '(body, r2) := parse_steps f (Z.to_nat k) t2 in (SNested body (negb (some =? 0)), r2)
           | _ => (SAll, [])
           end in
    let '(sts, r') := parse_steps f m r in (st :: sts, r')
  end end end.

Notation MF := (M fb).
(* observation of the state after each op *)
Definition obs_z (r : res fb Z) : Z := match r with Val z _ => z | Panic _ => PANIC end.
Definition post (SIZE : Z) (s : fb) : list Z :=
  MST :: obs_z (len chk s) :: obs_z ((v <- writable ;; ret (vlen v)) s)
      :: match readable s with Val l _ => enc_bytes l | Panic _ => [PANIC] end.

Definition enc_io_z (r : io Z) : list Z := match r with Ok n => [0; n] | Err k => [1; enc_ekind k] end.

(* one op: returns (result encoding, new state, remaining input); a panic yields [PANIC] and the state at the panic *)
Definition fin {A} (enc : A -> list Z) (r : res fb A) : list Z * fb :=
  match r with Val a s => (enc a, s) | Panic s => ([PANIC], s) end.

Definition one_shot_reader (tag a b : Z) (data : list Z) : sreader :=
  {| sr_stream := data; sr_script := [(tag, a, b)]; sr_log := [] |}.

Definition run_op (SIZE : Z) (fuel : nat) (s : fb) (l : list Z) : (list Z * fb) * list Z :=
  match l with
  | [] => (([], s), [])
  | c :: t =>
    if c =? 0 then (fin (fun z => [z]) (len chk s), t)
    else if c =? 1 then (fin (fun b => [enc_bool b]) (is_empty s), t)
    else if c =? 2 then (fin enc_bytes (readable s), t)
    else if c =? 3 then (fin enc_bytes (mem_ s), t)
    else if c =? 4 then (fin (fun _ => []) (clear s), t)
    else if c =? 5 then (fin (fun _ => []) (shift chk s), t)
    else if c =? 6 then (fin (fun z => [z]) (read_byte chk s), t)
    else if c =? 7 then (fin (fun o => match o with None => [0] | Some b => [1; b] end) (try_read_byte chk s), t)
    else if c =? 8 then (fin enc_bytes (read_bytes chk (hd 0 t) s), tl t)
    else if c =? 9 then (fin enc_opt_bytes (try_read_bytes chk (hd 0 t) s), tl t)
    else if c =? 10 then (fin enc_bytes (read_all chk s), t)
    else if c =? 11 then (fin (fun r => fst r :: enc_bytes (snd r))
                              (read_and_copy_bytes chk (repeat 221 (Z.to_nat (hd 0 t))) s), tl t)
    else if c =? 12 then (fin (fun r => (match fst r with None => 0 | Some _ => 1 end) :: enc_bytes (snd r))
                              (try_read_exact chk (repeat 221 (Z.to_nat (hd 0 t))) s), tl t)
    else if c =? 13 then (fin (fun r => enc_io_z (fst r) ++ enc_bytes (snd r))
                              (io_read chk (repeat 221 (Z.to_nat (hd 0 t))) s), tl t)
    else if c =? 14 then let '(d, r) := take_list t in
                         (fin (fun q => match q with Ok n => [0; n] | Err _ => [1] end) (write_bytes chk d s), r)
    else if c =? 15 then let '(d, r) := take_list t in
                         (fin (fun q => match q with Ok _ => [0] | Err _ => [1] end) (write_str chk d s), r)
    else if c =? 16 then let '(d, r) := take_list t in (fin enc_io_z (io_write chk d s), r)
    else if c =? 17 then (fin (fun q => match q with Ok _ => [0] | Err k => [1; enc_ekind k] end) (io_flush s), t)
    else if c =? 18 then
      (* writable(): scribble min(k, wlen) bytes at its start, then wrote(n) *)
      let '(d, r) := take_list t in
      let n := hd 0 r in
      (fin (fun _ => [])
           ((w <- writable ;;
             let k := Z.min (zlen d) (vlen w) in
             dst <- view_sub w 0 k ;;
             view_copy_from_slice dst (firstn (Z.to_nat k) d) ;;;
             wrote chk n) s), tl r)
    else if c =? 19 then
      (* copy_once_from a one-shot reader: tag a b, data *)
      match t with
      | tag :: a :: b :: t2 =>
        let '(d, r) := take_list t2 in
        let out := copy_once_from chk SR (s, one_shot_reader tag a b d) in
        (match out with
         | Val q (s', rs) => (enc_io_z q ++ enc_bytes (rev (sr_log rs)), s')
         | Panic (s', rs) => (PANIC :: enc_bytes (rev (sr_log rs)), s')
         end, r)
      | _ => (([], s), [])
      end
    else if c =? 20 then
      (fin (fun q => match q with
                     | Ok None => [0; 0]
                     | Ok (Some (a, b)) => [0; 1; a; b]
                     | Err k => [1; enc_ekind k] end)
           (deframe chk (df_sel (hd 0 t)) s), tl t)
    else if c =? 21 then
      (* try_parse: some k steps *)
      match t with
      | some :: k :: t2 =>
        let '(body, r) := parse_steps fuel (Z.to_nat k) t2 in
        (fin (fun o => match o with None => [0] | Some log => 1 :: log end)
             (try_parse (closure chk body (negb (some =? 0))) s), r)
      | _ => (([], s), [])
      end
    else if c =? 22 then
      (* let copy = buf (Copy); report copy == buf and keep using the copy *)
      (([1], s), t)
    else if c =? 23 then (fin enc_bytes (fb_escape_ascii s), t)
    else if c =? 24 then (fin enc_bytes (debug_fmt SIZE chk s), t)
    else if c =? 25 then (fin (fun _ => []) (wrote chk (hd 0 t) s), tl t)
    else (([], s), [])
  end.

Fixpoint run_ops (SIZE : Z) (fuel : nat) (s : fb) (l : list Z) : list Z :=
  match fuel with O => [] | S f =>
  match l with
  | [] => []
  | _ => let '((out, s'), r) := run_op SIZE fuel s l in
         MOP :: out ++ post SIZE s' ++ run_ops SIZE f s' r
  end end.

(* API size ctor [mem] ops... *)
Definition run_api (l : list Z) : list Z :=
  match l with
  | SIZE :: ctor :: t =>
    let '(s0, r) :=
      if ctor =? 1 then let '(m, r) := take_n SIZE t in (empty m, r)
      else if ctor =? 2 then let '(m, r) := take_n SIZE t in (filled SIZE m, r)
      else if ctor =? 3 then (default SIZE, t)
      else (new SIZE, t) in
    post SIZE s0 ++ run_ops SIZE (S (length r)) s0 r
  | _ => []
  end.
End R.
