(* Run/Adapters.v — families CH (4) and TK (5): histories of read/write/flush on the adapters over scripted inner objects.
   CH: variant first_stream(list) first_script rw_stream(list) rw_script wscript op*
   TK: variant limit rw_stream(list) rw_script wscript op*
   variant 0 = the crate's adapter (Model/Adapters.v); 1 = the std reference machine (Spec/StdAdapters.v), reads only.
   op: 0 destlen (read into a 0xDD-filled destination) | 1 data(list) (write) | 2 (flush)
   per op: -2 result -6 pos1 nlog1 caps.. -6 pos2 nlog2 caps.. -7 nw wlog..   (TK: pos1/log1 are 0/empty) *)
From FB Require Import Sem.Base Model.Adapters Spec.StdAdapters Run.Codec.
Open Scope Z_scope.

Definition rwst := (sreader * swriter)%type.
Definition RW_R : Reader rwst := {| rd := fun st dest => let '(a, r') := sr_read (fst st) dest in (a, (r', snd st)) |}.
Definition RW_W : Writer rwst := {|
  wr := fun st d => let '(a, w') := sw_write (snd st) d in (a, (fst st, w'));
  fl := fun st => let '(a, w') := sw_flush (snd st) in (a, (fst st, w')) |}.

Section R.
Variable chk : bool.
Definition enc_io_z (r : io Z) : list Z := match r with Ok n => [0; n] | Err k => [1; enc_ekind k] end.
Definition enc_io_unit (r : io unit) : list Z := match r with Ok _ => [0] | Err k => [1; enc_ekind k] end.

Definition clear_logs (a : sreader) : sreader := {| sr_stream := sr_stream a; sr_script := sr_script a; sr_log := [] |}.
Definition clear_wlog (w : swriter) : swriter := {| sw_script := sw_script w; sw_log := [] |}.
Definition tail_obs (tot1 tot2 : Z) (f : sreader) (rw : rwst) : list Z :=
  (-6 :: (tot1 - zlen (sr_stream f)) :: enc_bytes (rev (sr_log f))) ++
  (-6 :: (tot2 - zlen (sr_stream (fst rw))) :: enc_bytes (rev (sr_log (fst rw)))) ++
  (-7 :: enc_bytes (sw_log (snd rw))).

(* ---- chain ---- *)
Definition chain_op (tot1 tot2 : Z) (w : @cw sreader rwst) (l : list Z) : (list Z * @cw sreader rwst) * list Z :=
  let w0 := {| c_has := c_has w; c_first := clear_logs (c_first w); c_rw := (clear_logs (fst (c_rw w)), clear_wlog (snd (c_rw w))) |} in
  match l with
  | [] => (([], w), [])
  | c :: t =>
    let '(out, w', r) :=
      if c =? 0 then
        match chain_read SR RW_R (repeat 221 (Z.to_nat (hd 0 t))) w0 with
        | Val (q, d) w' => (enc_io_z q ++ enc_bytes d, w', tl t)
        | Panic w' => ([PANIC], w', tl t)
        end
      else if c =? 1 then
        let '(d, r) := take_list t in
        match chain_write (R1S := sreader) RW_W d w0 with
        | Val q w' => (enc_io_z q, w', r)
        | Panic w' => ([PANIC], w', r)
        end
      else
        match chain_flush (R1S := sreader) RW_W w0 with
        | Val q w' => (enc_io_unit q, w', t)
        | Panic w' => ([PANIC], w', t)
        end in
    ((MOP :: out ++ tail_obs tot1 tot2 (c_first w') (c_rw w'), w'), r)
  end.
Fixpoint chain_ops (fuel : nat) (tot1 tot2 : Z) (w : @cw sreader rwst) (l : list Z) : list Z :=
  match fuel with O => [] | S f =>
  match l with [] => [] | _ => let '((out, w'), r) := chain_op tot1 tot2 w l in out ++ chain_ops f tot1 tot2 w' r end end.

Definition stdchain_op (tot1 tot2 : Z) (w : @sc sreader rwst) (l : list Z) : (list Z * @sc sreader rwst) * list Z :=
  let w0 := {| sc_done_first := sc_done_first w; sc_first := clear_logs (sc_first w);
               sc_second := (clear_logs (fst (sc_second w)), clear_wlog (snd (sc_second w))) |} in
  match l with
  | [] => (([], w), [])
  | c :: t =>
      if c =? 1 then (([], w), snd (take_list t)) else if negb (c =? 0) then (([], w), t) else
      match std_chain_read SR RW_R (repeat 221 (Z.to_nat (hd 0 t))) w0 with
      | Val (q, d) w' => ((MOP :: enc_io_z q ++ enc_bytes d ++ tail_obs tot1 tot2 (sc_first w') (sc_second w'), w'), tl t)
      | Panic w' => ((MOP :: PANIC :: tail_obs tot1 tot2 (sc_first w') (sc_second w'), w'), tl t)
      end
  end.
Fixpoint stdchain_ops (fuel : nat) (tot1 tot2 : Z) (w : @sc sreader rwst) (l : list Z) : list Z :=
  match fuel with O => [] | S f =>
  match l with [] => [] | _ => let '((out, w'), r) := stdchain_op tot1 tot2 w l in out ++ stdchain_ops f tot1 tot2 w' r end end.

Definition run_chain (l : list Z) : list Z :=
  match l with
  | variant :: t =>
    let '(s1, t1) := take_list t in
    let '(sc1, t2) := take_script t1 in
    let '(s2, t3) := take_list t2 in
    let '(sc2, t4) := take_script t3 in
    let '(ws, ops) := take_wscript t4 in
    let f := {| sr_stream := s1; sr_script := sc1; sr_log := [] |} in
    let rw := ({| sr_stream := s2; sr_script := sc2; sr_log := [] |}, {| sw_script := ws; sw_log := [] |}) in
    if variant =? 0 then chain_ops (S (length ops)) (zlen s1) (zlen s2) (chain_new f rw) ops
    else if (variant =? 2) || (variant =? 3) then      (* 3: as 2; the harness goes through the single-slice vectored entry points *)
      chain_ops (S (length ops)) (zlen s1) (zlen s2) (chain_new f rw) ops ++ [-8] ++
      stdchain_ops (S (length ops)) (zlen s1) (zlen s2) {| sc_done_first := false; sc_first := f; sc_second := rw |} ops
    else stdchain_ops (S (length ops)) (zlen s1) (zlen s2) {| sc_done_first := false; sc_first := f; sc_second := rw |} ops
  | [] => []
  end.

(* ---- take ---- *)
Definition empty_reader : sreader := {| sr_stream := []; sr_script := []; sr_log := [] |}.
Definition take_op (tot2 : Z) (w : @tw rwst) (l : list Z) : (list Z * @tw rwst) * list Z :=
  let w0 := {| t_rem := t_rem w; t_rw := (clear_logs (fst (t_rw w)), clear_wlog (snd (t_rw w))) |} in
  match l with
  | [] => (([], w), [])
  | c :: t =>
    let '(out, w', r) :=
      if c =? 0 then
        match take_read chk RW_R (repeat 221 (Z.to_nat (hd 0 t))) w0 with
        | Val (q, d) w' => (enc_io_z q ++ enc_bytes d, w', tl t)
        | Panic w' => ([PANIC], w', tl t)
        end
      else if c =? 1 then
        let '(d, r) := take_list t in
        match take_write RW_W d w0 with
        | Val q w' => (enc_io_z q, w', r)
        | Panic w' => ([PANIC], w', r)
        end
      else
        match take_flush RW_W w0 with
        | Val q w' => (enc_io_unit q, w', t)
        | Panic w' => ([PANIC], w', t)
        end in
    ((MOP :: out ++ tail_obs 0 tot2 empty_reader (t_rw w'), w'), r)
  end.
Fixpoint take_ops (fuel : nat) (tot2 : Z) (w : @tw rwst) (l : list Z) : list Z :=
  match fuel with O => [] | S f =>
  match l with [] => [] | _ => let '((out, w'), r) := take_op tot2 w l in out ++ take_ops f tot2 w' r end end.
Definition stdtake_op (tot2 : Z) (w : @st rwst) (l : list Z) : (list Z * @st rwst) * list Z :=
  let w0 := {| st_limit := st_limit w; st_inner := (clear_logs (fst (st_inner w)), clear_wlog (snd (st_inner w))) |} in
  match l with
  | [] => (([], w), [])
  | c :: t =>
      if c =? 1 then (([], w), snd (take_list t)) else if negb (c =? 0) then (([], w), t) else
      match std_take_read RW_R (repeat 221 (Z.to_nat (hd 0 t))) w0 with
      | Val (q, d) w' => ((MOP :: enc_io_z q ++ enc_bytes d ++ tail_obs 0 tot2 empty_reader (st_inner w'), w'), tl t)
      | Panic w' => ((MOP :: PANIC :: tail_obs 0 tot2 empty_reader (st_inner w'), w'), tl t)
      end
  end.
Fixpoint stdtake_ops (fuel : nat) (tot2 : Z) (w : @st rwst) (l : list Z) : list Z :=
  match fuel with O => [] | S f =>
  match l with [] => [] | _ => let '((out, w'), r) := stdtake_op tot2 w l in out ++ stdtake_ops f tot2 w' r end end.
Definition run_take (l : list Z) : list Z :=
  match l with
  | variant :: limit :: t =>
    let '(s2, t3) := take_list t in
    let '(sc2, t4) := take_script t3 in
    let '(ws, ops) := take_wscript t4 in
    let rw := ({| sr_stream := s2; sr_script := sc2; sr_log := [] |}, {| sw_script := ws; sw_log := [] |}) in
    if variant =? 0 then take_ops (S (length ops)) (zlen s2) (take_new rw limit) ops
    else if (variant =? 2) || (variant =? 3) then
      take_ops (S (length ops)) (zlen s2) (take_new rw limit) ops ++ [-8] ++
      stdtake_ops (S (length ops)) (zlen s2) {| st_limit := limit; st_inner := rw |} ops
    else stdtake_ops (S (length ops)) (zlen s2) {| st_limit := limit; st_inner := rw |} ops
  | _ => []
  end.
End R.
