(* Run/Srv.v — family SRV (6): the request loop over a scripted transport.
   6 SIZE plen_kind stream(list) rscript wscript dests(list) nreq
   per request: -2 kind ...   kind 0: line(list) payload(list) drain_status write_status | 1 eof | 2 k err | -1 panic
   then: -3 post-state of the buffer, -6 transport position, -7 transport write log *)
From FB Require Import Sem.Base Model.Fb Model.Deframers Model.Adapters Model.Serve Spec.Api Run.Codec Run.Api Run.Adapters.
Open Scope Z_scope.

Definition plen_sel (SIZE kind : Z) (line : list Z) : Z :=
  if kind =? 0 then hd 0 line else if kind =? 1 then SIZE + 1 else if kind =? 2 then 0 else if kind =? 3 then zlen line
  else (kind - 4) + hd 0 line.      (* kind 4 + OFFSET: a header byte on top of a large base length *)
Definition resp_std (line payload : list Z) : list Z := [79; 75; zlen payload mod 256; 10].
Definition enc_dstat (d : dstat) : list Z :=
  match d with DrOk => [0] | DrErr k => [1; enc_ekind k] | DrPanic => [PANIC] | DrFuel => [-7] end.
Definition enc_req (o : req_out) : list Z :=
  MOP :: match o with
         | RqServed line payload dr wr => 0 :: enc_bytes line ++ enc_bytes payload ++ enc_dstat dr ++ enc_dstat wr
         | RqEof => [1] | RqErr k => [2; enc_ekind k] | RqPanic => [PANIC] | RqFuel => [-7]
         end.
Section R.
Variable chk : bool.
Definition run_srv (l : list Z) : list Z :=
  match l with
  | SIZE :: kind :: t =>
    let '(stream, t1) := take_list t in
    let '(rsc, t2) := take_script t1 in
    let '(wsc, t3) := take_wscript t2 in
    let '(dests, t4) := take_list t3 in
    let nreq := hd 0 t4 in
    let ts : rwst := ({| sr_stream := stream; sr_script := rsc; sr_log := [] |}, {| sw_script := wsc; sw_log := [] |}) in
    let fuel := S (S (length stream + length rsc + Z.to_nat SIZE)) in
    let '(os, (s', ts')) := serve chk RW_R RW_W (df_of (deframe_line chk)) (plen_sel SIZE kind) resp_std
                              (Z.to_nat nreq) fuel dests (new SIZE, ts) in
    flat_map enc_req os ++ post chk SIZE s' ++ [-6; zlen stream - zlen (sr_stream (fst ts'))] ++ (-7 :: enc_bytes (sw_log (snd ts')))
  | _ => []
  end.
End R.

(* ASRV (26): the same loop over the tokio types; transport scripts may contain Pending (tag 3); `cancel` applies to every read_frame *)
From FB Require Import Sem.ReadBuf Model.Tokio Model.TokioAsync Model.ServeAsync Run.Tokio Run.TokioAdapters.
Section RA.
Variable chk : bool.
Definition run_asrv (l : list Z) : list Z :=
  match l with
  | SIZE :: kind :: t =>
    let '(stream, t1) := take_list t in
    let '(rsc, t2) := take_script t1 in
    let '(wsc, t3) := take_wscript t2 in
    let '(dests, t4) := take_list t3 in
    let nreq := hd 0 t4 in
    let '(cancel, _) := take_list (tl t4) in
    let ts : arwst := ({| sr_stream := stream; sr_script := rsc; sr_log := [] |}, {| sw_script := wsc; sw_log := [] |}) in
    let fuel := S (S (length stream + length rsc + length wsc + Z.to_nat SIZE)) in
    let '(os, (s', ts')) := aserve chk ARW_R ARW_W (df_of (deframe_line chk)) (plen_sel SIZE kind) resp_std
                              (Z.to_nat nreq) fuel (bits cancel) dests (new SIZE, ts) in
    flat_map enc_req os ++ post chk SIZE s' ++ [-6; zlen stream - zlen (sr_stream (fst ts'))] ++ (-7 :: enc_bytes (sw_log (snd ts')))
  | _ => []
  end.
End RA.
