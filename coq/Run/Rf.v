(* Run/Rf.v — family RF (3) and RFSTEP (9): sequences of read_frame / copy_once_from calls against a scripted reader.
   RF:     SIZE which preload(list) preconsume stream(list) script ncalls mode
   RFSTEP: SIZE ri wi mem[SIZE] which stream(list) script mode            (one call from an explicit state)
   per call: -2 result -3 len wlen readable -5 mem -6 pos nlog caps...
   mode 0 = read_frame, 1 = copy_once_from *)
From FB Require Import Sem.Base Model.Fb Model.Deframers Spec.Api Run.Codec Run.Api.
Open Scope Z_scope.

Section R.
Variable chk : bool.

Definition enc_frame (r : fueled frame_res) : list Z :=
  match r with
  | Done (FFrame p) => 0 :: 1 :: enc_bytes p
  | Done FNone => [0; 0]
  | Done (FErr k) => [1; enc_ekind k]
  | OutOfFuel => [-7]
  end.

(* one call; returns the record and the new world; `total` = length of the original stream *)
Definition one_call (SIZE which mode total : Z) (w : fb * sreader) : list Z * (fb * sreader) :=
  let rs0 := {| sr_stream := sr_stream (snd w); sr_script := sr_script (snd w); sr_log := [] |} in
  let fuel := S (S (length (sr_stream rs0) + length (sr_script rs0))) in
  let '(out, w') :=
    if mode =? 0 then
      match read_frame chk SR fuel (df_sel chk which) (fst w, rs0) with
      | Val r w' => (enc_frame r, w')
      | Panic w' => ([PANIC], w')
      end
    else
      match copy_once_from chk SR (fst w, rs0) with
      | Val r w' => (enc_io_z r, w')
      | Panic w' => ([PANIC], w')
      end in
  let log := rev (sr_log (snd w')) in
  (MOP :: out ++ post chk SIZE (fst w') ++ (-6 :: (total - zlen (sr_stream (snd w'))) :: enc_bytes log), w').

Fixpoint calls (n : nat) (SIZE which mode total : Z) (w : fb * sreader) : list Z :=
  match n with
  | O => []
  | S m => let '(out, w') := one_call SIZE which mode total w in out ++ calls m SIZE which mode total w'
  end.

Definition run_rf (l : list Z) : list Z :=
  match l with
  | SIZE :: which :: t =>
    let '(pre, t1) := take_list t in
    let preconsume := hd 0 t1 in
    let '(stream, t2) := take_list (tl t1) in
    let '(script, t3) := take_script t2 in
    let ncalls := hd 0 t3 in
    let mode := hd 0 (tl t3) in
    let s0 := new SIZE in
    let s1 := state_of (write_bytes chk pre s0) in
    let s2 := state_of (read_bytes chk preconsume s1) in
    post chk SIZE s2 ++
    calls (Z.to_nat ncalls) SIZE which mode (zlen stream) (s2, {| sr_stream := stream; sr_script := script; sr_log := [] |})
  | _ => []
  end.

Definition run_rfstep (l : list Z) : list Z :=
  match l with
  | SIZE :: ri :: wi :: t =>
    let '(m, t0) := take_n SIZE t in
    let which := hd 0 t0 in
    let '(stream, t2) := take_list (tl t0) in
    let '(script, t3) := take_script t2 in
    let mode := hd 0 t3 in
    fst (one_call SIZE which mode (zlen stream)
           ({| mem := m; read_index := ri; write_index := wi |}, {| sr_stream := stream; sr_script := script; sr_log := [] |}))
  | _ => []
  end.
End R.
