(* Run/Tokio.v — tokio-side families: APOLL (20) / APOLLSTEP (21) for C17, ARF (22) / ARFSTEP (25) for C14, C15. *)
From FB Require Import Sem.Base Sem.ReadBuf Sem.Async Model.Fb Model.Deframers Model.Tokio Model.TokioAsync Spec.Api Run.Codec Run.Api Run.Rf.
Open Scope Z_scope.

(* the scripted async reader (harness `AScriptReader`): the blocking script language + tag 3 = Poll::Pending *)
Definition asr_poll (st : sreader) (b : rb) : ard_res * sreader :=
  let cap := rb_remaining b in
  let '(act, rest) := match sr_script st with [] => ((0, cap, 0), []) | a :: t => (a, t) end in
  let '(tag, a, sc) := act in
  let st1 := {| sr_stream := sr_stream st; sr_script := rest; sr_log := cap :: sr_log st |} in
  if (tag =? 0) || (tag =? 4) then
    let a := if tag =? 4 then 0 else a in
    let n := Z.max 0 (Z.min a (Z.min cap (zlen (sr_stream st)))) in
    let data := firstn (Z.to_nat n) (sr_stream st) in
    let b1 := {| rb_buf := splice (rb_buf b) (rb_filled b) data; rb_filled := rb_filled b + n; rb_init := Z.max (rb_init b) (rb_filled b + n) |} in
    let s := Z.max 0 (Z.min sc (cap - n)) in
    let b2 := if 0 <? s
              then (* initialize_unfilled() zero-fills [init, cap) and makes everything initialised; then s bytes of 0xEE *)
                   let z := {| rb_buf := splice (rb_buf b1) (rb_init b1) (repeat 0 (Z.to_nat (zlen (rb_buf b1) - rb_init b1)));
                               rb_filled := rb_filled b1; rb_init := zlen (rb_buf b1) |} in
                   {| rb_buf := splice (rb_buf z) (rb_filled z) (repeat 238 (Z.to_nat s)); rb_filled := rb_filled z; rb_init := rb_init z |}
              else b1 in
    (AROk b2, {| sr_stream := skipn (Z.to_nat n) (sr_stream st); sr_script := rest; sr_log := cap :: sr_log st |})
  else if tag =? 1 then (ARErr (dec_ekind a) b, st1)
  else if tag =? 2 then (ARPanic, st1)
  else (ARPending b, st1).
Definition ASR : AsyncReader sreader := {| prd := asr_poll |}.

Definition mk_rb (pre : list Z) (cap uninit : Z) : rb :=
  let store := repeat 221 (Z.to_nat (zlen pre + cap)) in
  let b := if uninit =? 0 then rb_new store else rb_uninit store in
  let b1 := {| rb_buf := splice (rb_buf b) 0 pre; rb_filled := zlen pre; rb_init := Z.max (rb_init b) (zlen pre) |} in
  (* flag k >= 2: ReadBuf::uninit, then initialize_unfilled_to(min(k - 1, cap)): an initialised (zeroed) part strictly inside the tail *)
  if 2 <=? uninit then
    let j := Z.min (uninit - 1) cap in
    {| rb_buf := splice (rb_buf b1) (zlen pre) (repeat 0 (Z.to_nat j)); rb_filled := zlen pre; rb_init := zlen pre + j |}
  else b1.
Definition take_rb (l : list Z) : rb * list Z :=
  let '(pre, t) := take_list l in (mk_rb pre (hd 0 t) (hd 0 (tl t)), tl (tl t)).
Definition enc_rb (b : rb) : list Z := enc_bytes (rb_filled_bytes b) ++ [rb_remaining b].
Definition enc_poll_unit (p : poll (io unit)) : list Z :=
  match p with PReady (Ok _) => [0] | PReady (Err k) => [1; enc_ekind k] | PPending => [2] end.
Definition enc_poll_z (p : poll (io Z)) : list Z :=
  match p with PReady (Ok n) => [0; n] | PReady (Err k) => [1; enc_ekind k] | PPending => [2] end.

Section R.
Variable chk : bool.

(* ---- APOLL ---- *)
Definition apoll_op (SIZE : Z) (fuel : nat) (s : fb) (l : list Z) : (list Z * fb) * list Z :=
  match l with
  | [] => (([], s), [])
  | c :: t =>
    if c =? 30 then
      let '(b, r) := take_rb t in
      (match afb_poll_read chk b s with
       | Val (p, b') s' => (enc_poll_unit p ++ enc_rb b', s')
       | Panic s' => ([PANIC], s')
       end, r)
    else if c =? 31 then
      let '(d, r) := take_list t in
      (match afb_poll_write chk d s with Val p s' => (enc_poll_z p, s') | Panic s' => ([PANIC], s') end, r)
    else if c =? 32 then (match afb_poll_flush s with Val p s' => (enc_poll_unit p, s') | Panic s' => ([PANIC], s') end, t)
    else if c =? 33 then (match afb_poll_shutdown s with Val p s' => (enc_poll_unit p, s') | Panic s' => ([PANIC], s') end, t)
    else run_op chk SIZE fuel s l
  end.
Fixpoint apoll_ops (SIZE : Z) (fuel : nat) (s : fb) (l : list Z) : list Z :=
  match fuel with O => [] | S f =>
  match l with
  | [] => []
  | _ => let '((out, s'), r) := apoll_op SIZE fuel s l in MOP :: out ++ post chk SIZE s' ++ apoll_ops SIZE f s' r
  end end.
Definition run_apoll (l : list Z) : list Z :=
  match l with
  | SIZE :: ctor :: t =>
    let '(s0, r) :=
      if ctor =? 1 then let '(m, r) := take_n SIZE t in (empty m, r)
      else if ctor =? 2 then let '(m, r) := take_n SIZE t in (filled SIZE m, r)
      else (new SIZE, t) in
    post chk SIZE s0 ++ apoll_ops SIZE (S (length r)) s0 r
  | _ => []
  end.
Definition run_apollstep (l : list Z) : list Z :=
  match l with
  | SIZE :: ri :: wi :: t =>
    let '(m, r) := take_n SIZE t in
    let s := {| mem := m; read_index := ri; write_index := wi |} in
    let '((out, s'), _) := apoll_op SIZE (S (length r)) s r in
    MOP :: out ++ post chk SIZE s'
  | _ => []
  end.

(* ---- ARF ---- *)
Definition enc_frame (r : fueled frame_res) : list Z :=
  match r with
  | Done (FFrame p) => 0 :: 1 :: enc_bytes p
  | Done FNone => [0; 0]
  | Done (FErr k) => [1; enc_ekind k]
  | OutOfFuel => [-7]
  end.
Definition enc_io_z (r : io Z) : list Z := match r with Ok n => [0; n] | Err k => [1; enc_ekind k] end.

(* one call driven to completion by the modelled lowering (Sem/Async.v `drive`) *)
Definition bits (l : list Z) : list bool := map (fun z => negb (z =? 0)) l.
Definition enc_out_rf (o : out (fb * sreader) frame_res) : list Z * (fb * sreader) :=
  match o with
  | Ready r w => (enc_frame (Done r), w)
  | Panicked w => ([PANIC], w)
  | Exhausted w => ([-7], w)
  end.
Definition enc_out_co (o : out (fb * sreader) (io Z)) : list Z * (fb * sreader) :=
  match o with
  | Ready r w => (enc_io_z r, w)
  | Panicked w => ([PANIC], w)
  | Exhausted w => ([-7], w)
  end.
Definition count_pend (before after : list (Z * Z * Z)) : Z :=
  let used := firstn (length before - length after) before in
  zlen (filter (fun t => let '(tag, _, _) := t in negb ((tag =? 0) || (tag =? 1) || (tag =? 2) || (tag =? 4))) used).

Definition arf_call (SIZE which mode total wakes0 : Z) (cancel : list Z) (w : fb * sreader) : list Z * list Z * Z * (fb * sreader) :=
  let rs0 := {| sr_stream := sr_stream (snd w); sr_script := sr_script (snd w); sr_log := [] |} in
  let bound := S (S (length (sr_stream rs0) + length (sr_script rs0))) in
  let '(out, w') :=
    if mode =? 0 then enc_out_rf (arf_drive chk ASR bound (bits cancel) (df_sel chk which) (fst w, rs0))
    else enc_out_co (aco_drive chk ASR bound (bits cancel) (fst w, rs0)) in
  let np := count_pend (sr_script rs0) (sr_script (snd w')) in
  (* every Pending poll consumed one cancel bit; polls = Pendings + the final one *)
  let ncancel := zlen (filter (fun z => negb (z =? 0)) (firstn (Z.to_nat np) cancel)) in
  (MOP :: out ++ post chk SIZE (fst w') ++ (-6 :: (total - zlen (sr_stream (snd w'))) :: enc_bytes (rev (sr_log (snd w')))) ++
     [-9; np + 1; np; ncancel; wakes0 + np], skipn (Z.to_nat np) cancel, wakes0 + np, w').
Fixpoint arf_calls (n : nat) (SIZE which mode total wakes : Z) (cancel : list Z) (w : fb * sreader) : list Z :=
  match n with
  | O => []
  | S m => let '(out, cancel', wakes', w') := arf_call SIZE which mode total wakes cancel w in
           out ++ arf_calls m SIZE which mode total wakes' cancel' w'
  end.
Definition run_arf (l : list Z) : list Z :=
  match l with
  | SIZE :: which :: t =>
    let '(pre, t1) := take_list t in
    let preconsume := hd 0 t1 in
    let '(stream, t2) := take_list (tl t1) in
    let '(script, t3) := take_script t2 in
    let ncalls := hd 0 t3 in
    let mode := hd 0 (tl t3) in
    let '(cancel, _) := take_list (tl (tl t3)) in
    let s0 := new SIZE in
    let s1 := state_of (write_bytes chk pre s0) in
    let s2 := state_of (read_bytes chk preconsume s1) in
    post chk SIZE s2 ++
    arf_calls (Z.to_nat ncalls) SIZE which mode (zlen stream) 0 cancel (s2, {| sr_stream := stream; sr_script := script; sr_log := [] |})
    (* the blocking FixedBuf methods on the same chunks (Pending entries removed): the oracle C14/C15 name *)
    ++ (-8 :: calls chk (Z.to_nat ncalls) SIZE which mode (zlen stream)
                (s2, {| sr_stream := stream; sr_script := filter (fun t => let '(tag, _, _) := t in negb (tag =? 3)) script; sr_log := [] |}))
  | _ => []
  end.
(* ARFSTEP SIZE ri wi mem which stream script mode cancel : one call from an explicit state *)
Definition run_arfstep (l : list Z) : list Z :=
  match l with
  | SIZE :: ri :: wi :: t =>
    let '(m, t0) := take_n SIZE t in
    let which := hd 0 t0 in
    let '(stream, t2) := take_list (tl t0) in
    let '(script, t3) := take_script t2 in
    let mode := hd 0 t3 in
    let '(cancel, _) := take_list (tl t3) in
    let '(out, _, _, _) := arf_call SIZE which mode (zlen stream) 0 cancel
           ({| mem := m; read_index := ri; write_index := wi |}, {| sr_stream := stream; sr_script := script; sr_log := [] |}) in
    out
  | _ => []
  end.
End R.
