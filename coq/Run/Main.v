(* Run/Main.v — dispatch on the family code (first integer of a case). *)
From FB Require Import Sem.Base Run.Codec Run.Api Run.Rf Run.Adapters Run.Tokio Run.TokioAdapters Run.Srv.
Open Scope Z_scope.
Definition run_case (chk : bool) (l : list Z) : list Z :=
  match l with
  | fam :: t =>
      if fam =? 1 then run_df chk t
      else if fam =? 2 then run_api chk t
      else if fam =? 8 then run_apistep chk t
      else if fam =? 7 then run_escape t
      else if fam =? 3 then run_rf chk t
      else if fam =? 4 then run_chain t
      else if fam =? 5 then run_take chk t
      else if fam =? 6 then run_srv chk t
      else if fam =? 26 then run_asrv chk t
      else if fam =? 20 then run_apoll chk t
      else if fam =? 21 then run_apollstep chk t
      else if fam =? 22 then run_arf chk t
      else if fam =? 25 then run_arfstep chk t
      else if fam =? 23 then run_achain chk t
      else if fam =? 24 then run_atake chk t
      else if fam =? 9 then run_rfstep chk t
      else []
  | [] => []
  end.
