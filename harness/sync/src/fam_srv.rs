// family SRV (6): the documented request loop over a scripted transport; see coq/Run/Srv.v and coq/Model/Serve.v
use crate::common::*;
use crate::fam_api::post;
use crate::with_size;
use fixed_buffer::*;
use std::io::{ErrorKind, Read, Write};

fn plen_sel(size: u64, kind: u64, line: &[u8]) -> u64 {
    match kind {
        0 => line.first().copied().unwrap_or(0) as u64,
        1 => size + 1,
        2 => 0,
        3 => line.len() as u64,
        k => (k - 4).wrapping_add(line.first().copied().unwrap_or(0) as u64),
    }
}
fn enc_stat(out: &mut Vec<i128>, r: &Result<(), std::io::Error>) {
    match r {
        Ok(()) => out.push(0),
        Err(e) => {
            out.push(1);
            out.push(code_of(e.kind()))
        }
    }
}
// Write::write_all as std implements it (retry Interrupted, WriteZero on Ok(0)); WriteZero is reported as Other(7) like the model
fn write_all<Wr: Write>(w: &mut Wr, mut data: &[u8]) -> Result<(), std::io::Error> {
    while !data.is_empty() {
        match w.write(data) {
            Ok(0) => return Err(std::io::Error::from(ErrorKind::Other)),
            Ok(n) => data = &data[n..],
            Err(ref e) if e.kind() == ErrorKind::Interrupted => {}
            Err(e) => return Err(e),
        }
    }
    Ok(())
}

fn srv_sized<const N: usize>(c: &mut Cur, out: &mut Vec<i128>) {
    let kind = c.next();
    let stream = c.take_list();
    let rsc = c.take_script();
    let wsc = c.take_wscript();
    let dests = c.take_list();
    let nreq = c.next();
    let mut buf: FixedBuf<N> = FixedBuf::new();
    let mut tr = ScriptRW { r: ScriptReader::new(stream, rsc), w: ScriptWriter::new(wsc) };
    for _ in 0..nreq {
        out.push(MOP);
        let r = std::panic::catch_unwind(std::panic::AssertUnwindSafe(|| {
            let mut o: Vec<i128> = Vec::new();
            let line: Vec<u8> = match buf.read_frame(&mut tr, deframe_line) {
                Ok(Some(l)) => l.to_vec(),
                Ok(None) => {
                    o.push(1);
                    return (o, false);
                }
                Err(e) => {
                    o.push(2);
                    o.push(code_of(e.kind()));
                    return (o, false);
                }
            };
            let n = plen_sel(N as u64, kind, &line);
            let mut payload: Vec<u8> = Vec::new();
            let mut chain = ReadWriteChain::new(&mut buf, &mut tr);
            let dr: Result<(), std::io::Error> = {
                let mut take = ReadWriteTake::new(&mut chain, n);
                let mut i = 0usize;
                loop {
                    let d = if i < dests.len() { dests[i] as usize } else { 8 };
                    i += 1;
                    let mut dest = vec![0xDDu8; d];
                    match take.read(&mut dest) {
                        Ok(0) if d == 0 => {}
                        Ok(0) => break Ok(()),
                        Ok(k) => payload.extend_from_slice(&dest[..k]),
                        Err(e) => break Err(e),
                    }
                }
            };
            let wr = if dr.is_ok() {
                let resp = [79u8, 75, (payload.len() % 256) as u8, 10];
                write_all(&mut chain, &resp)
            } else {
                Ok(())
            };
            o.push(0);
            enc_bytes(&mut o, &line);
            enc_bytes(&mut o, &payload);
            enc_stat(&mut o, &dr);
            enc_stat(&mut o, &wr);
            let cont = dr.is_ok() && wr.is_ok();
            (o, cont)
        }));
        match r {
            Ok((o, cont)) => {
                out.extend(o);
                if !cont {
                    break;
                }
            }
            Err(_) => {
                out.push(PANIC);
                break;
            }
        }
    }
    post(&mut buf, out);
    out.push(-6);
    out.push(tr.r.pos as i128);
    out.push(-7);
    out.push(tr.w.log.len() as i128);
    out.extend(tr.w.log.iter());
}
pub fn run_srv(c: &mut Cur, out: &mut Vec<i128>) {
    let size = c.next();
    with_size!(size, srv_sized, c, out)
}
