use crate::common::*;
pub fn run_srv(_c: &mut Cur, _out: &mut Vec<i128>) {}
