// harness/sync — runs int-encoded cases against the REAL fixed-buffer crate (path = /repo/fixed-buffer)
// and prints int-encoded traces in exactly the format the extracted Coq model prints (coq/Run/*.v).
// usage: hsync < cases > traces        (the cargo profile decides the overflow behaviour)
mod alloc_count;
mod common;
mod fam_api;
mod fam_rf;
mod fam_adapters;
mod fam_srv;

use common::*;
use std::io::{BufRead, Write};

fn main() {
    // big FixedBuf<SIZE> values live on the stack: run on a thread with a large one
    std::thread::Builder::new().stack_size(1 << 30).spawn(real_main).unwrap().join().unwrap();
}

fn real_main() {
    std::panic::set_hook(Box::new(|_| {}));
    let stdin = std::io::stdin();
    let stdout = std::io::stdout();
    let mut w = std::io::BufWriter::new(stdout.lock());
    let mut line = String::new();
    let mut r = stdin.lock();
    loop {
        line.clear();
        if r.read_line(&mut line).unwrap() == 0 {
            break;
        }
        let vals: Vec<u64> = line
            .split_ascii_whitespace()
            .map(|t| t.parse::<u64>().expect("case values are non-negative u64"))
            .collect();
        let mut out: Vec<i128> = Vec::new();
        let mut c = Cur::new(&vals);
        match c.next() {
            1 => fam_api::run_df(&mut c, &mut out),
            2 => fam_api::run_api(&mut c, &mut out),
            3 => fam_rf::run_rf(&mut c, &mut out),
            4 => fam_adapters::run_chain(&mut c, &mut out),
            5 => fam_adapters::run_take(&mut c, &mut out),
            6 => fam_srv::run_srv(&mut c, &mut out),
            7 => fam_api::run_escape(&mut c, &mut out),
            _ => {}
        }
        let mut first = true;
        for v in out {
            if !first {
                w.write_all(b" ").unwrap();
            }
            first = false;
            write!(w, "{}", v).unwrap();
        }
        w.write_all(b"\n").unwrap();
    }
    w.flush().unwrap();
}
