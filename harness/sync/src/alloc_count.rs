// counting global allocator (C18): number of alloc/realloc calls on this thread of execution
use std::alloc::{GlobalAlloc, Layout, System};
use std::sync::atomic::{AtomicU64, Ordering};

pub struct Counting;
pub static ALLOCS: AtomicU64 = AtomicU64::new(0);

unsafe impl GlobalAlloc for Counting {
    unsafe fn alloc(&self, l: Layout) -> *mut u8 {
        ALLOCS.fetch_add(1, Ordering::Relaxed);
        System.alloc(l)
    }
    unsafe fn dealloc(&self, p: *mut u8, l: Layout) {
        System.dealloc(p, l)
    }
    unsafe fn alloc_zeroed(&self, l: Layout) -> *mut u8 {
        ALLOCS.fetch_add(1, Ordering::Relaxed);
        System.alloc_zeroed(l)
    }
    unsafe fn realloc(&self, p: *mut u8, l: Layout, n: usize) -> *mut u8 {
        ALLOCS.fetch_add(1, Ordering::Relaxed);
        System.realloc(p, l, n)
    }
}

#[global_allocator]
static A: Counting = Counting;

pub fn allocs() -> u64 {
    ALLOCS.load(Ordering::Relaxed)
}

/// allocations made inside library calls bracketed with `lib` since the last `take_lib`
pub static LIB: AtomicU64 = AtomicU64::new(0);
pub fn lib<T>(f: impl FnOnce() -> T) -> T {
    let a0 = allocs();
    let r = f();
    LIB.fetch_add(allocs() - a0, Ordering::Relaxed);
    r
}
pub fn take_lib() -> u64 {
    LIB.swap(0, Ordering::Relaxed)
}
