use crate::common::*;
pub fn run_rf(_c: &mut Cur, _out: &mut Vec<i128>) {}
