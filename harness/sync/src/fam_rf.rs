// families RF (3) and RFSTEP (9): see coq/Run/Rf.v
use crate::alloc_count::{lib, take_lib};
use crate::common::*;
use crate::fam_api::{df_sel, post};
use crate::with_size;
use fixed_buffer::*;

fn one_call<const N: usize>(buf: &mut FixedBuf<N>, rd: &mut ScriptReader, which: u64, mode: u64, base: usize, out: &mut Vec<i128>) {
    rd.log.clear();
    take_lib();
    out.push(MOP);
    if mode == 0 {
        let r = std::panic::catch_unwind(std::panic::AssertUnwindSafe(|| {
            let mut tmp: Vec<i128> = Vec::new();
            match lib(|| buf.read_frame(rd, df_sel(which))) {
                Ok(Some(frame)) => {
                    tmp.push(0);
                    tmp.push(1);
                    enc_bytes(&mut tmp, frame);
                }
                Ok(None) => {
                    tmp.push(0);
                    tmp.push(0);
                }
                Err(e) => {
                    tmp.push(1);
                    tmp.push(code_of(e.kind()));
                }
            }
            tmp
        }));
        match r {
            Ok(t) => out.extend(t),
            Err(_) => out.push(PANIC),
        }
    } else {
        let r = std::panic::catch_unwind(std::panic::AssertUnwindSafe(|| lib(|| buf.copy_once_from(rd))));
        match r {
            Ok(q) => enc_io_usize(out, &q),
            Err(_) => out.push(PANIC),
        }
    }
    post(buf, out);
    out.push(-6);
    out.push((rd.pos - base) as i128);
    out.push(rd.log.len() as i128);
    out.extend(rd.log.iter().map(|x| *x as i128));
    if std::env::var_os("HSYNC_ALLOCS").is_some() {
        out.push(MAL);
        out.push(take_lib() as i128);
    }
}

fn rf_sized<const N: usize>(c: &mut Cur, out: &mut Vec<i128>) {
    let which = c.next();
    let pre = c.take_list();
    let preconsume = c.next() as usize;
    let stream = c.take_list();
    let script = c.take_script();
    let ncalls = c.next();
    let mode = c.next();
    let mut buf: FixedBuf<N> = FixedBuf::new();
    let _ = std::panic::catch_unwind(std::panic::AssertUnwindSafe(|| {
        let _ = buf.write_bytes(&pre);
    }));
    let _ = std::panic::catch_unwind(std::panic::AssertUnwindSafe(|| {
        buf.read_bytes(preconsume);
    }));
    post(&mut buf, out);
    let mut rd = ScriptReader::new(stream, script);
    for _ in 0..ncalls {
        one_call(&mut buf, &mut rd, which, mode, 0, out);
    }
}

fn rfstep_sized<const N: usize>(c: &mut Cur, out: &mut Vec<i128>) {
    let ri = c.next() as usize;
    let wi = c.next() as usize;
    let m = c.take_n(N);
    let which = c.next();
    let stream = c.take_list();
    let script = c.take_script();
    let mode = c.next();
    // rebuild the state through the public API: filled(mem), consume ri ... not expressible for wi < N; unused on the
    // implementation side (step-wise correspondence restarts the MODEL, not the implementation)
    let _ = (ri, wi, m, which, stream, script, mode);
    out.push(-9);
}

pub fn run_rf(c: &mut Cur, out: &mut Vec<i128>) {
    let size = c.next();
    with_size!(size, rf_sized, c, out)
}
#[allow(dead_code)]
pub fn run_rfstep(c: &mut Cur, out: &mut Vec<i128>) {
    let size = c.next();
    with_size!(size, rfstep_sized, c, out)
}
