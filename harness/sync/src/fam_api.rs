// families DF (1), API (2), ESC (7): see coq/Run/Api.v for the encoding
use crate::alloc_count::{lib, take_lib};
use crate::common::*;
use crate::with_size;
use fixed_buffer::*;
use std::io::{Read, Write};

type Dfr = Result<Option<(core::ops::Range<usize>, usize)>, MalformedInputError>;

fn enc_dfr(out: &mut Vec<i128>, r: Dfr) {
    match r {
        Ok(None) => out.push(0),
        Ok(Some((r, n))) => {
            out.push(1);
            out.push(r.start as i128);
            out.push(r.end as i128);
            out.push(n as i128);
        }
        Err(_) => out.push(2),
    }
}

pub fn run_df(c: &mut Cur, out: &mut Vec<i128>) {
    let which = c.next();
    let mut d = Vec::new();
    while !c.done() {
        d.push(c.next() as u8);
    }
    guarded(out, |o| {
        let r = match which {
            0 => deframe_line(&d),
            1 => deframe_crlf(&d),
            _ => deframe_null(&d),
        };
        enc_dfr(o, r)
    });
}

pub fn run_escape(c: &mut Cur, out: &mut Vec<i128>) {
    // ESC mode bytes...: mode 0 = crate::escape_ascii(bytes); mode 1 = core::ascii::escape_default of ONE byte (library-model check)
    let mode = c.next();
    let mut d = Vec::new();
    while !c.done() {
        d.push(c.next() as u8);
    }
    guarded(out, |o| {
        if mode == 0 {
            enc_bytes(o, escape_ascii(&d).as_bytes());
        } else {
            let v: Vec<u8> = core::ascii::escape_default(d[0]).collect();
            enc_bytes(o, &v);
        }
    });
}

fn df_reject(_d: &[u8]) -> Dfr {
    Err(MalformedInputError::new(String::from("rejected")))
}
fn df_panic(_d: &[u8]) -> Dfr {
    panic!("deframer panic")
}
fn df_lenprefix(d: &[u8]) -> Dfr {
    if d.is_empty() {
        return Ok(None);
    }
    let k = d[0] as usize;
    if k <= d.len() - 1 {
        Ok(Some((1..1 + k, 1 + k)))
    } else {
        Ok(None)
    }
}
fn df_line_reject_x(d: &[u8]) -> Dfr {
    if d.contains(&b'x') {
        return Err(MalformedInputError::new(String::from("x")));
    }
    deframe_line(d)
}
pub fn df_sel(which: u64) -> fn(&[u8]) -> Dfr {
    match which {
        0 => deframe_line,
        1 => deframe_crlf,
        2 => deframe_null,
        3 => df_reject,
        4 => df_panic,
        5 => df_lenprefix,
        _ => df_line_reject_x,
    }
}

pub fn post<const N: usize>(buf: &mut FixedBuf<N>, out: &mut Vec<i128>) {
    out.push(MST);
    guarded(out, |o| o.push(buf.len() as i128));
    guarded(out, |o| o.push(buf.writable().len() as i128));
    guarded(out, |o| enc_bytes(o, buf.readable()));
    out.push(-5);
    guarded(out, |o| enc_bytes(o, buf.mem()));
}

enum Step {
    Byte,
    TryByte,
    Bytes(usize),
    TryBytes(usize),
    Copy(usize),
    TryExact(usize),
    All,
    Nested(Vec<Step>, bool),
}
fn parse_steps(c: &mut Cur, n: u64) -> Vec<Step> {
    let mut v = Vec::new();
    for _ in 0..n {
        if c.done() {
            break;
        }
        let code = c.next();
        v.push(match code {
            0 => Step::Byte,
            1 => Step::TryByte,
            2 => Step::Bytes(c.next() as usize),
            3 => Step::TryBytes(c.next() as usize),
            4 => Step::Copy(c.next() as usize),
            5 => Step::TryExact(c.next() as usize),
            6 => Step::All,
            _ => {
                let some = c.next() != 0;
                let k = c.next();
                Step::Nested(parse_steps(c, k), some)
            }
        });
    }
    v
}
fn enc_opt_bytes(o: &mut Vec<i128>, r: Option<&[u8]>) {
    match r {
        None => o.push(0),
        Some(b) => {
            o.push(1);
            enc_bytes(o, b)
        }
    }
}
fn run_steps<const N: usize>(b: &mut FixedBuf<N>, steps: &[Step], log: &mut Vec<i128>) {
    for s in steps {
        match s {
            Step::Byte => log.push(b.read_byte() as i128),
            Step::TryByte => match b.try_read_byte() {
                None => log.push(0),
                Some(x) => {
                    log.push(1);
                    log.push(x as i128)
                }
            },
            Step::Bytes(n) => enc_bytes(log, b.read_bytes(*n)),
            Step::TryBytes(n) => enc_opt_bytes(log, b.try_read_bytes(*n)),
            Step::Copy(k) => {
                let mut d = vec![0xDDu8; *k];
                let n = b.read_and_copy_bytes(&mut d);
                log.push(n as i128);
                enc_bytes(log, &d);
            }
            Step::TryExact(k) => {
                let mut d = vec![0xDDu8; *k];
                let r = b.try_read_exact(&mut d);
                log.push(if r.is_some() { 1 } else { 0 });
                enc_bytes(log, &d);
            }
            Step::All => enc_bytes(log, b.read_all()),
            Step::Nested(body, some) => {
                let r = b.try_parse(|bb| {
                    let mut l2 = Vec::new();
                    run_steps(bb, body, &mut l2);
                    if *some {
                        Some(l2)
                    } else {
                        None
                    }
                });
                match r {
                    None => log.push(0),
                    Some(l2) => {
                        log.push(1);
                        log.extend(l2)
                    }
                }
            }
        }
    }
}

fn run_op<const N: usize>(buf: &mut FixedBuf<N>, c: &mut Cur, out: &mut Vec<i128>) {
    let code = c.next();
    match code {
        0 => guarded(out, |o| o.push(lib(|| buf.len()) as i128)),
        1 => guarded(out, |o| o.push(lib(|| buf.is_empty()) as i128)),
        2 => guarded(out, |o| enc_bytes(o, lib(|| buf.readable()))),
        3 => guarded(out, |o| enc_bytes(o, lib(|| buf.mem()))),
        4 => guarded(out, |_| lib(|| buf.clear())),
        5 => guarded(out, |_| lib(|| buf.shift())),
        6 => guarded(out, |o| o.push(lib(|| buf.read_byte()) as i128)),
        7 => guarded(out, |o| match lib(|| buf.try_read_byte()) {
            None => o.push(0),
            Some(b) => {
                o.push(1);
                o.push(b as i128)
            }
        }),
        8 => {
            let n = c.next() as usize;
            guarded(out, |o| enc_bytes(o, lib(|| buf.read_bytes(n))))
        }
        9 => {
            let n = c.next() as usize;
            guarded(out, |o| enc_opt_bytes(o, lib(|| buf.try_read_bytes(n))))
        }
        10 => guarded(out, |o| enc_bytes(o, lib(|| buf.read_all()))),
        11 => {
            let k = c.next() as usize;
            guarded(out, |o| {
                let mut d = vec![0xDDu8; k];
                let n = lib(|| buf.read_and_copy_bytes(&mut d));
                o.push(n as i128);
                enc_bytes(o, &d);
            })
        }
        12 => {
            let k = c.next() as usize;
            guarded(out, |o| {
                let mut d = vec![0xDDu8; k];
                let r = lib(|| buf.try_read_exact(&mut d));
                o.push(if r.is_some() { 1 } else { 0 });
                enc_bytes(o, &d);
            })
        }
        13 => {
            let k = c.next() as usize;
            guarded(out, |o| {
                let mut d = vec![0xDDu8; k];
                let r = lib(|| Read::read(buf, &mut d));
                enc_io_usize(o, &r);
                enc_bytes(o, &d);
            })
        }
        14 => {
            let d = c.take_list();
            guarded(out, |o| match lib(|| buf.write_bytes(&d)) {
                Ok(n) => {
                    o.push(0);
                    o.push(n as i128)
                }
                Err(_) => o.push(1),
            })
        }
        15 => {
            let d = c.take_list();
            guarded(out, |o| {
                let s = std::str::from_utf8(&d).expect("WriteStr payloads are ASCII");
                match lib(|| buf.write_str(s)) {
                    Ok(()) => o.push(0),
                    Err(_) => o.push(1),
                }
            })
        }
        16 => {
            let d = c.take_list();
            guarded(out, |o| {
                let r = lib(|| Write::write(buf, &d));
                enc_io_usize(o, &r)
            })
        }
        17 => guarded(out, |o| match lib(|| Write::flush(buf)) {
            Ok(()) => o.push(0),
            Err(e) => {
                o.push(1);
                o.push(code_of(e.kind()))
            }
        }),
        18 => {
            let d = c.take_list();
            let n = c.next() as usize;
            guarded(out, |_| {
                let w = lib(|| buf.writable());
                let k = d.len().min(w.len());
                w[..k].copy_from_slice(&d[..k]);
                lib(|| buf.wrote(n));
            })
        }
        19 => {
            let tag = c.next();
            let a = c.next();
            let b = c.next();
            let d = c.take_list();
            let mut rd = ScriptReader::new(d, vec![(tag, a, b)].into());
            let r = std::panic::catch_unwind(std::panic::AssertUnwindSafe(|| lib(|| buf.copy_once_from(&mut rd))));
            match r {
                Ok(q) => enc_io_usize(out, &q),
                Err(_) => out.push(PANIC),
            }
        }
        20 => {
            let which = c.next();
            guarded(out, |o| match lib(|| buf.deframe(df_sel(which))) {
                Ok(None) => {
                    o.push(0);
                    o.push(0)
                }
                Ok(Some(r)) => {
                    o.push(0);
                    o.push(1);
                    o.push(r.start as i128);
                    o.push(r.end as i128)
                }
                Err(e) => {
                    o.push(1);
                    o.push(code_of(e.kind()))
                }
            })
        }
        21 => {
            let some = c.next() != 0;
            let k = c.next();
            let steps = parse_steps(c, k);
            guarded(out, |o| {
                let r = buf.try_parse(|b| {
                    let mut log = Vec::new();
                    run_steps(b, &steps, &mut log);
                    if some {
                        Some(log)
                    } else {
                        None
                    }
                });
                match r {
                    None => o.push(0),
                    Some(log) => {
                        o.push(1);
                        o.extend(log)
                    }
                }
            })
        }
        22 => {
            let copy = *buf;
            out.push((copy == *buf) as i128);
            *buf = copy;
        }
        23 => guarded(out, |o| enc_bytes(o, buf.escape_ascii().as_bytes())),
        // the Debug impl is `write!(f, ..)`, which ignores the caller's width / precision: every spec must give the same text
        24 => guarded(out, |o| {
            let t = match DEBUG_SPEC.with(|v| v.get()) {
                4 => format!("{:.3?}", buf),
                5 => format!("{:24?}", buf),
                6 => format!("{:>40.60?}", buf),
                _ => format!("{:?}", buf),
            };
            enc_bytes(o, t.as_bytes())
        }),
        25 => {
            let n = c.next() as usize;
            guarded(out, |_| lib(|| buf.wrote(n)))
        }
        // 26 / 27: the trait's PROVIDED vectored entry points with the slices [empty, d1, d2] / [empty, k1 bytes, k2 bytes]: with the
        // default implementations this is write(d1) / read(first k1 bytes) (d1, k1 non-empty); an override shows here
        26 => {
            let d1 = c.take_list();
            let d2 = c.take_list();
            guarded(out, |o| {
                let r = lib(|| Write::write_vectored(buf, &[std::io::IoSlice::new(&[]), std::io::IoSlice::new(&d1), std::io::IoSlice::new(&d2)]));
                enc_io_usize(o, &r)
            })
        }
        // 28: write_all in method-call syntax (the provided Write::write_all unless an inherent method shadows it); encoded like write():
        // Ok(()) as Ok(len)
        28 => {
            let d = c.take_list();
            guarded(out, |o| {
                #[allow(unused_imports)]
                use std::io::Write as _;
                let r: std::io::Result<usize> = lib(|| buf.write_all(&d)).map(|_| d.len());
                enc_io_usize(o, &r)
            })
        }
        27 => {
            let k1 = c.next() as usize;
            let k2 = c.next() as usize;
            guarded(out, |o| {
                let mut e: [u8; 0] = [];
                let mut a = vec![0xDDu8; k1];
                let mut b = vec![0xDDu8; k2];
                let r = lib(|| {
                    Read::read_vectored(buf, &mut [std::io::IoSliceMut::new(&mut e), std::io::IoSliceMut::new(&mut a), std::io::IoSliceMut::new(&mut b)])
                });
                enc_io_usize(o, &r);
                enc_bytes(o, &a);
                if b.iter().any(|x| *x != 0xDD) {
                    o.push(-77); // the second slice was written: never with the provided method
                }
            })
        }
        _ => {}
    }
}

thread_local! { static DEBUG_SPEC: std::cell::Cell<u64> = std::cell::Cell::new(0); }

fn api_sized<const N: usize>(c: &mut Cur, out: &mut Vec<i128>) {
    let ctor = c.next();
    // constructor codes 4..6 = new(), with Debug ops formatted under a precision / width specification
    DEBUG_SPEC.with(|v| v.set(ctor));
    let mut buf: FixedBuf<N> = match ctor {
        1 | 2 => {
            let m = c.take_n(N);
            let mut arr = [0u8; N];
            arr.copy_from_slice(&m);
            if ctor == 1 {
                FixedBuf::empty(arr)
            } else {
                FixedBuf::filled(arr)
            }
        }
        3 => Default::default(),
        _ => FixedBuf::new(),
    };
    post(&mut buf, out);
    while !c.done() {
        out.push(MOP);
        let track = std::env::var_os("HSYNC_ALLOCS").is_some();
        take_lib();
        run_op(&mut buf, c, out);
        let d = take_lib();
        post(&mut buf, out);
        if track {
            out.push(MAL);
            out.push(d as i128);
        }
    }
}

pub fn run_api(c: &mut Cur, out: &mut Vec<i128>) {
    let size = c.next();
    with_size!(size, api_sized, c, out)
}
