use crate::common::*;
pub fn run_chain(_c: &mut Cur, _out: &mut Vec<i128>) {}
pub fn run_take(_c: &mut Cur, _out: &mut Vec<i128>) {}
