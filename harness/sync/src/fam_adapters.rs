// families CH (4) and TK (5): see coq/Run/Adapters.v
use crate::alloc_count::{lib, take_lib};
use crate::common::*;
use fixed_buffer::*;
use std::io::{Read, Write};

fn enc_unit(out: &mut Vec<i128>, r: &std::io::Result<()>) {
    match r {
        Ok(()) => out.push(0),
        Err(e) => {
            out.push(1);
            out.push(code_of(e.kind()))
        }
    }
}
fn tail_obs(out: &mut Vec<i128>, first: Option<&ScriptReader>, rw: &ScriptRW) {
    out.push(-6);
    match first {
        Some(f) => {
            out.push(f.pos as i128);
            out.push(f.log.len() as i128);
            out.extend(f.log.iter().map(|x| *x as i128));
        }
        None => {
            out.push(0);
            out.push(0);
        }
    }
    out.push(-6);
    out.push(rw.r.pos as i128);
    out.push(rw.r.log.len() as i128);
    out.extend(rw.r.log.iter().map(|x| *x as i128));
    out.push(-7);
    out.push(rw.w.log.len() as i128);
    out.extend(rw.w.log.iter());
    if std::env::var_os("HSYNC_ALLOCS").is_some() {
        out.push(MAL);
        out.push(take_lib() as i128);
    }
}

enum Op {
    Read(usize),
    Write(Vec<u8>),
    Flush,
}
/// a read / write through the trait's PROVIDED vectored entry point with a single slice: with the default implementations
/// this is exactly `read(d)` / `write(d)`; an override of `read_vectored` / `write_vectored` shows here
thread_local! { static VECT: std::cell::Cell<bool> = std::cell::Cell::new(false); }
fn do_read<R: Read>(r: &mut R, d: &mut [u8], vect: bool) -> std::io::Result<usize> {
    if vect {
        let mut sl = [std::io::IoSliceMut::new(d)];
        r.read_vectored(&mut sl)
    } else {
        r.read(d)
    }
}
fn do_write<W: Write>(w: &mut W, d: &[u8], vect: bool) -> std::io::Result<usize> {
    if vect {
        w.write_vectored(&[std::io::IoSlice::new(d)])
    } else {
        w.write(d)
    }
}

fn parse_ops(c: &mut Cur) -> Vec<Op> {
    let mut v = Vec::new();
    while !c.done() {
        match c.next() {
            0 => v.push(Op::Read(c.next() as usize)),
            1 => v.push(Op::Write(c.take_list())),
            _ => v.push(Op::Flush),
        }
    }
    v
}

// run one op against anything that is Read (+ optionally Write); the adapter borrows the inner objects,
// so it is re-created around every op from explicit state where needed (has_first / remaining are threaded by hand
// only for std; the crate's adapters keep their own state, so they live across ops inside a scope)
pub fn run_chain(c: &mut Cur, out: &mut Vec<i128>) {
    let variant = c.next();
    let s1 = c.take_list();
    let sc1 = c.take_script();
    let s2 = c.take_list();
    let sc2 = c.take_script();
    let ws = c.take_wscript();
    let ops = parse_ops(c);
    if variant == 2 || variant == 3 {
        // 3 = as 2, with every read / write going through the single-slice vectored entry point
        VECT.with(|v| v.set(variant == 3));
        chain_variant(0, s1.clone(), sc1.clone(), s2.clone(), sc2.clone(), ws.clone(), &ops, out);
        out.push(-8);
        chain_variant(1, s1, sc1, s2, sc2, ws, &ops, out);
        VECT.with(|v| v.set(false));
    } else {
        chain_variant(variant, s1, sc1, s2, sc2, ws, &ops, out);
    }
}
#[allow(clippy::too_many_arguments)]
fn chain_variant(variant: u64, s1: Vec<u8>, sc1: std::collections::VecDeque<(u64, u64, u64)>, s2: Vec<u8>,
                 sc2: std::collections::VecDeque<(u64, u64, u64)>, ws: std::collections::VecDeque<(u64, u64)>, ops: &[Op], out: &mut Vec<i128>) {
    let mut first = ScriptReader::new(s1, sc1);
    let mut rw = ScriptRW { r: ScriptReader::new(s2, sc2), w: ScriptWriter::new(ws) };
    // the adapters hold &mut to the inner objects for their whole life; observations of the inner objects between
    // ops therefore go through raw snapshots taken by the scripted objects themselves (shared cells)
    let firstc = std::cell::RefCell::new(&mut first);
    let rwc = std::cell::RefCell::new(&mut rw);
    struct F<'a, 'b>(&'a std::cell::RefCell<&'b mut ScriptReader>);
    impl<'a, 'b> Read for F<'a, 'b> {
        fn read(&mut self, d: &mut [u8]) -> std::io::Result<usize> {
            self.0.borrow_mut().read(d)
        }
    }
    struct W<'a, 'b>(&'a std::cell::RefCell<&'b mut ScriptRW>);
    impl<'a, 'b> Read for W<'a, 'b> {
        fn read(&mut self, d: &mut [u8]) -> std::io::Result<usize> {
            self.0.borrow_mut().read(d)
        }
    }
    impl<'a, 'b> Write for W<'a, 'b> {
        fn write(&mut self, d: &[u8]) -> std::io::Result<usize> {
            self.0.borrow_mut().write(d)
        }
        fn flush(&mut self) -> std::io::Result<()> {
            self.0.borrow_mut().flush()
        }
    }
    let mut f = F(&firstc);
    let mut w = W(&rwc);
    let clear = || {
        firstc.borrow_mut().log.clear();
        rwc.borrow_mut().r.log.clear();
        rwc.borrow_mut().w.log.clear();
    };
    if variant == 0 {
        let mut chain = ReadWriteChain::new(&mut f, &mut w);
        for op in ops {
            clear();
            out.push(MOP);
            match op {
                Op::Read(k) => {
                    let mut d = vec![0xDDu8; *k];
                    let r = std::panic::catch_unwind(std::panic::AssertUnwindSafe(|| lib(|| do_read(&mut chain, &mut d, VECT.with(|v| v.get())))));
                    match r {
                        Ok(q) => {
                            enc_io_usize(out, &q);
                            enc_bytes(out, &d);
                        }
                        Err(_) => out.push(PANIC),
                    }
                }
                Op::Write(data) => {
                    let r = std::panic::catch_unwind(std::panic::AssertUnwindSafe(|| lib(|| do_write(&mut chain, data, VECT.with(|v| v.get())))));
                    match r {
                        Ok(q) => enc_io_usize(out, &q),
                        Err(_) => out.push(PANIC),
                    }
                }
                Op::Flush => {
                    let r = std::panic::catch_unwind(std::panic::AssertUnwindSafe(|| lib(|| chain.flush())));
                    match r {
                        Ok(q) => enc_unit(out, &q),
                        Err(_) => out.push(PANIC),
                    }
                }
            }
            let fb = firstc.borrow();
            let rb = rwc.borrow();
            tail_obs(out, Some(&**fb), &**rb);
        }
    } else {
        let mut chain = Read::chain(&mut f, &mut w);
        for op in ops {
            let k = match op { Op::Read(k) => k, _ => continue };
            clear();
            out.push(MOP);
            {
                let mut d = vec![0xDDu8; *k];
                let r = std::panic::catch_unwind(std::panic::AssertUnwindSafe(|| lib(|| do_read(&mut chain, &mut d, VECT.with(|v| v.get())))));
                match r {
                    Ok(q) => {
                        enc_io_usize(out, &q);
                        enc_bytes(out, &d);
                    }
                    Err(_) => out.push(PANIC),
                }
            }
            let fb = firstc.borrow();
            let rb = rwc.borrow();
            tail_obs(out, Some(&**fb), &**rb);
        }
    }
}

pub fn run_take(c: &mut Cur, out: &mut Vec<i128>) {
    let variant = c.next();
    let limit = c.next();
    let s2 = c.take_list();
    let sc2 = c.take_script();
    let ws = c.take_wscript();
    let ops = parse_ops(c);
    if variant == 2 || variant == 3 {
        VECT.with(|v| v.set(variant == 3));
        take_variant(0, limit, s2.clone(), sc2.clone(), ws.clone(), &ops, out);
        out.push(-8);
        take_variant(1, limit, s2, sc2, ws, &ops, out);
        VECT.with(|v| v.set(false));
    } else {
        take_variant(variant, limit, s2, sc2, ws, &ops, out);
    }
}
fn take_variant(variant: u64, limit: u64, s2: Vec<u8>, sc2: std::collections::VecDeque<(u64, u64, u64)>,
                ws: std::collections::VecDeque<(u64, u64)>, ops: &[Op], out: &mut Vec<i128>) {
    let mut rw = ScriptRW { r: ScriptReader::new(s2, sc2), w: ScriptWriter::new(ws) };
    let rwc = std::cell::RefCell::new(&mut rw);
    struct W<'a, 'b>(&'a std::cell::RefCell<&'b mut ScriptRW>);
    impl<'a, 'b> Read for W<'a, 'b> {
        fn read(&mut self, d: &mut [u8]) -> std::io::Result<usize> {
            self.0.borrow_mut().read(d)
        }
    }
    impl<'a, 'b> Write for W<'a, 'b> {
        fn write(&mut self, d: &[u8]) -> std::io::Result<usize> {
            self.0.borrow_mut().write(d)
        }
        fn flush(&mut self) -> std::io::Result<()> {
            self.0.borrow_mut().flush()
        }
    }
    let mut w = W(&rwc);
    let clear = || {
        rwc.borrow_mut().r.log.clear();
        rwc.borrow_mut().w.log.clear();
    };
    if variant == 0 {
        let mut take = ReadWriteTake::new(&mut w, limit);
        for op in ops {
            clear();
            out.push(MOP);
            match op {
                Op::Read(k) => {
                    let mut d = vec![0xDDu8; *k];
                    let r = std::panic::catch_unwind(std::panic::AssertUnwindSafe(|| lib(|| do_read(&mut take, &mut d, VECT.with(|v| v.get())))));
                    match r {
                        Ok(q) => {
                            enc_io_usize(out, &q);
                            enc_bytes(out, &d);
                        }
                        Err(_) => out.push(PANIC),
                    }
                }
                Op::Write(data) => {
                    let r = std::panic::catch_unwind(std::panic::AssertUnwindSafe(|| lib(|| do_write(&mut take, data, VECT.with(|v| v.get())))));
                    match r {
                        Ok(q) => enc_io_usize(out, &q),
                        Err(_) => out.push(PANIC),
                    }
                }
                Op::Flush => {
                    let r = std::panic::catch_unwind(std::panic::AssertUnwindSafe(|| lib(|| take.flush())));
                    match r {
                        Ok(q) => enc_unit(out, &q),
                        Err(_) => out.push(PANIC),
                    }
                }
            }
            let rb = rwc.borrow();
            tail_obs(out, None, &**rb);
        }
    } else {
        let mut take = Read::take(&mut w, limit);
        for op in ops {
            let k = match op { Op::Read(k) => k, _ => continue };
            clear();
            out.push(MOP);
            {
                let mut d = vec![0xDDu8; *k];
                let r = std::panic::catch_unwind(std::panic::AssertUnwindSafe(|| lib(|| do_read(&mut take, &mut d, VECT.with(|v| v.get())))));
                match r {
                    Ok(q) => {
                        enc_io_usize(out, &q);
                        enc_bytes(out, &d);
                    }
                    Err(_) => out.push(PANIC),
                }
            }
            let rb = rwc.borrow();
            tail_obs(out, None, &**rb);
        }
    }
}
