// shared pieces: case cursor, error-kind codes, scripted reader / writer (same behaviour as coq/Run/Codec.v)
use std::collections::VecDeque;
use std::io::{ErrorKind, Read, Write};

pub const PANIC: i128 = -1;
pub const MOP: i128 = -2;
pub const MST: i128 = -3;
pub const MAL: i128 = -4;

pub struct Cur<'a> {
    v: &'a [u64],
    i: usize,
}
impl<'a> Cur<'a> {
    pub fn new(v: &'a [u64]) -> Self {
        Cur { v, i: 0 }
    }
    pub fn done(&self) -> bool {
        self.i >= self.v.len()
    }
    pub fn next(&mut self) -> u64 {
        let x = self.v.get(self.i).copied().unwrap_or(0);
        self.i += 1;
        x
    }
    pub fn take_n(&mut self, k: usize) -> Vec<u8> {
        let mut r = Vec::with_capacity(k);
        for _ in 0..k {
            if self.i < self.v.len() {
                r.push(self.next() as u8);
            }
        }
        r
    }
    pub fn take_list(&mut self) -> Vec<u8> {
        let k = self.next() as usize;
        self.take_n(k)
    }
    pub fn take_script(&mut self) -> VecDeque<(u64, u64, u64)> {
        let n = self.next();
        let mut r = VecDeque::new();
        for _ in 0..n {
            let t = self.next();
            let a = self.next();
            let b = self.next();
            r.push_back((t, a, b));
        }
        r
    }
    pub fn take_wscript(&mut self) -> VecDeque<(u64, u64)> {
        let n = self.next();
        let mut r = VecDeque::new();
        for _ in 0..n {
            let t = self.next();
            let a = self.next();
            r.push_back((t, a));
        }
        r
    }
}

/// the scripted error for code `a`: codes 1..7 are `io::Error::from(kind)`; codes 101..107 deliver the SAME kind in another
/// representation (a raw OS error where Linux has an errno of that kind, a custom error otherwise)
pub fn make_err(a: u64) -> std::io::Error {
    if a < 100 {
        return std::io::Error::from(kind_of(a));
    }
    match a % 100 {
        3 => std::io::Error::from_raw_os_error(4),    // EINTR
        4 => std::io::Error::from_raw_os_error(11),   // EAGAIN
        5 => std::io::Error::from_raw_os_error(110),  // ETIMEDOUT
        6 => std::io::Error::from_raw_os_error(104),  // ECONNRESET
        k => std::io::Error::new(kind_of(k), "scripted"),
    }
}

pub fn kind_of(code: u64) -> ErrorKind {
    match code % 100 {
        1 => ErrorKind::InvalidData,
        2 => ErrorKind::UnexpectedEof,
        3 => ErrorKind::Interrupted,
        4 => ErrorKind::WouldBlock,
        5 => ErrorKind::TimedOut,
        6 => ErrorKind::ConnectionReset,
        _ => ErrorKind::Other,
    }
}
pub fn code_of(k: ErrorKind) -> i128 {
    match k {
        ErrorKind::InvalidData => 1,
        ErrorKind::UnexpectedEof => 2,
        ErrorKind::Interrupted => 3,
        ErrorKind::WouldBlock => 4,
        ErrorKind::TimedOut => 5,
        ErrorKind::ConnectionReset => 6,
        ErrorKind::Other => 7,
        _ => 99,
    }
}
pub fn enc_bytes(out: &mut Vec<i128>, b: &[u8]) {
    out.push(b.len() as i128);
    out.extend(b.iter().map(|x| *x as i128));
}
pub fn enc_io_usize(out: &mut Vec<i128>, r: &std::io::Result<usize>) {
    match r {
        Ok(n) => {
            out.push(0);
            out.push(*n as i128)
        }
        Err(e) => {
            out.push(1);
            out.push(code_of(e.kind()))
        }
    }
}

/// scripted reader: see coq/Run/Codec.v `sr_read`
pub struct ScriptReader {
    pub stream: Vec<u8>,
    pub pos: usize,
    pub script: VecDeque<(u64, u64, u64)>,
    pub log: Vec<usize>,
}
impl ScriptReader {
    pub fn new(stream: Vec<u8>, script: VecDeque<(u64, u64, u64)>) -> Self {
        ScriptReader { stream, pos: 0, script, log: Vec::with_capacity(4096) }
    }
}
impl Read for ScriptReader {
    fn read(&mut self, dest: &mut [u8]) -> std::io::Result<usize> {
        let cap = dest.len();
        self.log.push(cap);
        let (tag, a, b) = self.script.pop_front().unwrap_or((0, cap as u64, 0));
        match tag {
            0 => {
                let rem = self.stream.len() - self.pos;
                let n = (a.min(cap as u64).min(rem as u64)) as usize;
                dest[..n].copy_from_slice(&self.stream[self.pos..self.pos + n]);
                let sc = (b.min((cap - n) as u64)) as usize;
                for x in dest[n..n + sc].iter_mut() {
                    *x = 0xEE;
                }
                self.pos += n;
                Ok(n)
            }
            1 => Err(make_err(a)),
            2 => panic!("scripted reader panic"),
            3 => Err(std::io::Error::from(ErrorKind::WouldBlock)),
            _ => Ok(a as usize),
        }
    }
}

/// scripted writer: see coq/Run/Codec.v `sw_write` / `sw_flush`
pub struct ScriptWriter {
    pub script: VecDeque<(u64, u64)>,
    pub log: Vec<i128>,
}
impl ScriptWriter {
    pub fn new(script: VecDeque<(u64, u64)>) -> Self {
        ScriptWriter { script, log: Vec::with_capacity(65536) }
    }
}
impl Write for ScriptWriter {
    fn write(&mut self, data: &[u8]) -> std::io::Result<usize> {
        let (tag, a) = self.script.pop_front().unwrap_or((0, u64::MAX));
        self.log.push(1);
        enc_bytes(&mut self.log, data);
        match tag {
            0 => Ok((a.min(data.len() as u64)) as usize),
            1 => Err(make_err(a)),
            2 => panic!("scripted writer panic"),
            _ => Err(std::io::Error::from(ErrorKind::WouldBlock)),
        }
    }
    fn flush(&mut self) -> std::io::Result<()> {
        let (tag, a) = self.script.pop_front().unwrap_or((0, u64::MAX));
        self.log.push(2);
        match tag {
            0 => Ok(()),
            1 => Err(make_err(a)),
            2 => panic!("scripted writer panic"),
            _ => Err(std::io::Error::from(ErrorKind::WouldBlock)),
        }
    }
}

/// a Read + Write object made of one scripted reader and one scripted writer
pub struct ScriptRW {
    pub r: ScriptReader,
    pub w: ScriptWriter,
}
impl Read for ScriptRW {
    fn read(&mut self, dest: &mut [u8]) -> std::io::Result<usize> {
        self.r.read(dest)
    }
}
impl Write for ScriptRW {
    fn write(&mut self, data: &[u8]) -> std::io::Result<usize> {
        self.w.write(data)
    }
    fn flush(&mut self) -> std::io::Result<()> {
        self.w.flush()
    }
}

/// run `f`, appending its encoding to `out`; a panic yields [PANIC]
pub fn guarded<F: FnOnce(&mut Vec<i128>)>(out: &mut Vec<i128>, f: F) {
    let mut tmp: Vec<i128> = Vec::new();
    let r = std::panic::catch_unwind(std::panic::AssertUnwindSafe(|| f(&mut tmp)));
    match r {
        Ok(()) => out.extend(tmp),
        Err(_) => out.push(PANIC),
    }
}

#[macro_export]
macro_rules! with_size {
    ($size:expr, $f:ident, $($args:expr),*) => {
        match $size {
            0 => $f::<0>($($args),*),
            1 => $f::<1>($($args),*),
            2 => $f::<2>($($args),*),
            3 => $f::<3>($($args),*),
            4 => $f::<4>($($args),*),
            5 => $f::<5>($($args),*),
            6 => $f::<6>($($args),*),
            7 => $f::<7>($($args),*),
            8 => $f::<8>($($args),*),
            9 => $f::<9>($($args),*),
            10 => $f::<10>($($args),*),
            12 => $f::<12>($($args),*),
            16 => $f::<16>($($args),*),
            17 => $f::<17>($($args),*),
            32 => $f::<32>($($args),*),
            64 => $f::<64>($($args),*),
            100 => $f::<100>($($args),*),
            255 => $f::<255>($($args),*),
            256 => $f::<256>($($args),*),
            257 => $f::<257>($($args),*),
            1024 => $f::<1024>($($args),*),
            4096 => $f::<4096>($($args),*),
            65536 => $f::<65536>($($args),*),
            100000 => $f::<100000>($($args),*),
            131072 => $f::<131072>($($args),*),
            262144 => $f::<262144>($($args),*),
            _ => panic!("SIZE not monomorphised in the harness"),
        }
    };
}
