// family ARF (22): AsyncFixedBuf::read_frame / copy_once_from futures driven by hand over a scripted async reader,
// with cancellation (drop + new call) at chosen pending points (C14, C15).
// 22 SIZE which pre(list) preconsume stream(list) script ncalls mode cancel(list of 0/1, one per Pending encountered)
// per call: -2 result -3 len wlen readable -5 mem -6 pos nlog caps.. -9 npolls npending bad_pending ncancel (-10 len pos)*
use crate::common::*;
use crate::fam_apoll::post;
use crate::with_size;
use fixed_buffer::{deframe_crlf, deframe_line, MalformedInputError};
use fixed_buffer_tokio::AsyncFixedBuf;
use std::future::Future;
use std::task::{Context, Poll};

type Dfr = Result<Option<(core::ops::Range<usize>, usize)>, MalformedInputError>;
// the registry fixed-buffer 0.3.1 has no deframe_null; same function, written here
fn deframe_null(d: &[u8]) -> Dfr {
    for (n, b) in d.iter().enumerate() {
        if *b == 0 {
            return Ok(Some((0..n, n + 1)));
        }
    }
    Ok(None)
}
fn df_reject(_d: &[u8]) -> Dfr {
    Err(MalformedInputError::new(String::from("rejected")))
}
fn df_panic(_d: &[u8]) -> Dfr {
    panic!("deframer panic")
}
fn df_lenprefix(d: &[u8]) -> Dfr {
    if d.is_empty() {
        return Ok(None);
    }
    let k = d[0] as usize;
    if k <= d.len() - 1 {
        Ok(Some((1..1 + k, 1 + k)))
    } else {
        Ok(None)
    }
}
fn df_line_reject_x(d: &[u8]) -> Dfr {
    if d.contains(&b'x') {
        return Err(MalformedInputError::new(String::from("x")));
    }
    deframe_line(d)
}
pub fn df_sel(which: u64) -> fn(&[u8]) -> Dfr {
    match which {
        0 => deframe_line,
        1 => deframe_crlf,
        2 => deframe_null,
        3 => df_reject,
        4 => df_panic,
        5 => df_lenprefix,
        _ => df_line_reject_x,
    }
}

enum CallOut {
    Frame(Vec<u8>),
    None_,
    Err(i128, String),
    Count(std::io::Result<usize>),
    Panic,
}

fn arf_sized<const N: usize>(c: &mut Cur, out: &mut Vec<i128>) {
    let which = c.next();
    let pre = c.take_list();
    let preconsume = c.next() as usize;
    let stream = c.take_list();
    let script = c.take_script();
    let ncalls = c.next();
    let mode = c.next();
    let cancel: Vec<u8> = c.take_list();
    let (stream_b, script_b, pre_b) = (stream.clone(), script.clone(), pre.clone());
    let mut ci = 0usize;
    let mut amsgs: Vec<Option<String>> = Vec::new();
    let mut buf: AsyncFixedBuf<N> = AsyncFixedBuf::new();
    let _ = std::panic::catch_unwind(std::panic::AssertUnwindSafe(|| {
        let _ = buf.write_bytes(&pre);
    }));
    let _ = std::panic::catch_unwind(std::panic::AssertUnwindSafe(|| {
        buf.read_bytes(preconsume);
    }));
    post(&mut buf, out);
    let mut rd = AScriptReader::new(stream, script);
    let (cw, waker) = count_waker();
    for _ in 0..ncalls {
        rd.log.clear();
        let mut npolls = 0i128;
        let mut npending = 0i128;
        let mut bad_pending = 0i128;
        let mut ncancel = 0i128;
        let mut at_pending: Vec<(i128, i128)> = Vec::new();
        let res: CallOut;
        // the call, possibly cancelled and restarted at pending points
        'call: loop {
            let mut cx = Context::from_waker(&waker);
            let outcome = std::panic::catch_unwind(std::panic::AssertUnwindSafe(|| {
                // one future; returns Some(result) when it completes, None when it was dropped at a pending point
                if mode == 0 {
                    let mut fut = Box::pin(buf.read_frame(&mut rd, df_sel(which)));
                    loop {
                        npolls += 1;
                        match fut.as_mut().poll(&mut cx) {
                            Poll::Ready(Ok(Some(f))) => return Some(CallOut::Frame(f.to_vec())),
                            Poll::Ready(Ok(None)) => return Some(CallOut::None_),
                            Poll::Ready(Err(e)) => return Some(CallOut::Err(code_of(e.kind()), e.to_string())),
                            Poll::Pending => {
                                let drop_it = cancel.get(ci).copied().unwrap_or(0) != 0;
                                ci += 1;
                                if drop_it {
                                    return None;
                                }
                            }
                        }
                    }
                } else {
                    let mut fut = Box::pin(buf.copy_once_from(&mut rd));
                    loop {
                        npolls += 1;
                        match fut.as_mut().poll(&mut cx) {
                            Poll::Ready(r) => return Some(CallOut::Count(r)),
                            Poll::Pending => {
                                let drop_it = cancel.get(ci).copied().unwrap_or(0) != 0;
                                ci += 1;
                                if drop_it {
                                    return None;
                                }
                            }
                        }
                    }
                }
            }));
            match outcome {
                Ok(Some(r)) => {
                    res = r;
                    break 'call;
                }
                Ok(None) => {
                    ncancel += 1;
                    continue 'call;
                }
                Err(_) => {
                    res = CallOut::Panic;
                    break 'call;
                }
            }
        }
        // pendings observed = pendings the reader produced during this call
        npending = rd.pendings as i128 - at_pending.len() as i128;
        let _ = &mut at_pending;
        let _ = &mut bad_pending;
        out.push(MOP);
        let before_msgs = amsgs.len();
        match &res {
            CallOut::Frame(f) => {
                out.push(0);
                out.push(1);
                enc_bytes(out, f);
            }
            CallOut::None_ => {
                out.push(0);
                out.push(0);
            }
            CallOut::Err(k, m) => {
                out.push(1);
                out.push(*k);
                amsgs.push(Some(m.clone()));
            }
            CallOut::Count(r) => {
                if let Err(e) = r {
                    amsgs.push(Some(e.to_string()));
                }
                enc_io_usize(out, r)
            }
            CallOut::Panic => out.push(PANIC),
        }
        if amsgs.len() == before_msgs {
            amsgs.push(None);
        }
        post(&mut buf, out);
        out.push(-6);
        out.push(rd.pos as i128);
        out.push(rd.log.len() as i128);
        out.extend(rd.log.iter().map(|x| *x as i128));
        out.push(-9);
        out.push(npolls);
        out.push(npending);
        out.push(ncancel);
        out.push(cw.0.load(std::sync::atomic::Ordering::Relaxed) as i128);
        rd.pendings = 0;
    }
    out.push(-8);
    let bmsgs = blocking_sized::<N>(which, &pre_b, preconsume, stream_b, script_b, ncalls, mode, out);
    // error TEXTS are not in the model (only kinds are): compare them here, async call by async call with the blocking method
    let diff: Vec<i128> = (0..amsgs.len().min(bmsgs.len())).filter(|&i| amsgs[i].is_some() && bmsgs[i].is_some() && amsgs[i] != bmsgs[i]).map(|i| i as i128).collect();
    out.push(-11);
    out.push(diff.len() as i128);
    out.extend(diff);
}
/// blocking scripted reader (same as harness/sync)
struct BScriptReader {
    stream: Vec<u8>,
    pos: usize,
    script: std::collections::VecDeque<(u64, u64, u64)>,
    log: Vec<usize>,
}
impl std::io::Read for BScriptReader {
    fn read(&mut self, dest: &mut [u8]) -> std::io::Result<usize> {
        let cap = dest.len();
        self.log.push(cap);
        let (tag, a, b) = self.script.pop_front().unwrap_or((0, cap as u64, 0));
        match tag {
            0 => {
                let rem = self.stream.len() - self.pos;
                let n = (a.min(cap as u64).min(rem as u64)) as usize;
                dest[..n].copy_from_slice(&self.stream[self.pos..self.pos + n]);
                let sc = (b.min((cap - n) as u64)) as usize;
                for x in dest[n..n + sc].iter_mut() {
                    *x = 0xEE;
                }
                self.pos += n;
                Ok(n)
            }
            1 => Err(make_err(a)),
            2 => panic!("scripted reader panic"),
            _ => Err(std::io::Error::from(std::io::ErrorKind::WouldBlock)),
        }
    }
}
fn blocking_sized<const N: usize>(which: u64, pre: &[u8], preconsume: usize, stream: Vec<u8>,
                                  script: std::collections::VecDeque<(u64, u64, u64)>, ncalls: u64, mode: u64, out: &mut Vec<i128>) -> Vec<Option<String>> {
    let mut bmsgs: Vec<Option<String>> = Vec::new();
    let mut abuf: AsyncFixedBuf<N> = AsyncFixedBuf::new();
    let _ = std::panic::catch_unwind(std::panic::AssertUnwindSafe(|| {
        let _ = abuf.write_bytes(pre);
    }));
    let _ = std::panic::catch_unwind(std::panic::AssertUnwindSafe(|| {
        abuf.read_bytes(preconsume);
    }));
    let mut rd = BScriptReader { stream, pos: 0, script: script.into_iter().filter(|t| t.0 != 3).collect(), log: Vec::new() };
    for _ in 0..ncalls {
        rd.log.clear();
        out.push(MOP);
        {
            // Deref to the blocking FixedBuf (the registry copy the tokio crate links)
            let fb: &mut fixed_buffer::FixedBuf<N> = &mut abuf;
            if mode == 0 {
                let r = std::panic::catch_unwind(std::panic::AssertUnwindSafe(|| {
                    let mut tmp: Vec<i128> = Vec::new();
                    match fb.read_frame(&mut rd, df_sel(which)) {
                        Ok(Some(frame)) => {
                            tmp.push(0);
                            tmp.push(1);
                            enc_bytes(&mut tmp, frame);
                        }
                        Ok(None) => {
                            tmp.push(0);
                            tmp.push(0);
                        }
                        Err(e) => {
                            tmp.push(1);
                            tmp.push(code_of(e.kind()));
                            return (tmp, Some(e.to_string()));
                        }
                    }
                    (tmp, None)
                }));
                match r {
                    Ok((t, m)) => {
                        out.extend(t);
                        bmsgs.push(m);
                    }
                    Err(_) => {
                        out.push(PANIC);
                        bmsgs.push(None);
                    }
                }
            } else {
                let r = std::panic::catch_unwind(std::panic::AssertUnwindSafe(|| fb.copy_once_from(&mut rd)));
                match r {
                    Ok(q) => {
                        bmsgs.push(q.as_ref().err().map(|e| e.to_string()));
                        enc_io_usize(out, &q)
                    }
                    Err(_) => {
                        out.push(PANIC);
                        bmsgs.push(None);
                    }
                }
            }
        }
        post(&mut abuf, out);
        out.push(-6);
        out.push(rd.pos as i128);
        out.push(rd.log.len() as i128);
        out.extend(rd.log.iter().map(|x| *x as i128));
    }
    bmsgs
}

pub fn run_arf(c: &mut Cur, out: &mut Vec<i128>) {
    let size = c.next();
    with_size!(size, arf_sized, c, out)
}
