// family ASRV (26): the documented request loop over the tokio types, polled by hand; see coq/Model/ServeAsync.v
use crate::common::*;
use crate::fam_apoll::post;
use crate::with_size;
use fixed_buffer::deframe_line;
use fixed_buffer_tokio::{AsyncFixedBuf, AsyncReadWriteChain, AsyncReadWriteTake};
use std::future::Future;
use std::io::ErrorKind;
use std::pin::Pin;
use std::task::{Context, Poll};
use tokio::io::{AsyncRead, AsyncWrite};

fn plen_sel(size: u64, kind: u64, line: &[u8]) -> u64 {
    match kind {
        0 => line.first().copied().unwrap_or(0) as u64,
        1 => size + 1,
        2 => 0,
        3 => line.len() as u64,
        k => (k - 4).wrapping_add(line.first().copied().unwrap_or(0) as u64),
    }
}
fn enc_stat(out: &mut Vec<i128>, r: &Result<(), std::io::Error>) {
    match r {
        Ok(()) => out.push(0),
        Err(e) => {
            out.push(1);
            out.push(code_of(e.kind()))
        }
    }
}

fn asrv_sized<const N: usize>(c: &mut Cur, out: &mut Vec<i128>) {
    let kind = c.next();
    let stream = c.take_list();
    let rsc = c.take_script();
    let wsc = c.take_wscript();
    let dests = c.take_list();
    let nreq = c.next();
    let cancel: Vec<u8> = c.take_list();
    let mut buf: AsyncFixedBuf<N> = AsyncFixedBuf::new();
    let mut tr = AScriptRW { r: AScriptReader::new(stream, rsc), w: AScriptWriter::new(wsc) };
    let (_cw, waker) = count_waker();
    for _ in 0..nreq {
        out.push(MOP);
        let r = std::panic::catch_unwind(std::panic::AssertUnwindSafe(|| {
            let mut cx = Context::from_waker(&waker);
            let mut o: Vec<i128> = Vec::new();
            // header: read_frame, cancelled/restarted at pending points as the cancel list says (it applies afresh to every call)
            let mut ci = 0usize;
            let line: Vec<u8> = 'call: loop {
                let mut fut = Box::pin(buf.read_frame(&mut tr, deframe_line));
                loop {
                    match fut.as_mut().poll(&mut cx) {
                        Poll::Ready(Ok(Some(l))) => break 'call l.to_vec(),
                        Poll::Ready(Ok(None)) => {
                            o.push(1);
                            return (o, false);
                        }
                        Poll::Ready(Err(e)) => {
                            o.push(2);
                            o.push(code_of(e.kind()));
                            return (o, false);
                        }
                        Poll::Pending => {
                            let drop_it = cancel.get(ci).copied().unwrap_or(0) != 0;
                            ci += 1;
                            if drop_it {
                                continue 'call;
                            }
                        }
                    }
                }
            };
            let n = plen_sel(N as u64, kind, &line);
            let mut payload: Vec<u8> = Vec::new();
            let mut chain = AsyncReadWriteChain::new(&mut buf, &mut tr);
            let dr: Result<(), std::io::Error> = {
                let mut take = AsyncReadWriteTake::new(&mut chain, n);
                let mut i = 0usize;
                loop {
                    let dv = if i < dests.len() { dests[i] as usize } else { 8 };
                    if dv >= 128 {
                        // a destination of dv - 128 bytes filled the way read_exact / read_buf do it: the SAME ReadBuf is polled again
                        // and again, so the take sees already-filled bytes in front of the part it may write
                        let d = dv - 128;
                        let mut store = vec![0xDDu8; d];
                        let mut rb = tokio::io::ReadBuf::new(&mut store);
                        let mut eof = false;
                        let mut err = None;
                        loop {
                            let before = rb.filled().len();
                            match Pin::new(&mut take).poll_read(&mut cx, &mut rb) {
                                Poll::Pending => continue,
                                Poll::Ready(Err(e)) => {
                                    err = Some(e);
                                    break;
                                }
                                Poll::Ready(Ok(())) => {
                                    if rb.filled().len() == before {
                                        eof = d != 0 && rb.remaining() != 0;
                                        break;
                                    }
                                    if rb.remaining() == 0 {
                                        break;
                                    }
                                }
                            }
                        }
                        i += 1;
                        payload.extend_from_slice(rb.filled());
                        if let Some(e) = err {
                            break Err(e);
                        }
                        if eof {
                            break Ok(());
                        }
                        continue;
                    }
                    let d = dv;
                    let mut store = vec![0xDDu8; d];
                    let mut rb = tokio::io::ReadBuf::new(&mut store);
                    match Pin::new(&mut take).poll_read(&mut cx, &mut rb) {
                        Poll::Pending => continue,
                        Poll::Ready(Err(e)) => break Err(e),
                        Poll::Ready(Ok(())) => {
                            i += 1;
                            let got = rb.filled().to_vec();
                            if got.is_empty() && d != 0 {
                                break Ok(());
                            }
                            payload.extend_from_slice(&got);
                        }
                    }
                }
            };
            let wr: Result<(), std::io::Error> = if dr.is_ok() {
                let resp = [79u8, 75, (payload.len() % 256) as u8, 10];
                let mut data: &[u8] = &resp;
                loop {
                    if data.is_empty() {
                        break Ok(());
                    }
                    match Pin::new(&mut chain).poll_write(&mut cx, data) {
                        Poll::Pending => continue,
                        Poll::Ready(Ok(0)) => break Err(std::io::Error::from(ErrorKind::Other)),
                        Poll::Ready(Ok(k)) => data = &data[k..],
                        Poll::Ready(Err(ref e)) if e.kind() == ErrorKind::Interrupted => {}
                        Poll::Ready(Err(e)) => break Err(e),
                    }
                }
            } else {
                Ok(())
            };
            o.push(0);
            enc_bytes(&mut o, &line);
            enc_bytes(&mut o, &payload);
            enc_stat(&mut o, &dr);
            enc_stat(&mut o, &wr);
            let cont = dr.is_ok() && wr.is_ok();
            (o, cont)
        }));
        match r {
            Ok((o, cont)) => {
                out.extend(o);
                if !cont {
                    break;
                }
            }
            Err(_) => {
                out.push(PANIC);
                break;
            }
        }
    }
    post(&mut buf, out);
    out.push(-6);
    out.push(tr.r.pos as i128);
    out.push(-7);
    out.push(tr.w.log.len() as i128);
    out.extend(tr.w.log.iter());
}
pub fn run_asrv(c: &mut Cur, out: &mut Vec<i128>) {
    let size = c.next();
    with_size!(size, asrv_sized, c, out)
}
