// shared: cursor, codes, scripted async reader / writer (same behaviour as coq/Run/Tokio.v `asr_poll`, `asw_*`)
use std::collections::VecDeque;
use std::io::ErrorKind;
use std::pin::Pin;
use std::sync::atomic::{AtomicU64, Ordering};
use std::sync::Arc;
use std::task::{Context, Poll, Wake, Waker};
use tokio::io::{AsyncRead, AsyncWrite, ReadBuf};

pub const PANIC: i128 = -1;
pub const MOP: i128 = -2;
pub const MST: i128 = -3;

pub struct Cur<'a> {
    v: &'a [u64],
    i: usize,
}
impl<'a> Cur<'a> {
    pub fn new(v: &'a [u64]) -> Self {
        Cur { v, i: 0 }
    }
    pub fn done(&self) -> bool {
        self.i >= self.v.len()
    }
    pub fn next(&mut self) -> u64 {
        let x = self.v.get(self.i).copied().unwrap_or(0);
        self.i += 1;
        x
    }
    pub fn take_n(&mut self, k: usize) -> Vec<u8> {
        let mut r = Vec::with_capacity(k);
        for _ in 0..k {
            if self.i < self.v.len() {
                r.push(self.next() as u8);
            }
        }
        r
    }
    pub fn take_list(&mut self) -> Vec<u8> {
        let k = self.next() as usize;
        self.take_n(k)
    }
    pub fn take_script(&mut self) -> VecDeque<(u64, u64, u64)> {
        let n = self.next();
        let mut r = VecDeque::new();
        for _ in 0..n {
            let t = self.next();
            let a = self.next();
            let b = self.next();
            r.push_back((t, a, b));
        }
        r
    }
    pub fn take_wscript(&mut self) -> VecDeque<(u64, u64)> {
        let n = self.next();
        let mut r = VecDeque::new();
        for _ in 0..n {
            let t = self.next();
            let a = self.next();
            r.push_back((t, a));
        }
        r
    }
}
/// the scripted error for code `a`: codes 1..7 are `io::Error::from(kind)`; codes 101..107 deliver the SAME kind in another
/// representation (a raw OS error where Linux has an errno of that kind, a custom error otherwise)
pub fn make_err(a: u64) -> std::io::Error {
    if a < 100 {
        return std::io::Error::from(kind_of(a));
    }
    match a % 100 {
        3 => std::io::Error::from_raw_os_error(4),    // EINTR
        4 => std::io::Error::from_raw_os_error(11),   // EAGAIN
        5 => std::io::Error::from_raw_os_error(110),  // ETIMEDOUT
        6 => std::io::Error::from_raw_os_error(104),  // ECONNRESET
        k => std::io::Error::new(kind_of(k), "scripted"),
    }
}

pub fn kind_of(code: u64) -> ErrorKind {
    match code % 100 {
        1 => ErrorKind::InvalidData,
        2 => ErrorKind::UnexpectedEof,
        3 => ErrorKind::Interrupted,
        4 => ErrorKind::WouldBlock,
        5 => ErrorKind::TimedOut,
        6 => ErrorKind::ConnectionReset,
        _ => ErrorKind::Other,
    }
}
pub fn code_of(k: ErrorKind) -> i128 {
    match k {
        ErrorKind::InvalidData => 1,
        ErrorKind::UnexpectedEof => 2,
        ErrorKind::Interrupted => 3,
        ErrorKind::WouldBlock => 4,
        ErrorKind::TimedOut => 5,
        ErrorKind::ConnectionReset => 6,
        ErrorKind::Other => 7,
        _ => 99,
    }
}
pub fn enc_bytes(out: &mut Vec<i128>, b: &[u8]) {
    out.push(b.len() as i128);
    out.extend(b.iter().map(|x| *x as i128));
}
pub fn enc_io_usize(out: &mut Vec<i128>, r: &std::io::Result<usize>) {
    match r {
        Ok(n) => {
            out.push(0);
            out.push(*n as i128)
        }
        Err(e) => {
            out.push(1);
            out.push(code_of(e.kind()))
        }
    }
}

/// counts wake-ups
pub struct CountWaker(pub AtomicU64);
impl Wake for CountWaker {
    fn wake(self: Arc<Self>) {
        self.0.fetch_add(1, Ordering::Relaxed);
    }
    fn wake_by_ref(self: &Arc<Self>) {
        self.0.fetch_add(1, Ordering::Relaxed);
    }
}
pub fn count_waker() -> (Arc<CountWaker>, Waker) {
    let a = Arc::new(CountWaker(AtomicU64::new(0)));
    (a.clone(), Waker::from(a))
}

/// scripted async reader; actions as the blocking one plus tag 3 = Poll::Pending (wakes the waker, as a real stream would)
pub struct AScriptReader {
    pub stream: Vec<u8>,
    pub pos: usize,
    pub script: VecDeque<(u64, u64, u64)>,
    pub log: Vec<usize>,
    pub pendings: u64,
}
impl AScriptReader {
    pub fn new(stream: Vec<u8>, script: VecDeque<(u64, u64, u64)>) -> Self {
        AScriptReader { stream, pos: 0, script, log: Vec::new(), pendings: 0 }
    }
}
impl AsyncRead for AScriptReader {
    fn poll_read(self: Pin<&mut Self>, cx: &mut Context<'_>, buf: &mut ReadBuf<'_>) -> Poll<std::io::Result<()>> {
        let me = self.get_mut();
        let cap = buf.remaining();
        me.log.push(cap);
        let (tag, a, b) = me.script.pop_front().unwrap_or((0, cap as u64, 0));
        match tag {
            0 | 4 => {
                let a = if tag == 4 { 0 } else { a };
                let rem = me.stream.len() - me.pos;
                let n = (a.min(cap as u64).min(rem as u64)) as usize;
                buf.put_slice(&me.stream[me.pos..me.pos + n]);
                me.pos += n;
                let sc = (b.min((cap - n) as u64)) as usize;
                if sc > 0 {
                    let u = buf.initialize_unfilled();
                    for x in u[..sc].iter_mut() {
                        *x = 0xEE;
                    }
                }
                Poll::Ready(Ok(()))
            }
            1 => Poll::Ready(Err(make_err(a))),
            2 => panic!("scripted reader panic"),
            _ => {
                me.pendings += 1;
                cx.waker().wake_by_ref();
                Poll::Pending
            }
        }
    }
}

/// scripted async writer: (tag, a): 0 accept up to a; 1 fail kind a; 2 panic; 3 Pending
pub struct AScriptWriter {
    pub script: VecDeque<(u64, u64)>,
    pub log: Vec<i128>,
}
impl AScriptWriter {
    pub fn new(script: VecDeque<(u64, u64)>) -> Self {
        AScriptWriter { script, log: Vec::new() }
    }
    fn next(&mut self) -> (u64, u64) {
        self.script.pop_front().unwrap_or((0, u64::MAX))
    }
}
fn unit_res(tag: u64, a: u64, cx: &mut Context<'_>) -> Poll<std::io::Result<()>> {
    match tag {
        0 => Poll::Ready(Ok(())),
        1 => Poll::Ready(Err(make_err(a))),
        2 => panic!("scripted writer panic"),
        _ => {
            cx.waker().wake_by_ref();
            Poll::Pending
        }
    }
}
impl AsyncWrite for AScriptWriter {
    fn poll_write(self: Pin<&mut Self>, cx: &mut Context<'_>, data: &[u8]) -> Poll<std::io::Result<usize>> {
        let me = self.get_mut();
        let (tag, a) = me.next();
        me.log.push(1);
        enc_bytes(&mut me.log, data);
        match tag {
            0 => Poll::Ready(Ok((a.min(data.len() as u64)) as usize)),
            1 => Poll::Ready(Err(make_err(a))),
            2 => panic!("scripted writer panic"),
            _ => {
                cx.waker().wake_by_ref();
                Poll::Pending
            }
        }
    }
    fn poll_flush(self: Pin<&mut Self>, cx: &mut Context<'_>) -> Poll<std::io::Result<()>> {
        let me = self.get_mut();
        let (tag, a) = me.next();
        me.log.push(2);
        unit_res(tag, a, cx)
    }
    fn poll_shutdown(self: Pin<&mut Self>, cx: &mut Context<'_>) -> Poll<std::io::Result<()>> {
        let me = self.get_mut();
        let (tag, a) = me.next();
        me.log.push(3);
        unit_res(tag, a, cx)
    }
}

pub struct AScriptRW {
    pub r: AScriptReader,
    pub w: AScriptWriter,
}
impl AsyncRead for AScriptRW {
    fn poll_read(self: Pin<&mut Self>, cx: &mut Context<'_>, buf: &mut ReadBuf<'_>) -> Poll<std::io::Result<()>> {
        Pin::new(&mut self.get_mut().r).poll_read(cx, buf)
    }
}
impl AsyncWrite for AScriptRW {
    fn poll_write(self: Pin<&mut Self>, cx: &mut Context<'_>, data: &[u8]) -> Poll<std::io::Result<usize>> {
        Pin::new(&mut self.get_mut().w).poll_write(cx, data)
    }
    fn poll_flush(self: Pin<&mut Self>, cx: &mut Context<'_>) -> Poll<std::io::Result<()>> {
        Pin::new(&mut self.get_mut().w).poll_flush(cx)
    }
    fn poll_shutdown(self: Pin<&mut Self>, cx: &mut Context<'_>) -> Poll<std::io::Result<()>> {
        Pin::new(&mut self.get_mut().w).poll_shutdown(cx)
    }
}

/// a ReadBuf described by (prefilled bytes, extra capacity, uninit flag): owns its storage
pub struct OwnedRb {
    pub init_store: Vec<u8>,
    pub un_store: Vec<std::mem::MaybeUninit<u8>>,
    pub pre: Vec<u8>,
    pub uninit: bool,
    pub extra_init: usize,
}
impl OwnedRb {
    pub fn new(pre: Vec<u8>, cap: usize, uninit: bool) -> Self {
        let n = pre.len() + cap;
        OwnedRb { init_store: vec![0xDD; n], un_store: vec![std::mem::MaybeUninit::new(0xDD); n], pre, uninit, extra_init: 0 }
    }
    pub fn readbuf(&mut self) -> ReadBuf<'_> {
        let mut rb = if self.uninit { ReadBuf::uninit(&mut self.un_store) } else { ReadBuf::new(&mut self.init_store) };
        rb.put_slice(&self.pre);
        if self.extra_init > 0 {
            // an initialised (zeroed) part strictly inside the unfilled tail
            rb.initialize_unfilled_to(self.extra_init);
        }
        rb
    }
}
pub fn take_rb(c: &mut Cur) -> OwnedRb {
    let pre = c.take_list();
    let cap = c.next() as usize;
    let flag = c.next() as usize;
    let mut o = OwnedRb::new(pre, cap, flag != 0);
    if flag >= 2 {
        o.extra_init = std::cmp::min(flag - 1, cap);
    }
    o
}
pub fn enc_rb(out: &mut Vec<i128>, rb: &ReadBuf<'_>) {
    enc_bytes(out, rb.filled());
    out.push(rb.remaining() as i128);
}

/// poll result of a poll_read + the ReadBuf afterwards: tag, filled bytes, remaining
pub fn enc_poll_unit(out: &mut Vec<i128>, p: &Poll<std::io::Result<()>>) {
    match p {
        Poll::Ready(Ok(())) => out.push(0),
        Poll::Ready(Err(e)) => {
            out.push(1);
            out.push(code_of(e.kind()))
        }
        Poll::Pending => out.push(2),
    }
}
pub fn enc_poll_usize(out: &mut Vec<i128>, p: &Poll<std::io::Result<usize>>) {
    match p {
        Poll::Ready(Ok(n)) => {
            out.push(0);
            out.push(*n as i128)
        }
        Poll::Ready(Err(e)) => {
            out.push(1);
            out.push(code_of(e.kind()))
        }
        Poll::Pending => out.push(2),
    }
}

#[macro_export]
macro_rules! with_size {
    ($size:expr, $f:ident, $($args:expr),*) => {
        match $size {
            0 => $f::<0>($($args),*),
            1 => $f::<1>($($args),*),
            2 => $f::<2>($($args),*),
            3 => $f::<3>($($args),*),
            4 => $f::<4>($($args),*),
            5 => $f::<5>($($args),*),
            6 => $f::<6>($($args),*),
            8 => $f::<8>($($args),*),
            16 => $f::<16>($($args),*),
            32 => $f::<32>($($args),*),
            64 => $f::<64>($($args),*),
            256 => $f::<256>($($args),*),
            1024 => $f::<1024>($($args),*),
            4096 => $f::<4096>($($args),*),
            65536 => $f::<65536>($($args),*),
            100000 => $f::<100000>($($args),*),
            131072 => $f::<131072>($($args),*),
            _ => panic!("SIZE not monomorphised in the harness"),
        }
    };
}
