// family APOLL (20): histories mixing AsyncRead/AsyncWrite polls on AsyncFixedBuf with Deref'd FixedBuf methods (C17)
// 20 SIZE ctor [mem] op*   ops: 0 Len 2 Readable 4 Clear 5 Shift 8 ReadBytes n 10 ReadAll 14 WriteBytes data
//                               30 PollRead rb  31 PollWrite data  32 PollFlush  33 PollShutdown
use crate::common::*;
use crate::with_size;
use fixed_buffer_tokio::AsyncFixedBuf;
use std::pin::Pin;
use std::task::Context;
use tokio::io::{AsyncRead, AsyncWrite};

pub fn guarded<F: FnOnce(&mut Vec<i128>)>(out: &mut Vec<i128>, f: F) {
    let mut tmp: Vec<i128> = Vec::new();
    let r = std::panic::catch_unwind(std::panic::AssertUnwindSafe(|| f(&mut tmp)));
    match r {
        Ok(()) => out.extend(tmp),
        Err(_) => out.push(PANIC),
    }
}
pub fn post<const N: usize>(buf: &mut AsyncFixedBuf<N>, out: &mut Vec<i128>) {
    out.push(MST);
    guarded(out, |o| o.push(buf.len() as i128));
    guarded(out, |o| o.push(buf.writable().len() as i128));
    guarded(out, |o| enc_bytes(o, buf.readable()));
    out.push(-5);
    guarded(out, |o| enc_bytes(o, buf.mem()));
}

fn apoll_sized<const N: usize>(c: &mut Cur, out: &mut Vec<i128>) {
    let ctor = c.next();
    let mut buf: AsyncFixedBuf<N> = match ctor {
        1 | 2 => {
            let m = c.take_n(N);
            let mut arr = [0u8; N];
            arr.copy_from_slice(&m);
            if ctor == 1 {
                AsyncFixedBuf::empty(arr)
            } else {
                AsyncFixedBuf::filled(arr)
            }
        }
        _ => AsyncFixedBuf::new(),
    };
    post(&mut buf, out);
    let (_cw, waker) = count_waker();
    let mut cx = Context::from_waker(&waker);
    while !c.done() {
        out.push(MOP);
        let code = c.next();
        match code {
            0 => guarded(out, |o| o.push(buf.len() as i128)),
            2 => guarded(out, |o| enc_bytes(o, buf.readable())),
            4 => guarded(out, |_| buf.clear()),
            5 => guarded(out, |_| buf.shift()),
            8 => {
                let n = c.next() as usize;
                guarded(out, |o| enc_bytes(o, buf.read_bytes(n)))
            }
            10 => guarded(out, |o| enc_bytes(o, buf.read_all())),
            14 => {
                let d = c.take_list();
                guarded(out, |o| match buf.write_bytes(&d) {
                    Ok(n) => {
                        o.push(0);
                        o.push(n as i128)
                    }
                    Err(_) => o.push(1),
                })
            }
            30 => {
                let mut orb = take_rb(c);
                guarded(out, |o| {
                    let mut rb = orb.readbuf();
                    let p = Pin::new(&mut buf).poll_read(&mut cx, &mut rb);
                    enc_poll_unit(o, &p);
                    enc_rb(o, &rb);
                })
            }
            31 => {
                let d = c.take_list();
                guarded(out, |o| {
                    // constructor code 4 = new(), with writes going through the trait's PROVIDED vectored entry point (single slice:
                    // with the default implementation this is poll_write; an override of poll_write_vectored shows here)
                    let p = if ctor == 4 {
                        Pin::new(&mut buf).poll_write_vectored(&mut cx, &[std::io::IoSlice::new(&d)])
                    } else if ctor == 5 {
                        // two slices with the same bytes: the default implementation writes the first non-empty one, i.e. poll_write(d)
                        Pin::new(&mut buf).poll_write_vectored(&mut cx, &[std::io::IoSlice::new(&d), std::io::IoSlice::new(&d)])
                    } else {
                        Pin::new(&mut buf).poll_write(&mut cx, &d)
                    };
                    enc_poll_usize(o, &p);
                })
            }
            32 => guarded(out, |o| {
                let p = Pin::new(&mut buf).poll_flush(&mut cx);
                enc_poll_unit(o, &p);
            }),
            33 => guarded(out, |o| {
                let p = Pin::new(&mut buf).poll_shutdown(&mut cx);
                enc_poll_unit(o, &p);
            }),
            _ => {}
        }
        post(&mut buf, out);
    }
}
pub fn run_apoll(c: &mut Cur, out: &mut Vec<i128>) {
    let size = c.next();
    with_size!(size, apoll_sized, c, out)
}
