// families ACH (23) and ATK (24): poll histories on AsyncReadWriteChain / AsyncReadWriteTake over scripted async inner objects,
// side by side with tokio's own chain()/take() on the same scripts (variant 2).  See coq/Run/TokioAdapters.v.
use crate::common::*;
use fixed_buffer_tokio::{AsyncReadWriteChain, AsyncReadWriteTake};
use std::sync::{Mutex, MutexGuard};
fn lk<T>(m: &Mutex<T>) -> MutexGuard<'_, T> {
    m.lock().unwrap_or_else(|e| e.into_inner())
}
use std::collections::VecDeque;
use std::pin::Pin;
use std::task::{Context, Poll};
use tokio::io::{AsyncRead, AsyncReadExt, AsyncWrite, ReadBuf};

struct F<'a>(&'a Mutex<AScriptReader>);
impl<'a> AsyncRead for F<'a> {
    fn poll_read(self: Pin<&mut Self>, cx: &mut Context<'_>, buf: &mut ReadBuf<'_>) -> Poll<std::io::Result<()>> {
        Pin::new(&mut *lk(self.0)).poll_read(cx, buf)
    }
}
struct W<'a>(&'a Mutex<AScriptRW>);
impl<'a> AsyncRead for W<'a> {
    fn poll_read(self: Pin<&mut Self>, cx: &mut Context<'_>, buf: &mut ReadBuf<'_>) -> Poll<std::io::Result<()>> {
        Pin::new(&mut *lk(self.0)).poll_read(cx, buf)
    }
}
impl<'a> AsyncWrite for W<'a> {
    fn poll_write(self: Pin<&mut Self>, cx: &mut Context<'_>, d: &[u8]) -> Poll<std::io::Result<usize>> {
        Pin::new(&mut *lk(self.0)).poll_write(cx, d)
    }
    fn poll_flush(self: Pin<&mut Self>, cx: &mut Context<'_>) -> Poll<std::io::Result<()>> {
        Pin::new(&mut *lk(self.0)).poll_flush(cx)
    }
    fn poll_shutdown(self: Pin<&mut Self>, cx: &mut Context<'_>) -> Poll<std::io::Result<()>> {
        Pin::new(&mut *lk(self.0)).poll_shutdown(cx)
    }
}

enum Op {
    Read(Vec<u8>, usize, bool),
    Write(Vec<u8>),
    Flush,
    Shutdown,
}
fn parse_ops(c: &mut Cur) -> Vec<Op> {
    let mut v = Vec::new();
    while !c.done() {
        match c.next() {
            0 => {
                let pre = c.take_list();
                let cap = c.next() as usize;
                let un = c.next() != 0;
                v.push(Op::Read(pre, cap, un));
            }
            1 => v.push(Op::Write(c.take_list())),
            2 => v.push(Op::Flush),
            _ => v.push(Op::Shutdown),
        }
    }
    v
}
fn tail_obs(out: &mut Vec<i128>, first: Option<&AScriptReader>, rw: &AScriptRW) {
    out.push(-6);
    match first {
        Some(f) => {
            out.push(f.pos as i128);
            out.push(f.log.len() as i128);
            out.extend(f.log.iter().map(|x| *x as i128));
        }
        None => {
            out.push(0);
            out.push(0);
        }
    }
    out.push(-6);
    out.push(rw.r.pos as i128);
    out.push(rw.r.log.len() as i128);
    out.extend(rw.r.log.iter().map(|x| *x as i128));
    out.push(-7);
    out.push(rw.w.log.len() as i128);
    out.extend(rw.w.log.iter());
}

// one op against any AsyncRead (+AsyncWrite when `wr` is Some)
fn do_read<R: AsyncRead + Unpin>(a: &mut R, cx: &mut Context<'_>, pre: &[u8], cap: usize, un: bool, out: &mut Vec<i128>) {
    let mut orb = OwnedRb::new(pre.to_vec(), cap, un);
    let r = std::panic::catch_unwind(std::panic::AssertUnwindSafe(|| {
        let mut tmp = Vec::new();
        let mut rb = orb.readbuf();
        let p = Pin::new(a).poll_read(cx, &mut rb);
        enc_poll_unit(&mut tmp, &p);
        enc_rb(&mut tmp, &rb);
        tmp
    }));
    match r {
        Ok(t) => out.extend(t),
        Err(_) => out.push(PANIC),
    }
}
fn do_write<A: AsyncWrite + Unpin>(a: &mut A, cx: &mut Context<'_>, op: &Op, out: &mut Vec<i128>) {
    let r = std::panic::catch_unwind(std::panic::AssertUnwindSafe(|| {
        let mut tmp = Vec::new();
        match op {
            Op::Write(d) => enc_poll_usize(&mut tmp, &Pin::new(a).poll_write(cx, d)),
            Op::Flush => enc_poll_unit(&mut tmp, &Pin::new(a).poll_flush(cx)),
            _ => enc_poll_unit(&mut tmp, &Pin::new(a).poll_shutdown(cx)),
        }
        tmp
    }));
    match r {
        Ok(t) => out.extend(t),
        Err(_) => out.push(PANIC),
    }
}

#[allow(clippy::too_many_arguments)]
fn chain_variant(variant: u64, s1: Vec<u8>, sc1: VecDeque<(u64, u64, u64)>, s2: Vec<u8>, sc2: VecDeque<(u64, u64, u64)>,
                 ws: VecDeque<(u64, u64)>, ops: &[Op], out: &mut Vec<i128>) {
    let first = Mutex::new(AScriptReader::new(s1, sc1));
    let rw = Mutex::new(AScriptRW { r: AScriptReader::new(s2, sc2), w: AScriptWriter::new(ws) });
    let (_cw, waker) = count_waker();
    let mut cx = Context::from_waker(&waker);
    let clear = || {
        lk(&first).log.clear();
        lk(&rw).r.log.clear();
        lk(&rw).w.log.clear();
    };
    let mut f = F(&first);
    let mut w = W(&rw);
    if variant == 0 {
        let mut chain = AsyncReadWriteChain::new(&mut f, &mut w);
        for op in ops {
            clear();
            out.push(MOP);
            match op {
                Op::Read(pre, cap, un) => do_read(&mut chain, &mut cx, pre, *cap, *un, out),
                _ => do_write(&mut chain, &mut cx, op, out),
            }
            tail_obs(out, Some(&lk(&first)), &lk(&rw));
        }
    } else {
        let mut chain = AsyncReadExt::chain(&mut f, &mut w);
        for op in ops {
            if let Op::Read(pre, cap, un) = op {
                clear();
                out.push(MOP);
                do_read(&mut chain, &mut cx, pre, *cap, *un, out);
                tail_obs(out, Some(&lk(&first)), &lk(&rw));
            }
        }
    }
}
pub fn run_achain(c: &mut Cur, out: &mut Vec<i128>) {
    let variant = c.next();
    let s1 = c.take_list();
    let sc1 = c.take_script();
    let s2 = c.take_list();
    let sc2 = c.take_script();
    let ws = c.take_wscript();
    let ops = parse_ops(c);
    if variant == 2 {
        chain_variant(0, s1.clone(), sc1.clone(), s2.clone(), sc2.clone(), ws.clone(), &ops, out);
        out.push(-8);
        chain_variant(1, s1, sc1, s2, sc2, ws, &ops, out);
    } else {
        chain_variant(variant, s1, sc1, s2, sc2, ws, &ops, out);
    }
}

fn take_variant(variant: u64, limit: u64, s2: Vec<u8>, sc2: VecDeque<(u64, u64, u64)>, ws: VecDeque<(u64, u64)>, ops: &[Op], out: &mut Vec<i128>) {
    let rw = Mutex::new(AScriptRW { r: AScriptReader::new(s2, sc2), w: AScriptWriter::new(ws) });
    let (_cw, waker) = count_waker();
    let mut cx = Context::from_waker(&waker);
    let clear = || {
        lk(&rw).r.log.clear();
        lk(&rw).w.log.clear();
    };
    let mut w = W(&rw);
    if variant == 0 {
        let mut take = AsyncReadWriteTake::new(&mut w, limit);
        for op in ops {
            clear();
            out.push(MOP);
            match op {
                Op::Read(pre, cap, un) => do_read(&mut take, &mut cx, pre, *cap, *un, out),
                _ => do_write(&mut take, &mut cx, op, out),
            }
            tail_obs(out, None, &lk(&rw));
        }
    } else {
        let mut take = AsyncReadExt::take(&mut w, limit);
        for op in ops {
            if let Op::Read(pre, cap, un) = op {
                clear();
                out.push(MOP);
                do_read(&mut take, &mut cx, pre, *cap, *un, out);
                tail_obs(out, None, &lk(&rw));
            }
        }
    }
}
pub fn run_atake(c: &mut Cur, out: &mut Vec<i128>) {
    let variant = c.next();
    let limit = c.next();
    let s2 = c.take_list();
    let sc2 = c.take_script();
    let ws = c.take_wscript();
    let ops = parse_ops(c);
    if variant == 2 {
        take_variant(0, limit, s2.clone(), sc2.clone(), ws.clone(), &ops, out);
        out.push(-8);
        take_variant(1, limit, s2, sc2, ws, &ops, out);
    } else {
        take_variant(variant, limit, s2, sc2, ws, &ops, out);
    }
}
