use crate::common::*;
pub fn run_achain(_c: &mut Cur, _out: &mut Vec<i128>) {}
pub fn run_atake(_c: &mut Cur, _out: &mut Vec<i128>) {}
