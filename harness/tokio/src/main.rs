// harness/tokio — runs int-encoded cases against the REAL fixed-buffer-tokio crate (path = /repo/fixed-buffer-tokio, which
// links the registry fixed-buffer 0.3.1) with hand-driven polling (no runtime), and prints traces in the format of coq/Run/Tokio.v.
mod common;
mod fam_apoll;
mod fam_arf;
mod fam_aadapters;
mod fam_asrv;

use common::*;
use std::io::{BufRead, Write};

fn main() {
    // big FixedBuf<SIZE> values live on the stack: run on a thread with a large one
    std::thread::Builder::new().stack_size(1 << 30).spawn(real_main).unwrap().join().unwrap();
}

fn real_main() {
    std::panic::set_hook(Box::new(|_| {}));
    let stdin = std::io::stdin();
    let stdout = std::io::stdout();
    let mut w = std::io::BufWriter::new(stdout.lock());
    let mut line = String::new();
    let mut r = stdin.lock();
    loop {
        line.clear();
        if r.read_line(&mut line).unwrap() == 0 {
            break;
        }
        let vals: Vec<u64> = line.split_ascii_whitespace().map(|t| t.parse::<u64>().expect("u64")).collect();
        let mut out: Vec<i128> = Vec::new();
        let mut c = Cur::new(&vals);
        match c.next() {
            20 => fam_apoll::run_apoll(&mut c, &mut out),
            22 => fam_arf::run_arf(&mut c, &mut out),
            23 => fam_aadapters::run_achain(&mut c, &mut out),
            24 => fam_aadapters::run_atake(&mut c, &mut out),
            26 => fam_asrv::run_asrv(&mut c, &mut out),
            _ => {}
        }
        let mut first = true;
        for v in out {
            if !first {
                w.write_all(b" ").unwrap();
            }
            first = false;
            write!(w, "{}", v).unwrap();
        }
        w.write_all(b"\n").unwrap();
    }
    w.flush().unwrap();
}
