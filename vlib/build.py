# vlib/build.py — (re)build everything a check needs, from /repo's current working tree.
import fcntl, os, subprocess, time, re, json, hashlib

VERIF = os.path.dirname(os.path.dirname(os.path.abspath(__file__)))
COQ = os.path.join(VERIF, "coq")
BUILD = os.path.join(VERIF, "_build")
REPO = os.environ.get("VERIF_REPO", "/repo")
ENV = dict(os.environ, CARGO_NET_OFFLINE="true")


class BuildError(Exception):
    def __init__(self, what, log):
        super().__init__(what)
        self.what = what
        self.log = log


def sh(cmd, cwd=None, timeout=3600, env=None):
    p = subprocess.run(cmd, cwd=cwd, shell=isinstance(cmd, str), stdout=subprocess.PIPE,
                       stderr=subprocess.STDOUT, timeout=timeout, env=env or ENV, text=True)
    return p.returncode, p.stdout


class lock:
    def __enter__(self):
        os.makedirs(BUILD, exist_ok=True)
        self.f = open(os.path.join(BUILD, ".lock"), "w")
        fcntl.flock(self.f, fcntl.LOCK_EX)
        return self

    def __exit__(self, *a):
        fcntl.flock(self.f, fcntl.LOCK_UN)
        self.f.close()


def coq_makefile():
    mk = os.path.join(COQ, "Makefile")
    cp = os.path.join(COQ, "_CoqProject")
    if not os.path.exists(mk) or os.path.getmtime(mk) < os.path.getmtime(cp):
        rc, out = sh("coq_makefile -f _CoqProject -o Makefile", cwd=COQ)
        if rc != 0:
            raise BuildError("coq_makefile", out)


def coq_make(targets=(), fresh=()):
    """make the given .vo targets (all if empty); `fresh` targets are removed first so that
    their Print Assumptions output is produced by this run.  Returns the make output."""
    coq_makefile()
    for t in fresh:
        for ext in ("", "k", "s"):
            try:
                os.remove(os.path.join(COQ, t + ext))
            except FileNotFoundError:
                pass
    cmd = ["timeout", "3000", "make", "-j16"] + list(targets)
    rc, out = sh(cmd, cwd=COQ)
    if rc != 0:
        raise BuildError("coq make " + " ".join(targets), out)
    return out


def newer(a, b):
    return (not os.path.exists(b)) or os.path.getmtime(a) > os.path.getmtime(b)


def ml_driver():
    """extract Run/Main.v and compile the OCaml driver when stale"""
    mld = os.path.join(BUILD, "ml")
    os.makedirs(mld, exist_ok=True)
    drv = os.path.join(mld, "drv")
    main_vo = os.path.join(COQ, "Run", "Main.vo")
    src = os.path.join(VERIF, "mlrun", "drv.ml")
    if newer(main_vo, drv) or newer(src, drv) or newer(os.path.join(COQ, "Extract.v"), drv):
        rc, out = sh(["coqc", "-Q", COQ, "FB", os.path.join(COQ, "Extract.v")], cwd=mld)
        if rc != 0:
            raise BuildError("extraction", out)
        sh(["cp", src, mld])
        rc, out = sh("ocamlfind ocamlopt -O2 -w -a model.mli model.ml drv.ml -o drv", cwd=mld)
        if rc != 0:
            raise BuildError("ocamlopt", out)
    return drv


def cargo_harness(name):
    """build harness/<name> in dev and release against /repo's working tree; returns {profile: exe}"""
    hd = os.path.join(VERIF, "harness", name)
    lockf = os.path.join(hd, "Cargo.lock")
    seed = os.path.join(hd, "Cargo.lock.seed")
    if not os.path.exists(lockf) and os.path.exists(seed):
        sh(["cp", seed, lockf])
    exes = {}
    for prof, flag in (("debug", []), ("release", ["--release"])):
        rc, out = sh(["cargo", "build", "--offline", "-q"] + flag, cwd=hd)
        if rc != 0:
            raise BuildError("cargo build %s (%s)" % (name, prof), out)
        exes[prof] = os.path.join(BUILD, "h" + name, prof, "h" + name)
    return exes


def rs2v():
    d = os.path.join(VERIF, "rs2v")
    lockf, seed = os.path.join(d, "Cargo.lock"), os.path.join(d, "Cargo.lock.seed")
    if not os.path.exists(lockf) and os.path.exists(seed):
        sh(["cp", seed, lockf])
    rc, out = sh(["cargo", "build", "--offline", "--release", "-q"], cwd=d)
    if rc != 0:
        raise BuildError("cargo build rs2v", out)
    return os.path.join(BUILD, "rs2v", "release", "rs2v")


def source_facts():
    """regenerate coq/Gen/SourceFacts.v from /repo's working tree (tie T1 for the fact-based properties)"""
    exe = rs2v()
    os.makedirs(os.path.join(BUILD, "tmp"), exist_ok=True)
    meta = os.path.join(BUILD, "tmp", "cargo-metadata.json")
    rc, out = sh("cargo metadata --offline --format-version 1 > %s" % meta, cwd=REPO)
    if rc != 0:
        raise BuildError("cargo metadata", out)
    os.makedirs(os.path.join(COQ, "Gen"), exist_ok=True)
    rc, out = sh([exe, "facts", REPO, meta, os.path.join(COQ, "Gen", "SourceFacts.v")])
    if rc != 0:
        raise BuildError("rs2v facts (the extractor could not process the source)", out)
    return os.path.join(COQ, "Gen", "SourceFacts.v")


GEN_SOURCES = ["fixed-buffer/src/lib.rs", "fixed-buffer/src/deframe_line.rs", "fixed-buffer/src/deframe_crlf.rs",
               "fixed-buffer/src/deframe_null.rs", "fixed-buffer/src/escape_ascii.rs", "fixed-buffer/src/read_write_chain.rs",
               "fixed-buffer/src/read_write_take.rs", "fixed-buffer-tokio/src/lib.rs", "fixed-buffer-tokio/src/async_read_write_chain.rs",
               "fixed-buffer-tokio/src/async_read_write_take.rs"]


def gen_models(repo=None, coqdir=None):
    """tie T1 for behaviour: re-translate the modelled functions of /repo's working tree into coq/Gen/*Gen.v
    (rs2v ast -> vlib/translate.py).  A definition Coq rejects is commented out (with everything that then no longer
    compiles), so that one untranslatable function breaks exactly the equalities that depend on it.
    Returns {file: [(function, status, detail)]}."""
    from . import translate_fb
    exe = rs2v()
    repo_ = repo or REPO
    coq_ = coqdir or COQ
    os.makedirs(os.path.join(BUILD, "tmp"), exist_ok=True)
    astp = os.path.join(BUILD, "tmp", "ast.json" if coqdir is None else "ast_scratch.json")
    srcs = [os.path.join(repo_, p) for p in GEN_SOURCES if os.path.exists(os.path.join(repo_, p))]
    rc, out = sh([exe, "ast", astp] + srcs)
    if rc != 0:
        raise BuildError("rs2v ast (the source does not parse)", out)
    gdir = os.path.join(coq_, "Gen")
    os.makedirs(gdir, exist_ok=True)
    report = translate_fb.main(astp, gdir)
    if coqdir is None:
        coq_makefile()
    for name in report:
        path = os.path.join(gdir, name + ".v")
        for _ in range(40):
            rc, out = sh(["make", "Gen/%s.vo" % name], cwd=coq_)
            if rc == 0:
                break
            m = re.search(r'File "\./Gen/%s\.v", line (\d+)' % name, out)
            if not m:
                raise BuildError("make Gen/%s.vo" % name, out)
            ln = int(m.group(1))
            lines = open(path).read().split("\n")
            # the Definition that contains line ln
            start = max(i for i in range(ln) if lines[i].startswith("Definition "))
            end = next(i for i in range(start, len(lines)) if lines[i].rstrip().endswith(".") and (i + 1 == len(lines) or lines[i + 1].strip() == ""))
            fn = lines[start].split()[1]
            err = " ".join(out.split("Error:")[-1].split())[:300].replace("*)", "* )")
            lines[start:end + 1] = ["(* %s: REJECTED BY COQ (%s) *)" % (fn, err)]
            open(path, "w").write("\n".join(lines))
            report[name] = [((f, "ill-typed", err) if st == "translated" and (d == fn or d + "_body" == fn) else (f, st, d))
                            for (f, st, d) in report[name]]
    if coqdir is None:
        json.dump(report, open(os.path.join(BUILD, "tmp", "gen_report.json"), "w"), indent=1)
    return report


def gen_eq(names, coqdir=None):
    """make the equalities GenEq/<name>.vo (keep going); returns {name: None | error text}"""
    if not names:
        return {}
    COQ = coqdir or globals()["COQ"]
    if coqdir is None:
        coq_makefile()
    targets = ["GenEq/%s.vo" % n for n in names]
    rc, out = sh(["timeout", "1200", "make", "-k", "-j16"] + targets, cwd=COQ)
    res = {}
    for n in names:
        vo = os.path.join(COQ, "GenEq", n + ".vo")
        bad = re.search(r"\*\*\* \[[^\]]*GenEq/%s\.vo\]" % re.escape(n), out) is not None or not os.path.exists(vo)
        if not bad and rc != 0:
            # a dependency failed: the target was not remade
            src = open(os.path.join(COQ, "GenEq", n + ".v")).read()
            gs = set(re.findall(r"\bGen\.(\w+Gen)\b", src))
            gvos = [os.path.join(COQ, "Gen", g + ".vo") for g in gs]
            bad = not gvos or any(not os.path.exists(g) or os.path.getmtime(g) > os.path.getmtime(vo) for g in gvos)
        if bad:
            for ext in ("o", "ok", "os"):
                try:
                    os.remove(vo[:-1] + ext)      # no stale .vo of a broken equality
                except FileNotFoundError:
                    pass
            m = re.search(r'File "\./GenEq/%s\.v"[^\n]*\n((?:.*\n){0,12})' % re.escape(n), out)
            res[n] = (m.group(1) if m else out[-1500:]).strip()[:1500]
        else:
            res[n] = None
    return res
