# vlib/build.py — (re)build everything a check needs, from /repo's current working tree.
import fcntl, os, subprocess, time, re, json, hashlib

VERIF = os.path.dirname(os.path.dirname(os.path.abspath(__file__)))
COQ = os.path.join(VERIF, "coq")
BUILD = os.path.join(VERIF, "_build")
REPO = os.environ.get("VERIF_REPO", "/repo")
ENV = dict(os.environ, CARGO_NET_OFFLINE="true")


class BuildError(Exception):
    def __init__(self, what, log):
        super().__init__(what)
        self.what = what
        self.log = log


def sh(cmd, cwd=None, timeout=3600, env=None):
    p = subprocess.run(cmd, cwd=cwd, shell=isinstance(cmd, str), stdout=subprocess.PIPE,
                       stderr=subprocess.STDOUT, timeout=timeout, env=env or ENV, text=True)
    return p.returncode, p.stdout


class lock:
    def __enter__(self):
        os.makedirs(BUILD, exist_ok=True)
        self.f = open(os.path.join(BUILD, ".lock"), "w")
        fcntl.flock(self.f, fcntl.LOCK_EX)
        return self

    def __exit__(self, *a):
        fcntl.flock(self.f, fcntl.LOCK_UN)
        self.f.close()


def coq_makefile():
    mk = os.path.join(COQ, "Makefile")
    cp = os.path.join(COQ, "_CoqProject")
    if not os.path.exists(mk) or os.path.getmtime(mk) < os.path.getmtime(cp):
        rc, out = sh("coq_makefile -f _CoqProject -o Makefile", cwd=COQ)
        if rc != 0:
            raise BuildError("coq_makefile", out)


def coq_make(targets=(), fresh=()):
    """make the given .vo targets (all if empty); `fresh` targets are removed first so that
    their Print Assumptions output is produced by this run.  Returns the make output."""
    coq_makefile()
    for t in fresh:
        for ext in ("", "k", "s"):
            try:
                os.remove(os.path.join(COQ, t + ext))
            except FileNotFoundError:
                pass
    cmd = ["timeout", "3000", "make", "-j16"] + list(targets)
    rc, out = sh(cmd, cwd=COQ)
    if rc != 0:
        raise BuildError("coq make " + " ".join(targets), out)
    return out


def newer(a, b):
    return (not os.path.exists(b)) or os.path.getmtime(a) > os.path.getmtime(b)


def ml_driver():
    """extract Run/Main.v and compile the OCaml driver when stale"""
    mld = os.path.join(BUILD, "ml")
    os.makedirs(mld, exist_ok=True)
    drv = os.path.join(mld, "drv")
    main_vo = os.path.join(COQ, "Run", "Main.vo")
    src = os.path.join(VERIF, "mlrun", "drv.ml")
    if newer(main_vo, drv) or newer(src, drv) or newer(os.path.join(COQ, "Extract.v"), drv):
        rc, out = sh(["coqc", "-Q", COQ, "FB", os.path.join(COQ, "Extract.v")], cwd=mld)
        if rc != 0:
            raise BuildError("extraction", out)
        sh(["cp", src, mld])
        rc, out = sh("ocamlfind ocamlopt -O2 -w -a model.mli model.ml drv.ml -o drv", cwd=mld)
        if rc != 0:
            raise BuildError("ocamlopt", out)
    return drv


def cargo_harness(name):
    """build harness/<name> in dev and release against /repo's working tree; returns {profile: exe}"""
    hd = os.path.join(VERIF, "harness", name)
    lockf = os.path.join(hd, "Cargo.lock")
    seed = os.path.join(hd, "Cargo.lock.seed")
    if not os.path.exists(lockf) and os.path.exists(seed):
        sh(["cp", seed, lockf])
    exes = {}
    for prof, flag in (("debug", []), ("release", ["--release"])):
        rc, out = sh(["cargo", "build", "--offline", "-q"] + flag, cwd=hd)
        if rc != 0:
            raise BuildError("cargo build %s (%s)" % (name, prof), out)
        exes[prof] = os.path.join(BUILD, "h" + name, prof, "h" + name)
    return exes


def rs2v():
    d = os.path.join(VERIF, "rs2v")
    lockf, seed = os.path.join(d, "Cargo.lock"), os.path.join(d, "Cargo.lock.seed")
    if not os.path.exists(lockf) and os.path.exists(seed):
        sh(["cp", seed, lockf])
    rc, out = sh(["cargo", "build", "--offline", "--release", "-q"], cwd=d)
    if rc != 0:
        raise BuildError("cargo build rs2v", out)
    return os.path.join(BUILD, "rs2v", "release", "rs2v")


def source_facts():
    """regenerate coq/Gen/SourceFacts.v from /repo's working tree (tie T1 for the fact-based properties)"""
    exe = rs2v()
    os.makedirs(os.path.join(BUILD, "tmp"), exist_ok=True)
    meta = os.path.join(BUILD, "tmp", "cargo-metadata.json")
    rc, out = sh("cargo metadata --offline --format-version 1 > %s" % meta, cwd=REPO)
    if rc != 0:
        raise BuildError("cargo metadata", out)
    os.makedirs(os.path.join(COQ, "Gen"), exist_ok=True)
    rc, out = sh([exe, "facts", REPO, meta, os.path.join(COQ, "Gen", "SourceFacts.v")])
    if rc != 0:
        raise BuildError("rs2v facts (the extractor could not process the source)", out)
    return os.path.join(COQ, "Gen", "SourceFacts.v")
