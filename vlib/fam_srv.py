# vlib/fam_srv.py — family SRV (6): the documented request loop (header line + counted payload) over a scripted transport.  C07.
import itertools
from .engine import Prop, Case
from .fam_rf import spec_next, RfProp
from .fam_adapters import enc_script

U64 = 2 ** 64 - 1


def plen_sel(size, kind, line):
    if kind == 0:
        return line[0] if line else 0
    if kind == 1:
        return size + 1
    if kind == 2:
        return 0
    if kind == 3:
        return len(line)
    return (kind - 4) + (line[0] if line else 0)


def mk_srv(size, kind, stream, rsc, wsc, dests, nreq, src, fam=6, cancel=None):
    ints = [fam, size, kind, len(stream)] + list(stream) + enc_script(rsc) + enc_script(wsc) + [len(dests)] + list(dests) + [nreq]
    if cancel is not None:
        ints += [len(cancel)] + list(cancel)
    return Case(ints, {"size": size, "kind": kind, "stream": list(stream), "rsc": [list(t) for t in rsc], "wsc": [list(t) for t in wsc],
                       "dests": list(dests), "nreq": nreq, "src": src, "fam": fam, "cancel": list(cancel) if cancel is not None else None})


def parse(tr):
    """-> (requests, post, pos, wlog)"""
    reqs, i, n = [], 0, len(tr)
    try:
        while i < n and tr[i] == -2:
            kind = tr[i + 1]
            if kind == 0:
                j = i + 2
                k = tr[j]; line = tr[j + 1:j + 1 + k]; j += 1 + k
                k = tr[j]; payload = tr[j + 1:j + 1 + k]; j += 1 + k
                stat = []
                for _ in range(2):
                    if tr[j] == 0:
                        stat.append((0,)); j += 1
                    elif tr[j] == 1:
                        stat.append((1, tr[j + 1])); j += 2
                    else:
                        stat.append((tr[j],)); j += 1
                reqs.append(("served", line, payload, stat[0], stat[1]))
                i = j
            elif kind == 1:
                reqs.append(("eof",)); i += 2
            elif kind == 2:
                reqs.append(("err", tr[i + 2])); i += 3
            else:
                reqs.append(("abort", kind)); i += 2
        if tr[i] != -3:
            return None
        ln, wl = tr[i + 1], tr[i + 2]
        k = tr[i + 3]
        readable = tr[i + 4:i + 4 + k] if k >= 0 else None
        i += 4 + max(k, 0)
        if tr[i] == -5:
            k = tr[i + 1]; i += 2 + max(k, 0)
        if tr[i] != -6:
            return None
        pos = tr[i + 1]
        if tr[i + 2] != -7:
            return None
        k = tr[i + 3]
        wlog = tr[i + 4:i + 4 + k]
        return reqs, (ln, wl, readable), pos, wlog
    except IndexError:
        return None


def accepted_bytes(wlog, wsc):
    """bytes the scripted transport accepted, replaying its script over the logged write calls"""
    out, i, si = [], 0, 0
    while i < len(wlog):
        if wlog[i] == 1:
            k = wlog[i + 1]
            data = wlog[i + 2:i + 2 + k]
            i += 2 + k
            act = tuple(wsc[si]) if si < len(wsc) else (0, U64)
            si += 1
            if act[0] == 0:
                out += data[:min(act[1], k)]
        else:
            i += 1
            si += 1
    return out


class C07(Prop):
    pid = "C07"
    coq_targets = ["Props/C07.vo"]
    harness = "sync"
    family_doc = "SRV: read_frame header line, then ReadWriteTake(ReadWriteChain(buffer, stream), n) payload drained with a destination schedule, response written through the chain; scripted transport"
    level_text = ("Coq theorems over `serve` (Model/Serve.v: a hand-modelled composition of the TRANSLATED read_frame, FixedBuf::read, chain and take): "
                  "c07_drain (draining the take over chain(buffer, transport) with ANY schedule of non-empty destinations delivers exactly the first "
                  "min(n, available) bytes of unread ++ unpulled, leftover buffer bytes first, and leaves the rest for the next read_frame), "
                  "c07_request (one request = the header `next` gives, then that payload), for any stream, chunking, `plen` and SIZE. "
                  "The serve loop itself and write_all are modelled glue held by correspondence (the crate ships the loop only as a test). "
                  "GenEq/SrcC07.v restates the drain about the regenerated take_read / chain_read / io::Read::read. Tokio half: c07_async_chain_is_source "
                  "(AsyncFixedBuf read through AsyncRead is an async prefix source of its unread bytes, and AsyncReadWriteChain(buffer, transport) one "
                  "of unread ++ unpulled, under every Pending pattern and for every ReadBuf); the async take and the loop on top of it are "
                  "exercised by correspondence on the tokio harness (family ASRV) and rest on C14/C16.")
    nontrivial_rule = ("request sequences (payloads may contain delimiter bytes; payload lengths 0, 1, 2, 5, SIZE, SIZE+1, beyond the stream) x EVERY "
                       "composition of short streams into transport chunks x destination schedules x SIZE; random longer sequences with partial "
                       "writes; checked against the chunk-free segmentation; non-trivial = at least one payload byte; distinct = distinct (case, trace)")

    def build_stream(self, rng, size, nreq, maxpay):
        stream = []
        for _ in range(nreq):
            n = rng.choice([0, 1, 2, 5, maxpay])
            while n in (10,):
                n += 1
            hdr = [n] + [rng.choice([65, 66, 13]) for _ in range(rng.randrange(0, 3))]
            hdr = [b if b != 10 else 11 for b in hdr]
            pay = [rng.choice([97, 10, 13, 0, 98]) for _ in range(n)]
            stream += hdr + [10] + pay
        return stream

    def gen(self, tier, rng):
        cases = []
        helper = RfProp()
        # exhaustive chunkings of short two-request streams
        base_streams = [[2, 10, 97, 98, 1, 10, 99], [0, 10, 3, 65, 10, 10, 98, 10], [3, 10, 97, 10, 98, 2, 10, 99, 100, 10], [1, 13, 10, 120, 1, 10], [5, 10, 97, 98]]
        for st in base_streams:
            comps = list(helper.compositions(len(st)))
            if tier == "quick":
                comps = comps[::max(1, len(comps) // 48)]
            for parts in comps:
                for size in (4, 8):
                    for dests in ([], [1], [1, 2, 3], [64], [0, 1, 0, 2]):
                        cases.append(mk_srv(size, 0, st, [(0, k, 0) for k in parts], [], dests, 4, "all-chunkings"))
        for _ in range(2500 if tier == "quick" else 50000):
            size = rng.choice([4, 5, 8, 16, 32])
            kind = rng.choice([0, 0, 0, 1, 2, 3])
            nreq = rng.randrange(1, 5)
            st = self.build_stream(rng, size, nreq, rng.choice([size, size + 1, 7]))
            if rng.random() < 0.3:
                st = st[:rng.randrange(0, len(st) + 1)]     # truncated connection
            rsc = [(0, rng.choice([1, 1, 2, 3, 5, U64]), 0) for _ in range(rng.randrange(0, 12))]
            wsc = [(0, rng.choice([1, 2, U64, U64])) for _ in range(rng.randrange(0, 6))]
            dests = [rng.choice([0, 1, 1, 2, 3, 8, 64]) for _ in range(rng.randrange(0, 6))]
            cases.append(mk_srv(size, kind, st, rsc, wsc, dests, nreq + 1, "random"))
        # search directed by the source: payload lengths at the novel literals (kind = 4 + base: length = base + header byte)
        from . import fam_api
        for v in fam_api.NOVEL:
            if v + 300 >= 2 ** 64:
                continue
            for hb in (5, 0, 200):
                for n_avail in (3, 40, 600):
                    st = [hb, 10] + [97 + (i % 26) for i in range(n_avail)]
                    for dests in ([], [16], [1, 2, 3], [64, 64], [4096]):
                        cases.append(mk_srv(8, 4 + v, st, [], [], dests, 2, "dictionary"))
                        cases.append(mk_srv(32, 4 + v, st, [(0, 7, 0)] * 3, [], dests, 2, "dictionary"))
        return cases

    def check(self, case, trace, prof):
        m = case.meta
        p = parse(trace)
        if p is None:
            return "malformed trace"
        reqs, post, pos, wlog = p
        size, kind = m["size"], m["kind"]
        if any(t[0] not in (0, 3) or (t[0] == 0 and t[1] < 1) for t in m["rsc"]) or any(t[0] not in (0, 3) or (t[0] == 0 and t[1] < 1) for t in m["wsc"]):
            return None     # faulty transports are C06/C13 territory; only the model comparison applies
        r = list(m["stream"])
        responses = []
        for k, q in enumerate(reqs):
            want, r2 = spec_next(size, 0, r)
            if want[0] == "frame":
                line = list(want[1])
                n = plen_sel(size, kind, line)
                payload = r2[:n]
                rest = r2[n:]
                if q[0] != "served":
                    return "request %d: the stream continues with header %r (payload %d bytes) but the loop reported %r" % (k, bytes(line), n, q)
                if list(q[1]) != line:
                    return "request %d: header line %r, the stream's next line is %r" % (k, bytes(q[1]), bytes(line))
                if list(q[2]) != payload:
                    return ("request %d (header %r, %d payload bytes): payload delivered %r, the next %d bytes of the connection are %r"
                            % (k, bytes(line), n, bytes(q[2]), n, bytes(payload)))
                if q[3] != (0,) or q[4] != (0,):
                    return "request %d: drain/write status %r %r on a fault-free transport" % (k, q[3], q[4])
                responses += [79, 75, len(payload) % 256, 10]
                r = rest
            else:
                exp = ("eof",) if want == ("none",) else ("err", want[1])
                if tuple(q) != exp:
                    return "request %d: remaining bytes %r give %r, the loop reported %r" % (k, bytes(r), exp, q)
                break
        # bytes after the last payload remain for the next read_frame: buffer unread ++ unpulled == what the segmentation left
        if post[2] is not None and reqs and reqs[-1][0] == "served":
            left = list(post[2]) + m["stream"][pos:]
            if left != r:
                return "after %d requests the buffer holds %r and the transport %r; the segmentation leaves %r" % (len(reqs), bytes(post[2]), bytes(m["stream"][pos:]), bytes(r))
        got = accepted_bytes(list(wlog), m["wsc"])
        if got != responses:
            return "the transport received %r, the responses are %r" % (bytes(got), bytes(responses))
        return None

    def nontrivial(self, case, trace):
        return len(case.meta["stream"]) > 3

    # ---- the tokio half: the same loop over AsyncFixedBuf / AsyncReadWriteChain / AsyncReadWriteTake, any pattern of Pending ----
    def gen_async(self, tier, rng):
        cases = []
        helper = RfProp()
        for st in ([2, 10, 97, 98, 1, 10, 99], [3, 10, 97, 10, 98, 2, 10, 99, 100, 10]):
            comps = list(helper.compositions(len(st)))
            comps = comps[::max(1, len(comps) // (24 if tier == "quick" else 200))]
            for parts in comps:
                base = [(0, k, 0) for k in parts]
                for mask in range(1 << min(len(base) + 1, 4)):
                    rsc = []
                    for j in range(len(base) + 1):
                        if j < 4 and mask >> j & 1:
                            rsc.append((3, 0, 0))
                        if j < len(base):
                            rsc.append(base[j])
                    for dests in ([], [1, 2], [0, 1, 0, 2]):
                        cases.append(mk_srv(8, 0, st, rsc, [], dests, 4, "pending-subsets", fam=26, cancel=[]))
        # payloads read the way read_exact / read_buf do it: one ReadBuf polled until it is full, so the take is polled with
        # already-filled bytes in front (destination codes 128 + d).  The model's drain offers fresh destinations, and the reader's
        # script is consumed differently: these cases are judged by the segmentation checker alone.
        for _ in range(600 if tier == "quick" else 12000):
            size = rng.choice([4, 5, 8, 16, 32])
            nreq = rng.randrange(1, 4)
            st = self.build_stream(rng, size, nreq, rng.choice([size, size + 1, 7, 12]))
            rsc = [(3, 0, 0) if rng.random() < 0.3 else (0, rng.choice([1, 1, 2, 3, 5, U64]), 0) for _ in range(rng.randrange(0, 14))]
            dests = [128 + rng.choice([0, 1, 2, 3, 5, 8, 16, 64]) if rng.random() < 0.8 else rng.choice([0, 1, 2, 8]) for _ in range(rng.randrange(1, 6))]
            c = mk_srv(size, rng.choice([0, 0, 3]), st, rsc, [], dests, nreq + 1, "accumulating-readbuf", fam=26, cancel=[])
            c.meta["nomodel"] = True
            cases.append(c)
        for _ in range(1500 if tier == "quick" else 30000):
            size = rng.choice([4, 5, 8, 16, 32])
            kind = rng.choice([0, 0, 0, 1, 2, 3])
            nreq = rng.randrange(1, 5)
            st = self.build_stream(rng, size, nreq, rng.choice([size, size + 1, 7]))
            if rng.random() < 0.3:
                st = st[:rng.randrange(0, len(st) + 1)]
            rsc = [(3, 0, 0) if rng.random() < 0.35 else (0, rng.choice([1, 1, 2, 3, 5, U64]), 0) for _ in range(rng.randrange(0, 14))]
            wsc = [(3, 0) if rng.random() < 0.3 else (0, rng.choice([1, 2, U64, U64])) for _ in range(rng.randrange(0, 7))]
            dests = [rng.choice([0, 1, 1, 2, 3, 8, 64]) for _ in range(rng.randrange(0, 6))]
            cancel = [rng.choice([0, 1]) for _ in range(rng.randrange(0, 5))]
            cases.append(mk_srv(size, kind, st, rsc, wsc, dests, nreq + 1, "random", fam=26, cancel=cancel))
        return cases

    def extra(self, ctx):
        import random
        from . import build
        from .engine import run_cases, evaluate, write_replay, case_key, shrink_case
        exes = build.cargo_harness("tokio")
        rng = random.Random(ctx["seed"] * 11 + 5)
        cases = self.gen_async(ctx["tier"], rng)
        res = run_cases(self, exes, ctx["drv"], cases, True)
        mism, fails = evaluate(self, cases, res, ctx["drv"], True)
        ctx.setdefault("coverage_extra", {})["tokio_half"] = {
            "cases": len(cases), "mismatches": len(mism), "checker_failures": len(fails),
            "pending_entries": sum(1 for c in cases for t in c.meta["rsc"] if t[0] == 3),
            "sample": cases[len(cases) // 2].line[:300] if cases else ""}
        if fails:
            i, prof, msg = min(fails, key=lambda f: len(cases[f[0]].line))
            c = shrink_case(self, exes, ctx["drv"], cases[i], prof, "fail", True)
            r1 = run_cases(self, exes, ctx["drv"], [c], True)
            _, f1 = evaluate(self, [c], r1, ctx["drv"], True)
            path = write_replay("C07", "tokio-" + case_key(c), {"property": "C07", "kind": "failing-input", "half": "tokio (harness/tokio, family ASRV)",
                                "case": {"line": c.line, "meta": c.meta}, "checker": [f for _, _, f in f1] or [msg],
                                "impl_trace": {p: r1[p][0] for p in r1}})
            ctx["violations"].append((path, False))
        elif mism:
            i, prof, msg = mism[0]
            path = write_replay("C07", "tokio-open-" + case_key(cases[i]), {"property": "C07", "kind": "no-failing-input-found",
                                "half": "tokio (harness/tokio, family ASRV)", "case": {"line": cases[i].line, "meta": cases[i].meta}, "detail": msg})
            ctx["violations"].append((path, True))

    def shrink(self, case):
        m = case.meta
        def mk(**kw):
            d = dict(m); d.update(kw)
            c = mk_srv(d["size"], d["kind"], d["stream"], [tuple(t) for t in d["rsc"]], [tuple(t) for t in d["wsc"]], d["dests"], d["nreq"], "shrunk", fam=d["fam"], cancel=d["cancel"])
            if m.get("nomodel"):
                c.meta["nomodel"] = True
            return c
        if m["nreq"] > 1:
            yield mk(nreq=m["nreq"] - 1)
        for key in ("rsc", "wsc", "dests"):
            for i in range(len(m[key])):
                yield mk(**{key: m[key][:i] + m[key][i + 1:]})
        for i in range(len(m["stream"])):
            yield mk(stream=m["stream"][:i] + m["stream"][i + 1:])

    def histogram(self, cases):
        h = {"src": {}, "size": {}, "plen_kind": {}, "stream_len": {}, "dest_schedules": {}}
        for c in cases:
            m = c.meta
            h["src"][m["src"]] = h["src"].get(m["src"], 0) + 1
            h["size"][str(m["size"])] = h["size"].get(str(m["size"]), 0) + 1
            h["plen_kind"][str(m["kind"])] = h["plen_kind"].get(str(m["kind"]), 0) + 1
            k = str(len(m["stream"]) // 5 * 5) + "+"
            h["stream_len"][k] = h["stream_len"].get(k, 0) + 1
            d = ",".join(map(str, m["dests"][:3])) or "default"
            h["dest_schedules"][d] = h["dest_schedules"].get(d, 0) + 1
        return h
