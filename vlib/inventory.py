# vlib/inventory.py — what lies OUTSIDE function bodies and decides what the names inside them mean (macros, imports, traits and impl
# headers, which trait methods are overridden, type definitions, crate attributes), as dumped by `rs2v ast`.  The translator reads
# bodies under the pinned environment; if the environment of a source file differs from the pinned one, the translation equalities of the
# functions of that file no longer say what they seem to say, and the properties that rely on them report it.
import json, os
from . import build

BASELINE = os.path.join(build.VERIF, "vlib", "items_baseline.json")
# which generated file (= GenEq prefix) a source file feeds
FEEDS = {
    "fixed-buffer/src/lib.rs": ["Fb_", "Es_", "Transfer"],
    "fixed-buffer/src/deframe_line.rs": ["Df_", "Transfer"], "fixed-buffer/src/deframe_crlf.rs": ["Df_", "Transfer"], "fixed-buffer/src/deframe_null.rs": ["Df_", "Transfer"],
    "fixed-buffer/src/escape_ascii.rs": ["Es_"],
    "fixed-buffer/src/read_write_chain.rs": ["Ad_chain", "Transfer"], "fixed-buffer/src/read_write_take.rs": ["Ad_take", "Transfer"],
    "fixed-buffer-tokio/src/lib.rs": ["Tk_"],
    "fixed-buffer-tokio/src/async_read_write_chain.rs": ["Ta_achain"], "fixed-buffer-tokio/src/async_read_write_take.rs": ["Ta_atake"],
    "Cargo.toml": ["Fb_", "Df_", "Es_", "Ad_", "Tk_", "Ta_", "Transfer"],
    "fixed-buffer/Cargo.toml": ["Fb_", "Df_", "Es_", "Ad_", "Transfer"],
    "fixed-buffer-tokio/Cargo.toml": ["Tk_", "Ta_"],
}


MANIFESTS = {"Cargo.toml": None, "fixed-buffer/Cargo.toml": "fixed-buffer", "fixed-buffer-tokio/Cargo.toml": "fixed-buffer-tokio"}
IGNORED_KEYS = ("authors", "categories", "description", "keywords", "license", "readme", "repository", "version", "homepage", "documentation", "name")


def manifest_env(repo):
    """what a manifest says about HOW the sources are compiled (edition, features, dependencies other than dev, profiles, build
    scripts, lib/bin targets, patches), one normalised line per entry; descriptive package metadata and [dev-dependencies] are left out"""
    out = {}
    for rel, crate in MANIFESTS.items():
        p = os.path.join(repo, rel)
        lines, section = [], ""
        if os.path.exists(p):
            for ln in open(p):
                ln = ln.split("#", 1)[0].strip()        # comments (a '#' inside a string value would be cut too: it then shows as a difference)
                if not ln:
                    continue
                if ln.startswith("["):
                    section = ln
                    if not section.startswith("[dev-dependencies"):
                        lines.append("section " + section)
                    continue
                if section.startswith("[dev-dependencies"):
                    continue
                key = ln.split("=", 1)[0].strip()
                if section == "[package]" and key in IGNORED_KEYS:
                    continue
                lines.append("%s %s" % (section, " ".join(ln.split())))
        d = os.path.dirname(p)
        if crate and os.path.exists(os.path.join(d, "build.rs")):
            lines.append("build.rs present")
        out[rel] = lines
    return out


def current(repo=None):
    p = os.path.join(build.BUILD, "tmp", "ast.json")
    if not os.path.exists(p):
        return {}
    env = {"/".join(f["file"].split("/")[-3:]): f["items"].get("env", []) for f in json.load(open(p))}
    env.update(manifest_env(repo or build.REPO))
    return env


def diff():
    """{file: (added, removed)} for the files whose environment differs from the pinned one"""
    base = json.load(open(BASELINE)) if os.path.exists(BASELINE) else {}
    cur = current()
    out = {}
    for f in sorted(set(base) | set(cur)):
        a, b = base.get(f, []), cur.get(f, [])
        added = [x for x in b if x not in a]
        removed = [x for x in a if x not in b]
        if added or removed:
            out[f] = (added, removed)
    return out


def affects(scope):
    """the environment differences that matter to a property with this GEN_SCOPE"""
    import re
    out = {}
    for f, d in diff().items():
        pre = FEEDS.get(f, [])
        if any(n.startswith(p) or n == p for n in scope for p in pre):
            out[f] = d
            continue
        # an inherent method added to the Deref newtype AsyncFixedBuf shadows the FixedBuf method of the same name for every user of the
        # tokio type: that concerns the properties about that FixedBuf method, although their own source file is untouched
        added = [x for x in d[0] if (m := re.match(r"(?:impl-fn \[\]|pub-fn) AsyncFixedBuf.*:: (\w+)$", x)) and ("Fb_" + m.group(1)) in scope]
        if added:
            out[f] = (added, [])
    return out
