# vlib/fam_esc.py — C19: family ESC (code 7) for the free function and the library model of escape_default,
# plus API histories with the method (op 23) and Debug (op 24) forms.
import itertools
from .engine import Prop, Case
from . import fam_api
from .fam_api import ApiProp, mk_case, parse_trace, ops_of, walk, PyBuf, reach_prefixes, rbytes, fmt, dec_bytes


def esc1(b):
    if b == 9: return [92, 116]
    if b == 13: return [92, 114]
    if b == 10: return [92, 110]
    if b in (39, 34, 92): return [92, b]
    if 32 <= b <= 126: return [b]
    return [92, 120] + [ord(c) for c in "%02x" % b]


def esc(d):
    out = []
    for b in d:
        out += esc1(b)
    return out


class C19(ApiProp):
    pid = "C19"
    coq_targets = ["Props/C19.vo"]
    level_text = ("Coq theorems c19_flat_map (never panics; = concatenation of escape_default per byte), c19_printable, c19_self, c19_app, "
                  "c19_decodable / c19_injective (explicit decoder), c19_method and c19_debug (exact Debug text), for every byte list and every "
                  "invariant state. Tie: the library model of core::ascii::escape_default is compared with the real function on all 256 bytes on "
                  "every run; escape_ascii model = implementation on every single byte, pairs, random strings; method/Debug forms through API histories.")
    nontrivial_rule = ("all 256 single bytes (function and library model), all pairs over a 48-byte class alphabet (quick) or all 65536 pairs "
                       "(thorough), random strings; API histories ending in escape_ascii() / Debug; non-trivial = input has a byte needing an "
                       "escape; distinct = distinct (case, trace)")
    relevant_ops = {"EscapeAscii", "Debug"}
    family_doc = "ESC: escape_ascii(bytes) / escape_default(byte); API histories with escape_ascii() and {:?}"

    def gen(self, tier, rng):
        cases = []
        for b in range(256):
            cases.append(Case([7, 1, b], {"fam": "esc", "mode": 1, "d": [b]}))
            cases.append(Case([7, 0, b], {"fam": "esc", "mode": 0, "d": [b]}))
        alpha = list(range(256)) if tier == "thorough" else [0, 7, 9, 10, 13, 27, 31, 32, 33, 34, 39, 47, 48, 57, 65, 90, 91, 92, 93, 97, 120, 122, 125, 126, 127, 128, 129, 159, 160, 191, 192, 223, 224, 226, 239, 240, 247, 248, 253, 254, 255, 1, 8, 11, 12, 14, 96, 64]
        for a, b in itertools.product(alpha, repeat=2):
            cases.append(Case([7, 0, a, b], {"fam": "esc", "mode": 0, "d": [a, b]}))
        cases.append(Case([7, 0], {"fam": "esc", "mode": 0, "d": []}))
        for _ in range(2000 if tier == "quick" else 50000):
            n = rng.randrange(0, 60)
            d = [rng.randrange(256) if rng.random() < 0.5 else rng.choice([92, 39, 34, 10, 13, 9, 65, 32, 126, 127]) for _ in range(n)]
            cases.append(Case([7, 0] + d, {"fam": "esc", "mode": 0, "d": d}))
        for v in fam_api.NOVEL:
            if v > 300000:
                continue
            for n in (v, v + 1, v + 3):
                for fill, pos in ((97, ()), (97, (v - 1, v, v + 1)), (10, ()), (97, (0, v)), (200, (v,))):
                    d = [fill] * n
                    for p in pos:
                        if 0 <= p < n:
                            d[p] = 10 if fill != 10 else 97
                    cases.append(Case([7, 0] + d, {"fam": "esc", "mode": 0, "d": d}))
        # method and Debug forms in reachable states
        for size in (0, 1, 2, 3, 4, 8, 16, 100):
            for _ in range(60 if tier == "quick" else 600):
                pre = []
                b = PyBuf(size, 0, [])
                for _ in range(rng.randrange(0, 5)):
                    k = rng.random()
                    if k < 0.6:
                        n = rng.randrange(0, b.wl() + 1)
                        op = ("WriteBytes", tuple(rng.randrange(256) if rng.random() < 0.6 else rng.choice([92, 34, 39, 10, 0, 127, 255]) for _ in range(n)))
                    elif k < 0.85:
                        op = ("ReadBytes", rng.randrange(0, b.ln() + 1))
                    else:
                        op = ("Shift",)
                    pre.append(op)
                    b.apply(op)
                c = mk_case(size, rng.choice([0, 0, 0, 4, 5, 6]), [], pre + [("EscapeAscii",), ("Debug",), ("Readable",)], "text-forms")
                c.meta["fam"] = "api"
                cases.append(c)
        return cases

    def correspond(self, cases, impl_traces, prof, model_fn):
        out = []
        # the model's escape_ascii appends at the end of a list (quadratic): inputs beyond 8 KiB are judged by the checker alone
        esc_idx = [i for i, c in enumerate(cases) if c.meta.get("fam") == "esc" and len(c.meta["d"]) <= 8192]
        model = model_fn([cases[i].line for i in esc_idx])
        for i, m in zip(esc_idx, model):
            if impl_traces[i] != [int(x) for x in m.split()]:
                out.append((i, "escape: implementation %r, model %r" % (impl_traces[i][:40], m[:120])))
        api_idx = [i for i, c in enumerate(cases) if c.meta.get("fam") != "esc"]
        sub = ApiProp.correspond(self, [cases[i] for i in api_idx], [impl_traces[i] for i in api_idx], prof, model_fn)
        out += [(api_idx[j], d) for j, d in sub]
        return out

    def check(self, case, trace, prof):
        m = case.meta
        if m.get("fam") == "esc":
            if trace == [-1]:
                return "escape of %r panicked" % m["d"]
            want = esc1(m["d"][0]) if m["mode"] == 1 else esc(m["d"])
            got = trace[1:1 + trace[0]] if trace else None
            if got != want:
                return "%s(%r) = %r, concatenation of escape_default is %r" % ("escape_default" if m["mode"] == 1 else "escape_ascii", m["d"], bytes(got or []), bytes(want))
            if any(not (32 <= y <= 126) for y in got):
                return "escape_ascii(%r) contains a non-printable byte" % m["d"]
            return None
        try:
            for i, op, a, b in walk(case, trace):
                if op[0] == "EscapeAscii":
                    if list(b.result) == [-1]:
                        return "op %d escape_ascii() panicked" % i
                    got = dec_bytes(list(b.result))[0]
                    if got != esc(list(a.readable)):
                        return "op %d escape_ascii() = %r but escape_ascii(readable()) = %r" % (i, bytes(got), bytes(esc(list(a.readable))))
                if op[0] == "Debug":
                    if list(b.result) == [-1]:
                        return "op %d Debug panicked" % i
                    got = bytes(dec_bytes(list(b.result))[0])
                    want = b"FixedBuf<%d>{%d writable, %d readable: \"%s\"}" % (m["size"], a.wlen, a.len, bytes(esc(list(a.readable))))
                    if got != want:
                        return "op %d Debug = %r, expected %r" % (i, got, want)
        except (ValueError, IndexError) as e:
            return "malformed trace: %s" % e
        return None

    def project(self, case, trace, prof):
        return tuple(trace)

    def nontrivial(self, case, trace):
        m = case.meta
        if m.get("fam") == "esc":
            return any(not (32 <= b <= 126) or b in (92, 34, 39) for b in m["d"])
        return True

    def shrink(self, case):
        m = case.meta
        if m.get("fam") == "esc":
            d = m["d"]
            for i in range(len(d)):
                nd = d[:i] + d[i + 1:]
                if nd or m["mode"] == 0:
                    yield Case([7, m["mode"]] + nd, {"fam": "esc", "mode": m["mode"], "d": nd})
        else:
            for c in ApiProp.shrink(self, case):
                c.meta["fam"] = "api"
                yield c

    def histogram(self, cases):
        h = {"esc_single": 0, "esc_pairs": 0, "esc_longer": 0, "api_histories": 0}
        for c in cases:
            if c.meta.get("fam") == "esc":
                n = len(c.meta["d"])
                h["esc_single" if n == 1 else "esc_pairs" if n == 2 else "esc_longer"] += 1
            else:
                h["api_histories"] += 1
        return h
