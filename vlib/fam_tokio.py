# vlib/fam_tokio.py — tokio-side families (harness/tokio): APOLL (20) for C17, ARF (22) for C14 and C15.
import itertools
from .engine import Prop, Case
from . import fam_api, fam_rf
from .fam_api import ApiProp, mk_case, walk, fmt, dec_bytes, PyBuf, reach_prefixes, PAN
from .fam_rf import RfProp, spec_next, outcome, STABLE, DFNAME, py_df


# ------------------------------------------------------------------ C17
class C17(ApiProp):
    pid = "C17"
    coq_targets = ["Props/C17.vo"]
    harness = "tokio"
    fam_code = 20
    step_code = 21
    family_doc = "APOLL: histories mixing AsyncRead/AsyncWrite polls on AsyncFixedBuf (hand-made ReadBufs) with Deref'd FixedBuf methods"
    level_text = ("Coq theorems c17_poll_read (always Ready(Ok); appends min(unfilled capacity, len()) unread bytes after the ReadBuf's existing "
                  "contents, which are unchanged; the buffer effect is io::Read's), c17_poll_write (Ready; all-or-nothing; InvalidData when it does "
                  "not fit; the effect is io::Write's), c17_flush_shutdown — for every invariant state and every well-formed ReadBuf (any filled prefix, "
                  "any capacity, initialised or not); hence C01/C03 step relations hold for mixed histories. ReadBuf is a transcription of tokio "
                  "1.53.1. Tie: hand-made ReadBufs with pre-filled prefixes, both constructors, every reachable small state.")
    nontrivial_rule = ("every reachable state of AsyncFixedBuf<0..3> x poll_read with pre-filled prefix lengths 0..2 x capacities 0..3 x "
                       "ReadBuf::new/uninit, poll_write of every length around the free space, flush, shutdown; random mixed histories with Deref'd "
                       "methods; non-trivial = at least one poll; distinct = distinct (case, trace)")

    def gen(self, tier, rng):
        cases = []
        for size in (0, 1, 2, 3):
            for pre in reach_prefixes(size):
                polls = []
                for pk in (0, 1, 2):
                    for cap in (0, 1, 2, 3):
                        for un in (0, 1, 2, 3):     # 2, 3: uninit with 1 / 2 initialised bytes inside the tail
                            polls.append(("PollRead", tuple([35] * pk), cap, un))
                for n in range(0, size + 2):
                    polls.append(("PollWrite", tuple(100 + i for i in range(n))))
                polls += [("PollFlush",), ("PollShutdown",)]
                for op in polls:
                    cases.append(mk_case(size, 0, [], pre + [op, ("Readable",)], "exhaustive-1", fam=20))
                if tier == "thorough" or size <= 2:
                    for op, op2 in itertools.product(polls[::3], polls[1::4]):
                        cases.append(mk_case(size, 0, [], pre + [op, op2], "exhaustive-2", fam=20))
        from . import dictionary, fam_api
        for v in fam_api.NOVEL:
            S = dictionary.size_for(v + 3, dictionary.TSIZES)
            if S is None or (S > 4096 and v not in dictionary.exact()):
                continue
            data = tuple(97 + (i % 26) for i in range(v + 3))
            for n in (v, v + 1, v + 3):
                cases.append(mk_case(S, 0, [], [("PollWrite", data[:n]), ("Len",), ("PollWrite", (1, 2, 3)), ("Len",)], "dictionary", fam=20))
                cases.append(mk_case(S, 0, [], [("WriteBytes", data[:v + 3]), ("PollRead", (), n, 0), ("Len",), ("PollRead", (7,), n, 1), ("Len",)], "dictionary", fam=20))
        for _ in range(3000 if tier == "quick" else 60000):
            size = rng.choice([1, 2, 3, 4, 5, 8, 16, 64])
            ctor_code = rng.choice([0, 0, 0, 0, 0, 0, 4, 5, 5])   # 4 / 5 = new(), writes through poll_write_vectored with one slice / the same slice twice
            b = PyBuf(size, 0, [])
            ops = []
            for _ in range(rng.randrange(1, 12)):
                k = rng.random()
                l, w = b.ln(), b.wl()
                if k < 0.3:
                    cap = rng.choice([0, 1, 2, l, max(l - 1, 0), l + 1, 8])
                    op = ("PollRead", tuple(rng.randrange(256) for _ in range(rng.choice([0, 0, 1, 3]))), cap, rng.choice([0, 0, 1, 1, 2, 3, 5]))
                    b.read(min(cap, l))
                elif k < 0.55:
                    n = rng.choice([0, 1, w, max(w - 1, 0), w + 1])
                    d = tuple(rng.randrange(256) for _ in range(n))
                    op = ("PollWrite", d)
                    b.write(list(d))
                elif k < 0.62:
                    op = rng.choice([("PollFlush",), ("PollShutdown",)])
                elif k < 0.75:
                    n = rng.randrange(0, w + 1)
                    d = tuple(rng.randrange(256) for _ in range(n))
                    op = ("WriteBytes", d); b.write(list(d))
                elif k < 0.88:
                    n = rng.randrange(0, l + 1)
                    op = ("ReadBytes", n); b.read(n)
                elif k < 0.94:
                    op = ("Shift",); b.shift()
                else:
                    op = rng.choice([("ReadAll",), ("Clear",), ("Len",), ("Readable",)]); b.apply(op)
                ops.append(op)
            cases.append(mk_case(size, ctor_code, [], ops, "random", fam=20))
        return cases

    def check(self, case, trace, prof):
        try:
            for i, op, a, b in walk(case, trace):
                n, res = op[0], list(b.result)
                if n == "PollRead":
                    pre, cap = list(op[1]), op[2]
                    if res == PAN:
                        return "op %d poll_read panicked" % i
                    if res[0] != 0:
                        return "op %d poll_read returned %s, must be Ready(Ok(()))" % (i, "Pending" if res[0] == 2 else "Ready(Err)")
                    filled, k = dec_bytes(res, 1)
                    remaining = res[k]
                    m = min(cap, a.len)
                    want = pre + list(a.readable)[:m]
                    if filled != want:
                        return ("op %d poll_read: ReadBuf filled() is %r; existing contents %r followed by min(capacity %d, len %d) unread bytes %r expected"
                                % (i, filled, pre, cap, a.len, list(a.readable)[:m]))
                    if remaining != cap - m:
                        return "op %d poll_read: remaining() = %d, expected %d" % (i, remaining, cap - m)
                    if list(b.readable) != list(a.readable)[m:]:
                        return "op %d poll_read consumed wrongly: %r -> %r" % (i, a.readable, b.readable)
                elif n == "PollWrite":
                    d = list(op[1])
                    if res == PAN or res[0] == 2:
                        return "op %d poll_write %s" % (i, "panicked" if res == PAN else "returned Pending")
                    if len(d) <= a.wlen:
                        if res != [0, len(d)] or list(b.readable) != list(a.readable) + d:
                            return "op %d poll_write of %d bytes with %d writable: result %r, readable %r" % (i, len(d), a.wlen, res, b.readable)
                    else:
                        if res != [1, 1] or (b.len, b.wlen, b.readable) != (a.len, a.wlen, a.readable):
                            return "op %d poll_write of %d bytes with %d writable must fail with InvalidData and change nothing: %r" % (i, len(d), a.wlen, res)
                elif n in ("PollFlush", "PollShutdown"):
                    if res != [0] or (b.len, b.wlen, b.readable) != (a.len, a.wlen, a.readable):
                        return "op %d %s: result %r / state changed" % (i, n, res)
        except (ValueError, IndexError) as e:
            return "malformed trace: %s" % e
        return None

    def nontrivial(self, case, trace):
        return any(o[0].startswith("Poll") for o in case.meta["ops"])

    def shrink(self, case):
        for c in ApiProp.shrink(self, case):
            yield mk_case(c.meta["size"], c.meta["ctor"], c.meta["mem"], fam_api.ops_of(c), "shrunk", fam=20)


# ------------------------------------------------------------------ ARF: C14 / C15
def mk_arf(size, which, pre, preconsume, stream, script, ncalls, mode, cancel, src):
    ints = [22, size, which, len(pre)] + list(pre) + [preconsume, len(stream)] + list(stream) + [len(script)]
    for t in script:
        ints += list(t)
    ints += [ncalls, mode, len(cancel)] + list(cancel)
    return Case(ints, {"size": size, "which": which, "pre": list(pre), "preconsume": preconsume, "stream": list(stream),
                       "script": [list(t) for t in script], "ncalls": ncalls, "mode": mode, "cancel": list(cancel), "src": src})


class ACall:
    __slots__ = ("result", "len", "wlen", "readable", "mem", "pos", "log", "npolls", "npending", "ncancel", "wakes")


def parse_arf(tr):
    """-> (init, async calls, blocking calls)"""
    if -8 not in tr:
        return None, None, None
    if -11 in tr:
        tr = tr[:tr.index(-11)]          # trailing section: calls whose error TEXT differs between the async and the blocking run
    i8 = len(tr) - 1 - tr[::-1].index(-8)
    a, b = tr[:i8], tr[i8 + 1:]
    n = len(a)

    def post(t, i, r):
        i += 1
        r.len = t[i]; i += 1
        r.wlen = t[i]; i += 1
        if t[i] >= 0:
            k = t[i]; r.readable = t[i + 1:i + 1 + k]; i += 1 + k
        else:
            r.readable = None; i += 1
        r.mem = None
        if i < len(t) and t[i] == -5:
            if t[i + 1] >= 0:
                k = t[i + 1]; r.mem = t[i + 2:i + 2 + k]; i += 2 + k
            else:
                i += 2
        return i
    try:
        init = ACall(); init.result = []; init.pos = 0; init.log = []
        i = post(a, 0, init)
        acalls = []
        while i < n:
            i += 1
            c = ACall()
            j = i
            while a[j] != -3:
                j += 1
            c.result = a[i:j]
            i = post(a, j, c)
            c.pos = a[i + 1]; k = a[i + 2]; c.log = a[i + 3:i + 3 + k]; i += 3 + k
            c.npolls, c.npending, c.ncancel, c.wakes = a[i + 1:i + 5]; i += 5
            acalls.append(c)
        bcalls = []
        i = 0
        while i < len(b):
            i += 1
            c = ACall()
            j = i
            while b[j] != -3:
                j += 1
            c.result = b[i:j]
            i = post(b, j, c)
            c.pos = b[i + 1]; k = b[i + 2]; c.log = b[i + 3:i + 3 + k]; i += 3 + k
            bcalls.append(c)
        return init, acalls, bcalls
    except (IndexError, ValueError):
        return None, None, None


class ArfProp(Prop):
    harness = "tokio"
    family_doc = "ARF: AsyncFixedBuf::read_frame / copy_once_from futures polled by hand over a scripted AsyncRead, cancel/restart at pending points; the blocking FixedBuf methods run on the same chunks"
    with_cancel = False
    faults = True

    def view(self, c):
        return (tuple(c.result), tuple(c.readable) if c.readable is not None else None, c.pos)

    def gen_scripts(self, rng, n):
        sc = []
        for _ in range(n):
            x = rng.random()
            if x < 0.35:
                sc.append((3, 0, 0))
            elif self.faults and x < 0.45:
                sc.append((1, rng.choice([1, 2, 3, 4, 5, 6, 7]), 0))
            else:
                sc.append((0, rng.choice([1, 1, 2, 3, 5, 2 ** 64 - 1]), rng.choice([0, 0, 0, 2])))
        return sc

    def gen(self, tier, rng):
        cases = []
        helper = RfProp()
        maxlen = 4 if tier == "quick" else 5
        # every subset of the first k reader polls answered Pending (k = number of chunks), exhaustive for short streams
        for which in (0, 1, 2):
            for st in helper.streams(which, maxlen):
                comps = list(helper.compositions(len(st)))
                for size in ((3, 4) if tier == "quick" else (3, 4, 8)):
                    for parts in (comps if len(comps) <= 4 or (tier == "thorough" and not self.with_cancel) else comps[::2]):
                        base = [(0, k, 0) for k in parts]
                        m = len(base) + 1
                        for mask in range(1 << m):
                            script = []
                            for j in range(m):
                                if mask >> j & 1:
                                    script.append((3, 0, 0))
                                if j < len(base):
                                    script.append(base[j])
                            npend = bin(mask).count("1")
                            if self.with_cancel:
                                # every pending point as a cancellation point, singly (exhaustive) and all together
                                cancels = [[1 if q == p else 0 for q in range(npend)] for p in range(npend)] + ([[1] * npend] if npend > 1 else [])
                            else:
                                cancels = [[]]
                            for cancel in cancels:
                                cases.append(mk_arf(size, which, [], 0, st, script, min(len(st) + 2, 5), 0, cancel, "pending-subsets"))
        # long calls: one frame that needs many reads in a single call (1..3-byte chunks), with Pending sprinkled in;
        # the cancel list is longer than the reader's Pendings so that ANY pending point of the future is a cancellation point
        for _ in range(300 if tier == "quick" else 6000):
            size = rng.choice([32, 64, 64, 256])
            n = rng.randrange(12, min(size, 60))
            st = [rng.choice([97, 98, 99, 120]) for _ in range(n)] + [10] + [rng.choice([97, 10]) for _ in range(rng.randrange(0, 4))]
            script = []
            for _ in range(rng.randrange(n // 2, n + 8)):
                if rng.random() < 0.2:
                    script.append((3, 0, 0))
                script.append((0, rng.choice([1, 1, 1, 2, 3]), 0))
            npend = sum(1 for t in script if t[0] == 3)
            cancel = ([rng.choice([0, 1]) for _ in range(npend)] + [1, 1, 1, 1]) if self.with_cancel else []
            cases.append(mk_arf(size, 0, [], 0, st, script, 3, 0, cancel, "long-call"))
        # search directed by the source: when the tokio crate's source gained literals / narrow types, big buffers and long calls
        from . import dictionary, fam_api
        if fam_api.NOVEL:
            def nm(c):
                c.meta["nomodel"] = True      # the extracted model's deframers are quadratic in the unread length: checkers only
                return c
            for S in (65536, 100000):
                for first in ([111, 107], [97] * 7, [97] * 9):
                    # a tiny first frame, then a frame that fills the buffer exactly (it fits only after compaction)
                    st = first + [10] + [97] * (S - 2) + [10] + [98, 10]
                    for script in ([(0, 2 ** 32, 0)] * 6, [(3, 0, 0), (0, 2 ** 32, 0), (3, 0, 0)] + [(0, 2 ** 32, 0)] * 6, [(0, 4096, 0)] * 40):
                        npend = sum(1 for x in script if x[0] == 3)
                        cases.append(nm(mk_arf(S, 0, [], 0, st, script, 4, 0, ([1] * (npend + 4)) if self.with_cancel else [], "dictionary")))
            # one long frame arriving in many reads of a few sizes, every Pending point a cancellation point
            for S, flen, chunk in ((65536, 60000, 1000), (65536, 65000, 4096), (100000, 99000, 1500)):
                st = [97] * flen + [10] + [98, 99, 10]
                n = flen // chunk + 3
                for pend_every in (0, 7):
                    script = []
                    for i in range(n):
                        if pend_every and i % pend_every == 3:
                            script.append((3, 0, 0))
                        script.append((0, chunk, 0))
                    npend = sum(1 for x in script if x[0] == 3)
                    for cancel in ([], [1] * (npend + 8), [0] * 40 + [1] * 60):
                        if cancel and not self.with_cancel:
                            continue
                        cases.append(nm(mk_arf(S, 0, [], 0, st, script, 2, 0, cancel, "dictionary")))
        for _ in range(2500 if tier == "quick" else 60000):
            which = rng.choice([0, 0, 1, 2, 5])
            size = rng.choice([2, 3, 4, 5, 8, 16])
            st = helper.random_stream(rng, which, rng.randrange(0, 30))
            junk = rng.choice([0, 0, 1, 2]); j = rng.randrange(0, 3)
            if junk + j > size:
                junk, j = 0, 0
            j = min(j, len(st))
            script = self.gen_scripts(rng, rng.randrange(0, 14))
            npend = sum(1 for t in script if t[0] == 3)
            cancel = [rng.choice([0, 1]) for _ in range(npend)] if self.with_cancel else []
            cases.append(mk_arf(size, which, [122] * junk + st[:j], junk, st[j:], script, rng.randrange(1, 8), rng.choice([0, 0, 0, 1]), cancel, "random"))
        return cases

    def correspond(self, cases, impl_traces, prof, model_fn):
        out, lines, index = [], [], []
        for ci, c in enumerate(cases):
            init, ac, bc = parse_arf(impl_traces[ci])
            m = c.meta
            if init is None or len(ac) != m["ncalls"]:
                out.append((ci, "implementation trace is malformed"))
                continue
            prev, used, cused = init, 0, 0
            for k, cl in enumerate(ac):
                size = m["size"]
                ok = prev.mem is not None and prev.len is not None and prev.wlen is not None and prev.len >= 0 and prev.wlen >= 0 and len(prev.mem) == size
                if ok:
                    wi = size - prev.wlen
                    ri = wi - prev.len
                    ok = 0 <= ri <= wi <= size
                if ok:
                    srest = m["stream"][prev.pos:]
                    scr = m["script"][used:]
                    can = m["cancel"][cused:]
                    ints = [25, size, ri, wi] + list(prev.mem) + [m["which"], len(srest)] + srest + [len(scr)]
                    for t in scr:
                        ints += list(t)
                    ints += [m["mode"], len(can)] + can
                    lines.append(" ".join(map(str, ints)))
                    index.append((ci, k, cl, prev.pos))
                used += len(cl.log)
                cused += cl.npending
                prev = cl
        uniq = sorted(set(lines))
        mm = dict(zip(uniq, model_fn(uniq)))
        bad = set()
        for ln, (ci, k, cl, base) in zip(lines, index):
            if ci in bad:
                continue
            mt = [int(x) for x in mm[ln].split()]
            _, mc, _ = parse_arf([-3, 0, 0, 0] + mt + [-8])
            if not mc:
                out.append((ci, "call %d: model produced no record" % k)); bad.add(ci); continue
            mc[0].pos += base
            va = self.view(cl) + (cl.npolls, cl.npending, cl.ncancel)
            vm = self.view(mc[0]) + (mc[0].npolls, mc[0].npending, mc[0].ncancel)
            if va != vm:
                out.append((ci, "call %d: implementation %r, model %r" % (k, va, vm)))
                bad.add(ci)
        return out

    def check(self, case, trace, prof):
        m = case.meta
        init, ac, bc = parse_arf(trace)
        if init is None:
            return "malformed trace"
        if len(ac) != len(bc):
            return "async and blocking runs made a different number of calls"
        if -11 in trace:
            j = trace.index(-11)
            if trace[j + 1] > 0 and not m.get("cancel"):
                return ("call %d: the async fn and the blocking FixedBuf method returned errors of the same kind with different text "
                        "(io::Error::to_string() differs)" % trace[j + 2])
        total_pend = 0
        for k, (x, y) in enumerate(zip(ac, bc)):
            if self.view(x) != self.view(y):
                return ("call %d: the async %s gave (result, unread, reader position) = %r; the blocking FixedBuf method on the same chunks gave %r%s"
                        % (k, "read_frame" if m["mode"] == 0 else "copy_once_from", self.view(x), self.view(y),
                           " (cancelled %d time(s) at pending points)" % x.ncancel if x.ncancel else ""))
            # a poll reports Pending only if the reader reported Pending during that same poll: polls = pendings + 1 (+0 per restart)
            if x.result != [-1] and x.npolls != x.npending + 1:
                return "call %d: %d polls for %d reader Pendings: a poll returned Pending although the reader did not" % (k, x.npolls, x.npending)
            total_pend += x.npending
            if x.wakes != total_pend:
                return "call %d: %d wake-ups registered for %d Pendings" % (k, x.wakes, total_pend)
        return None

    def nontrivial(self, case, trace):
        return any(t[0] == 3 for t in case.meta["script"])

    def shrink(self, case):
        m = case.meta
        def mk(**kw):
            d = dict(m); d.update(kw)
            return mk_arf(d["size"], d["which"], d["pre"], d["preconsume"], d["stream"], [tuple(t) for t in d["script"]], d["ncalls"], d["mode"], d["cancel"], "shrunk")
        if m["ncalls"] > 1:
            yield mk(ncalls=m["ncalls"] - 1)
        for i in range(len(m["script"])):
            yield mk(script=m["script"][:i] + m["script"][i + 1:])
        for i in range(len(m["stream"])):
            yield mk(stream=m["stream"][:i] + m["stream"][i + 1:])
        for i in range(len(m["cancel"])):
            if m["cancel"][i]:
                yield mk(cancel=m["cancel"][:i] + [0] + m["cancel"][i + 1:])
        if m["pre"] and m["preconsume"] > 0:
            yield mk(pre=m["pre"][1:], preconsume=m["preconsume"] - 1)

    def histogram(self, cases):
        h = {"src": {}, "pendings_per_case": {}, "cancelled_cases": 0, "faults": 0, "mode": {"read_frame": 0, "copy_once_from": 0}, "size": {}}
        for c in cases:
            m = c.meta
            h["src"][m["src"]] = h["src"].get(m["src"], 0) + 1
            np_ = sum(1 for t in m["script"] if t[0] == 3)
            h["pendings_per_case"][str(min(np_, 6))] = h["pendings_per_case"].get(str(min(np_, 6)), 0) + 1
            if any(m["cancel"]):
                h["cancelled_cases"] += 1
            h["faults"] += sum(1 for t in m["script"] if t[0] in (1, 2))
            h["mode"]["read_frame" if m["mode"] == 0 else "copy_once_from"] += 1
            h["size"][str(m["size"])] = h["size"].get(str(m["size"]), 0) + 1
        return h


class C14(ArfProp):
    pid = "C14"
    coq_targets = ["Props/C14.vo"]
    level_text = ("Coq theorems over the MODELLED lowering of the two async fns (Model/TokioAsync.v: one await in one loop, future = Start | "
                  "AtAwait(view); prefix and suffix re-translated from the source on every run, GenEq/Tk_*): c14_same_loop (the translated blocking "
                  "loop body = async prefix; blocking read; async suffix), c14_pending_invisible (driven to completion under ANY placement of "
                  "Pending and any cancellation the async fn equals the loop in which the reader is polled until ready: same result, buffer, "
                  "reader state), c14_blocking_is_read_frame + c14_async_equals_blocking (that loop IS the translated blocking "
                  "FixedBuf::read_frame run against the std::io::Read obtained by polling the AsyncRead until ready, for readers that leave the "
                  "buffer alone when they deliver nothing; hence C02, C06, C12 transfer), c14_async_gets_next (composed with C02: under any Pending "
                  "placement and cancellation the async read_frame returns next(unread ++ unpulled) for a reader that, polled until ready, is a "
                  "chunk-schedule transport up to a state map; worked instance with a pending transport in Facets/C14Example.v), c14_pending_keeps_bytes (a Pending poll leaves indices "
                  "and unread bytes untouched; the only suspension point is the reader's Pending); c14_copy_once_pending_invisible / "
                  "c14_copy_once_blocking: the same for copy_once_from (Facets/AsyncCo.v). "
                  "Tie: real futures polled by hand with Waker counting; every subset of reader polls answered Pending for short scenarios; the "
                  "blocking FixedBuf methods run on the same chunks in the same process as the oracle.")
    nontrivial_rule = ("every composition of every short stream into chunks x EVERY subset of reader polls answered Pending, random larger scenarios "
                       "with reader errors and copy_once_from; polls, reader Pendings and wake-ups are counted; non-trivial = at least one Pending")


class C15(ArfProp):
    pid = "C15"
    coq_targets = ["Props/C15.vo"]
    with_cancel = True
    level_text = ("Coq theorems c15_cancel_invisible (read_frame) and c15_copy_once_cancel_invisible (copy_once_from) over the modelled lowering: for every schedule and EVERY set of pending points at which the "
                  "future is dropped and a new call started, result, unread bytes and reader state equal those of the uncancelled (blocking) run; the "
                  "key lemma is that the state at the await is a fixed point of the loop prefix (restart re-runs deframe, an idempotent shift, and "
                  "offers the same view). Tie: every pending point of every short scenario as a cancellation point (singly exhaustive, plus all "
                  "at once, plus random), real futures dropped and re-created.")
    nontrivial_rule = ("C14's scenarios with every pending point used as a cancellation point: singly (exhaustive), all together, and random subsets; "
                       "non-trivial = at least one cancellation; distinct = distinct (case, trace)")

    def nontrivial(self, case, trace):
        return any(case.meta["cancel"])
