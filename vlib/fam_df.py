# vlib/fam_df.py — family DF (code 1): `1 which b0 b1 ...` -> `0 | 1 a b n | 2 | -1`.  Property C05.
import itertools
from .engine import Prop, Case

ALPHA = [97, 13, 10, 0, 255]
NAMES = {0: "deframe_line", 1: "deframe_crlf", 2: "deframe_null"}


def spec(which, d):
    """the C05 statement as a reference function: (a, b, n) or None"""
    if which == 0:
        for i, x in enumerate(d):
            if x == 10:
                return (0, i - 1 if i > 0 and d[i - 1] == 13 else i, i + 1)
        return None
    if which == 1:
        for i in range(1, len(d)):
            if d[i - 1] == 13 and d[i] == 10:
                return (0, i - 1, i + 1)
        return None
    for i, x in enumerate(d):
        if x == 0:
            return (0, i, i + 1)
    return None


class C05(Prop):
    pid = "C05"
    coq_targets = ["Props/C05.vo"]
    harness = "sync"
    level_text = ("Coq theorems c05_line / c05_crlf / c05_null / c05_facts: for every byte list and both overflow profiles the model of each "
                  "deframer returns exactly the first-terminator answer, never errs or panics, and is prefix-stable, local and minimal "
                  "(df_first_facts, also the contract record C02/C06/C07 consume). Tie: model and compiled crate (dev+release) agree on all "
                  "strings up to a length bound over a terminator-rich alphabet plus random long strings over all 256 values.")
    family_doc = "DF: deframer(which, bytes) -> return value"
    nontrivial_rule = ("exhaustive byte strings up to a length bound over {a,CR,LF,NUL,0xFF} for each of the three deframers, "
                       "plus random strings over all 256 values (terminator-weighted, length <= 300); "
                       "non-trivial = input contains at least one CR, LF or NUL; distinct = distinct (deframer, input)")

    def gen(self, tier, rng):
        cases = []
        maxlen = 5 if tier == "quick" else 7
        for which in (0, 1, 2):
            for n in range(maxlen + 1):
                for t in itertools.product(ALPHA, repeat=n):
                    cases.append(Case([1, which] + list(t), {"which": which, "d": list(t), "src": "exhaustive"}))
        nrand = 3000 if tier == "quick" else 60000
        for _ in range(nrand):
            which = rng.randrange(3)
            n = rng.choice([1, 2, 3, 8, 17, 64, 255, 256, 257, 300]) if rng.random() < 0.3 else rng.randrange(0, 40)
            p = rng.choice([0.02, 0.1, 0.3])
            d = [rng.choice([13, 10, 0]) if rng.random() < p else rng.randrange(256) for _ in range(n)]
            cases.append(Case([1, which] + d, {"which": which, "d": d, "src": "random"}))
        # search directed by the source (vlib/dictionary.py): byte values the current source mentions and the pinned one does not
        # join the alphabet (strings up to 9 bytes: a whole machine word plus one), and block sizes it mentions decide where
        # terminators are placed in long inputs (every alignment around each multiple of the block)
        from . import fam_api, dictionary
        nov = list(fam_api.NOVEL)
        if nov:
            newbytes = [b for b in dictionary.exact() + nov if b < 256 and b not in (13, 10, 0, 97)][:2]
            for nb in newbytes:
                al = [97, 13, 10, nb]
                for which in (0, 1, 2):
                    for n in range(3, 9):
                        for t in itertools.product(al, repeat=n):
                            if nb in t:
                                cases.append(Case([1, which] + list(t), {"which": which, "d": list(t), "src": "dictionary"}))
            # bytes one bit / one step away from a terminator, placed next to terminators (word-at-a-time scans go wrong there)
            near = sorted(set(x for t in (13, 10, 0) for x in (t - 2, t - 1, t + 1, t + 2, t ^ 1, t ^ 2, t ^ 4, t ^ 8, t ^ 0x80, t | 0x20) if 0 <= x < 256 and x not in (13, 10, 0)))
            for which in (0, 1, 2):
                for nb in near:
                    for k in range(0, 18):
                        for pat in ([13, nb, 10], [nb, 10], [13, nb], [nb, 13, 10], [13, 10, nb], [nb, 0], [0, nb], [nb]):
                            for j in (0, 1):
                                d = [97] * k + pat + [98] * j
                                cases.append(Case([1, which] + d, {"which": which, "d": d, "src": "dictionary"}))
            blocks = sorted(set([8, 16, 64] + [v for v in nov if 4 <= v <= 4096]))[:8]
            for which in (0, 1, 2):
                term = {0: [[10], [13, 10]], 1: [[13, 10]], 2: [[0]]}[which]
                for blk in blocks:
                    for mult in (1, 2, 3):
                        for off in range(-9, 10):
                            p = blk * mult + off
                            if p < 0 or p > 9000:
                                continue
                            for tm in term:
                                for fill in (97, 13):
                                    d = [fill] * p + tm + [98] * 5
                                    cases.append(Case([1, which] + d, {"which": which, "d": d, "src": "dictionary"}))
        self.exhaustive_maxlen = maxlen
        return cases

    def check(self, case, trace, prof):
        which, d = case.meta["which"], case.meta["d"]
        want = spec(which, d)
        if trace == [-1]:
            return "%s panicked on %r (%s profile)" % (NAMES[which], bytes(d), prof)
        if trace == [2]:
            return "%s returned an error on %r" % (NAMES[which], bytes(d))
        got = None if trace == [0] else (tuple(trace[1:4]) if len(trace) == 4 and trace[0] == 1 else "malformed")
        if got != want:
            return "%s(%r) = %r, the first-terminator rule gives %r" % (NAMES[which], bytes(d), got, want)
        # prefix-stability / locality / minimality follow from equality with `spec` on every input explored
        return None

    def nontrivial(self, case, trace):
        return any(x in (13, 10, 0) for x in case.meta["d"])

    def shrink(self, case):
        d, which = case.meta["d"], case.meta["which"]
        for i in range(len(d)):
            nd = d[:i] + d[i + 1:]
            yield Case([1, which] + nd, {"which": which, "d": nd, "src": "shrunk"})
        for i in range(len(d)):
            if d[i] not in (13, 10, 0, 97):
                nd = d[:i] + [97] + d[i + 1:]
                yield Case([1, which] + nd, {"which": which, "d": nd, "src": "shrunk"})

    def histogram(self, cases):
        h = {"by_deframer": {}, "by_len": {}, "with_terminator": 0, "src": {}}
        for c in cases:
            m = c.meta
            h["by_deframer"][NAMES[m["which"]]] = h["by_deframer"].get(NAMES[m["which"]], 0) + 1
            k = str(len(m["d"])) if len(m["d"]) <= 8 else ">8"
            h["by_len"][k] = h["by_len"].get(k, 0) + 1
            h["src"][m.get("src", "?")] = h["src"].get(m.get("src", "?"), 0) + 1
            if self.nontrivial(c, None):
                h["with_terminator"] += 1
        h["exhaustive_up_to_len"] = getattr(self, "exhaustive_maxlen", None)
        return h
