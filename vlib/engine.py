# vlib/engine.py — the decision rule of a check (DESIGN §2.3): prove, correspond, audit, search, report.
import hashlib, json, os, random, re, sys, time
from . import build, run, audit

TRUSTED_BASE = [
    "Coq 8.16.1 kernel (coqc, full .vo builds via coq_makefile; vm_compute used, native_compute not used)",
    "Sem/*.v: hand-written semantics of Rust integers (64-bit usize, both overflow profiles), slices, panics, io::Error kinds, loops, collaborators as parameters",
    "tie T1: rs2v ast (syn) + vlib/translate.py (syntax-directed translator with a library table, struct tables and three monad/eta peephole rules) regenerate Gen/*Gen.v from /repo on every run; GenEq/*.v re-prove translated = model per function",
    "tie T1 also compares the items outside function bodies (macros, imports, traits, impl headers and overridden trait methods, type definitions, crate attributes) with the pinned inventory vlib/items_baseline.json: the bodies are read under that environment",
    "tie T2: the extracted model (ExtrOcamlBasic only, no Extract Constant) and the compiled crates run on the same cases in dev and release profiles",
    "harness/ (Rust drivers), mlrun/drv.ml (OCaml driver), vlib/ (generators, comparator, checkers); rustc 1.95; catch_unwind as panic observer",
]


class Case:
    __slots__ = ("line", "meta")

    def __init__(self, line, meta):
        self.line = line if isinstance(line, str) else " ".join(str(x) for x in line)
        self.meta = meta


class Prop:
    """one property's configuration; subclasses / instances fill these in"""
    pid = None
    coq_targets = []          # e.g. ["Props/C05.vo"]
    harness = "sync"
    family_doc = ""
    nontrivial_rule = ""
    extra_assumptions = []
    level = "proof"
    claimed = True
    impl_env = None
    gen_scope = []       # GenEq/<name>: functions re-translated from /repo on every run whose equality with the model this property needs
    pre_make = None      # optional hook run before the Coq build (regenerates Gen/ files from /repo)
    level_text = ""
    level_note = ("Trusted: Coq 8.16.1 kernel; Sem/ (hand-written semantics of Rust integers in both overflow profiles, slices, panics, "
                  "io::Error kinds, collaborators as parameters); the model is tied to the code (T1) by re-translation of the modelled "
                  "functions from /repo on every run (rs2v ast + vlib/translate.py -> Gen/*.v) with per-function equalities GenEq/*.v "
                  "re-proved, where the function is in the translated subset, and the property's theorems restated about the regenerated "
                  "definitions (GenEq/ApiSource.v, RfSource.v, Transfer.v, SrcC<nn>.v) re-checked on every run, and (T2) by correspondence, i.e. differential execution on "
                  "generated cases in both cargo profiles; extraction via ExtrOcamlBasic; translator, harness, generators and checkers. "
                  "No axioms (Print Assumptions: closed under the global context).")
    technique = "Coq proof over an executable model; model regenerated from the source by a translator and re-proved equal (T1) + model/implementation correspondence (differential execution, dev+release) (T2)"

    def gen(self, tier, rng):            # -> list[Case]
        raise NotImplementedError

    def project(self, case, trace, prof):      # what is compared between model and implementation
        return trace

    def check(self, case, trace, prof):  # property checker on an implementation trace: None or message
        return None

    def correspond(self, cases, impl_traces, prof, model_fn):
        """default tie: run the model on the whole case and compare projected traces"""
        model = model_fn([c.line for c in cases])
        out = []
        for i, c in enumerate(cases):
            if self.project(c, impl_traces[i], prof) != self.project(c, run.ints(model[i]), prof):
                out.append((i, "implementation and model traces differ"))
        return out

    def nontrivial(self, case, trace):
        return True

    def shrink(self, case):              # yields smaller candidate cases
        return []

    def histogram(self, cases):
        return {}

    def extra(self, ctx):                # additional per-property steps; may append to ctx['violations']
        pass


def load_known():
    path = os.path.join(build.VERIF, "known_findings.txt")
    opened, fixed = [], []
    if os.path.exists(path):
        for ln in open(path):
            ln = ln.strip()
            if ln.startswith("open:"):
                m = re.match(r"open:\s+property=(\S+)\s+key=(\S+)\s*(.*)", ln)
                if m:
                    opened.append((m.group(1), m.group(2), m.group(3)))
            elif ln.startswith("fixed:"):
                fixed.append(ln)
    return opened, fixed


def case_key(case):
    return hashlib.sha1(case.line.encode()).hexdigest()[:16]


def corpus_cases(pid):
    d = os.path.join(build.VERIF, "corpus")
    out = []
    fn = os.path.join(d, pid + ".jsonl")
    if os.path.exists(fn):
        for ln in open(fn):
            ln = ln.strip()
            if ln:
                j = json.loads(ln)
                out.append(Case(j["line"], j.get("meta", {})))
    return out


def write_replay(pid, name, obj):
    d = os.path.join(build.VERIF, "replays")
    os.makedirs(d, exist_ok=True)
    path = os.path.join(d, "%s-%s.json" % (pid, name))
    with open(path, "w") as f:
        json.dump(obj, f, indent=1)
    return path


def run_cases(P, exes, drv, cases, model_ok=True, profs=("debug", "release")):
    """implementation traces per profile"""
    lines = [c.line for c in cases]
    env = dict(build.ENV, **P.impl_env) if getattr(P, 'impl_env', None) else None
    return {prof: run.run_impl(exes[prof], lines, env) for prof in profs}


MODEL_FAILURES = []


def evaluate(P, cases, res, drv, model_ok=True):
    """check + correspond; returns (mismatches, failures) as lists of (case_index, prof, detail)"""
    mism, fails = [], []
    for prof in res:
        impl = res[prof]
        traces = [run.ints(t) for t in impl]
        for i, c in enumerate(cases):
            msg = P.check(c, traces[i], prof)
            if msg:
                fails.append((i, prof, msg))
        if model_ok:
            chk = prof == "debug"
            try:
                # cases flagged "nomodel" (inputs on which the extracted model is quadratic) are judged by the checkers alone
                idx = [i for i, c in enumerate(cases) if not c.meta.get("nomodel")]
                for j, detail in P.correspond([cases[i] for i in idx], [traces[i] for i in idx], prof, lambda lines: run.run_model(drv, chk, lines)):
                    mism.append((idx[j], prof, detail))
            except build.BuildError as ex:
                # the extracted model itself failed (resource exhaustion on a huge case): the checkers still judge the implementation
                MODEL_FAILURES.append({"kind": "model-run", "what": ex.what, "log": ex.log[-500:]})
    return mism, fails


def shrink_case(P, exes, drv, case, prof, mode, model_ok=True):
    """greedy, batched: evaluate all shrink candidates of the current case at once, move to the first
    that still fails the checker (mode 'fail') / still differs from the model (mode 'mism')"""
    cur = case
    if len(case.line) > 60000:
        return cur                     # a huge directed case is reported as it is
    t_end = time.time() + 45          # shrinking is a convenience: bounded, so that huge directed cases cannot stall a check
    for _ in range(80):
        if time.time() > t_end:
            break
        cands = list(P.shrink(cur))[:400 if len(cur.line) < 20000 else 24]
        if not cands:
            break
        res = run_cases(P, exes, drv, cands, model_ok, profs=(prof,))
        mism, fails = evaluate(P, cands, res, drv, model_ok)
        idxs = sorted(set(i for i, _, _ in (fails if mode == "fail" else mism)))
        if not idxs:
            break
        cur = cands[idxs[0]]
    return cur


def main(P, tier, replay=None):
    t0 = time.time()
    pid = P.pid
    seed = int(os.environ.get("VERIF_SEED", "20260930"))
    rng = random.Random(seed * 1000003 + int(hashlib.sha1(pid.encode()).hexdigest()[:6], 16))
    ctx = {"pid": pid, "tier": tier, "seed": seed, "violations": [], "notes": [], "open_obligations": []}
    ev_path = os.path.join(build.VERIF, "evidence", pid + ".json")
    os.makedirs(os.path.dirname(ev_path), exist_ok=True)

    # ---- 1+2: proofs and executables ----
    proof_ok, model_ok = True, True
    assumptions = {}
    make_log = ""
    exes = drv = None
    with build.lock():
        # tie T1, step 1: re-translate the modelled functions from /repo (also makes sure every generated file _CoqProject lists exists)
        report = None
        try:
            report = build.gen_models()
            ctx["gen_report"] = {f: [list(x) for x in rep if x[1] != "translated"] for f, rep in report.items()}
        except build.BuildError as e:
            ctx["open_obligations"].append({"kind": "translation", "what": e.what, "log": e.log[-3000:]})
        try:
            if P.pre_make:
                P.pre_make(ctx)
            make_log = build.coq_make(targets=P.coq_targets, fresh=P.coq_targets)
            assumptions = audit.parse_assumptions(make_log)
        except build.BuildError as e:
            proof_ok = False
            ctx["open_obligations"].append({"kind": "proof", "what": e.what, "log": e.log[-3000:]})
        # tie T1, step 2: re-check "translated = model" for the functions this property's theorems are about
        tie1 = {}
        if P.gen_scope and report is not None:
            tie1 = build.gen_eq(P.gen_scope)
            for n, err in tie1.items():
                if err is not None:
                    ctx["open_obligations"].append({"kind": "translation", "what": "GenEq/%s.v: the definition regenerated from /repo's source is no longer shown equal to the model definition the theorems are about" % n, "log": err})
        ctx["tie1"] = tie1
        # tie T1, step 3: the bodies were read under the pinned name-resolution environment (macros, imports, traits, impl headers ...)
        if P.gen_scope and report is not None:
            from . import inventory
            for f, (added, removed) in inventory.affects(P.gen_scope).items():
                ctx["open_obligations"].append({"kind": "environment", "what": "items outside function bodies changed in %s: what the unchanged bodies mean may have changed (macro, import, trait or impl that shadows a name; overridden trait method; type definition)" % f,
                                                "log": "added: %s\nremoved: %s" % ("; ".join(x[:300] for x in added), "; ".join(x[:300] for x in removed))})
        # search support: literals the current source adds to the pinned one become boundary values of the generators
        try:
            from . import dictionary, fam_api, fam_rf, fam_adapters, fam_aadapters
            nv = dictionary.novel()
            fam_api.NOVEL[:] = nv; fam_rf.NOVEL[:] = nv; fam_adapters.NOVEL[:] = nv; fam_aadapters.NOVEL[:] = nv
            ctx["novel_literals"] = nv
        except build.BuildError:
            ctx["novel_literals"] = []
        try:
            build.coq_make(targets=["Run/Main.vo"])
            drv = build.ml_driver()
        except build.BuildError as e:
            model_ok = False
            ctx["open_obligations"].append({"kind": "model", "what": e.what, "log": e.log[-3000:]})
        try:
            exes = build.cargo_harness(P.harness) if P.harness else None
        except build.BuildError as e:
            print("ERROR: cannot build the harness against /repo: %s\n%s" % (e.what, e.log[-3000:]))
            sys.exit(2)
    ctx["exes"], ctx["drv"] = exes, drv

    # ---- audit ----
    aud = audit.run_audit(P, assumptions, thorough=(tier == "thorough"), tie1=ctx.get("tie1")) if proof_ok else {"ok": False, "problems": ["proof closure did not build"]}
    if proof_ok and not aud["ok"]:
        ctx["open_obligations"].append({"kind": "audit", "what": "; ".join(aud["problems"])})

    # ---- 3: cases ----
    if replay:
        j = json.load(open(replay))
        if "case" in j:
            cases = [Case(j["case"]["line"], j["case"].get("meta", {}))]
        else:
            # a no-failing-input-found replay names obligations, not an input: say which of them are still open on this tree
            cases = []
            print("replay file names no input; obligations recorded in it:")
            for o in j.get("open_obligations", []):
                print("   - %s: %s" % (o.get("kind"), str(o.get("what"))[:300]))
            print("open on the current tree: %d" % len(ctx["open_obligations"]))
            for o in ctx["open_obligations"]:
                print("   - %s: %s" % (o.get("kind"), str(o.get("what"))[:300]))
    else:
        cases = corpus_cases(pid) + P.gen(tier, rng)
    if P.harness:
        res = run_cases(P, exes, drv, cases, model_ok)
        mism, fails = evaluate(P, cases, res, drv, model_ok)
    else:
        cases, res, mism, fails = [], {"debug": [], "release": []}, [], []
    P.extra(ctx)
    if MODEL_FAILURES and not fails:
        ctx["open_obligations"] += MODEL_FAILURES[:2]

    if replay and cases:
        for prof in ("debug", "release"):
            print("[%s] impl : %s" % (prof, res[prof][0]))
            if model_ok:
                print("[%s] model: %s" % (prof, run.run_model(drv, prof == "debug", [cases[0].line])[0]))
        for i, prof, msg in mism:
            print("[%s] correspondence: %s" % (prof, msg))
        for i, prof, msg in fails:
            print("[%s] property checker: %s" % (prof, msg))

    # ---- 4: decide ----
    opened, fixed = load_known()
    known_printed = set()
    violations = list(ctx["violations"])   # from extra()

    if fails:
        # a concrete failing input on the implementation: shrink the first one per (profile)
        seen = set()
        for i, prof, msg in sorted(fails, key=lambda f: len(cases[f[0]].line))[:6]:
            if len(seen) >= 2:
                break
            c = shrink_case(P, exes, drv, cases[i], prof, "fail", model_ok)
            k = case_key(c)
            if k in seen:
                continue
            seen.add(k)
            kn = [o for o in opened if o[0] == pid and o[1] == k]
            if kn:
                if k not in known_printed:
                    print("KNOWN-FINDING: property=%s %s" % (pid, kn[0][2] or k))
                    known_printed.add(k)
                continue
            r1 = run_cases(P, exes, drv, [c], model_ok)
            _, f1 = evaluate(P, [c], r1, drv, model_ok)
            m1 = {p_: (run.run_model_1(drv, p_ == "debug", c.line) if model_ok else None) for p_ in r1}
            path = write_replay(pid, k, {
                "property": pid, "tier": tier, "seed": seed, "kind": "failing-input",
                "case": {"line": c.line, "meta": c.meta},
                "checker": [f for _, _, f in f1] or [msg],
                "impl_trace": {p: r1[p][0] for p in r1}, "model_trace": m1,
                "replay_cmd": "bin/check %s --replay <this file>" % pid})
            violations.append((path, False))
    elif mism or ctx["open_obligations"]:
        # the tie is broken but no failing input was found
        what = {"property": pid, "tier": tier, "seed": seed, "kind": "no-failing-input-found",
                "open_obligations": ctx["open_obligations"]}
        if mism:
            i, prof, msg = min(mism, key=lambda f: len(cases[f[0]].line))
            c = shrink_case(P, exes, drv, cases[i], prof, "mism", model_ok)
            r1 = run_cases(P, exes, drv, [c], model_ok)
            mm, _ = evaluate(P, [c], r1, drv, model_ok)
            what["correspondence"] = {"stream": P.family_doc, "profile": prof, "n_mismatching_cases": len(mism),
                                      "case": {"line": c.line, "meta": c.meta}, "detail": [d for _, _, d in mm] or [msg],
                                      "impl_trace": {p: r1[p][0] for p in r1},
                                      "model_trace": {p_: run.run_model_1(drv, p_ == "debug", c.line) for p_ in r1}}
            what["case"] = {"line": c.line, "meta": c.meta}
        path = write_replay(pid, "open-" + hashlib.sha1(json.dumps(what, sort_keys=True).encode()).hexdigest()[:10], what)
        violations.append((path, True))

    # ---- evidence ----
    distinct = set()
    for i, c in enumerate(cases):
        tr = res["debug"][i]
        if P.nontrivial(c, run.ints(tr)):
            distinct.add(hashlib.sha1((c.line + "|" + tr).encode()).digest())
    nlem = audit.count_obligations(P.coq_targets + ["GenEq/%s.vo" % n for n in P.gen_scope])
    broken_eq = sum(1 for v in ctx.get("tie1", {}).values() if v is not None)
    sample_idx = sorted(set([0, len(cases) // 2, len(cases) - 1])) if cases else []
    ev = {
        "property_id": pid, "tier": tier, "seed": seed, "level": P.level,
        "coverage": {
            "obligations": nlem["total"], "discharged": (nlem["total"] - broken_eq) if proof_ok else 0,
            "obligation_files": nlem["files"],
            "checker_cmd": "make -C /verif/coq -j16 " + " ".join(P.coq_targets) + "  (coqc 8.16.1, full .vo build)",
            "trusted_base": TRUSTED_BASE + P.extra_assumptions,
            "print_assumptions": aud.get("print_assumptions", {}),
            "audit": aud,
            "tie": "T2 correspondence (model vs compiled crate, both cargo profiles)" + ("; T1: %d function(s) re-translated from /repo by rs2v+translate.py and re-proved equal to the model (GenEq/*.v), %d broken" % (len(ctx.get("tie1", {})), sum(1 for v in ctx.get("tie1", {}).values() if v is not None)) if P.gen_scope else ""),
            "tie_T1": {n: ("equal" if v is None else "BROKEN") for n, v in ctx.get("tie1", {}).items()},
            "tie_T1_untranslated": ctx.get("gen_report", {}),
            "novel_source_literals_used_as_boundary_values": ctx.get("novel_literals", []),
            "evaluations": len(cases) * 2,
            "distinct_nontrivial": len(distinct),
            "rule": P.nontrivial_rule,
            "samples": [{"case": cases[i].line[:400], "meta": cases[i].meta if len(json.dumps(cases[i].meta)) < 600 else "(large)",
                         "impl_trace_debug": res["debug"][i][:400]} for i in sample_idx],
            "input_histogram": P.histogram(cases),
            "mismatches": len(mism), "checker_failures": len(fails),
            "profiles": ["debug (overflow-checks on)", "release (overflow-checks off)"],
        },
        "assumptions": P.extra_assumptions + ctx.get("assumptions_extra", []),
        "wall_s": round(time.time() - t0, 2),
        "violations": len(violations),
    }
    ev["coverage"].update(ctx.get("coverage_extra", {}))
    if getattr(P, "explanation", None):
        ev["coverage"]["explanation"] = P.explanation
    with open(ev_path, "w") as f:
        json.dump(ev, f, indent=1)

    if replay:
        sys.exit(1 if (fails or mism) else 0)
    for path, nf in violations:
        print("VIOLATION property=%s replay=%s%s" % (pid, path, " no-failing-input-found" if nf else ""))
    print("%s %s: %d cases x 2 profiles, %d mismatches, %d checker failures, proof %s, %.1fs" % (
        pid, tier, len(cases), len(mism), len(fails), "ok" if proof_ok else "BROKEN", time.time() - t0))
    sys.exit(1 if violations else 0)
