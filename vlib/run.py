# vlib/run.py — run case lines through an executable (implementation harness or extracted model), sharded.
import os, subprocess, tempfile
from . import build

NSH = 16


def _run_sharded(cmd, lines, env=None):
    if not lines:
        return []
    n = min(NSH, max(1, len(lines) // 50))
    shards = [lines[i::n] for i in range(n)]
    d = tempfile.mkdtemp(prefix="run", dir=os.path.join(build.BUILD, "tmp"))
    procs = []
    for i, sh in enumerate(shards):
        inp = os.path.join(d, "in%d" % i)
        outp = os.path.join(d, "out%d" % i)
        with open(inp, "w") as f:
            f.write("\n".join(sh))
            f.write("\n")
        fi = open(inp)
        fo = open(outp, "w")
        procs.append((subprocess.Popen(cmd, stdin=fi, stdout=fo, stderr=subprocess.PIPE, env=env), fi, fo, outp))
    outs = []
    for p, fi, fo, outp in procs:
        _, err = p.communicate()
        fi.close()
        fo.close()
        if p.returncode != 0:
            raise build.BuildError("runner %s exited %d" % (cmd, p.returncode), err.decode(errors="replace")[-2000:])
        with open(outp) as f:
            outs.append(f.read().split("\n"))
    res = [None] * len(lines)
    for i, o in enumerate(outs):
        for j in range(len(shards[i])):
            res[i + j * n] = o[j] if j < len(o) else ""
    subprocess.run(["rm", "-rf", d])
    return res


def run_impl(exe, lines, env=None):
    os.makedirs(os.path.join(build.BUILD, "tmp"), exist_ok=True)
    return _run_sharded([exe], lines, env)


def run_model(drv, chk, lines):
    os.makedirs(os.path.join(build.BUILD, "tmp"), exist_ok=True)
    return _run_sharded([drv, "1" if chk else "0"], lines)


def ints(line):
    return [int(x) for x in line.split()]
