# vlib/run.py — run case lines through an executable (implementation harness or extracted model), sharded.
import os, resource, subprocess, tempfile
from . import build

NSH = 16


def _big_stack():
    # the extracted model recurses over lists (non-tail-recursive app/firstn/map): long buffers need a deep stack
    try:
        resource.setrlimit(resource.RLIMIT_STACK, (resource.RLIM_INFINITY, resource.RLIM_INFINITY))
    except (ValueError, OSError):
        try:
            soft, hard = resource.getrlimit(resource.RLIMIT_STACK)
            resource.setrlimit(resource.RLIMIT_STACK, (hard, hard))
        except (ValueError, OSError):
            pass


def _run_sharded(cmd, lines, env=None, timeout=None):
    if not lines:
        return []
    n = min(NSH, len(lines), max(1, len(lines) // 50, sum(len(x) for x in lines) // 1000000))
    shards = [lines[i::n] for i in range(n)]
    d = tempfile.mkdtemp(prefix="run", dir=os.path.join(build.BUILD, "tmp"))
    procs = []
    for i, sh in enumerate(shards):
        inp = os.path.join(d, "in%d" % i)
        outp = os.path.join(d, "out%d" % i)
        with open(inp, "w") as f:
            f.write("\n".join(sh))
            f.write("\n")
        fi = open(inp)
        fo = open(outp, "w")
        procs.append((subprocess.Popen(cmd, stdin=fi, stdout=fo, stderr=subprocess.PIPE, env=env, preexec_fn=_big_stack), fi, fo, outp))
    outs = []
    import time as _t
    deadline = _t.time() + timeout if timeout else None
    for p, fi, fo, outp in procs:
        try:
            _, err = p.communicate(timeout=max(1, deadline - _t.time()) if deadline else None)
        except subprocess.TimeoutExpired:
            for q, _fi, _fo, _o in procs:
                q.kill()
            for q, _fi, _fo, _o in procs:
                q.communicate()
            subprocess.run(["rm", "-rf", d])
            raise build.BuildError("runner %s exceeded %d s" % (cmd, timeout), "")
        fi.close()
        fo.close()
        if p.returncode != 0:
            raise build.BuildError("runner %s exited %d" % (cmd, p.returncode), err.decode(errors="replace")[-2000:])
        with open(outp) as f:
            outs.append(f.read().split("\n"))
    res = [None] * len(lines)
    for i, o in enumerate(outs):
        for j in range(len(shards[i])):
            res[i + j * n] = o[j] if j < len(o) else ""
    subprocess.run(["rm", "-rf", d])
    return res


def run_impl(exe, lines, env=None):
    os.makedirs(os.path.join(build.BUILD, "tmp"), exist_ok=True)
    return _run_sharded([exe], lines, env)


def run_model(drv, chk, lines, timeout=None):
    os.makedirs(os.path.join(build.BUILD, "tmp"), exist_ok=True)
    return _run_sharded([drv, "1" if chk else "0"], lines, timeout=timeout)


def run_model_1(drv, chk, line, timeout=60):
    """one case, for a replay file: never let a huge case stall the report"""
    try:
        return run_model(drv, chk, [line], timeout=timeout)[0]
    except build.BuildError as e:
        return "(model trace not computed: %s)" % e.what


def ints(line):
    return [int(x) for x in line.split()]
