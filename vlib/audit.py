# vlib/audit.py — Print Assumptions allowlist, forbidden-token grep, obligation counting, coqchk (thorough).
import os, re, subprocess
from . import build

ALLOWED_AXIOMS = set()   # none: every property theorem must be "Closed under the global context"

FORBIDDEN = re.compile(
    r"\b(Admitted|admit|Axiom|Axioms|Parameter|Parameters|Conjecture|Conjectures|Admit Obligations|"
    r"Unset Guard Checking|Unset Positivity Checking|Unset Universe Checking|bypass_check|Obligation Tactic)\b")
TOPLEVEL_HYP = re.compile(r"^\s*(Variable|Variables|Hypothesis|Hypotheses|Context)\b")


def strip_comments(s):
    out, depth, i = [], 0, 0
    while i < len(s):
        if s.startswith("(*", i):
            depth += 1
            i += 2
        elif s.startswith("*)", i) and depth > 0:
            depth -= 1
            i += 2
        else:
            if depth == 0:
                out.append(s[i])
            elif s[i] == "\n":
                out.append("\n")
            i += 1
    return "".join(out)


def theorem_names(vfile):
    src = strip_comments(open(vfile).read())
    return re.findall(r"Print Assumptions\s+([A-Za-z0-9_']+)\s*\.", src)


def parse_assumptions(_log):
    return {}


def print_assumptions(targets):
    """re-run Print Assumptions for every theorem the Props files list; returns {name: text}"""
    res = {}
    for t in targets:
        if not t.startswith("Props/"):
            continue
        mod = t[:-3].replace("/", ".")
        names = theorem_names(os.path.join(build.COQ, t[:-1]))
        d = os.path.join(build.BUILD, "audit")
        os.makedirs(d, exist_ok=True)
        base = "Audit_" + mod.replace(".", "_")
        fn = os.path.join(d, base + ".v")
        with open(fn, "w") as f:
            f.write("From FB Require Import %s.\n" % mod)
            for n in names:
                f.write('Print Assumptions %s.\n' % n)
        rc, out = build.sh(["coqc", "-Q", build.COQ, "FB", "-Q", d, "Aud", fn], cwd=d)
        if rc != 0:
            res["<error %s>" % mod] = out[-1000:]
            continue
        chunks = re.split(r"(?m)^(?=Closed under the global context|Axioms:)", out)
        chunks = [c.strip() for c in chunks if c.strip()]
        for n, c in zip(names, chunks):
            res[n] = c
        if len(chunks) != len(names):
            res["<error %s>" % mod] = "expected %d Print Assumptions outputs, got %d" % (len(names), len(chunks))
    return res


def print_assumptions_geneq(names):
    """Print Assumptions of the translation equalities that compiled"""
    res = {}
    names = [n for n in names if os.path.exists(os.path.join(build.COQ, "GenEq", n + ".vo"))]
    if not names:
        return res
    d = os.path.join(build.BUILD, "audit")
    os.makedirs(d, exist_ok=True)
    fn = os.path.join(d, "Audit_GenEq_%d.v" % os.getpid())
    with open(fn, "w") as f:
        for n in names:
            f.write("From FB Require GenEq.%s.\nPrint Assumptions FB.GenEq.%s.gen_eq.\n" % (n, n))
    rc, out = build.sh(["coqc", "-Q", build.COQ, "FB", "-Q", d, "Aud", fn], cwd=d)
    for ext in (".v", ".vo", ".glob", ".vok", ".vos"):
        try:
            os.remove(fn[:-2] + ext)
        except FileNotFoundError:
            pass
    if rc != 0:
        return {"<error GenEq>": out[-1000:]}
    chunks = [c.strip() for c in re.split(r"(?m)^(?=Closed under the global context|Axioms:)", out) if c.strip()]
    if len(chunks) != len(names):
        return {"<error GenEq>": "expected %d Print Assumptions outputs, got %d" % (len(names), len(chunks))}
    return {"GenEq.%s.gen_eq" % n: c for n, c in zip(names, chunks)}


def closure(targets):
    """.v files in the dependency closure of the targets (from coq_makefile's dependency file)"""
    dep = os.path.join(build.COQ, ".Makefile.d")
    deps = {}
    if os.path.exists(dep):
        for ln in open(dep):
            if ":" not in ln:
                continue
            lhs, rhs = ln.split(":", 1)
            outs = [x for x in lhs.split() if x.endswith(".vo")]
            ins = [x for x in rhs.split() if x.endswith(".vo")]
            for o in outs:
                deps[o] = ins
    seen, todo = set(), list(targets)
    while todo:
        t = todo.pop()
        if t in seen:
            continue
        seen.add(t)
        todo.extend(deps.get(t, []))
    return sorted(x[:-1] for x in seen if os.path.exists(os.path.join(build.COQ, x[:-1])))


def count_obligations(targets):
    files = closure(targets)
    total, per = 0, {}
    for f in files:
        src = strip_comments(open(os.path.join(build.COQ, f)).read())
        n = len(re.findall(r"(?m)^\s*(Lemma|Theorem|Example|Corollary|Fact|Remark)\s", src))
        if n:
            per[f] = n
            total += n
    return {"total": total, "files": per}


def grep_forbidden(files):
    problems = []
    for f in files:
        src = strip_comments(open(os.path.join(build.COQ, f)).read())
        depth = 0
        for ln_no, ln in enumerate(src.split("\n"), 1):
            if re.match(r"^\s*Section\b", ln):
                depth += 1
            if re.match(r"^\s*End\b", ln) and depth > 0:
                depth -= 1
            m = FORBIDDEN.search(ln)
            if m:
                problems.append("%s:%d: forbidden token %s" % (f, ln_no, m.group(1)))
            if depth == 0 and TOPLEVEL_HYP.match(ln):
                problems.append("%s:%d: Variable/Hypothesis/Context outside a Section" % (f, ln_no))
    return problems


def coqchk(targets):
    mods = ["FB." + t[:-3].replace("/", ".") for t in targets if t.startswith("Props/")]
    rc, out = build.sh(["timeout", "1500", "coqchk", "-Q", build.COQ, "FB", "-o", "-silent"] + mods, cwd=build.COQ)
    m = re.search(r"Axioms:\s*(.*?)(?:\n\s*\n|\Z)", out, re.S)
    ax = m.group(1).strip() if m else "(no Axioms section in coqchk output)"
    return rc, ax, out[-1500:]


def run_audit(P, _assumptions, thorough=False, tie1=None):
    problems = []
    pa = print_assumptions(P.coq_targets)
    pa.update(print_assumptions_geneq([n for n in getattr(P, "gen_scope", []) if tie1 is None or tie1.get(n, "x") is None]))
    for name, text in pa.items():
        if name.startswith("<error"):
            problems.append("Print Assumptions failed: " + text)
        elif not text.startswith("Closed under the global context"):
            axioms = re.findall(r"(?m)^([A-Za-z0-9_.']+)\s*:", text)
            bad = [a for a in axioms if a not in ALLOWED_AXIOMS]
            if bad or not axioms:
                problems.append("theorem %s depends on axioms not in the allowlist: %s" % (name, text[:300]))
    files = closure(P.coq_targets + ["Run/Main.vo"] + ["GenEq/%s.vo" % n for n in getattr(P, "gen_scope", []) if tie1 is None or tie1.get(n, "x") is None])
    problems += grep_forbidden(files)
    res = {"ok": not problems, "problems": problems, "print_assumptions": pa, "files_scanned": len(files)}
    if thorough:
        rc, ax, tail = coqchk(P.coq_targets)
        res["coqchk"] = {"rc": rc, "axioms": ax}
        if rc != 0 or ax not in ("<none>",):
            res["ok"] = False
            res["problems"].append("coqchk: rc=%d axioms=%s" % (rc, ax[:300]))
    return res
