# vlib/translate_fb.py — configuration of the translator for the two crates and emission of coq/Gen/*.v.
#   python3 -m vlib.translate_fb <ast.json> <outdir>
import json, os, sys
from .translate import *

RESERVED = {"len", "mem", "readable", "writable", "wrote", "shift", "clear", "is_empty", "read_bytes", "read_byte", "deframe",
            "new", "empty", "filled", "default", "read_all", "slice", "splice", "view", "ret", "bind", "panic", "fit", "repeat"}


def coq_ty(t, outs=()):
    def base(t):
        if t in ("usize", "u64", "u8", "int"):
            return "Z"
        if t == "bool":
            return "bool"
        if t == "unit":
            return "unit"
        if t in (("slice",), ("mslice",), ("array",), ("string",)):
            return "list Z"
        if t == ("view",):
            return "view"
        if t == ("rb",):
            return "rb"
        if t[0] == "poll":
            return "poll %s" % paren(base(t[1]))
        if t == ("range",):
            return "(Z * Z)"
        if t == ("selfty",):
            return "fb"
        if t[0] == "opt":
            return "option %s" % paren(base(t[1]))
        if t[0] == "res":
            if t[2] == ("err", "io"):
                return "io %s" % paren(base(t[1]))
            return "rres %s unit" % paren(base(t[1]))
        if t[0] == "tuple":
            return "(" + " * ".join(base(x) for x in t[1]) + ")"
        if t[0] == "gen":
            return t[1]
        if t[0] == "err":
            return "ekind" if t[1] == "io" else "unit"
        raise Unsupported("no Coq type for %s" % (t,))
    b = base(t)
    for o in outs:
        b = "(%s * %s)" % (b, base(o))
    return b


def ret_ty(txt, generics=()):
    t = parse_ty(txt, generics)
    def fix(t):
        if t == ("mslice",):
            return ("view",)          # a &mut [u8] returned by a method of FixedBuf points into self.mem
        if isinstance(t, tuple) and t and t[0] in ("opt",):
            return ("opt", fix(t[1]))
        if isinstance(t, tuple) and t and t[0] == "res":
            return ("res", fix(t[1]), t[2])
        return t
    return fix(t)


class Emit:
    def __init__(s, tr):
        s.tr = tr
        s.out = []
        s.report = []        # (function, status, detail)
        s.in_progress = set()

    def param_binder(s, f, p, ty):
        nm = p["name"]
        if ty == ("parsefn",):
            return "(%s : MF (option R))" % nm
        if ty == ("deframer",):
            return "(%s : list Z -> dres)" % nm
        return "(%s : %s)" % (nm, coq_ty(ty))

    def translate_fn(s, file, rust_name, coq_name, cfg, trait=None, self_like=None):
        """cfg: struct, monad ('MF' | 'MW' | 'pure' | ...), lifted, param_types override"""
        label = "%s::%s" % (file, rust_name if not trait else trait + "::" + rust_name)
        try:
            fn = s.tr.find(file, rust_name, trait, self_like)
            if fn["async"] != bool(cfg.get("async")):
                raise Unsupported("async-ness differs from what the model assumes")
            if cfg.get("auto_helpers", True) and cfg.get("struct") is not None and not cfg.get("pure") and "helper" not in cfg:
                cfg = dict(cfg)
                def helper(fnobj, m, free=False, _file=file, _self_like=self_like, _cfg=cfg):
                    """translate self.<m>() / Self::<m>() / <m>() on demand: a non-async inherent method or associated function of the
                    same type, or a free function, in the same file"""
                    if m in s.in_progress:
                        raise Unsupported("recursive method " + m)
                    if free:
                        _self_like = None
                    try:
                        fo = s.tr.find(_file, m, None, _self_like)
                        if free and fo.get("impl_self"):
                            return None
                        for p_ in fo["params"]:
                            if p_["name"] == "self" and not p_.get("ref") and not p_["ty"].replace(" ", "").startswith("Pin<"):
                                # `fn helper(self)` on a Copy type copies the whole buffer onto the stack for every call: the values
                                # are the same, the stack use is not (a 16 MiB buffer overflows it) — not a behaviour-preserving helper
                                raise Unsupported("helper %s takes self by value (copies the buffer)" % m)
                    except Unsupported:
                        return None
                    s.in_progress.add(m)
                    try:
                        sub = {k_: v for k_, v in _cfg.items() if k_ not in ("param_types", "ret_repr", "generic_R", "helper")}
                        rt = s.translate_fn(_file, m, "h_" + m, sub, None, _self_like)
                    finally:
                        s.in_progress.discard(m)
                    if rt is None:
                        raise Unsupported("helper method %s could not be translated" % m)
                    return Sig("h_" + m, rt, world=("world" if _cfg.get("lifted") else "self"), hint="r")
                cfg["helper"] = helper
            f = Fn(s.tr, fn, cfg)
            generics = tuple(g for g in ("R", "F", "RW") if g in fn["generics"])
            binders = []
            for p in fn["params"]:
                if p["name"] == "self":
                    if cfg.get("self_value") or (not p.get("ref") and not p["ty"].replace(" ", "").startswith("Pin<")):
                        f.env["self"] = ("selfval",)
                        binders.append("(self_ : fb)")
                    continue
                ov = cfg.get("param_types", {}).get(p["name"])
                ty = ov if ov else parse_ty(p["ty"], generics)
                if not ov and isinstance(ty, tuple) and ty[:1] == ("ref",) and isinstance(ty[2], tuple) and ty[2][:1] == ("gen",) and cfg.get("lifted"):
                    ty = ("reader",)      # a helper that is handed the caller's reader
                if ty == ("reader",) or ty == ("skip",):
                    f.env[p["name"]] = ty
                    continue
                f.env[p["name"]] = ty
                nm = p["name"]
                if nm in RESERVED:
                    f.sub[nm] = nm + "_"
                    nm = nm + "_"
                if ty in (("mslice",), ("rb",)):
                    f.outs.append(p["name"])
                binders.append(s.param_binder(f, dict(p, name=nm), ty))
            rt = cfg.get("ret_override") or ret_ty(fn["ret"], generics)
            cfg = dict(cfg)
            cfg["ret_err"] = rt[2] if isinstance(rt, tuple) and rt[0] == "res" else None
            f.cfg = cfg
            body = fn["body"]
            impl = "{R} " if "R" in generics and cfg.get("generic_R") else ""
            monad = cfg.get("monad", "MF")
            touch = ("let _ := %s in\n  " % cfg["touch"]) if cfg.get("touch") else ""      # keeps the arity after End Section independent of which section variables the body happens to use
            rty = coq_ty(rt, [f.env[o] for o in f.outs])
            if cfg.get("ret_repr"):
                rty = cfg["ret_repr"][1]
            if cfg.get("async"):
                # one await: prefix (returns inl result | inr awaited-future) and suffix (a function of the future's result)
                is_loop = len(body) == 1 and body[0]["k"] == "Expr" and body[0]["expr"]["k"] == "Loop"
                stmts = body[0]["expr"]["body"] if is_loop else body
                f.ret_mode, f.maybe_vars = "pre", ()
                kend = K((lambda a, t: Ret("None")) if is_loop else (lambda a, t: f.do_return(a)), cheap=True)
                pre = simp(f.seq(stmts, 0, kend))
                if f.post is None:
                    raise Unsupported("async fn without an await")
                q, post = f.post
                bs = " ".join(binders) + (" " if binders else "")
                s.out.append("Definition %s_pre %s: %s (%s + view) :=\n  %s.\n" % (coq_name, bs, monad, rty, touch + render(pre)))
                s.out.append("Definition %s_post (%s : io Z) : %s (option %s) :=\n  %s.\n" % (coq_name, q, monad, paren(rty), touch + render(simp(post))))
            elif cfg.get("pure"):
                c = f.seq(body, 0, K(lambda a, t: Ret(a), cheap=True))
                if not is_pure(c):
                    raise Unsupported("expected a pure function")
                s.out.append("Definition %s %s: %s :=\n  %s.\n" % (coq_name, " ".join(binders) + (" " if binders else ""), rty, touch + c.p))
            elif len(body) == 1 and body[0]["k"] == "Expr" and body[0]["expr"]["k"] == "Loop":
                f.ret_mode, f.maybe_vars = "maybe", ()
                c = simp(f.seq(body[0]["expr"]["body"], 0, K(lambda a, t: Ret("None"), cheap=True)))
                s.out.append("Definition %s_body %s%s: %s (option %s) :=\n  %s.\n" % (coq_name, impl, " ".join(binders) + (" " if binders else ""), monad, paren(rty), touch + render(c)))
                names = " ".join(b.split(":")[0].strip("( ") for b in binders)
                s.out.append("Definition %s (fuel : nat) %s%s: %s (fueled %s) :=\n  loop_fuel fuel (%s_body %s).\n" % (coq_name, impl, " ".join(binders) + (" " if binders else ""), monad, paren(rty), coq_name, names))
            else:
                c = simp(f.seq(body, 0, K(lambda a, t: f.do_return(a, t), cheap=True)))
                s.out.append("Definition %s %s%s: %s %s :=\n  %s.\n" % (coq_name, impl, " ".join(binders) + (" " if binders else ""), monad, paren(rty), touch + render(c)))
            s.report.append((label, "translated", coq_name))
            return rt
        except Unsupported as ex:
            s.out.append("(* %s: NOT TRANSLATED: %s *)\n" % (label, str(ex).replace("*)", "* )")))
            s.report.append((label, "unsupported", str(ex)))
            return None
        except Exception as ex:          # a shape the translator did not anticipate: refuse the function, never guess
            s.out.append("(* %s: NOT TRANSLATED: translator error %s *)\n" % (label, repr(ex).replace("*)", "* )")))
            s.report.append((label, "unsupported", "translator error " + repr(ex)))
            return None


# ------------------------------------------------------------------------------------------ fixed-buffer/src/lib.rs
def reader_read(s, a, t, al, k, hint):
    """reader.read(x) where reader: &mut R (R: std::io::Read) is a parameter of a FixedBuf method"""
    def with_arg(v, tv):
        if tv != ("view",):
            raise Unsupported("reader.read into %s" % (tv,))
        q = s.fresh("q")
        return Bind(q, Op("call_read R %s" % paren(v)), k(q, ("res", "usize", ("err", "io"))))
    return s.expr(al[0], K(with_arg))


LIB[("reader", "read")] = reader_read


def gen_fb(tr, em):
    o = em.out
    o.append("(* GENERATED by rs2v ast + vlib/translate.py from fixed-buffer/src/lib.rs.  Do not edit. *)\n"
             "From FB Require Import Sem.Base Model.Fb.\nOpen Scope Z_scope.\n\nSection G.\nVariable SIZE : Z.\nVariable chk : bool.\nNotation MF := (M fb).\n")
    st = Struct("FixedBuf",
                fields={"read_index": ("get_read_index", "set_read_index", "usize"),
                        "write_index": ("get_write_index", "set_write_index", "usize"),
                        "mem": ("get_mem", None, ("memfield",))})
    pure_cfg = {"struct": st, "pure": True, "touch": "(SIZE, chk)", "record": {"mem": "mem", "read_index": "read_index", "write_index": "write_index"}}
    for nm in ("new", "empty", "filled"):
        em.translate_fn("fixed-buffer/src/lib.rs", nm, nm, pure_cfg, self_like="FixedBuf")
    pure2 = dict(pure_cfg, ctor_calls={"Self::new": ("new", 0)}, record_types={"mem": ("array",)})
    em.translate_fn("fixed-buffer/src/lib.rs", "default", "default", pure2, trait="Default", self_like="FixedBuf")
    em.translate_fn("fixed-buffer/src/lib.rs", "into_inner", "into_inner", pure2, self_like="FixedBuf")
    cfg = {"struct": st, "monad": "MF", "auto_helpers": True, "touch": "(SIZE, chk)"}
    names = {"mem": "mem_"}
    order = ["len", "is_empty", "clear", "mem", "readable", "read_bytes", "read_byte", "try_read_byte", "try_read_bytes", "read_all",
             "read_and_copy_bytes", "try_read_exact", "writable", "wrote", "write_bytes", "write_str", "shift", "try_parse", "deframe"]
    for nm in order:
        c = dict(cfg)
        if nm == "try_parse":
            c["param_types"] = {"f": ("parsefn",)}
            c["generic_R"] = True
        if nm == "deframe":
            c["param_types"] = {"deframer_fn": ("deframer",)}
        cn = names.get(nm, nm)
        rt = em.translate_fn("fixed-buffer/src/lib.rs", nm, cn, c, self_like="FixedBuf")
        if rt is not None:
            hint = {"len": "len", "is_empty": "e", "readable": "readable", "writable": "writable", "mem": "m", "read_bytes": "sl"}.get(nm, "r")
            st.methods[nm] = Sig(cn, rt, hint=hint)
    # trait impls
    for trait, nm, cn in (("std::io::Write", "write", "io_write"), ("std::io::Write", "flush", "io_flush"), ("std::io::Read", "read", "io_read")):
        em.translate_fn("fixed-buffer/src/lib.rs", nm, cn, cfg, trait=trait, self_like="FixedBuf")
    # methods with a reader collaborator
    o.append("Context {RS : Type} (R : Reader RS).\nNotation MW := (M (fb * RS)).\n")
    wcfg = {"struct": st, "monad": "MW", "lifted": True, "auto_helpers": True, "touch": "(SIZE, chk)", "param_types": {"reader": ("reader",), "deframer_fn": ("deframer",)}}
    em.translate_fn("fixed-buffer/src/lib.rs", "copy_once_from", "copy_once_from", wcfg, self_like="FixedBuf")
    # the model represents Result<Option<&[u8]>, io::Error> by the three-constructor type frame_res; to_fr is that bijection
    em.translate_fn("fixed-buffer/src/lib.rs", "read_frame", "read_frame", dict(wcfg, ret_repr=("to_fr", "frame_res")), self_like="FixedBuf")
    o.append("End G.\n")


def gen_deframers(tr, em):
    o = em.out
    o.append("(* GENERATED by rs2v ast + vlib/translate.py from fixed-buffer/src/deframe_*.rs.  Do not edit. *)\n"
             "From FB Require Import Sem.Base.\nOpen Scope Z_scope.\n\nSection G.\nVariable chk : bool.\nNotation MU := (M unit).\n")
    cfg = {"struct": None, "monad": "MU", "touch": "chk"}
    for nm in ("deframe_line", "deframe_crlf", "deframe_null"):
        em.translate_fn("fixed-buffer/src/" + nm + ".rs", nm, nm, cfg)
    o.append("End G.\n")


# ------------------------------------------------------------------------------------------ read_write_chain.rs / read_write_take.rs
def collab_read(op):
    """self.<field>.read(buf) / reader.read(buf): buf is an in/out list; the primitive returns (io::Result<usize>, buf')"""
    def f(s, e, k, hint):
        return s.args(e["args"], lambda av: s.call_sig(Sig(op, ("res", "usize", ("err", "io")), world="prim", hint="q"), av, k, None, False))
    return f


def collab_call(op, ret):
    def f(s, e, k, hint):
        return s.args(e["args"], lambda av: s.call_sig(Sig(op, ret, world="prim", hint="q"), av, k, None, False))
    return f


def set_reader(s, r, krest):
    if r["k"] == "Path" and r["path"] == ["None"]:
        return Bind(None, Op("set_reader_none"), krest())
    raise Unsupported("self.reader = <not None>")


def gen_adapters(tr, em):
    o = em.out
    o.append("(* GENERATED by rs2v ast + vlib/translate.py from fixed-buffer/src/read_write_chain.rs and read_write_take.rs.  Do not edit. *)\n"
             "From FB Require Import Sem.Base Model.Adapters.\nOpen Scope Z_scope.\n\nSection CHAIN.\nContext {R1S RWS : Type}.\n"
             "Variable R1 : Reader R1S.\nVariable R2 : Reader RWS.\nVariable W2 : Writer RWS.\nNotation MC := (M (@cw R1S RWS)).\n")
    chain = Struct("ReadWriteChain",
                   fields={"reader": ("get_reader_is_some", set_reader, ("hasreader",))},
                   fieldops={("read_writer", "read"): collab_read("call_rw_read R2"),
                             ("read_writer", "write"): collab_call("call_rw_write W2", ("res", "usize", ("err", "io"))),
                             ("read_writer", "flush"): collab_call("call_rw_flush W2", ("res", "unit", ("err", "io")))})
    LIB[("readerref", "read")] = lambda s, a, t, al, k, hint: collab_read("call_reader_read R1")(s, {"args": al}, k, hint)
    cfg = {"struct": chain, "monad": "MC"}
    for trait, nm, cn in (("std::io::Read", "read", "chain_read"), ("std::io::Write", "write", "chain_write"), ("std::io::Write", "flush", "chain_flush")):
        em.translate_fn("fixed-buffer/src/read_write_chain.rs", nm, cn, cfg, trait=trait)
    o.append("End CHAIN.\n\nSection TAKE.\nContext {RWS : Type}.\nVariable chk : bool.\nVariable R2 : Reader RWS.\nVariable W2 : Writer RWS.\nNotation MT := (M (@tw RWS)).\n")
    take = Struct("ReadWriteTake",
                  fields={"remaining_bytes": ("get_remaining_bytes", "set_remaining_bytes", "u64")},
                  fieldops={("read_writer", "read"): collab_read("tcall_rw_read R2"),
                            ("read_writer", "write"): collab_call("tcall_rw_write W2", ("res", "usize", ("err", "io"))),
                            ("read_writer", "flush"): collab_call("tcall_rw_flush W2", ("res", "unit", ("err", "io")))})
    cfg = {"struct": take, "monad": "MT"}
    for trait, nm, cn in (("std::io::Read", "read", "take_read"), ("std::io::Write", "write", "take_write"), ("std::io::Write", "flush", "take_flush")):
        em.translate_fn("fixed-buffer/src/read_write_take.rs", nm, cn, cfg, trait=trait)
    o.append("End TAKE.\n")


# ------------------------------------------------------------------------------------------ fixed-buffer-tokio/src/lib.rs
def gen_tokio(tr, em):
    """AsyncFixedBuf derefs to the FixedBuf of the fixed-buffer crate the tokio crate links (the registry copy, which Model/Fb.v
    stands for: see DESIGN section 1), so its method calls are calls of the MODEL's functions, not of Gen/FbGen.v."""
    o = em.out
    o.append("(* GENERATED by rs2v ast + vlib/translate.py from fixed-buffer-tokio/src/lib.rs.  Do not edit. *)\n"
             "From FB Require Import Sem.Base Sem.ReadBuf Model.Fb.\nOpen Scope Z_scope.\n\nSection G.\nVariable chk : bool.\nNotation MF := (M fb).\n")
    st = Struct("AsyncFixedBuf", methods={
        "is_empty": Sig("is_empty", "bool", hint="e"), "len": Sig("len chk", "usize", hint="len"),
        "mem": Sig("mem_", ("slice",), hint="m"), "shift": Sig("shift chk", "unit"), "writable": Sig("writable", ("view",), hint="writable"),
        "wrote": Sig("wrote chk", "unit"), "readable": Sig("readable", ("slice",), hint="readable"),
        "deframe": Sig("deframe chk", ("res", ("opt", ("range",)), ("err", "io")), hint="r")})
    cfg = {"struct": st, "monad": "MF", "async": True, "touch": "chk", "param_types": {"reader": ("reader",), "deframer_fn": ("deframer",)}}
    F = "fixed-buffer-tokio/src/lib.rs"
    em.translate_fn(F, "copy_once_from", "aco", cfg, self_like="AsyncFixedBuf")
    em.translate_fn(F, "read_frame", "arf", dict(cfg, ret_repr=("to_fr", "frame_res")), self_like="AsyncFixedBuf")
    # impl AsyncRead / AsyncWrite for AsyncFixedBuf: `self.get_mut().0` is the inner FixedBuf
    inner = Struct("AsyncFixedBuf", methods={
        "read_and_copy_bytes": Sig("read_and_copy_bytes chk", "usize", hint="q"),
        "write_bytes": Sig("write_bytes chk", ("res", "usize", ("err", "NotEnoughSpaceError")), hint="r")})
    pcfg = {"struct": inner, "monad": "MF", "newtype": True, "touch": "chk", "param_types": {"_cx": ("skip",), "cx": ("skip",)}}
    for nm, cn in (("poll_read", "afb_poll_read"), ("poll_write", "afb_poll_write"), ("poll_flush", "afb_poll_flush"), ("poll_shutdown", "afb_poll_shutdown")):
        em.translate_fn(F, nm, cn, pcfg, trait="tokio::io::AsyncRead" if nm == "poll_read" else "tokio::io::AsyncWrite", self_like="AsyncFixedBuf")
    # constructors of the newtype: AsyncFixedBuf(FixedBuf::new()) etc. (FixedBuf is the registry copy = Model/Fb.v)
    o.append("Variable SIZE : Z.\n")
    ncfg = {"struct": inner, "pure": True, "newtype": True, "touch": "(SIZE, chk)", "record": {},
            "ctor_calls": {"AsyncFixedBuf": (None, None), "Self": (None, None), "FixedBuf::new": ("(new SIZE)", 0),
                           "FixedBuf::empty": ("empty", 1), "FixedBuf::filled": ("(filled SIZE)", 1)}}
    for nm in ("new", "empty", "filled", "into_inner"):
        em.translate_fn(F, nm, "afb_" + nm, ncfg, self_like="AsyncFixedBuf")
    # Deref / DerefMut: every FixedBuf method called on an AsyncFixedBuf goes through these; they must stay the identity
    dcfg = dict(ncfg, self_value=True, ret_override=("selfty",))
    em.translate_fn(F, "deref", "afb_deref", dcfg, trait="std::ops::Deref", self_like="AsyncFixedBuf")
    em.translate_fn(F, "deref_mut", "afb_deref_mut", dcfg, trait="std::ops::DerefMut", self_like="AsyncFixedBuf")
    o.append("End G.\n")


def gen_tokio_adapters(tr, em):
    o = em.out
    o.append("(* GENERATED by rs2v ast + vlib/translate.py from fixed-buffer-tokio/src/async_read_write_chain.rs and async_read_write_take.rs.  Do not edit. *)\n"
             "From FB Require Import Sem.Base Sem.ReadBuf Model.Tokio.\nOpen Scope Z_scope.\n\nSection ACHAIN.\nContext {R1S RWS : Type}.\nVariable chk : bool.\n"
             "Variable R1 : AsyncReader R1S.\nVariable R2 : AsyncReader RWS.\nVariable W2 : AsyncWriter RWS.\nNotation MA := (M (@acw R1S RWS)).\n")
    PR = ("pr",)
    def set_areader(s, r, krest):
        if r["k"] == "Path" and r["path"] == ["None"]:
            return Bind(None, Op("aset_reader_none"), krest())
        raise Unsupported("self.reader = <not None>")
    def poll_read_of(op):
        def f(s, e, k, hint):
            return s.args(e["args"], lambda av: s.call_sig(Sig(op, PR, world="prim", hint="q"), av, k, None, False))
        return f
    def coerce(v, t):
        return "poll_of %s" % paren(v) if t == PR else v
    chain = Struct("AsyncReadWriteChain",
                   fields={"reader": ("aget_reader_is_some", set_areader, ("hasreader",))},
                   fieldops={("read_writer", "poll_read"): poll_read_of("acall_rw R2"),
                             ("read_writer", "poll_write"): collab_call("acall_rw_write W2", ("poll", ("res", "usize", ("err", "io")))),
                             ("read_writer", "poll_flush"): collab_call("acall_rw_flush W2", ("poll", ("res", "unit", ("err", "io")))),
                             ("read_writer", "poll_shutdown"): collab_call("acall_rw_shutdown W2", ("poll", ("res", "unit", ("err", "io"))))})
    LIB[("readerref", "poll_read")] = lambda s, a, t, al, k, hint: poll_read_of("acall_reader R1")(s, {"args": al}, k, hint)
    cfg = {"struct": chain, "monad": "MA", "param_types": {"cx": ("skip",), "_cx": ("skip",)}, "ret_coerce": coerce}
    F = "fixed-buffer-tokio/src/async_read_write_chain.rs"
    for trait, nm, cn in (("AsyncRead", "poll_read", "achain_poll_read"), ("AsyncWrite", "poll_write", "achain_poll_write"),
                          ("AsyncWrite", "poll_flush", "achain_poll_flush"), ("AsyncWrite", "poll_shutdown", "achain_poll_shutdown")):
        em.translate_fn(F, nm, cn, cfg, trait=trait)
    o.append("End ACHAIN.\n\nSection ATAKE.\nContext {RWS : Type}.\nVariable chk : bool.\nVariable R2 : AsyncReader RWS.\nVariable W2 : AsyncWriter RWS.\nNotation MT := (M (@atw RWS)).\n")
    take = Struct("AsyncReadWriteTake",
                  fields={"remaining_bytes": ("aget_remaining", "aset_remaining", "u64")},
                  fieldops={("read_writer", "poll_read"): poll_read_of("atcall_rw R2"),
                            ("read_writer", "poll_write"): collab_call("atcall_rw_write W2", ("poll", ("res", "usize", ("err", "io")))),
                            ("read_writer", "poll_flush"): collab_call("atcall_rw_flush W2", ("poll", ("res", "unit", ("err", "io")))),
                            ("read_writer", "poll_shutdown"): collab_call("atcall_rw_shutdown W2", ("poll", ("res", "unit", ("err", "io"))))})
    cfg = {"struct": take, "monad": "MT", "param_types": {"cx": ("skip",), "_cx": ("skip",)}, "ret_coerce": coerce}
    F = "fixed-buffer-tokio/src/async_read_write_take.rs"
    for trait, nm, cn in (("AsyncRead", "poll_read", "atake_poll_read"), ("AsyncWrite", "poll_write", "atake_poll_write"),
                          ("AsyncWrite", "poll_flush", "atake_poll_flush"), ("AsyncWrite", "poll_shutdown", "atake_poll_shutdown")):
        em.translate_fn(F, nm, cn, cfg, trait=trait)
    o.append("End ATAKE.\n")


def gen_escape(tr, em):
    o = em.out
    o.append("(* GENERATED by rs2v ast + vlib/translate.py from fixed-buffer/src/escape_ascii.rs and FixedBuf::escape_ascii.  Do not edit. *)\n"
             "From FB Require Import Sem.Base Model.Fb Model.Escape.\nFrom FB Require Gen.FbGen.\nOpen Scope Z_scope.\n\nSection G.\nContext {S : Type}.\nNotation MS := (M S).\n")
    em.translate_fn("fixed-buffer/src/escape_ascii.rs", "escape_ascii", "escape_ascii", {"struct": None, "monad": "MS"})
    o.append("End G.\n\nNotation MF := (M fb).\nSection D.\nVariable SIZE : Z.\nVariable chk : bool.\n")
    # FixedBuf::escape_ascii(&self) -> String { escape_ascii(self.readable()) }
    tr.free_fns["escape_ascii"] = Sig("escape_ascii", ("string",), world="free", hint="esc")
    st = Struct("FixedBuf", methods={"readable": Sig("FbGen.readable SIZE chk", ("slice",), hint="readable")})
    em.translate_fn("fixed-buffer/src/lib.rs", "escape_ascii", "fb_escape_ascii", {"struct": st, "monad": "MF", "touch": "(SIZE, chk)"}, self_like="FixedBuf")
    # impl Debug for FixedBuf: fmt(&self, f) = write!(f, "...", SIZE, SIZE - self.write_index, self.len(), self.escape_ascii()); the model's value is the text
    dst = Struct("FixedBuf", fields={"write_index": ("get_write_index", None, "usize"), "read_index": ("get_read_index", None, "usize")},
                 methods={"len": Sig("FbGen.len SIZE chk", "usize", hint="len"), "escape_ascii": Sig("fb_escape_ascii", ("string",), hint="esc")})
    em.translate_fn("fixed-buffer/src/lib.rs", "fmt", "debug_fmt", {"struct": dst, "monad": "MF", "fmt_fn": True, "touch": "(SIZE, chk)", "param_types": {"f": ("skip",)},
                                                                   "ret_override": ("string",)}, trait="core::fmt::Debug", self_like="FixedBuf")
    o.append("End D.\n")


def main(ast_path, outdir):
    ast = json.load(open(ast_path))
    tr = Translator(ast)
    tr.reserved = RESERVED
    reports = {}
    for name, gen in (("FbGen", gen_fb), ("DeframersGen", gen_deframers), ("AdaptersGen", gen_adapters), ("TokioGen", gen_tokio), ("TokioAdaptersGen", gen_tokio_adapters), ("EscapeGen", gen_escape)):
        em = Emit(tr)
        gen(tr, em)
        txt = "\n".join(em.out)
        p = os.path.join(outdir, name + ".v")
        old = open(p).read() if os.path.exists(p) else None
        if old != txt:
            open(p, "w").write(txt)
        reports[name] = em.report
    return reports


if __name__ == "__main__":
    r = main(sys.argv[1], sys.argv[2])
    for f, rep in r.items():
        for x in rep:
            print(f, *x)
