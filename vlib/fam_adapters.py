# vlib/fam_adapters.py — families CH (4) and TK (5): histories of read / write / flush on ReadWriteChain and ReadWriteTake
# over scripted inner objects, run side by side with the REAL std::io::Chain / std::io::Take (variant 2).
# Serves C08, C09 and the blocking half of C13.  Encoding: coq/Run/Adapters.v, harness fam_adapters.rs.
import itertools
from .engine import Prop, Case

U64 = 2 ** 64 - 1


def enc_script(sc):
    out = [len(sc)]
    for t in sc:
        out += list(t)
    return out


def enc_ops(ops):
    out = []
    for op in ops:
        if op[0] == "R":
            out += [0, op[1]]
        elif op[0] == "W":
            out += [1, len(op[1])] + list(op[1])
        else:
            out += [2]
    return out


def mk_chain(s1, sc1, s2, sc2, ws, ops, src, vect=False):
    # variant 2: the crate's adapter and the std type side by side; 3: the same through the single-slice vectored entry points
    ints = [4, 3 if vect else 2, len(s1)] + list(s1) + enc_script(sc1) + [len(s2)] + list(s2) + enc_script(sc2) + enc_script(ws) + enc_ops(ops)
    return Case(ints, {"fam": "chain", "s1": list(s1), "sc1": [list(t) for t in sc1], "s2": list(s2), "sc2": [list(t) for t in sc2],
                       "ws": [list(t) for t in ws], "ops": [list(o) if o[0] != "W" else ["W", list(o[1])] for o in ops], "src": src})


def mk_take(limit, s2, sc2, ws, ops, src, vect=False):
    ints = [5, 3 if vect else 2, limit, len(s2)] + list(s2) + enc_script(sc2) + enc_script(ws) + enc_ops(ops)
    return Case(ints, {"fam": "take", "limit": limit, "s2": list(s2), "sc2": [list(t) for t in sc2], "ws": [list(t) for t in ws],
                       "ops": [list(o) if o[0] != "W" else ["W", list(o[1])] for o in ops], "src": src})


class Rec:
    __slots__ = ("result", "pos1", "log1", "pos2", "log2", "wlog", "allocs")


def parse_half(tr):
    recs, i, n = [], 0, len(tr)
    try:
        while i < n:
            if tr[i] != -2:
                return None
            j = i + 1
            while tr[j] != -6:
                j += 1
            r = Rec()
            r.result = tr[i + 1:j]
            r.pos1 = tr[j + 1]; k = tr[j + 2]; r.log1 = tr[j + 3:j + 3 + k]; j += 3 + k
            if tr[j] != -6:
                return None
            r.pos2 = tr[j + 1]; k = tr[j + 2]; r.log2 = tr[j + 3:j + 3 + k]; j += 3 + k
            if tr[j] != -7:
                return None
            k = tr[j + 1]; r.wlog = tr[j + 2:j + 2 + k]; j += 2 + k
            r.allocs = None
            if j + 1 < n and tr[j] == -4:
                r.allocs = tr[j + 1]; j += 2
            recs.append(r)
            i = j
        return recs
    except IndexError:
        return None


def parse(tr):
    if -8 not in tr:
        return None, None
    i = tr.index(-8)
    return parse_half(tr[:i]), parse_half(tr[i + 1:])


def read_view(r):
    return (tuple(r.result), r.pos1, tuple(r.log1), r.pos2, tuple(r.log2))


def rscripts(rng, n, faults=True):
    sc = []
    for _ in range(n):
        x = rng.random()
        if faults and x < 0.15:
            sc.append((1, rng.choice([3, 4, 5, 6, 7, 1, 2]) + (100 if rng.random() < 0.35 else 0), 0))
        elif x < 0.3:
            sc.append((0, 0, 0))                      # spurious Ok(0)
        else:
            sc.append((0, rng.choice([1, 1, 2, 3, 5, U64]), rng.choice([0, 0, 0, 2])))
    return sc


def wscripts(rng, n):
    sc = []
    for _ in range(n):
        x = rng.random()
        if x < 0.2:
            sc.append((1, rng.choice([3, 4, 5, 6, 7])))
        elif x < 0.5:
            sc.append((0, rng.choice([0, 1, 2])))     # partial / zero write
        else:
            sc.append((0, U64))
    return sc


class AdapterProp(Prop):
    harness = "sync"
    which = "chain"
    with_writes = True

    def correspond(self, cases, impl_traces, prof, model_fn):
        model = model_fn([c.line for c in cases])
        out = []
        for i, c in enumerate(cases):
            mt = [int(x) for x in model[i].split()]
            if self.view(c, impl_traces[i]) != self.view(c, mt):
                out.append((i, "adapter: implementation %r / model %r" % (self.view(c, impl_traces[i]), self.view(c, mt))))
        return out

    def view(self, case, tr):
        a, b = parse(tr)
        if a is None or b is None:
            return ("unparsable",)
        ops = case.meta["ops"]
        va = []
        for op, r in zip(ops, a):
            if op[0] == "R":
                va.append(("R",) + read_view(r) if self.reads_matter else ("R",))
            else:
                va.append((op[0], tuple(r.result), tuple(r.wlog), r.pos1, r.pos2) if self.writes_matter else (op[0],))
        return (tuple(va), tuple(read_view(r) for r in b))

    reads_matter = True
    writes_matter = False

    def nontrivial(self, case, trace):
        return any(o[0] == "R" for o in case.meta["ops"])

    def shrink(self, case):
        m = case.meta
        ops = [tuple(o) if o[0] != "W" else ("W", o[1]) for o in m["ops"]]
        def rebuild(**kw):
            d = dict(m); d.update(kw)
            o2 = [tuple(o) if o[0] != "W" else ("W", o[1]) for o in d["ops"]]
            if m["fam"] == "chain":
                return mk_chain(d["s1"], [tuple(t) for t in d["sc1"]], d["s2"], [tuple(t) for t in d["sc2"]], [tuple(t) for t in d["ws"]], o2, "shrunk")
            return mk_take(d["limit"], d["s2"], [tuple(t) for t in d["sc2"]], [tuple(t) for t in d["ws"]], o2, "shrunk")
        for i in range(len(ops)):
            yield rebuild(ops=m["ops"][:i] + m["ops"][i + 1:])
        for key in ("sc1", "sc2", "ws"):
            if key in m:
                for i in range(len(m[key])):
                    yield rebuild(**{key: m[key][:i] + m[key][i + 1:]})
        for key in ("s1", "s2"):
            if key in m and m[key]:
                yield rebuild(**{key: m[key][:-1]})
        for i, o in enumerate(m["ops"]):
            if o[0] == "R" and o[1] > 1:
                yield rebuild(ops=m["ops"][:i] + [["R", o[1] - 1]] + m["ops"][i + 1:])

    def histogram(self, cases):
        h = {"src": {}, "ops": {"R": 0, "W": 0, "F": 0}, "zero_len_dest": 0, "big_dest": 0, "reader_faults": 0, "spurious_ok0": 0, "limits": {}}
        for c in cases:
            m = c.meta
            h["src"][m["src"]] = h["src"].get(m["src"], 0) + 1
            for o in m["ops"]:
                h["ops"][o[0]] += 1
                if o[0] == "R" and o[1] == 0:
                    h["zero_len_dest"] += 1
                if o[0] == "R" and o[1] > 4096:
                    h["big_dest"] += 1
            for key in ("sc1", "sc2"):
                for t in m.get(key, []):
                    if t[0] in (1, 2):
                        h["reader_faults"] += 1
                    if t[0] == 0 and t[1] == 0:
                        h["spurious_ok0"] += 1
            if "limit" in m:
                k = str(m["limit"]) if m["limit"] < 20 else ("u64::MAX" if m["limit"] == U64 else "large")
                h["limits"][k] = h["limits"].get(k, 0) + 1
        return h


DESTS = [0, 1, 2, 3, 8]
NOVEL = []      # see vlib/dictionary.py


def dictionary_chain():
    cases = []
    for v in NOVEL:
        if v > 70000:
            continue
        for s1 in ([65] * v, [65] * (v + 1), [65, 66]):
            for d in (v, v + 1, max(v - 1, 0)):
                cases.append(mk_chain(s1, [], [99, 100], [], [], [("R", d), ("R", d), ("R", 8), ("R", 8)], "dictionary"))
                cases.append(mk_chain(s1, [(0, max(v, 1), 0)], [99] * min(v + 1, 70000), [(0, max(v, 1), 0)], [], [("R", 8), ("R", d), ("R", d), ("R", d)], "dictionary"))
    return cases


def dictionary_take():
    cases = []
    for v in NOVEL:
        for limit in (v, v + 1, max(v - 1, 0)):
            n = min(v + 2, 70000)
            for d in (8, min(v, 70000), min(v + 1, 70000), min(2 * v, 70000), min(2 * v + 1, 70000), min(4 * v, 70000)):
                cases.append(mk_take(limit, [97 + (i % 26) for i in range(n)], [], [], [("R", d), ("R", d), ("R", 8)], "dictionary"))
                cases.append(mk_take(limit, [97 + (i % 26) for i in range(min(4 * v + 2, 70000))], [], [], [("R", d), ("R", d), ("R", 8)], "dictionary"))
                cases.append(mk_take(limit, [97 + (i % 26) for i in range(n)], [(0, max(min(v, 70000), 1), 0)] * 2, [], [("R", d), ("R", 1), ("R", d)], "dictionary"))
    return cases


class C08(AdapterProp):
    pid = "C08"
    coq_targets = ["Props/C08.vo"]
    family_doc = "CH: read/write/flush histories on ReadWriteChain over two scripted inner objects, with std::io::Chain on the same scripts"
    level_text = ("Coq theorem c08_sim: for ALL inner readers (Section variables), all destination contents and lengths including 0, one "
                  "chain.read equals one std::io::Chain::read under the relation `reader is Some <-> !done_first`: same result, same "
                  "destination bytes, same calls on the same inner reader with the same argument, relation kept (hence all call schedules); "
                  "corollaries c08_second_waits, c08_first_never_again; stream level: c08_stream (a chain of any two readers that deliver a fixed "
                  "remaining sequence in order is again such a reader, of first ++ second) and c08_all_of_first_then_second (read through a take "
                  "with any schedule of destination lengths, 0 included: exactly the first min(n, total) bytes of first ++ second); "
                  "c08_pinned_refuted keeps the pre-fix body's counterexample; GenEq/SrcC08.v restates c08_sim about the regenerated definition. The std "
                  "machine is a transcription of rust-src and is itself compared with the real std::io::Chain in every run.")
    nontrivial_rule = ("pairs of scripted readers (chunks, short reads, spurious Ok(0), errors and panics at every index, EOF) x destination-length "
                       "schedules over {0,1,2,3,8} (exhaustive for short histories) + random incl. lengths > 4096 and interleaved writes; every "
                       "case runs the crate adapter AND the real std::io::Chain; non-trivial = at least one read; distinct = distinct (case, trace)")

    def gen(self, tier, rng):
        cases = []
        firsts = [([65, 66], []), ([65, 66], [(0, 1, 0)]), ([65], [(0, 0, 0)]), ([], []), ([65, 66], [(1, 5, 0)]), ([65, 66], [(0, 1, 0), (1, 3, 0)]), ([65, 66], [(1, 103, 0), (0, 1, 0)]), ([65, 66], [(0, 1, 0), (1, 106, 0)]),
                  ([65, 66], [(2, 0, 0)]), ([65, 66, 67], [(0, 2, 1)])]
        seconds = [([99, 100], []), ([], []), ([99, 100], [(1, 6, 0)]), ([99], [(0, 0, 0), (0, 1, 0)])]
        L = 3 if tier == "quick" else 4
        for (s1, sc1), (s2, sc2) in itertools.product(firsts, seconds):
            for dests in itertools.product(DESTS, repeat=L):
                ops = [("R", d) for d in dests] + [("R", 8), ("R", 8)]
                cases.append(mk_chain(s1, sc1, s2, sc2, [], ops, "exhaustive-dest-schedules"))
        for _ in range(3000 if tier == "quick" else 60000):
            s1 = [rng.randrange(65, 91) for _ in range(rng.randrange(0, 7))]
            s2 = [rng.randrange(97, 123) for _ in range(rng.randrange(0, 7))]
            ops = []
            for _ in range(rng.randrange(1, 9)):
                x = rng.random()
                if x < 0.7:
                    ops.append(("R", rng.choice([0, 0, 1, 2, 3, 8, 8, 300] + ([5000] if rng.random() < 0.1 else []))))
                elif x < 0.9:
                    ops.append(("W", [rng.randrange(256) for _ in range(rng.randrange(0, 5))]))
                else:
                    ops.append(("F",))
            cases.append(mk_chain(s1, rscripts(rng, rng.randrange(0, 6)), s2, rscripts(rng, rng.randrange(0, 6)), wscripts(rng, rng.randrange(0, 4)), ops, "random", vect=rng.random() < 0.2))
        if NOVEL:
            cases += dictionary_chain()
        return cases

    def check(self, case, trace, prof):
        a, b = parse(trace)
        if a is None or b is None:
            return "malformed trace"
        ra = [r for op, r in zip(case.meta["ops"], a) if op[0] == "R"]
        if len(ra) != len(b):
            return "read count mismatch between the adapter and std::io::Chain runs"
        for k, (x, y) in enumerate(zip(ra, b)):
            if read_view(x) != read_view(y):
                return ("read %d: ReadWriteChain gave result/dest %r, first(pos %d, offered %r), second(pos %d, offered %r); std::io::Chain gave %r, "
                        "first(pos %d, offered %r), second(pos %d, offered %r)"
                        % (k, x.result, x.pos1, x.log1, x.pos2, x.log2, y.result, y.pos1, y.log1, y.pos2, y.log2))
        return None


class C09(AdapterProp):
    pid = "C09"
    coq_targets = ["Props/C09.vo"]
    which = "take"
    family_doc = "TK: read/write/flush histories on ReadWriteTake over a scripted inner object, with std::io::Take on the same script"
    level_text = ("Coq theorems c09_read (exact behaviour of one read for any inner object, both profiles), c09_sim (call for call equal to "
                  "std::io::Take for every reader honouring the Read contract, all limits up to u64::MAX), and the named facets "
                  "c09_exhausted_silent, c09_request_bound (inner is offered exactly min(remaining, len) bytes), c09_charge (Ok(n) charges n, Err "
                  "charges 0), c09_dest_suffix_untouched; stream level: c09_stream (over any inner reader that delivers a fixed remaining sequence in "
                  "order and any schedule of destination lengths, 0 included, exactly the first min(n, available) bytes are delivered and every "
                  "later byte stays unread in the inner reader); GenEq/SrcC09.v restates c09_sim about the regenerated definition. The std machine "
                  "is compared with the real std::io::Take in every run.")
    nontrivial_rule = ("limits {0, below, equal, above the stream, u64::MAX} x scripted inner behaviour (chunks, short reads, spurious Ok(0), "
                       "errors/panics at every index, EOF) x destination-length schedules over {0,1,2,3,8} (exhaustive for short histories), random "
                       "incl. lengths up to 65536; every case runs the adapter AND the real std::io::Take; non-trivial = at least one read")

    def gen(self, tier, rng):
        cases = []
        inners = [([97, 98, 99, 100], []), ([97, 98, 99, 100], [(0, 1, 0)]), ([97, 98, 99, 100], [(1, 5, 0)]), ([97, 98, 99, 100], [(0, 2, 0), (1, 3, 0)]),
                  ([97, 98], [(0, 0, 0)]), ([], []), ([97, 98, 99, 100], [(0, 1, 3)]), ([97, 98, 99, 100], [(2, 0, 0)])]
        L = 3 if tier == "quick" else 4
        for (s2, sc2) in inners:
            for limit in (0, 1, 3, 4, 5, U64):
                for dests in itertools.product(DESTS, repeat=L):
                    ops = [("R", d) for d in dests] + [("R", 8)]
                    cases.append(mk_take(limit, s2, sc2, [], ops, "exhaustive-dest-schedules"))
        for _ in range(3000 if tier == "quick" else 60000):
            s2 = [rng.randrange(97, 123) for _ in range(rng.randrange(0, 12))]
            limit = rng.choice([0, 1, 2, len(s2), max(len(s2) - 1, 0), len(s2) + 1, 100, U64, U64 - 1, 2 ** 63])
            ops = []
            for _ in range(rng.randrange(1, 9)):
                x = rng.random()
                if x < 0.7:
                    ops.append(("R", rng.choice([0, 1, 2, 3, 8, 8, 16, 300] + ([5000] if rng.random() < 0.1 else []) + ([65536] if tier == "thorough" and rng.random() < 0.03 else []))))
                elif x < 0.9:
                    ops.append(("W", [rng.randrange(256) for _ in range(rng.randrange(0, 5))]))
                else:
                    ops.append(("F",))
            cases.append(mk_take(limit, s2, rscripts(rng, rng.randrange(0, 7)), wscripts(rng, rng.randrange(0, 4)), ops, "random", vect=rng.random() < 0.2))
        if NOVEL:
            cases += dictionary_take()
        return cases

    def check(self, case, trace, prof):
        a, b = parse(trace)
        m = case.meta
        if a is None or b is None:
            return "malformed trace"
        ra = [(op, r) for op, r in zip(m["ops"], a) if op[0] == "R"]
        if len(ra) != len(b):
            return "read count mismatch between the adapter and std::io::Take runs"
        rem = m["limit"]
        for k, ((op, x), y) in enumerate(zip(ra, b)):
            # the property's own clauses, checked on the adapter's trace
            for cap in x.log2:
                if cap > rem or cap > op[1]:
                    return "read %d: inner was offered %d bytes; remaining allowance %d, destination %d" % (k, cap, rem, op[1])
            if rem == 0 and (x.log2 or x.result[:2] != [0, 0]):
                return "read %d: allowance exhausted yet inner was called / result %r" % (k, x.result[:2])
            if len(x.log2) > 1:
                return "read %d: inner was called %d times in one read" % (k, len(x.log2))
            if x.result and x.result[0] == 0:
                n = x.result[1]
                dest = x.result[3:3 + x.result[2]]
                lim = min(rem, op[1])
                if n > lim:
                    return "read %d: delivered %d bytes with allowance %d" % (k, n, rem)
                if any(v != 221 for v in dest[lim:]):
                    return "read %d: destination bytes past the offered prefix were modified: %r" % (k, dest)
                rem -= n
            if read_view(x) != read_view(y):
                return ("read %d: ReadWriteTake gave %r inner(pos %d, offered %r); std::io::Take gave %r inner(pos %d, offered %r)"
                        % (k, x.result, x.pos2, x.log2, y.result, y.pos2, y.log2))
        return None


class C13sync(AdapterProp):
    """blocking half of C13 (used by the C13 check, which adds the tokio half)"""
    pid = "C13"
    claimed = False
    reads_matter = False
    writes_matter = True

    def gen_sync(self, tier, rng):
        cases = []
        for _ in range(1500 if tier == "quick" else 30000):
            s1 = [rng.randrange(65, 91) for _ in range(rng.randrange(0, 5))]
            s2 = [rng.randrange(97, 123) for _ in range(rng.randrange(0, 5))]
            ops = []
            for _ in range(rng.randrange(1, 9)):
                x = rng.random()
                if x < 0.35:
                    ops.append(("R", rng.choice([0, 1, 2, 8])))
                elif x < 0.8:
                    ops.append(("W", [rng.randrange(256) for _ in range(rng.randrange(0, 6))]))
                else:
                    ops.append(("F",))
            ws = wscripts(rng, rng.randrange(0, 8))
            if rng.random() < 0.5:
                cases.append(mk_chain(s1, rscripts(rng, rng.randrange(0, 4)), s2, rscripts(rng, rng.randrange(0, 4)), ws, ops, "random"))
            else:
                cases.append(mk_take(rng.choice([0, 1, 3, 100, U64]), s2, rscripts(rng, rng.randrange(0, 4)), ws, ops, "random"))
        from . import dictionary
        for v in dictionary.exact():
            if 256 <= v <= 70000:
                for op in (("W", [7]), ("F",)):
                    ops = [op] * (v + 2) + [("W", [1, 2]), ("F",)]
                    cases.append(mk_chain([65], [], [97, 98], [], [], ops, "dictionary"))
                    cases.append(mk_take(5, [97, 98], [], [], ops, "dictionary"))
        return cases

    def check_sync(self, case, trace, prof):
        a, b = parse(trace)
        m = case.meta
        if a is None:
            return "malformed trace"
        ws = [tuple(t) for t in m["ws"]]
        wi = 0
        prev_pos = (0, 0)
        for k, (op, r) in enumerate(zip(m["ops"], a)):
            if op[0] == "R":
                if r.wlog:
                    return "op %d: a read caused a write-side call on the inner object: %r" % (k, r.wlog)
                prev_pos = (r.pos1, r.pos2)
                continue
            act = ws[wi] if wi < len(ws) else (0, U64)
            wi += 1
            if op[0] == "W":
                want_log = [1, len(op[1])] + list(op[1])
                want = [0, min(act[1], len(op[1]))] if act[0] == 0 else ([1, act[1]] if act[0] == 1 else ([-1] if act[0] == 2 else [1, 4]))
            else:
                want_log = [2]
                want = [0] if act[0] == 0 else ([1, act[1]] if act[0] == 1 else ([-1] if act[0] == 2 else [1, 4]))
            if list(r.wlog) != want_log:
                return "op %d %s: inner object saw %r, expected exactly one call %r" % (k, op[0], r.wlog, want_log)
            if list(r.result) != want:
                return "op %d %s: adapter returned %r, inner returned %r" % (k, op[0], r.result, want)
            if r.log1 or r.log2 or (r.pos1, r.pos2) != prev_pos:
                return "op %d %s: a write touched the read side (reader calls %r %r)" % (k, op[0], r.log1, r.log2)
        # reads unaffected by writes: the adapter's reads equal std's reads on the same scripts (std run has no writes)
        ra = [r for op, r in zip(m["ops"], a) if op[0] == "R"]
        if b is not None and len(ra) == len(b):
            for k, (x, y) in enumerate(zip(ra, b)):
                if read_view(x) != read_view(y):
                    return "read %d differs from the run without writes: %r vs %r (writes must not change the read side)" % (k, read_view(x), read_view(y))
        return None
