# vlib/props.py — registry of property checks
from .fam_df import C05
from .fam_api import C01, C03, C04, C10, C11
from .fam_esc import C19
from .fam_rf import C02, C06, C12
from .fam_adapters import C08, C09
from .fam_tokio import C17, C14, C15
from .fam_aadapters import C16, C13
from .fam_srv import C07
from .fam_facts import C18, C20

REGISTRY = {}
for cls in (C05, C01, C03, C04, C10, C11, C19, C02, C06, C12, C08, C09, C17, C14, C15, C16, C13, C07, C18, C20):
    REGISTRY[cls.pid] = cls
