# vlib/props.py — registry of property checks
from .fam_df import C05
from .fam_api import C01, C03, C04, C10, C11
from .fam_esc import C19
from .fam_rf import C02, C06, C12
from .fam_adapters import C08, C09
from .fam_tokio import C17, C14, C15
from .fam_aadapters import C16, C13
from .fam_srv import C07
from .fam_facts import C18, C20

REGISTRY = {}
for cls in (C05, C01, C03, C04, C10, C11, C19, C02, C06, C12, C08, C09, C17, C14, C15, C16, C13, C07, C18, C20):
    REGISTRY[cls.pid] = cls

# tie T1: which re-translated functions (GenEq/<name>.v) each property's theorems are about.  A function's equality also breaks
# when something it calls changes (the regenerated caller refers to the regenerated callee), so only entry points are listed.
# ApiSource, RfSource, Transfer, SrcC<nn>: the property's theorems restated about the regenerated definitions (they depend only on
# equalities already in the property's scope, so they add no alarm of their own).
_API = ["Fb_new", "Fb_empty", "Fb_filled", "Fb_default", "Fb_into_inner", "Fb_len", "Fb_is_empty", "Fb_clear", "Fb_mem_", "Fb_readable", "Fb_read_bytes", "Fb_read_byte",
        "Fb_try_read_byte", "Fb_try_read_bytes", "Fb_read_all", "Fb_read_and_copy_bytes", "Fb_try_read_exact", "Fb_writable", "Fb_wrote",
        "Fb_write_bytes", "Fb_write_str", "Fb_shift", "Fb_try_parse", "Fb_deframe", "Fb_io_write", "Fb_io_flush", "Fb_io_read",
        "Fb_copy_once_from", "Fb_read_frame"]
_DF = ["Df_deframe_line", "Df_deframe_crlf", "Df_deframe_null"]
_READS = ["Fb_read_bytes", "Fb_read_byte", "Fb_try_read_byte", "Fb_try_read_bytes", "Fb_read_all", "Fb_read_and_copy_bytes", "Fb_try_read_exact"]
_AFB = ["Tk_afb_deref", "Tk_afb_deref_mut", "Tk_afb_new", "Tk_afb_empty", "Tk_afb_filled", "Tk_afb_into_inner", "Tk_afb_poll_read", "Tk_afb_poll_write", "Tk_afb_poll_flush", "Tk_afb_poll_shutdown"]
_AAD_R = ["Ta_achain_poll_read", "Ta_atake_poll_read"]
_AAD_W = ["Ta_achain_poll_write", "Ta_achain_poll_flush", "Ta_achain_poll_shutdown", "Ta_atake_poll_write", "Ta_atake_poll_flush", "Ta_atake_poll_shutdown"]
_ASYNC = ["Tk_afb_deref", "Tk_afb_deref_mut", "Tk_arf_pre", "Tk_arf_post", "Tk_aco_pre", "Tk_aco_post"]
GEN_SCOPE = {
    "C01": _API + ["ApiSource"], "C03": _API + ["ApiSource"], "C04": _API + _DF + ["ApiSource"],
    "C02": ["Fb_read_frame", "RfSource", "SrcC05", "Transfer"] + _DF, "C05": _DF + ["SrcC05"], "C06": ["Fb_read_frame", "RfSource", "SrcC06"] + _DF,
    "C07": ["Fb_read_frame", "Fb_io_read", "Ad_chain_read", "Ad_take_read", "SrcC07"] + _DF + _ASYNC + _AAD_R + ["Tk_afb_poll_read"],
    "C08": ["Ad_chain_read", "SrcC08"], "C09": ["Ad_take_read", "SrcC09"],
    "C10": ["Fb_deframe", "Fb_mem_", "SrcC10"] + _DF, "C11": ["Fb_try_parse", "SrcC11"] + _READS,
    "C12": ["Fb_read_frame", "Fb_copy_once_from", "RfSource", "SrcC12"],
    "C13": ["Ad_chain_write", "Ad_chain_flush", "Ad_take_write", "Ad_take_flush"] + _AAD_W + ["SrcC13"],
    "C16": _AAD_R + ["SrcC16"], "C17": _AFB + ["SrcC17"],
    "C14": _ASYNC + ["SrcC14"], "C15": _ASYNC + ["SrcC14"],
    "C19": ["Es_escape_ascii", "Es_fb_escape_ascii", "Es_debug_fmt", "SrcC19"],
}
for _pid, _scope in GEN_SCOPE.items():
    REGISTRY[_pid].gen_scope = _scope
