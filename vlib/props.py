# vlib/props.py — registry of property checks
from .fam_df import C05

REGISTRY = {}
for cls in (C05,):
    REGISTRY[cls.pid] = cls
