# vlib/dictionary.py — "search for a failing input" support: integer literals that appear in the current source of the two
# crates but not in the pinned baseline are fed to the case generators as boundary values (sizes, counts, offsets, lengths,
# limits).  A change that special-cases a magic value is then exercised AT that value instead of being reported without an
# input.  On the unchanged tree the set is empty and no extra case is generated.
import json, os
from . import build

BASELINE = os.path.join(build.VERIF, "vlib", "literals_baseline.json")
HSIZES = [0, 1, 2, 3, 4, 5, 6, 7, 8, 9, 10, 12, 16, 17, 32, 64, 100, 255, 256, 257, 1024, 4096, 65536, 100000, 131072, 262144]   # with_size! in harness/sync
TSIZES = [0, 1, 2, 3, 4, 5, 6, 8, 16, 32, 64, 256, 1024, 4096, 65536, 100000, 131072]   # with_size! in harness/tokio


def fold(n):
    """value of a constant integer expression (literals combined with + - * / << >> and casts), or None"""
    if not isinstance(n, dict):
        return None
    k = n.get("k")
    if k == "Lit" and n["lit"].get("k") == "Int":
        try:
            return int(n["lit"]["digits"])
        except ValueError:
            return None
    if k in ("Paren", "Cast"):
        return fold(n["e"])
    if k == "Path" and len(n["path"]) >= 2 and n["path"][-1] == "MAX" and n["path"][-2] in TYPE_BITS:
        b = TYPE_BITS[n["path"][-2]]
        return 2 ** (b - 1) - 1 if n["path"][-2].startswith("i") else 2 ** b - 1
    if k == "Binary":
        a, b = fold(n["l"]), fold(n["r"])
        if a is None or b is None:
            return None
        op = n["op"]
        try:
            if op == "+": return a + b
            if op == "-": return a - b
            if op == "*": return a * b
            if op == "/": return a // b
            if op == "%": return a % b
            if op == "<<": return a << b if b < 70 else None
            if op == ">>": return a >> b
        except (ZeroDivisionError, ValueError):
            return None
    return None


TYPE_BITS = {"u8": 8, "i8": 8, "u16": 16, "i16": 16, "u32": 32, "i32": 32}


def types_of(ast):
    """narrow integer types that occur anywhere in the non-test code (casts, locals, fields, parameters, paths like u16::MAX)"""
    import re as _re
    found = set()

    def walk(n):
        if isinstance(n, dict):
            for k, v in n.items():
                if k in ("ty", "ret", "text", "generics") and isinstance(v, str):
                    found.update(_re.findall(r"\b([ui](?:8|16|32))\b", v))
                elif k == "path" and isinstance(v, list):
                    found.update(x for x in v if x in TYPE_BITS)
                elif k == "suffix" and v in TYPE_BITS:
                    found.add(v)
                else:
                    walk(v)
        elif isinstance(n, list):
            for x in n:
                walk(x)
    for f in ast:
        walk(f["items"])
    return sorted(found)


def collect(ast):
    out = set()

    def walk(n):
        if isinstance(n, dict):
            if n.get("k") == "Int":
                try:
                    out.add(int(n["digits"]))
                except ValueError:
                    pass
            v = fold(n)
            if v is not None and 0 <= v < 2 ** 64:
                out.add(v)
            for x in n.values():
                walk(x)
        elif isinstance(n, list):
            for x in n:
                walk(x)
    for f in ast:
        for fn in f["items"]["fns"]:
            walk(fn["body"])
        for c in f["items"].get("consts", []):
            walk(c["e"])
    return sorted(out)


def _baseline():
    b = json.load(open(BASELINE)) if os.path.exists(BASELINE) else {"ints": [], "types": []}
    if isinstance(b, list):
        b = {"ints": b, "types": ["u8"]}
    return b


def current():
    """integer literals (constant-folded) of the working tree, plus 2^bits for every narrow integer type the pinned tree does not use
    (a counter or a cast of that type wraps / truncates there)"""
    p = os.path.join(build.BUILD, "tmp", "ast.json")
    if not os.path.exists(p):
        return []
    ast = json.load(open(p))
    out = set(collect(ast))
    for t in types_of(ast):
        if t not in _baseline()["types"]:
            out.add(2 ** TYPE_BITS[t])
    return sorted(out)


def novel():
    """literals of the working tree that the pinned tree does not contain, with their neighbours"""
    base = set(_baseline()["ints"])
    nv = sorted((v for v in current() if v not in base), key=lambda v: (v < 256, v))   # sizes and thresholds before byte values
    out = []
    for v in nv:
        for w in (v - 1, v, v + 1):
            if 0 <= w < 2 ** 64 and w not in out:
                out.append(w)
    return out[:24]


def exact():
    base = set(_baseline()["ints"])
    return sorted((v for v in current() if v not in base), key=lambda v: (v < 256, v))[:8]


def size_for(v, sizes=None):
    """smallest harness SIZE strictly greater than v (None if there is none)"""
    for s in (sizes or HSIZES):
        if s > v:
            return s
    return None
