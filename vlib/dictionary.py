# vlib/dictionary.py — "search for a failing input" support: integer literals that appear in the current source of the two
# crates but not in the pinned baseline are fed to the case generators as boundary values (sizes, counts, offsets, lengths,
# limits).  A change that special-cases a magic value is then exercised AT that value instead of being reported without an
# input.  On the unchanged tree the set is empty and no extra case is generated.
import json, os
from . import build

BASELINE = os.path.join(build.VERIF, "vlib", "literals_baseline.json")
HSIZES = [0, 1, 2, 3, 4, 5, 6, 7, 8, 9, 10, 12, 16, 17, 32, 64, 100, 255, 256, 257, 1024, 4096, 65536]   # with_size! in the harness


def collect(ast):
    out = set()

    def walk(n):
        if isinstance(n, dict):
            if n.get("k") == "Int":
                try:
                    out.add(int(n["digits"]))
                except ValueError:
                    pass
            for v in n.values():
                walk(v)
        elif isinstance(n, list):
            for v in n:
                walk(v)
    for f in ast:
        for fn in f["items"]["fns"]:
            walk(fn["body"])
    return sorted(out)


def current():
    p = os.path.join(build.BUILD, "tmp", "ast.json")
    if not os.path.exists(p):
        return []
    return collect(json.load(open(p)))


def novel():
    """literals of the working tree that the pinned tree does not contain, with their neighbours"""
    base = set(json.load(open(BASELINE))) if os.path.exists(BASELINE) else set()
    nv = [v for v in current() if v not in base]
    out = []
    for v in nv:
        for w in (v - 1, v, v + 1):
            if 0 <= w < 2 ** 64 and w not in out:
                out.append(w)
    return out[:24]


def exact():
    base = set(json.load(open(BASELINE))) if os.path.exists(BASELINE) else set()
    return [v for v in current() if v not in base][:8]


def size_for(v):
    """smallest harness SIZE strictly greater than v (None if there is none)"""
    for s in HSIZES:
        if s > v:
            return s
    return None
