# vlib/fam_rf.py — family RF (code 3): sequences of read_frame / copy_once_from calls against a scripted reader.
# Serves C02 (chunking independence), C06 (reader faults), C12 (reader-call discipline, exact commit).
# Encoding: coq/Run/Rf.v, harness fam_rf.rs.
import itertools
from .engine import Prop, Case
from .fam_api import py_df

KINDS = {1: "InvalidData", 2: "UnexpectedEof", 3: "Interrupted", 4: "WouldBlock", 5: "TimedOut", 6: "ConnectionReset", 7: "Other"}
DFNAME = {0: "deframe_line", 1: "deframe_crlf", 2: "deframe_null", 3: "reject-all", 4: "panicking", 5: "length-prefix", 6: "line-reject-x"}
SIZES = (0, 1, 2, 3, 4, 5, 8, 16)


def mk_case(size, which, pre, preconsume, stream, script, ncalls, mode, src):
    ints = [3, size, which, len(pre)] + list(pre) + [preconsume, len(stream)] + list(stream) + [len(script)]
    for t in script:
        ints += list(t)
    ints += [ncalls, mode]
    return Case(ints, {"size": size, "which": which, "pre": list(pre), "preconsume": preconsume, "stream": list(stream),
                       "script": [list(t) for t in script], "ncalls": ncalls, "mode": mode, "src": src})


class Call:
    __slots__ = ("result", "len", "wlen", "readable", "mem", "pos", "log", "allocs")


def parse(tr):
    """-> (init Call-like, [Call]) or (None, None)"""
    n = len(tr)

    def post(i, r):
        i += 1
        r.len = tr[i]; i += 1
        r.wlen = tr[i]; i += 1
        if tr[i] >= 0:
            k = tr[i]; r.readable = tr[i + 1:i + 1 + k]; i += 1 + k
        else:
            r.readable = None; i += 1
        r.mem = None
        if i < n and tr[i] == -5:
            if tr[i + 1] >= 0:
                k = tr[i + 1]; r.mem = tr[i + 2:i + 2 + k]; i += 2 + k
            else:
                i += 2
        return i
    try:
        if n == 0 or tr[0] != -3:
            return None, None
        init = Call(); init.result = []; init.pos = 0; init.log = []
        i = post(0, init)
        calls = []
        while i < n:
            if tr[i] != -2:
                return None, None
            i += 1
            c = Call()
            j = i
            while tr[j] != -3:
                j += 1
            c.result = tr[i:j]
            i = post(j, c)
            if tr[i] != -6:
                return None, None
            c.pos = tr[i + 1]
            k = tr[i + 2]
            c.log = tr[i + 3:i + 3 + k]
            i += 3 + k
            c.allocs = None
            if i + 1 < n and tr[i] == -4:
                c.allocs = tr[i + 1]
                i += 2
            calls.append(c)
        return init, calls
    except IndexError:
        return None, None


def spec_next(size, which, r):
    """the chunk-free specification of one read_frame call on the remaining bytes r: (outcome, r')"""
    p = r[:size]
    if not p:
        return (("err", 1) if size == 0 else ("none",)), r
    d = py_df(which, p)
    if d == "err":
        return ("err", 1), r
    if d == "panic":
        return ("panic",), r
    if d is None:
        return (("err", 1) if size <= len(r) else ("err", 2)), r
    a, b, n = d
    return ("frame", tuple(p[a:b])), r[n:]


def outcome(res):
    if res == [-1]:
        return ("panic",)
    if res[:2] == [0, 1]:
        return ("frame", tuple(res[3:3 + res[2]]))
    if res == [0, 0]:
        return ("none",)
    if res and res[0] == 1:
        return ("err", res[1])
    return ("malformed", tuple(res))


def reader_deliveries(meta, calls):
    """replay the scripted reader on the capacities it was offered: per read_frame call, the list of
    (cap, action, n delivered)"""
    stream, script = meta["stream"], [tuple(t) for t in meta["script"]]
    pos, si = 0, 0
    out = []
    for c in calls:
        per = []
        for cap in c.log:
            act = script[si] if si < len(script) else (0, cap, 0)
            si += 1
            n = 0
            if act[0] == 0:
                n = max(0, min(act[1], cap, len(stream) - pos))
            per.append((cap, act, n, pos))
            pos += n
        out.append(per)
    return out


def well_behaved(meta):
    return all(t[0] == 0 and t[1] >= 1 for t in meta["script"])


STABLE = (0, 1, 2, 5)    # deframers honouring the documented contract (5: length prefix)


NOVEL = []      # see vlib/dictionary.py


def dictionary_cases(modes):
    from . import dictionary
    cases = []
    EXACT = set(dictionary.exact())      # the literals themselves (NOVEL also has their neighbours); the expensive scenarios use only these
    for v in NOVEL:
        for which, nl, crlf in ((0, 10, False), (0, 10, True), (1, 10, True), (2, 0, False)):
            term = [13, 10] if crlf else [nl]
            S = dictionary.size_for(v + 3)
            for mode in modes[:1]:
                if S is not None:
                    # read offset = v when the call starts
                    cases.append(mk_case(S, which, [122] * v + [97], v, [98] + term + [99] + term, [(0, 1, 0)] * 3 + [(0, 70000, 0)] * 6, 4, mode, "dictionary"))
                    # read offset = v and the next frame fits only after compaction (unread + stream < SIZE, but not behind the offset)
                    if 2 <= v and S - v <= 20000 and which == 0 and not crlf and v in EXACT:
                        cases.append(mk_case(S, which, [122] * v + [97], v, [98] * (S - v - len(term)) + term + [99] + term, [(0, 70000, 0)] * 8, 3, mode, "dictionary"))
                        cases.append(mk_case(S, which, [122] * v + [97], v, [98] * (S - v - len(term)) + term + [99] + term, [(0, 5, 0)] + [(0, 70000, 0)] * 8, 3, mode, "dictionary"))
                    # a frame of exactly v payload bytes, in one chunk, in chunks of v, one byte at a time at the boundary
                    st = [97] * min(v, 4096) + term + [98] + term       # the model's deframers are quadratic: cap the frame length
                    big = [(0, 70000, 0)] * 6         # every script ends in whole-buffer reads: no byte-at-a-time tail over a long stream
                    for script in ([], [(0, max(v, 1), 0)], [(0, max(v - 1, 1), 0), (0, 1, 0), (0, 1, 0)], [(0, 3, 0)] * 5):
                        cases.append(mk_case(S, which, [], 0, st, script + big, 4, mode, "dictionary"))
                    # a single read returns exactly v bytes (the reader is asked again only when the caller asks), short frames throughout
                    if v in EXACT and 256 <= v <= 140000 and not crlf:
                        filler = ([99] * 97 + term) * ((v + 200) // (97 + len(term)) + 2)
                        for script in ([(0, v, 0)] * 3 + [(1, 5, 0)], [(0, v, 0), (1, 5, 0)], [(0, v, 0)] * 4):
                            cases.append(mk_case(S, which, [], 0, [97, 98] + term + filler, script + [(0, 70000, 0)] * 4, 3, mode, "dictionary"))
                    # unread length = v before the call
                    if v <= 4096:
                        cases.append(mk_case(S, which, [97] * v, 0, term + [98] + term, [(0, 2, 0)] + [(0, 70000, 0)] * 6, 3, mode, "dictionary"))
                if v in dictionary.HSIZES and v <= 4096:
                    # SIZE = v: a stream that fills it without a terminator, and one that just fits
                    cases.append(mk_case(v, which, [], 0, [97] * (v + 2), [(0, 70000, 0)] * 6, 2, mode, "dictionary"))
                    if v >= len(term) + 1:
                        cases.append(mk_case(v, which, [], 0, [97] * (v - len(term)) + term + [98], [(0, 5, 0)] * 3 + [(0, 70000, 0)] * 6, 3, mode, "dictionary"))
    return cases


class RfProp(Prop):
    harness = "sync"
    family_doc = "RF: read_frame / copy_once_from call sequences with a scripted reader -> result, readable(), reader position, reader call log"
    faults = False
    scribble = False
    modes = (0,)

    # ---------- generation ----------
    def streams(self, which, maxlen):
        alpha = {0: [97, 13, 10], 1: [97, 13, 10], 2: [97, 0], 5: [0, 1, 2, 97], 6: [97, 120, 10], 3: [97], 4: [97]}[which]
        for n in range(maxlen + 1):
            for t in itertools.product(alpha, repeat=n):
                yield list(t)

    def compositions(self, n):
        if n == 0:
            yield []
            return
        for mask in range(1 << (n - 1)):
            parts, cur = [], 1
            for i in range(n - 1):
                if mask >> i & 1:
                    parts.append(cur); cur = 1
                else:
                    cur += 1
            parts.append(cur)
            yield parts

    def gen(self, tier, rng):
        cases = []
        maxlen = 5 if tier == "quick" else 6
        sizes = (2, 3, 4, 8) if tier == "quick" else (0, 1, 2, 3, 4, 5, 8)
        for which in (0, 1, 2):
            for st in self.streams(which, maxlen):
                comps = list(self.compositions(len(st)))
                for size in sizes:
                    if tier == "quick" and len(st) >= 5 and size in (3, 8) and which != 0:
                        continue
                    for parts in comps:
                        script = [(0, k, 0) for k in parts]
                        cases.append(mk_case(size, which, [], 0, st, script, min(len(st) + 2, 6), 0, "all-chunkings"))
        # pre-loaded buffers at a non-zero read offset (exhaustive over small shapes)
        for which in (0, 1, 2, 5):
            for st in self.streams(which, 4):
                for size in (3, 4, 5, 8):
                    for junk in (1, 2):
                        for j in range(0, min(len(st), size - junk) + 1):
                            if junk + j > size:
                                continue
                            for parts in ([len(st) - j] if len(st) > j else [[]] and [0]) if False else [None]:
                                rest = st[j:]
                                script = [(0, 1, 0)] * 2
                                cases.append(mk_case(size, which, [122] * junk + st[:j], junk, rest, script, 4, 0, "preloaded"))
        # random larger scenarios
        nrand = 3000 if tier == "quick" else 60000
        for _ in range(nrand):
            cases.append(self.random_case(rng))
        cases += self.extra_cases(tier, rng)
        if NOVEL:
            cases += dictionary_cases(self.modes)
        return cases

    def random_stream(self, rng, which, n):
        term = {0: [10, 13], 1: [13, 10], 2: [0], 5: [0, 1, 2, 3], 6: [10, 120], 3: [10], 4: [10]}[which]
        return [rng.choice(term) if rng.random() < 0.3 else rng.choice([97, 98, 120, 255, 1]) for _ in range(n)]

    def random_script(self, rng, n):
        script = []
        for _ in range(n):
            r = rng.random()
            if self.faults and r < 0.25:
                script.append((1, rng.choice([1, 2, 3, 4, 5, 6, 7]) + (100 if rng.random() < 0.3 else 0), 0) if rng.random() < 0.85 else (2, 0, 0))
            elif self.scribble and r < 0.5:
                script.append((0, rng.choice([0, 1, 2, 3, 2 ** 64 - 1]), rng.choice([1, 2, 5, 2 ** 64 - 1])))
            else:
                script.append((0, rng.choice([1, 1, 2, 3, 5, 8, 2 ** 64 - 1]), 0))
        return script

    def random_case(self, rng):
        which = rng.choice([0, 0, 1, 2, 5, 6, 3, 4] if not self.faults else [0, 0, 1, 2, 5])
        size = rng.choice([2, 3, 4, 5, 8, 16, 32])
        n = rng.randrange(0, 40)
        st = self.random_stream(rng, which, n)
        junk = rng.choice([0, 0, 1, 2, 3])
        j = rng.randrange(0, 4)
        if junk + j > size:
            junk, j = 0, 0
        j = min(j, len(st))
        mode = rng.choice(self.modes)
        script = self.random_script(rng, rng.randrange(0, 14))
        return mk_case(size, which, [122] * junk + st[:j], junk, st[j:], script, rng.randrange(1, 9), mode, "random")

    def extra_cases(self, tier, rng):
        return []

    # ---------- step-wise correspondence ----------
    def call_view(self, c):
        return (tuple(c.result), c.len, c.wlen, tuple(c.readable) if c.readable is not None else None, c.pos, tuple(c.log))

    def correspond(self, cases, impl_traces, prof, model_fn):
        out, lines, index = [], [], []
        for ci, c in enumerate(cases):
            init, calls = parse(impl_traces[ci])
            m = c.meta
            if init is None or len(calls) != m["ncalls"]:
                out.append((ci, "implementation trace is malformed"))
                continue
            prev, used = init, 0
            for k, cl in enumerate(calls):
                size = m["size"]
                ok = prev.mem is not None and prev.len is not None and prev.wlen is not None and prev.len >= 0 and prev.wlen >= 0 and len(prev.mem) == size
                if ok:
                    wi = size - prev.wlen
                    ri = wi - prev.len
                    ok = 0 <= ri <= wi <= size
                if ok:
                    srest = m["stream"][prev.pos:]
                    scr = m["script"][used:]
                    ints = [9, size, ri, wi] + list(prev.mem) + [m["which"], len(srest)] + srest + [len(scr)]
                    for t in scr:
                        ints += list(t)
                    ints += [m["mode"]]
                    lines.append(" ".join(map(str, ints)))
                    index.append((ci, k, cl, prev.pos))
                used += len(cl.log)
                prev = cl
        # initial state (constructor + preload) through the whole-case runner with zero calls
        zl = []
        for c in cases:
            m = c.meta
            zl.append(" ".join(map(str, [3, m["size"], m["which"], len(m["pre"])] + m["pre"] + [m["preconsume"], 0, 0, 0, 0])))
        uniq = sorted(set(zl))
        zm = dict(zip(uniq, model_fn(uniq)))
        for ci, c in enumerate(cases):
            init, _ = parse(impl_traces[ci])
            mi, _ = parse([int(x) for x in zm[zl[ci]].split()])
            if init is not None and mi is not None and (init.len, init.wlen, init.readable) != (mi.len, mi.wlen, mi.readable):
                out.append((ci, "initial state: implementation %r, model %r" % ((init.len, init.wlen, init.readable), (mi.len, mi.wlen, mi.readable))))
        uniq = sorted(set(lines))
        mm = dict(zip(uniq, model_fn(uniq)))
        bad = set()
        for ln, (ci, k, cl, base) in zip(lines, index):
            if ci in bad:
                continue
            mt = [int(x) for x in mm[ln].split()]
            _, mc = parse([-3, 0, 0, 0] + mt)
            if not mc:
                out.append((ci, "call %d: model produced no record" % k)); bad.add(ci); continue
            mc[0].pos += base
            if self.call_view(cl) != self.call_view(mc[0]):
                out.append((ci, "call %d: implementation %r, model %r" % (k, self.call_view(cl), self.call_view(mc[0]))))
                bad.add(ci)
        return out

    def nontrivial(self, case, trace):
        return len(case.meta["stream"]) + len(case.meta["pre"]) > 0

    def shrink(self, case):
        m = case.meta
        def mk(**kw):
            d = dict(m); d.update(kw)
            return mk_case(d["size"], d["which"], d["pre"], d["preconsume"], d["stream"], [tuple(t) for t in d["script"]], d["ncalls"], d["mode"], "shrunk")
        if m["ncalls"] > 1:
            yield mk(ncalls=m["ncalls"] - 1)
        for i in range(len(m["script"])):
            yield mk(script=m["script"][:i] + m["script"][i + 1:])
        for i in range(len(m["stream"])):
            yield mk(stream=m["stream"][:i] + m["stream"][i + 1:])
        if m["pre"]:
            if m["preconsume"] > 0:
                yield mk(pre=m["pre"][1:], preconsume=m["preconsume"] - 1)
            if len(m["pre"]) > m["preconsume"]:
                yield mk(pre=m["pre"][:-1])
        for i, t in enumerate(m["script"]):
            if t[0] == 0 and 1 < t[1] < 1000:
                yield mk(script=m["script"][:i] + [[0, t[1] - 1, t[2]]] + m["script"][i + 1:])
            if t[0] == 0 and t[2] > 0:
                yield mk(script=m["script"][:i] + [[0, t[1], 0]] + m["script"][i + 1:])

    def histogram(self, cases):
        h = {"deframer": {}, "size": {}, "src": {}, "stream_len": {}, "script_actions": {"give": 0, "fail": 0, "panic": 0, "lie": 0, "scribble": 0}, "mode": {}}
        for c in cases:
            m = c.meta
            h["deframer"][DFNAME[m["which"]]] = h["deframer"].get(DFNAME[m["which"]], 0) + 1
            h["size"][str(m["size"])] = h["size"].get(str(m["size"]), 0) + 1
            h["src"][m["src"]] = h["src"].get(m["src"], 0) + 1
            k = str(len(m["stream"])) if len(m["stream"]) < 10 else "10+"
            h["stream_len"][k] = h["stream_len"].get(k, 0) + 1
            h["mode"]["copy_once_from" if m["mode"] else "read_frame"] = h["mode"].get("copy_once_from" if m["mode"] else "read_frame", 0) + 1
            for t in m["script"]:
                a = h["script_actions"]
                if t[0] == 0:
                    a["give"] += 1
                    if t[2] > 0:
                        a["scribble"] += 1
                elif t[0] in (1, 3):
                    a["fail"] += 1
                elif t[0] == 2:
                    a["panic"] += 1
                else:
                    a["lie"] += 1
        return h


def conservation(m, init, calls, i, upto_frames):
    """consumed blocks ++ readable ++ unpulled == initial unread ++ stream ? returns message or None"""
    return None


# ------------------------------------------------------------------ C02
class C02(RfProp):
    pid = "C02"
    coq_targets = ["Props/C02.vo"]
    level_text = ("Coq theorems c02_refines (the translated read_frame loop over the buffer refines an abstract loop on the unread bytes, for any "
                  "reader honouring rd_ok and any in-bounds deframer), c02_call (one call under ANY chunk schedule returns the chunk-free "
                  "answer `next` of Spec/Frames.v and keeps unread ++ unpulled = the spec's remainder), c02_chunking (two schedules give equal "
                  "results), instantiated for the three provided deframers through C05's contract, for every SIZE. Tie: every composition of "
                  "every short stream into chunks, pre-loaded buffers at non-zero offsets, random larger scenarios; chunk-free checker on the "
                  "implementation traces.")
    nontrivial_rule = ("every stream up to a length bound over the deframer's alphabet x EVERY composition into chunks x sizes around the frame "
                       "lengths x three deframers; pre-loaded buffers with a consumed prefix; random scenarios (7 deframers); "
                       "non-trivial = stream or preload non-empty; distinct = distinct (case, trace)")

    def call_view(self, c):
        return (tuple(c.result), tuple(c.readable) if c.readable is not None else None, c.pos)

    def check(self, case, trace, prof):
        m = case.meta
        init, calls = parse(trace)
        if init is None:
            return "malformed trace"
        if m["mode"] != 0 or not well_behaved(m) or m["which"] not in STABLE:
            return None
        if init.readable is None:
            return "readable() panicked"
        size, which = m["size"], m["which"]
        r = list(init.readable) + list(m["stream"])
        total = list(r)
        consumed = 0
        for k, c in enumerate(calls):
            want, r2 = spec_next(size, which, r)
            got = outcome(list(c.result))
            if got != want:
                return ("call %d: read_frame returned %r; the chunk-free specification on remaining bytes %r (SIZE=%d, %s) gives %r"
                        % (k, got, bytes(r), size, DFNAME[which], want))
            consumed += len(r) - len(r2)
            r = r2
            if c.readable is None:
                return "call %d: readable() panicked" % k
            # frames so far (with delimiters) ++ unread ++ not yet pulled == original
            unpulled = m["stream"][c.pos:]
            if total[:consumed] + list(c.readable) + unpulled != total:
                return ("call %d: consumed blocks %r ++ readable %r ++ unpulled %r != original %r"
                        % (k, bytes(total[:consumed]), bytes(c.readable), bytes(unpulled), bytes(total)))
        return None


# ------------------------------------------------------------------ C06
class C06(RfProp):
    pid = "C06"
    coq_targets = ["Props/C06.vo"]
    faults = True
    level_text = ("Coq theorems c06_call_runs (every completed call of the translated read_frame is a run of the abstract loop whose only state is "
                  "(unread bytes, reader state): calling again re-enters it), c06_faults_invisible (for any number and placement of transient "
                  "faults the retrying caller ends as a run of the fault-free transport: same result, unread bytes, unpulled bytes, remaining "
                  "chunks), c06_retrying_caller (the same end to end for the executable retry loop over the translated read_frame and any reader "
                  "implementing the failing transport), c06_retry_gets_next (composed with C02: that loop returns exactly next(unread ++ unpulled) "
                  "for a deframer honouring the documented contract), c06_error_keeps_everything (an error or Ok(None) result consumes nothing: the "
                  "unread bytes afterwards extend those before), c06_own_error_repeats (InvalidData / UnexpectedEof leave the state intact and "
                  "repeat), c06_panic (a reader/deframer panic leaves a usable buffer holding every byte received). GenEq/SrcC06.v restates the link "
                  "and the retry theorem about the regenerated read_frame. Tie: a fault (7 error kinds, panic) at every reader-call index of every "
                  "short scenario, random combinations; the retry checker compares against the fault-free chunk-free specification.")
    nontrivial_rule = ("C02's scenarios with a fault (InvalidData, UnexpectedEof, Interrupted, WouldBlock, TimedOut, ConnectionReset, Other, panic) injected at every "
                       "position of the reader-call sequence (singly, exhaustive for short scripts) and in random combinations, the caller "
                       "retrying after each error; non-trivial = at least one injected fault reached; distinct = distinct (case, trace)")

    def call_view(self, c):
        return (tuple(c.result), tuple(c.readable) if c.readable is not None else None, c.pos)

    def gen(self, tier, rng):
        cases = []
        maxlen = 4 if tier == "quick" else 5
        for which in (0, 1, 2):
            for st in self.streams(which, maxlen):
                for size in ((3, 4) if tier == "quick" else (2, 3, 4, 8)):
                    comps = list(self.compositions(len(st)))
                    if tier == "quick":
                        comps = comps[::3] if len(comps) > 4 else comps
                    for parts in comps:
                        base = [(0, k, 0) for k in parts]
                        for pos in range(len(base) + 1):
                            for fault in ((1, 5, 0), (1, 3, 0), (2, 0, 0), (1, 6, 0), (1, 2, 0), (1, 103, 0)) if (pos + len(st)) % 2 == 0 else ((1, 4, 0), (1, 7, 0), (1, 1, 0), (1, 106, 0)):
                                script = base[:pos] + [fault] + base[pos:]
                                cases.append(mk_case(size, which, [], 0, st, script, min(len(st) + 4, 8), 0, "fault-at-every-index"))
        for _ in range(3000 if tier == "quick" else 60000):
            cases.append(self.random_case(rng))
        return cases

    def check(self, case, trace, prof):
        m = case.meta
        init, calls = parse(trace)
        if init is None:
            return "malformed trace"
        if m["mode"] != 0 or m["which"] not in STABLE:
            return None
        if any(t[0] == 4 or (t[0] == 0 and t[1] < 1) for t in m["script"]):
            return None
        size, which = m["size"], m["which"]
        per = reader_deliveries(m, calls)
        r = list(init.readable) + list(m["stream"])
        prev = init
        for k, c in enumerate(calls):
            got = outcome(list(c.result))
            if c.readable is None or prev.readable is None:
                return "call %d: readable() panicked" % k
            delivered = m["stream"][prev.pos:c.pos]
            faulted = [a for (_, a, _, _) in per[k] if a[0] in (1, 2, 3)]
            if faulted:
                a = faulted[-1]
                want = ("panic",) if a[0] == 2 else ("err", a[1] % 100 if a[0] == 1 else 4)
                if got != want and not (a[0] == 1 and a[1] % 100 == 3):   # an Interrupted read may be retried transparently
                    return "call %d: reader failed with %r but read_frame returned %r" % (k, want, got)
                if got == want and list(c.readable) != list(prev.readable) + delivered:
                    return ("call %d: after the reader fault readable() is %r; bytes held before %r ++ bytes delivered in this call %r were expected"
                            % (k, bytes(c.readable), bytes(prev.readable), bytes(delivered)))
                if got == want:
                    prev = c
                    continue
            want, r2 = spec_next(size, which, r)
            if got != want:
                return ("call %d: read_frame returned %r; the fault-free chunk-free specification on remaining bytes %r (SIZE=%d, %s) gives %r"
                        % (k, got, bytes(r), size, DFNAME[which], want))
            if got[0] == "err" and list(c.readable) != list(prev.readable) + delivered:
                return "call %d: read_frame's own error %r changed the unread bytes: %r -> %r" % (k, got, bytes(prev.readable), bytes(c.readable))
            r = r2
            prev = c
        return None

    def nontrivial(self, case, trace):
        return any(t[0] in (1, 2, 3) for t in case.meta["script"])


# ------------------------------------------------------------------ C12
class C12(RfProp):
    pid = "C12"
    coq_targets = ["Props/C12.vo"]
    scribble = True
    modes = (0, 0, 1)
    level_text = ("Coq theorems c12_no_call_when_decided (a buffered complete or rejected frame is answered with zero reader calls), c12_caps "
                  "(every destination offered is non-empty and at most the free space), c12_commit (exactly the reported count is committed: "
                  "bytes scribbled past it never become readable) for read_frame, and c12_copy_once (exactly one call with the whole "
                  "writable() when non-empty; none and InvalidData when full; errors leave the unread bytes) — for any reader, including ones "
                  "that write more than they report. Tie: reader call logs (count and destination lengths) compared call by call; scribbling "
                  "readers and every report value.")
    nontrivial_rule = ("C02's scenarios plus readers that report 0..=offered and scribble past the reported count (0xEE), copy_once_from on every "
                       "small state incl. completely full buffers and free space only in front; the count and destination length of every "
                       "Read::read call is observed; non-trivial = at least one reader call or a decided call; distinct = distinct (case, trace)")

    def call_view(self, c):
        return (tuple(c.result), tuple(c.readable) if c.readable is not None else None, tuple(c.log))

    def extra_cases(self, tier, rng):
        cases = []
        # copy_once_from from every small state x every reader answer
        for size in (0, 1, 2, 3, 4):
            for w in range(size + 1):
                for r_ in range(0, w + 1):
                    pre = [97 + i for i in range(w)]
                    if r_ == w and w > 0:
                        continue
                    free = size - w
                    for act in [(0, k, s) for k in (0, 1, free, free + 1, 2 ** 64 - 1) for s in (0, 1, size)] + [(1, 5, 0), (1, 3, 0), (2, 0, 0), (4, free, 0), (4, free + 1, 0)]:
                        cases.append(mk_case(size, 0, pre, r_, [120, 121, 122, 119, 118], [act], 2, 1, "copy-once-grid"))
        # read_frame with a decided buffer: reader must not be called
        for which, body in ((0, [97, 10]), (0, [10, 98]), (1, [13, 10]), (2, [0]), (6, [120]), (3, [97]), (5, [1, 7])):
            for off in (0, 1, 2):
                for size in (4, 8):
                    if off + len(body) <= size:
                        cases.append(mk_case(size, which, [122] * off + body, off, [99, 10], [(2, 0, 0)], 1, 0, "decided"))
        return cases

    def check(self, case, trace, prof):
        m = case.meta
        init, calls = parse(trace)
        if init is None:
            return "malformed trace"
        size, which = m["size"], m["which"]
        if any(t[0] == 4 for t in m["script"]):
            return None   # contract-breaking reader (negative control): only the model comparison applies
        per = reader_deliveries(m, calls)
        prev = init
        for k, c in enumerate(calls):
            if c.readable is None or prev.readable is None or prev.len is None or prev.wlen is None:
                return "call %d: an observer panicked" % k
            got = outcome(list(c.result)) if m["mode"] == 0 else None
            before = list(prev.readable)
            if 238 in list(c.readable) and 238 not in before and 238 not in m["stream"]:
                return "call %d: a byte the reader scribbled past its reported count became readable: %r" % (k, bytes(c.readable))
            if m["mode"] == 0:
                d = py_df(which, before) if before else None
                if before and d is not None and d != "panic" and c.log:
                    return ("call %d: the buffer already held %r (%s answers %r) yet the reader was called %d time(s)"
                            % (k, bytes(before), DFNAME[which], d, len(c.log)))
                ln = prev.len
                for (cap, act, n, _) in per[k]:
                    if cap < 1:
                        return "call %d: the reader was offered an empty destination" % k
                    if cap > size - ln:
                        return "call %d: the reader was offered %d bytes but only %d are free" % (k, cap, size - ln)
                    ln += n
                delivered = m["stream"][prev.pos:c.pos]
                if got[0] in ("err", "none", "panic"):
                    if list(c.readable) != before + delivered:
                        return "call %d (%r): readable() %r != held %r ++ delivered %r" % (k, got, bytes(c.readable), bytes(before), bytes(delivered))
                elif got[0] == "frame":
                    tot = before + delivered
                    if tot[len(tot) - len(c.readable):] != list(c.readable) or len(c.readable) > len(tot):
                        return "call %d: after the frame, readable() %r is not the tail of held ++ delivered %r" % (k, bytes(c.readable), bytes(tot))
            else:
                res = list(c.result)
                free_end = prev.wlen
                if free_end > 0:
                    if res != [-1] or c.log:
                        if len(c.log) != 1:
                            return "call %d copy_once_from with %d writable made %d reader calls" % (k, free_end, len(c.log))
                        if c.log[0] != free_end and c.log[0] != size - prev.len:
                            return "call %d copy_once_from offered %d bytes; writable().len() is %d" % (k, c.log[0], free_end)
                else:
                    if prev.len == size:   # completely full
                        if c.log or res != [1, 1]:
                            return "call %d copy_once_from on a full buffer: result %r, %d reader calls" % (k, res, len(c.log))
                    else:                  # free space only in front: refuse (today) or compact then read — both accepted
                        if not (res == [1, 1] and not c.log) and not (len(c.log) == 1 and c.log[0] == size - prev.len):
                            return "call %d copy_once_from with space only in front: result %r, log %r" % (k, res, c.log)
                delivered = m["stream"][prev.pos:c.pos]
                if res[:1] == [0]:
                    if res[1] != len(delivered) or list(c.readable) != before + delivered:
                        return "call %d copy_once_from reported %d; readable() %r != held %r ++ delivered %r" % (k, res[1], bytes(c.readable), bytes(before), bytes(delivered))
                elif list(c.readable) != before:
                    return "call %d copy_once_from failed (%r) and the unread bytes changed: %r -> %r" % (k, res, bytes(before), bytes(c.readable))
            prev = c
        return None

    def nontrivial(self, case, trace):
        return True
